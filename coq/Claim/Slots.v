(* Claim/Slots.v — property C17: the slot index reported by
   json.Parser.GetFieldSlotIndex agrees with where ToCoreClaim puts the field;
   errors coincide; the processor facade delegates.  Model: Claim/Model.v. *)
From Coq Require Import ZArith List String Ascii Bool Lia Permutation.
From GSP Require Import Base.Prelude Claim.Model Claim.Theory.
Import ListNotations.
Open Scope string_scope.
Open Scope list_scope.
Open Scope Z_scope.

(* the field path an attribute designates for raw slot i, and the data slot
   value parseSlots computed for it *)
Definition slot_path (sp : slots_paths) (i : Z) : string :=
  if i =? 2 then p_index_a sp else if i =? 3 then p_index_b sp
  else if i =? 6 then p_value_a sp else if i =? 7 then p_value_b sp else "".
Definition slot_val (sl : slots) (i : Z) : Z :=
  if i =? 2 then s_index_a sl else if i =? 3 then s_index_b sl
  else if i =? 6 then s_value_a sl else if i =? 7 then s_value_b sl else 0.
Definition data_slots : list Z := [2; 3; 6; 7].

(* fillSlot as a function of the path *)
Definition enc_of (mz : mzview) (p : string) : res Z :=
  if String.eqb p "" then Ok 0 else v <- m_field mz p ;; Ok (v mod 2 ^ 256).

(* ---------- the lookup ---------- *)

Lemma lookup_ok : forall f tp ts i,
  get_field_slot_index f tp (SCtx (Some ts)) = Ok i ->
  exists a sp,
    serialization_attr_of_context ts tp = Ok a /\ a <> "" /\
    parse_serialization_attr a = Ok sp /\
    In i data_slots /\ slot_path sp i = f /\
    (forall j, In j data_slots -> j < i -> slot_path sp j <> f).
Proof.
  intros f tp ts i H. unfold get_field_slot_index in H.
  destruct (serialization_attr_of_context ts tp) as [a| | |] eqn:Ha; try discriminate. cbn [bind] in H.
  destruct (String.eqb a "") eqn:Ea; [discriminate|]. apply String.eqb_neq in Ea.
  destruct (parse_serialization_attr a) as [sp| | |] eqn:Hp; try discriminate. cbn [bind] in H.
  exists a, sp. split; [reflexivity|]. split; [exact Ea|]. split; [exact Hp|].
  unfold data_slots, slot_path.
  destruct (String.eqb f (p_index_a sp)) eqn:E2.
  { inversion H; subst i. apply String.eqb_eq in E2. cbn. repeat split; auto.
    intros j [Hj|[Hj|[Hj|[Hj|[]]]]] Hlt; subst j; lia. }
  destruct (String.eqb f (p_index_b sp)) eqn:E3.
  { inversion H; subst i. apply String.eqb_eq in E3. apply String.eqb_neq in E2. cbn. repeat split; auto.
    intros j [Hj|[Hj|[Hj|[Hj|[]]]]] Hlt; subst j; cbn; try lia; congruence. }
  destruct (String.eqb f (p_value_a sp)) eqn:E6.
  { inversion H; subst i. apply String.eqb_eq in E6. apply String.eqb_neq in E2. apply String.eqb_neq in E3.
    cbn. repeat split; auto.
    intros j [Hj|[Hj|[Hj|[Hj|[]]]]] Hlt; subst j; cbn; try lia; congruence. }
  destruct (String.eqb f (p_value_b sp)) eqn:E7; [|discriminate].
  inversion H; subst i. apply String.eqb_eq in E7.
  apply String.eqb_neq in E2. apply String.eqb_neq in E3. apply String.eqb_neq in E6.
  cbn. repeat split; auto.
  intros j [Hj|[Hj|[Hj|[Hj|[]]]]] Hlt; subst j; cbn; try lia; congruence.
Qed.

(* the converse: the first data slot (in the order 2,3,6,7) designated for f *)
Lemma lookup_complete : forall f tp ts a sp i,
  serialization_attr_of_context ts tp = Ok a -> a <> "" ->
  parse_serialization_attr a = Ok sp ->
  In i data_slots -> slot_path sp i = f ->
  (forall j, In j data_slots -> j < i -> slot_path sp j <> f) ->
  get_field_slot_index f tp (SCtx (Some ts)) = Ok i.
Proof.
  intros f tp ts a sp i Ha Hne Hp Hin Hf Hfirst. unfold get_field_slot_index.
  rewrite Ha. cbn [bind]. apply String.eqb_neq in Hne. rewrite Hne. rewrite Hp. cbn [bind].
  assert (N : forall j, In j data_slots -> j < i -> String.eqb f (slot_path sp j) = false).
  { intros j Hj Hlt. apply String.eqb_neq. intros E. apply (Hfirst j Hj Hlt). now symmetry. }
  unfold data_slots in *.
  destruct Hin as [Hi|[Hi|[Hi|[Hi|[]]]]]; subst i; cbn in Hf.
  - rewrite <- Hf. now rewrite String.eqb_refl.
  - pose proof (N 2 ltac:(cbn; auto) ltac:(lia)) as N2. cbn in N2. rewrite N2.
    rewrite <- Hf. now rewrite String.eqb_refl.
  - pose proof (N 2 ltac:(cbn; auto) ltac:(lia)) as N2. cbn in N2. rewrite N2.
    pose proof (N 3 ltac:(cbn; auto) ltac:(lia)) as N3. cbn in N3. rewrite N3.
    rewrite <- Hf. now rewrite String.eqb_refl.
  - pose proof (N 2 ltac:(cbn; auto) ltac:(lia)) as N2. cbn in N2. rewrite N2.
    pose proof (N 3 ltac:(cbn; auto) ltac:(lia)) as N3. cbn in N3. rewrite N3.
    pose proof (N 6 ltac:(cbn; auto) ltac:(lia)) as N6. cbn in N6. rewrite N6.
    rewrite <- Hf. now rewrite String.eqb_refl.
Qed.

Theorem first_slot : forall f tp ts i,
  get_field_slot_index f tp (SCtx (Some ts)) = Ok i <->
  exists a sp,
    serialization_attr_of_context ts tp = Ok a /\ a <> "" /\
    parse_serialization_attr a = Ok sp /\
    In i data_slots /\ slot_path sp i = f /\
    (forall j, In j data_slots -> j < i -> slot_path sp j <> f).
Proof.
  intros f tp ts i. split; [apply lookup_ok|].
  intros (a & sp & Ha & Hne & Hp & Hin & Hf & Hfirst). eapply lookup_complete; eauto.
Qed.

(* ---------- claim building: every data slot holds the encoding of the field designated for it ---------- *)

Lemma prefix_serialized : forall c mz ts tp a sp,
  c_mz c = Some mz -> c_ctx c = Some ts -> find_credential_type mz = Ok tp ->
  serialization_attr_of_context ts tp = Ok a -> a <> "" -> parse_serialization_attr a = Ok sp ->
  paths_is_empty sp = false ->
  tcc_prefix c =
    (ia <- enc_of mz (p_index_a sp) ;; ib <- enc_of mz (p_index_b sp) ;;
     va <- enc_of mz (p_value_a sp) ;; vb <- enc_of mz (p_value_b sp) ;;
     Ok (mz, tp, {| s_index_a := ia; s_index_b := ib; s_value_a := va; s_value_b := vb |}, true)).
Proof.
  intros c mz ts tp a sp Hmz Hctx Hty Ha Hne Hp Hemp.
  unfold tcc_prefix. rewrite Hmz. cbn [of_option bind]. rewrite Hty. cbn [bind].
  unfold parse_slots, get_serialization_attr. rewrite Hctx. cbn [of_option bind]. rewrite Ha. cbn [bind].
  apply String.eqb_neq in Hne. rewrite Hne. rewrite Hp. cbn [bind]. rewrite Hemp.
  unfold fill_slot, enc_of.
  destruct (if String.eqb (p_index_a sp) "" then Ok 0 else v <- m_field mz (p_index_a sp);; Ok (v mod 2 ^ 256)); try reflexivity.
  cbn [bind].
  destruct (if String.eqb (p_index_b sp) "" then Ok 0 else v <- m_field mz (p_index_b sp);; Ok (v mod 2 ^ 256)); try reflexivity.
  cbn [bind].
  destruct (if String.eqb (p_value_a sp) "" then Ok 0 else v <- m_field mz (p_value_a sp);; Ok (v mod 2 ^ 256)); try reflexivity.
  cbn [bind].
  destruct (if String.eqb (p_value_b sp) "" then Ok 0 else v <- m_field mz (p_value_b sp);; Ok (v mod 2 ^ 256)); reflexivity.
Qed.

Lemma raw_slot_layout : forall schema sb exp upd version nonce root sl i,
  In i data_slots ->
  nth (Z.to_nat i) (layout schema sb exp upd RNone version nonce root sl) 0 = slot_val sl i.
Proof.
  intros schema sb exp upd version nonce root sl i Hin. unfold data_slots in Hin.
  destruct Hin as [Hi|[Hi|[Hi|[Hi|[]]]]]; subst i; reflexivity.
Qed.

(* a claim built for a serialized schema carries the data slots unchanged *)
Lemma claim_data_slots : forall O c caller mz ty sl cl i,
  tcc_prefix c = Ok (mz, ty, sl, true) ->
  fst (to_core_claim O c caller) = Ok cl ->
  In i data_slots -> raw_slot cl i = slot_val sl i.
Proof.
  intros O c caller mz ty sl cl i Hp Hok Hin.
  pose proof (to_core_claim_spec O c caller) as S. rewrite Hp, Hok in S. cbn [rmap] in S.
  destruct (true && negb (String.eqb (o_root_pos (eff_opts caller)) "")) eqn:Hr; [discriminate|].
  cbn [andb] in Hr. destruct (String.eqb (o_root_pos (eff_opts caller)) "") eqn:He; [|discriminate].
  unfold spec_build in S.
  destruct (slots_in_field sl); [|discriminate].
  destruct (subject_spec O c (work_opts true (eff_opts caller))) as [sb| | |]; try discriminate.
  cbn [bind] in S.
  assert (Ew : o_root_pos (work_opts true (eff_opts caller)) = "").
  { unfold work_opts. cbn [negb andb]. now apply String.eqb_eq. }
  rewrite Ew in S. cbn [root_spec String.eqb pos_index pos_value Ascii.eqb Bool.eqb bind] in S.
  change (root_spec "") with (@Ok rootp RNone) in S. cbn [bind] in S.
  apply (f_equal (fun r : res (list Z) => match r with Ok l => l | _ => [] end)) in S.
  cbv beta iota in S. unfold raw_slot. rewrite S. now apply raw_slot_layout.
Qed.

(* ---------- C17_agree ---------- *)

(* the index reported for a field is a data slot designated for that field, and
   every claim built from a credential of that type holds the field's value
   encoding in that raw slot; if the credential lacks the field no claim is built *)
Theorem agree : forall O c caller mz ts tp f i,
  c_mz c = Some mz -> c_ctx c = Some ts -> find_credential_type mz = Ok tp ->
  f <> "" ->
  get_field_slot_index f tp (SCtx (Some ts)) = Ok i ->
  In i data_slots /\
  (forall cl, fst (to_core_claim O c caller) = Ok cl ->
     exists v, m_field mz f = Ok v /\ raw_slot cl i = v mod 2 ^ 256) /\
  (is_ok (m_field mz f) = false -> is_ok (fst (to_core_claim O c caller)) = false).
Proof.
  intros O c caller mz ts tp f i Hmz Hctx Hty Hf H.
  destruct (lookup_ok f tp ts i H) as (a & sp & Ha & Hne & Hp & Hin & Hpath & _).
  split; [exact Hin|].
  assert (Hemp : paths_is_empty sp = false).
  { unfold paths_is_empty. unfold data_slots, slot_path in *.
    destruct Hin as [Hi|[Hi|[Hi|[Hi|[]]]]]; subst i; cbn in Hpath; rewrite Hpath;
      apply String.eqb_neq in Hf; rewrite Hf; cbn [andb];
      repeat (match goal with |- context [String.eqb ?x ""] => destruct (String.eqb x "") end; cbn [andb]);
      reflexivity. }
  pose proof (prefix_serialized c mz ts tp a sp Hmz Hctx Hty Ha Hne Hp Hemp) as Epre.
  (* the encoding of f is the one computed for slot i *)
  assert (Hslot : forall ia ib va vb,
            enc_of mz (p_index_a sp) = Ok ia -> enc_of mz (p_index_b sp) = Ok ib ->
            enc_of mz (p_value_a sp) = Ok va -> enc_of mz (p_value_b sp) = Ok vb ->
            enc_of mz f = Ok (slot_val {| s_index_a := ia; s_index_b := ib; s_value_a := va; s_value_b := vb |} i)).
  { intros ia ib va vb E2 E3 E6 E7. unfold data_slots, slot_path in *.
    destruct Hin as [Hi|[Hi|[Hi|[Hi|[]]]]]; subst i; cbn in Hpath; rewrite <- Hpath; cbn; assumption. }
  split.
  - intros cl Hok.
    destruct (enc_of mz (p_index_a sp)) as [ia| | |] eqn:E2;
      try (rewrite to_core_claim_unfold, Epre in Hok; discriminate).
    destruct (enc_of mz (p_index_b sp)) as [ib| | |] eqn:E3;
      try (rewrite to_core_claim_unfold, Epre in Hok; discriminate).
    destruct (enc_of mz (p_value_a sp)) as [va| | |] eqn:E6;
      try (rewrite to_core_claim_unfold, Epre in Hok; discriminate).
    destruct (enc_of mz (p_value_b sp)) as [vb| | |] eqn:E7;
      try (rewrite to_core_claim_unfold, Epre in Hok; discriminate).
    cbn [bind] in Epre.
    rewrite (claim_data_slots O c caller mz tp _ cl i Epre Hok Hin).
    specialize (Hslot ia ib va vb eq_refl eq_refl eq_refl eq_refl).
    unfold enc_of in Hslot. apply String.eqb_neq in Hf. rewrite Hf in Hslot.
    destruct (m_field mz f) as [v| | |]; try discriminate. cbn [bind] in Hslot.
    exists v. split; [reflexivity|]. now inversion Hslot.
  - intros Hmiss.
    destruct (is_ok (fst (to_core_claim O c caller))) eqn:Hok; [|reflexivity]. exfalso.
    destruct (fst (to_core_claim O c caller)) as [cl| | |] eqn:Ecl; try discriminate.
    rewrite to_core_claim_unfold, Epre in Ecl.
    destruct (enc_of mz (p_index_a sp)) as [ia| | |] eqn:E2; try discriminate.
    destruct (enc_of mz (p_index_b sp)) as [ib| | |] eqn:E3; try discriminate.
    destruct (enc_of mz (p_value_a sp)) as [va| | |] eqn:E6; try discriminate.
    destruct (enc_of mz (p_value_b sp)) as [vb| | |] eqn:E7; try discriminate.
    specialize (Hslot ia ib va vb eq_refl eq_refl eq_refl eq_refl).
    unfold enc_of in Hslot. apply String.eqb_neq in Hf. rewrite Hf in Hslot.
    destruct (m_field mz f); try discriminate.
Qed.

(* all four data slots of the claim, by designation *)
Theorem claim_slots_designated : forall O c caller mz ts tp a sp cl j,
  c_mz c = Some mz -> c_ctx c = Some ts -> find_credential_type mz = Ok tp ->
  serialization_attr_of_context ts tp = Ok a -> a <> "" -> parse_serialization_attr a = Ok sp ->
  paths_is_empty sp = false ->
  fst (to_core_claim O c caller) = Ok cl ->
  In j data_slots -> enc_of mz (slot_path sp j) = Ok (raw_slot cl j).
Proof.
  intros O c caller mz ts tp a sp cl j Hmz Hctx Hty Ha Hne Hp Hemp Hok Hin.
  pose proof (prefix_serialized c mz ts tp a sp Hmz Hctx Hty Ha Hne Hp Hemp) as Epre.
  destruct (enc_of mz (p_index_a sp)) as [ia| | |] eqn:E2;
    try (rewrite to_core_claim_unfold, Epre in Hok; discriminate).
  destruct (enc_of mz (p_index_b sp)) as [ib| | |] eqn:E3;
    try (rewrite to_core_claim_unfold, Epre in Hok; discriminate).
  destruct (enc_of mz (p_value_a sp)) as [va| | |] eqn:E6;
    try (rewrite to_core_claim_unfold, Epre in Hok; discriminate).
  destruct (enc_of mz (p_value_b sp)) as [vb| | |] eqn:E7;
    try (rewrite to_core_claim_unfold, Epre in Hok; discriminate).
  cbn [bind] in Epre.
  rewrite (claim_data_slots O c caller mz tp _ cl j Epre Hok Hin).
  unfold data_slots, slot_path in *.
  destruct Hin as [Hi|[Hi|[Hi|[Hi|[]]]]]; subst j; cbn; assumption.
Qed.

(* when no two data slots are designated for the same field: index i is
   reported for f iff slot i is the slot designated for f *)
Theorem agree_iff : forall f tp ts a sp i,
  serialization_attr_of_context ts tp = Ok a -> a <> "" -> parse_serialization_attr a = Ok sp ->
  f <> "" ->
  (forall j k, In j data_slots -> In k data_slots -> slot_path sp j = slot_path sp k ->
               slot_path sp j <> "" -> j = k) ->
  (get_field_slot_index f tp (SCtx (Some ts)) = Ok i <-> In i data_slots /\ slot_path sp i = f).
Proof.
  intros f tp ts a sp i Ha Hne Hp Hf Hinj. split.
  - intros H. destruct (lookup_ok f tp ts i H) as (a' & sp' & Ha' & _ & Hp' & Hin & Hpath & _).
    rewrite Ha in Ha'. inversion Ha'; subst a'. rewrite Hp in Hp'. inversion Hp'; subst sp'. tauto.
  - intros (Hin & Hpath). eapply lookup_complete; eauto.
    intros j Hj Hlt E. assert (j = i); [|lia].
    apply Hinj; auto; congruence.
Qed.

(* ---------- errors coincide ---------- *)

(* a malformed attribute (or a failing lookup in the context) is an error of
   both operations, with the same class *)
Theorem malformed_both : forall O c caller mz ts tp a f t,
  c_mz c = Some mz -> c_ctx c = Some ts -> find_credential_type mz = Ok tp ->
  serialization_attr_of_context ts tp = Ok a -> a <> "" -> parse_serialization_attr a = Err t ->
  get_field_slot_index f tp (SCtx (Some ts)) = Err t /\ fst (to_core_claim O c caller) = Err t.
Proof.
  intros O c caller mz ts tp a f t Hmz Hctx Hty Ha Hne Hp. apply String.eqb_neq in Hne. split.
  - unfold get_field_slot_index. rewrite Ha. cbn [bind]. rewrite Hne, Hp. reflexivity.
  - apply prefix_error. unfold tcc_prefix. rewrite Hmz. cbn [of_option bind]. rewrite Hty. cbn [bind].
    unfold parse_slots, get_serialization_attr. rewrite Hctx. cbn [of_option bind]. rewrite Ha. cbn [bind].
    rewrite Hne, Hp. reflexivity.
Qed.

Theorem context_error_both : forall O c caller mz ts tp f t,
  c_mz c = Some mz -> c_ctx c = Some ts -> find_credential_type mz = Ok tp ->
  serialization_attr_of_context ts tp = Err t ->
  get_field_slot_index f tp (SCtx (Some ts)) = Err t /\ fst (to_core_claim O c caller) = Err t.
Proof.
  intros O c caller mz ts tp f t Hmz Hctx Hty Ha. split.
  - unfold get_field_slot_index. rewrite Ha. reflexivity.
  - apply prefix_error. unfold tcc_prefix. rewrite Hmz. cbn [of_option bind]. rewrite Hty. cbn [bind].
    unfold parse_slots, get_serialization_attr. rewrite Hctx. cbn [of_option bind]. rewrite Ha. reflexivity.
Qed.

(* a field that no data slot is designated for *)
Theorem not_named : forall f tp ts a sp,
  serialization_attr_of_context ts tp = Ok a -> parse_serialization_attr a = Ok sp ->
  (forall j, In j data_slots -> slot_path sp j <> f) ->
  exists t, get_field_slot_index f tp (SCtx (Some ts)) = Err t.
Proof.
  intros f tp ts a sp Ha Hp Hnone. unfold get_field_slot_index. rewrite Ha. cbn [bind].
  destruct (String.eqb a ""); [eexists; reflexivity|]. rewrite Hp. cbn [bind].
  assert (N : forall j, In j data_slots -> String.eqb f (slot_path sp j) = false).
  { intros j Hj. apply String.eqb_neq. intros E. now apply (Hnone j Hj). }
  pose proof (N 2 ltac:(cbn; auto)) as N2. pose proof (N 3 ltac:(cbn; auto)) as N3.
  pose proof (N 6 ltac:(cbn; auto)) as N6. pose proof (N 7 ltac:(cbn; auto)) as N7.
  cbn in N2, N3, N6, N7. rewrite N2, N3, N6, N7. eexists; reflexivity.
Qed.

(* a type the context does not define as a type with a serialization attribute:
   the lookup is an error; claim building designates no data slot (the schema
   counts as merklized) *)
Theorem unknown_type : forall c mz ts tp f,
  c_mz c = Some mz -> c_ctx c = Some ts -> find_credential_type mz = Ok tp ->
  serialization_attr_of_context ts tp = Ok "" ->
  (exists t, get_field_slot_index f tp (SCtx (Some ts)) = Err t) /\
  tcc_prefix c = Ok (mz, tp, slots_zero, false).
Proof.
  intros c mz ts tp f Hmz Hctx Hty Ha. split.
  - unfold get_field_slot_index. rewrite Ha. cbn. eexists; reflexivity.
  - unfold tcc_prefix. rewrite Hmz. cbn [of_option bind]. rewrite Hty. cbn [bind].
    unfold parse_slots, get_serialization_attr. rewrite Hctx. cbn [of_option bind]. rewrite Ha. reflexivity.
Qed.

(* documents that are not a JSON object with a parsable @context *)
Theorem bad_document : forall f tp d,
  match d with SCtx (Some _) => False | _ => True end ->
  exists t, get_field_slot_index f tp d = Err t.
Proof.
  intros f tp d H. destruct d as [| | |[ts|]]; try (eexists; reflexivity). contradiction.
Qed.

(* the lookup does not depend on the order of the term map *)
Theorem lookup_perm : forall f tp ts ts',
  NoDup (map t_name ts) -> Permutation ts ts' ->
  get_field_slot_index f tp (SCtx (Some ts)) = get_field_slot_index f tp (SCtx (Some ts')).
Proof.
  intros f tp ts ts' Hnd Hp. unfold get_field_slot_index.
  now rewrite (ser_attr_perm ts ts' tp Hnd Hp).
Qed.

(* ---------- the attribute grammar ---------- *)

(* rendering of an assignment of the four slots, in any order of the parts *)
Definition slot_key (i : Z) : string :=
  if i =? 2 then "slotIndexA" else if i =? 3 then "slotIndexB"
  else if i =? 6 then "slotValueA" else "slotValueB".

Lemma split_on_no_sep : forall sep s,
  (forall c, In c (str_to_list s) -> c <> sep) -> split_on sep s = [s].
Proof.
  intros sep s. induction s as [|c t IH]; intros H; [reflexivity|].
  cbn [split_on]. destruct (Ascii.eqb c sep) eqn:E.
  - apply Ascii.eqb_eq in E. exfalso. apply (H c); [cbn; auto|exact E].
  - rewrite IH; [reflexivity|]. intros d Hd. apply H. cbn. auto.
Qed.

Lemma split_on_app : forall sep a b,
  (forall c, In c (str_to_list a) -> c <> sep) ->
  split_on sep (a ++ String sep b) = a :: split_on sep b.
Proof.
  intros sep a b. induction a as [|c t IH]; intros H.
  - cbn [append split_on]. now rewrite Ascii.eqb_refl.
  - cbn [append split_on]. destruct (Ascii.eqb c sep) eqn:E.
    + apply Ascii.eqb_eq in E. exfalso. apply (H c); [cbn; auto|exact E].
    + rewrite IH; [reflexivity|]. intros d Hd. apply H. cbn. auto.
Qed.

Definition clean (s : string) : Prop :=
  forall c, In c (str_to_list s) -> c <> "&"%char /\ c <> "="%char.

(* one part `key=path` parses to the pair *)
Lemma part_splits : forall k v, clean k -> clean v ->
  split_on "="%char (k ++ String "="%char v) = [k; v].
Proof.
  intros k v Hk Hv. rewrite split_on_app by (intros c Hc; apply (Hk c Hc)).
  rewrite split_on_no_sep by (intros c Hc; apply (Hv c Hc)). reflexivity.
Qed.

(* ---------- C17_facade ---------- *)

Section FacadeTheory.
  Variables C S D Opt : Type.

  Theorem facade_delegates : forall (p : processor C S D Opt),
    (forall f t s, facade_slot_index C S D Opt p f t s =
       match pr_parser C S D Opt p with
       | Some ps => ps_slot_index C S Opt ps f t s
       | None => Err "parser-not-defined" end) /\
    (forall c o, facade_parse_claim C S D Opt p c o =
       match pr_parser C S D Opt p with
       | Some ps => ps_parse_claim C S Opt ps c o
       | None => Err "parser-not-defined" end) /\
    (forall d s, facade_validate C S D Opt p d s =
       match pr_validator C S D Opt p with
       | Some v => v d s
       | None => Err "validator-not-defined" end) /\
    (forall u, facade_load C S D Opt p u =
       match pr_loader C S D Opt p with
       | Some l => l u
       | None => Err "loader-not-defined" end).
  Proof. intros p. repeat split. Qed.
End FacadeTheory.

(* each facade method looks at ITS component only: two processors that agree on a
   component agree on every call of the methods that use it, whatever else is configured *)
Section FacadeTransparent.
  Variables C S D Opt : Type.
  Theorem facade_transparent : forall (p p' : processor C S D Opt),
    (pr_validator C S D Opt p = pr_validator C S D Opt p' ->
       forall d s, facade_validate C S D Opt p d s = facade_validate C S D Opt p' d s) /\
    (pr_parser C S D Opt p = pr_parser C S D Opt p' ->
       (forall f t s, facade_slot_index C S D Opt p f t s = facade_slot_index C S D Opt p' f t s) /\
       (forall c o, facade_parse_claim C S D Opt p c o = facade_parse_claim C S D Opt p' c o)) /\
    (pr_loader C S D Opt p = pr_loader C S D Opt p' ->
       forall u, facade_load C S D Opt p u = facade_load C S D Opt p' u).
  Proof.
    intros p p'. split; [|split].
    - intros H d s. unfold facade_validate. now rewrite H.
    - intros H. split; intros; unfold facade_slot_index, facade_parse_claim; now rewrite H.
    - intros H u. unfold facade_load. now rewrite H.
  Qed.

  (* the seeded variant C17-m: ValidateData guarded by the PARSER *)
  Definition facade_validate_c17m (p : processor C S D Opt) (d : D) (s : S) : res unit :=
    match pr_parser C S D Opt p with
    | None => Err "validator-not-defined"
    | Some _ => match pr_validator C S D Opt p with Some v => v d s | None => Panic "nil-validator" end
    end.
End FacadeTransparent.

(* it is refuted: a processor with a validator and no parser does not get the validator's verdict,
   and one with a parser and no validator panics *)
Example facade_validate_c17m_refuted :
  let v : unit -> unit -> res unit := fun _ _ => Err "verdict" in
  let ps : parser unit unit unit := {| ps_parse_claim := fun _ _ => Ok claim_zero; ps_slot_index := fun _ _ _ => Ok 6 |} in
  facade_validate unit unit unit unit {| pr_validator := Some v; pr_loader := None; pr_parser := None |} tt tt = Err "verdict" /\
  facade_validate_c17m unit unit unit unit {| pr_validator := Some v; pr_loader := None; pr_parser := None |} tt tt
    = Err "validator-not-defined" /\
  facade_validate unit unit unit unit {| pr_validator := None; pr_loader := None; pr_parser := Some ps |} tt tt
    = Err "validator-not-defined" /\
  facade_validate_c17m unit unit unit unit {| pr_validator := None; pr_loader := None; pr_parser := Some ps |} tt tt
    = Panic "nil-validator".
Proof. repeat split; reflexivity. Qed.

(* the processor configured with json.Parser: the options reach the claim builder unchanged *)
Theorem facade_json_parser : forall O V L c f t d,
  let p := {| pr_validator := V; pr_loader := L;
              pr_parser := Some {| ps_parse_claim := parser_parse_claim O;
                                   ps_slot_index := get_field_slot_index |} |}
           : processor cred schema_doc unit (option opts) in
  (forall o, facade_parse_claim cred schema_doc unit (option opts) p c (Some o) = fst (to_core_claim O c (Some o))) /\
  facade_slot_index cred schema_doc unit (option opts) p f t d = get_field_slot_index f t d.
Proof. intros. split; reflexivity. Qed.

(* ---------- examples (non-vacuity) ---------- *)

Example ex_agree :
  get_field_slot_index "b" "urn:T" (SCtx (c_ctx ex_cred_s)) = Ok 7 /\
  get_field_slot_index "a" "T" (SCtx (c_ctx ex_cred_s)) = Ok 2 /\
  rmap (fun cl => (raw_slot cl 2, raw_slot cl 7)) (fst (to_core_claim ex_oracles ex_cred_s None)) = Ok (5, 6) /\
  is_err (get_field_slot_index "c" "T" (SCtx (c_ctx ex_cred_s))) = true /\
  is_err (get_field_slot_index "a" "Nope" (SCtx (c_ctx ex_cred_s))) = true /\
  is_err (get_field_slot_index "a" "Aaa" (SCtx (c_ctx ex_cred_s))) = true.
Proof. vm_compute. repeat split; reflexivity. Qed.

Example ex_parse :
  parse_serialization_attr "iden3:v1:slotIndexA=price&slotValueB=postalProviderInformation.insured" =
    Ok {| p_index_a := "price"; p_index_b := ""; p_value_a := ""; p_value_b := "postalProviderInformation.insured" |} /\
  is_err (parse_serialization_attr "iden3:v2:slotIndexA=a") = true /\
  is_err (parse_serialization_attr "iden3:v1:slotIndexA=a&slotIndexB=b&slotValueA=c&slotValueB=d&slotIndexA=e") = true /\
  is_err (parse_serialization_attr "iden3:v1:slotIndexA=a=b") = true /\
  is_err (parse_serialization_attr "iden3:v1:slotIndexC=a") = true /\
  is_err (parse_serialization_attr "iden3:v1:") = true /\
  parse_serialization_attr "iden3:v1:slotIndexA=a&slotIndexA=b" =
    Ok {| p_index_a := "b"; p_index_b := ""; p_value_a := ""; p_value_b := "" |}.
Proof. vm_compute. repeat split; reflexivity. Qed.

(* ---------- lookup by type name and by type IRI ---------- *)

Definition is_type_term (t : term) : bool :=
  t_is_map t && match t_ctx t with Some _ => true | None => false end.
Definition names_type (t : term) (tp : string) : bool :=
  String.eqb (t_name t) tp || String.eqb (t_id t) tp.

Lemma loop_name_or_iri : forall ts t names,
  (forall t', In t' ts -> is_type_term t' = true ->
     names_type t' (t_name t) = true \/ names_type t' (t_id t) = true -> t' = t) ->
  ser_attr_loop names ts (t_name t) = ser_attr_loop names ts (t_id t).
Proof.
  intros ts t names Huniq. induction names as [|n rest IH]; [reflexivity|].
  cbn [ser_attr_loop].
  destruct (find_term n ts) as [t'|] eqn:Ef; [|exact IH].
  apply find_term_in in Ef. destruct Ef as (Hin & Hn).
  destruct (t_is_map t') eqn:Em; cbn [negb]; [|exact IH].
  destruct (t_ctx t') as [sh|] eqn:Ec; [|exact IH].
  assert (Htt : is_type_term t' = true) by (unfold is_type_term; now rewrite Em, Ec).
  destruct (String.eqb n (t_name t) || String.eqb (t_id t') (t_name t)
            || (String.eqb n (t_id t) || String.eqb (t_id t') (t_id t))) eqn:Ematch.
  - assert (t' = t).
    { apply Huniq; [exact Hin|exact Htt|]. unfold names_type. rewrite Hn.
      apply Bool.orb_true_iff in Ematch. destruct Ematch as [E|E]; [left|right]; exact E. }
    subst t'. rewrite Hn. rewrite !String.eqb_refl. cbn [negb andb orb].
    rewrite Bool.andb_false_r. reflexivity.
  - apply Bool.orb_false_iff in Ematch. destruct Ematch as (E1 & E2).
    apply Bool.orb_false_iff in E1. destruct E1 as (E1a & E1b).
    apply Bool.orb_false_iff in E2. destruct E2 as (E2a & E2b).
    rewrite E1a, E1b, E2a, E2b. cbn [negb andb]. exact IH.
Qed.

(* when the context has one type term only that is called n or identified by
   iri, looking it up by name and by IRI gives the same attribute, hence the
   same slot index *)
Theorem name_or_iri : forall ts t f d,
  d = SCtx (Some ts) ->
  (forall t', In t' ts -> is_type_term t' = true ->
     names_type t' (t_name t) = true \/ names_type t' (t_id t) = true -> t' = t) ->
  serialization_attr_of_context ts (t_name t) = serialization_attr_of_context ts (t_id t) /\
  get_field_slot_index f (t_name t) d = get_field_slot_index f (t_id t) d.
Proof.
  intros ts t f d -> Huniq.
  assert (E : serialization_attr_of_context ts (t_name t) = serialization_attr_of_context ts (t_id t))
    by (unfold serialization_attr_of_context; now apply loop_name_or_iri).
  split; [exact E|]. unfold get_field_slot_index. now rewrite E.
Qed.

(* without that condition the two lookups may differ: two terms with one @id *)
Example ex_alias_types :
  let ts := [ {| t_name := "T"; t_is_map := true; t_ctx := Some (CtxMap (Some "iden3:v1:slotIndexA=a")); t_id := "urn:T" |};
              {| t_name := "Aaa"; t_is_map := true; t_ctx := Some (CtxMap (Some "iden3:v1:slotValueB=a")); t_id := "urn:T" |} ] in
  get_field_slot_index "a" "T" (SCtx (Some ts)) = Ok 2 /\
  get_field_slot_index "a" "urn:T" (SCtx (Some ts)) = Ok 7.
Proof. vm_compute. split; reflexivity. Qed.

(* ---------- the attribute grammar: rendering an assignment and parsing it back ---------- *)

Definition set_slot (sp : slots_paths) (i : Z) (p : string) : slots_paths :=
  if i =? 2 then {| p_index_a := p; p_index_b := p_index_b sp; p_value_a := p_value_a sp; p_value_b := p_value_b sp |}
  else if i =? 3 then {| p_index_a := p_index_a sp; p_index_b := p; p_value_a := p_value_a sp; p_value_b := p_value_b sp |}
  else if i =? 6 then {| p_index_a := p_index_a sp; p_index_b := p_index_b sp; p_value_a := p; p_value_b := p_value_b sp |}
  else {| p_index_a := p_index_a sp; p_index_b := p_index_b sp; p_value_a := p_value_a sp; p_value_b := p |}.

(* `key=path` parts joined by `&` (at least one part) *)
Definition part_str (kp : Z * string) : string :=
  (slot_key (fst kp) ++ String "="%char (snd kp))%string.
Fixpoint render_parts (first : Z * string) (rest : list (Z * string)) : string :=
  match rest with
  | [] => part_str first
  | nx :: more => (part_str first ++ String "&"%char (render_parts nx more))%string
  end.
Definition render_attr (first : Z * string) (rest : list (Z * string)) : string :=
  (ser_prefix ++ render_parts first rest)%string.

Lemma slot_key_clean : forall i, clean (slot_key i).
Proof.
  intros i c Hc. unfold slot_key in Hc.
  destruct (i =? 2); [|destruct (i =? 3); [|destruct (i =? 6)]]; cbn in Hc;
    repeat (destruct Hc as [<-|Hc]; [split; discriminate|]); contradiction.
Qed.

Lemma set_path_key : forall sp i p, In i data_slots -> set_path sp (slot_key i) p = Ok (set_slot sp i p).
Proof.
  intros sp i p Hin. unfold data_slots in Hin.
  destruct Hin as [Hi|[Hi|[Hi|[Hi|[]]]]]; subst i; reflexivity.
Qed.

Lemma str_to_list_app : forall a b : string, str_to_list (a ++ b)%string = (str_to_list a ++ str_to_list b)%list.
Proof. induction a as [|c t IH]; intros b; [reflexivity|]. cbn. now rewrite IH. Qed.

Lemma part_no_amp : forall kp, clean (snd kp) ->
  forall c, In c (str_to_list (part_str kp)) -> c <> "&"%char.
Proof.
  intros [i p] Hp c Hc. unfold part_str in Hc. cbn [fst snd] in *. rewrite str_to_list_app in Hc. apply in_app_or in Hc.
  destruct Hc as [Hc|Hc]; [apply (slot_key_clean i c Hc)|].
  cbn in Hc. destruct Hc as [<-|Hc]; [discriminate|]. apply (Hp c Hc).
Qed.

Lemma split_render : forall rest first,
  clean (snd first) -> Forall (fun kp => clean (snd kp)) rest ->
  split_on "&"%char (render_parts first rest) = map part_str (first :: rest).
Proof.
  induction rest as [|nx more IH]; intros first Hf Hr.
  - cbn [render_parts map]. apply split_on_no_sep. apply part_no_amp. exact Hf.
  - cbn [render_parts].
    rewrite split_on_app by (apply part_no_amp; exact Hf).
    inversion Hr as [|? ? Hn Hm]; subst. rewrite (IH nx Hn Hm). reflexivity.
Qed.

Lemma parse_parts_render : forall l sp,
  Forall (fun kp => In (fst kp) data_slots /\ clean (snd kp)) l ->
  parse_parts (map part_str l) sp =
  Ok (fold_left (fun acc kp => set_slot acc (fst kp) (snd kp)) l sp).
Proof.
  induction l as [|[i p] t IH]; intros sp Hl; [reflexivity|].
  inversion Hl as [|? ? [Hi Hp] Ht]; subst. cbn [map parse_parts fst snd fold_left] in *.
  unfold part_str at 1. cbn [fst snd].
  rewrite (part_splits (slot_key i) p (slot_key_clean i) Hp).
  rewrite (set_path_key sp i p Hi). cbn [bind]. apply IH. exact Ht.
Qed.

(* every rendering of at most four well-formed parts parses to the assignment
   it was rendered from (a repeated key: the last part wins) *)
Theorem parse_render : forall first rest,
  Forall (fun kp => In (fst kp) data_slots /\ clean (snd kp)) (first :: rest) ->
  (List.length rest <= 3)%nat ->
  parse_serialization_attr (render_attr first rest) =
  Ok (fold_left (fun acc kp => set_slot acc (fst kp) (snd kp)) (first :: rest) paths_empty).
Proof.
  intros first rest Hall Hlen. unfold parse_serialization_attr, render_attr.
  assert (Es : strip_prefix ser_prefix (ser_prefix ++ render_parts first rest)%string = Some (render_parts first rest))
    by reflexivity.
  rewrite Es.
  inversion Hall as [|? ? [Hi Hp] Hr]; subst.
  rewrite split_render; [|exact Hp|eapply Forall_impl; [|exact Hr]; intros kp [_ H]; exact H].
  rewrite map_length. cbn [List.length].
  destruct (Nat.ltb 4 (S (List.length rest))) eqn:E.
  - apply Nat.ltb_lt in E. lia.
  - apply parse_parts_render. exact Hall.
Qed.

Example ex_render :
  render_attr (6, "price") [(2, "info.insured")] = "iden3:v1:slotValueA=price&slotIndexA=info.insured" /\
  parse_serialization_attr (render_attr (6, "price") [(2, "info.insured")]) =
    Ok {| p_index_a := "info.insured"; p_index_b := ""; p_value_a := "price"; p_value_b := "" |}.
Proof. vm_compute. split; reflexivity. Qed.
