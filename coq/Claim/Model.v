(* Claim/Model.v — executable model of
     verifiable/credential.go   ToCoreClaim (495-599), verifyCredentialCoreClaim (91-149)
     verifiable/core_utils.go   findCredentialType (35-85), parseSlots (106-155),
                                GetSerializationAttrFromParsedContext (183-229),
                                ParseSerializationAttr (238-271), fillSlot (278-304)
     utils/claims.go            CreateSchemaHash, SwapEndianness
     json/parser.go             Parser.ParseClaim, Parser.GetFieldSlotIndex (30-81)
     processor/processor.go     Processor.ParseClaim / GetFieldSlotIndex / ValidateData / Load
   and of the setters / getters of go-iden3-core v2.3.1 claim.go that this code
   uses.  A core.Claim is 8 slots of 32 bytes; a slot is modelled by the integer
   it denotes (little-endian), and every setter is the masked write it performs
   on that integer.  No proofs in this file. *)
From Coq Require Import ZArith List String Ascii Bool.
From GSP Require Import Base.Prelude.
Import ListNotations.
Open Scope string_scope.
Open Scope list_scope.
Open Scope Z_scope.

(* ---------- bit fields of a slot integer ---------- *)
(* bits [off, off+w) of x *)
Definition get_field (x off w : Z) : Z := (x / 2 ^ off) mod 2 ^ w.
(* overwrite bits [off, off+w) of x by the low w bits of v: what
   binary.LittleEndian.PutUintNN / copy / (&= mask; |= v) do to the slot *)
Definition set_field (x off w v : Z) : Z := x + (v mod 2 ^ w - get_field x off w) * 2 ^ off.

Definition b2z (b : bool) : Z := if b then 1 else 0.

(* the SNARK field *)
Definition q : Z :=
  21888242871839275222246405745257275088548364400416034343698204186575808495617.
Definition in_field (x : Z) : bool := (0 <=? x) && (x <? q).

(* ---------- core.Claim ---------- *)
Record claim := { i0 : Z; i1 : Z; i2 : Z; i3 : Z; v0 : Z; v1 : Z; v2 : Z; v3 : Z }.
Definition ints (c : claim) : list Z := [i0 c; i1 c; i2 c; i3 c; v0 c; v1 c; v2 c; v3 c].
Definition claim_zero : claim :=
  {| i0 := 0; i1 := 0; i2 := 0; i3 := 0; v0 := 0; v1 := 0; v2 := 0; v3 := 0 |}.
Definition claim_eqb (a b : claim) : bool :=
  list_eqb Z.eqb (ints a) (ints b).

Definition with_i0 (c : claim) (x : Z) : claim :=
  {| i0 := x; i1 := i1 c; i2 := i2 c; i3 := i3 c; v0 := v0 c; v1 := v1 c; v2 := v2 c; v3 := v3 c |}.
Definition with_i1 (c : claim) (x : Z) : claim :=
  {| i0 := i0 c; i1 := x; i2 := i2 c; i3 := i3 c; v0 := v0 c; v1 := v1 c; v2 := v2 c; v3 := v3 c |}.
Definition with_i2 (c : claim) (x : Z) : claim :=
  {| i0 := i0 c; i1 := i1 c; i2 := x; i3 := i3 c; v0 := v0 c; v1 := v1 c; v2 := v2 c; v3 := v3 c |}.
Definition with_i3 (c : claim) (x : Z) : claim :=
  {| i0 := i0 c; i1 := i1 c; i2 := i2 c; i3 := x; v0 := v0 c; v1 := v1 c; v2 := v2 c; v3 := v3 c |}.
Definition with_v0 (c : claim) (x : Z) : claim :=
  {| i0 := i0 c; i1 := i1 c; i2 := i2 c; i3 := i3 c; v0 := x; v1 := v1 c; v2 := v2 c; v3 := v3 c |}.
Definition with_v1 (c : claim) (x : Z) : claim :=
  {| i0 := i0 c; i1 := i1 c; i2 := i2 c; i3 := i3 c; v0 := v0 c; v1 := x; v2 := v2 c; v3 := v3 c |}.
Definition with_v2 (c : claim) (x : Z) : claim :=
  {| i0 := i0 c; i1 := i1 c; i2 := i2 c; i3 := i3 c; v0 := v0 c; v1 := v1 c; v2 := x; v3 := v3 c |}.
Definition with_v3 (c : claim) (x : Z) : claim :=
  {| i0 := i0 c; i1 := i1 c; i2 := i2 c; i3 := i3 c; v0 := v0 c; v1 := v1 c; v2 := v2 c; v3 := x |}.

(* positions of the bit fields (claim.go: flagsByteIdx = 16, version bytes 20..24,
   nonce bytes 0..8 and expiration bytes 8..16 of value[0], ID = 31 bytes) *)
Definition off_schema := 0.     Definition w_schema := 128.
Definition off_subject := 128.  Definition w_subject := 3.
Definition off_expflag := 131.
Definition off_updatable := 132.
Definition off_merklized := 133. Definition w_merklized := 3.
Definition off_version := 160.  Definition w_version := 32.
Definition w_id := 248.

(* subjectFlag / merklizedFlag values *)
Definition subject_self := 0.
Definition subject_index := 2.
Definition subject_value := 3.
Definition mrk_none := 0.
Definition mrk_index := 1.     (* 0b001 00000 *)
Definition mrk_value := 2.     (* 0b010 00000 *)

(* SetSchemaHash: copy(c.index[0][:16], sh[:]) *)
Definition set_schema_hash (c : claim) (sh : Z) : claim :=
  with_i0 c (set_field (i0 c) off_schema w_schema sh).
(* SetVersion: PutUint32(c.index[0][20:24], ver) *)
Definition set_version (c : claim) (ver : Z) : claim :=
  with_i0 c (set_field (i0 c) off_version w_version ver).
Definition get_version (c : claim) : Z := get_field (i0 c) off_version w_version.
(* setSubject: &= 0b11111000; |= s *)
Definition set_subject (c : claim) (s : Z) : claim :=
  with_i0 c (set_field (i0 c) off_subject w_subject s).
Definition get_subject (c : claim) : Z := get_field (i0 c) off_subject w_subject.
(* setFlagExpiration / SetFlagUpdatable: one bit *)
Definition set_flag_expiration (c : claim) (b : bool) : claim :=
  with_i0 c (set_field (i0 c) off_expflag 1 (b2z b)).
Definition set_flag_updatable (c : claim) (b : bool) : claim :=
  with_i0 c (set_field (i0 c) off_updatable 1 (b2z b)).
Definition get_flag_updatable (c : claim) : bool :=
  0 <? get_field (i0 c) off_updatable 1.
(* setFlagMerklized: &= 0b00011111; |= f *)
Definition set_flag_merklized (c : claim) (m : Z) : claim :=
  with_i0 c (set_field (i0 c) off_merklized w_merklized m).
Definition get_merklized (c : claim) : Z := get_field (i0 c) off_merklized w_merklized.
(* SetRevocationNonce: PutUint64(c.value[0][:8], nonce) *)
Definition set_revocation_nonce (c : claim) (n : Z) : claim :=
  with_v0 c (set_field (v0 c) 0 64 n).
Definition get_revocation_nonce (c : claim) : Z := get_field (v0 c) 0 64.
(* SetExpirationDate: flag; PutUint64(c.value[0][8:16], uint64(dt.Unix())).
   The conversion int64 -> uint64 is the reduction mod 2^64 done by set_field. *)
Definition set_expiration_date (c : claim) (unix : Z) : claim :=
  let c := set_flag_expiration c true in
  with_v0 c (set_field (v0 c) 64 64 unix).
(* SetIndexID: resetValueID; setSubject(OtherIdenIndex); copy(c.index[1][:], id[:]) (31 bytes) *)
Definition set_index_id (c : claim) (id : Z) : claim :=
  let c := with_v1 c (set_field (v1 c) 0 w_id 0) in
  let c := set_subject c subject_index in
  with_i1 c (set_field (i1 c) 0 w_id id).
Definition set_value_id (c : claim) (id : Z) : claim :=
  let c := with_i1 c (set_field (i1 c) 0 w_id 0) in
  let c := set_subject c subject_value in
  with_v1 c (set_field (v1 c) 0 w_id id).

(* setSlotInt -> ElemBytes.SetInt: the value must be in the field.  (Roots and
   value encodings are hashes / field elements, hence never negative; a negative
   number is treated as out of the field.) *)
Definition slot_overflow := "slot-overflow".
Definition set_slot_int (r : Z) : res Z :=
  if in_field r then Ok r else Err slot_overflow.
(* SetIndexMerklizedRoot: resetValueMerklizedRoot; flag; setSlotInt(&c.index[2], r) *)
Definition set_index_merklized_root (c : claim) (r : Z) : res claim :=
  let c := with_v2 c 0 in
  let c := set_flag_merklized c mrk_index in
  x <- set_slot_int r ;; Ok (with_i2 c x).
Definition set_value_merklized_root (c : claim) (r : Z) : res claim :=
  let c := with_i2 c 0 in
  let c := set_flag_merklized c mrk_value in
  x <- set_slot_int r ;; Ok (with_v2 c x).

(* setSlotBytes with a 32-byte slice: copy, then CheckBigIntInField *)
Definition set_slot_bytes (x : Z) : res Z :=
  if x <? q then Ok x else Err slot_overflow.

(* the four 32-byte data slices built by parseSlots, as little-endian integers *)
Record slots := { s_index_a : Z; s_index_b : Z; s_value_a : Z; s_value_b : Z }.
Definition slots_zero : slots :=
  {| s_index_a := 0; s_index_b := 0; s_value_a := 0; s_value_b := 0 |}.

(* core.NewClaim(sh, WithIndexDataBytes, WithValueDataBytes, WithRevocationNonce, WithVersion) *)
Definition new_claim (sh : Z) (s : slots) (nonce ver : Z) : res claim :=
  let c := set_schema_hash claim_zero sh in
  a <- set_slot_bytes (s_index_a s) ;;
  let c := with_i2 c a in
  b <- set_slot_bytes (s_index_b s) ;;
  let c := with_i3 c b in
  a' <- set_slot_bytes (s_value_a s) ;;
  let c := with_v2 c a' in
  b' <- set_slot_bytes (s_value_b s) ;;
  let c := with_v3 c b' in
  let c := set_revocation_nonce c nonce in
  Ok (set_version c ver).

(* GetMerklizedPosition / GetIDPosition *)
Inductive position := PNone | PIndex | PValue.
Definition get_merklized_position (c : claim) : res position :=
  let m := get_merklized c in
  if m =? mrk_none then Ok PNone
  else if m =? mrk_index then Ok PIndex
  else if m =? mrk_value then Ok PValue
  else Err "merklized-position".
Definition get_id_position (c : claim) : res position :=
  let s := get_subject c in
  if s =? subject_self then Ok PNone
  else if s =? subject_index then Ok PIndex
  else if s =? subject_value then Ok PValue
  else Err "id-position".

(* ---------- external primitives ---------- *)
Record oracles := {
  keccak : string -> Z;              (* Keccak-256 digest read as a big-endian 256-bit number *)
  did_to_id : string -> option Z     (* w3c.ParseDID ; core.IDFromDID ; the 31 ID bytes little-endian.
                                        None = one of the two calls returned an error *)
}.

(* reverse the n low bytes of x *)
Fixpoint bswap_acc (n : nat) (x acc : Z) : Z :=
  match n with
  | O => acc
  | S k => bswap_acc k (x / 256) (acc * 256 + x mod 256)
  end.
Definition bswap (n : nat) (x : Z) : Z := bswap_acc n x 0.

(* utils.CreateSchemaHash: the last 16 digest bytes, copied in order into
   index[0][0:16]; the slot is read little-endian *)
Definition schema_hash (O : oracles) (ty : string) : Z :=
  bswap 16 (keccak O ty mod 2 ^ 128).

(* ---------- CoreClaimOptions (MerklizerOpts are fixed: the credential
   abstraction below is what the document looks like under them) ---------- *)
Record opts := {
  o_nonce : Z; o_version : Z; o_subject_pos : string; o_root_pos : string; o_updatable : bool
}.
Definition pos_index := "index".
Definition pos_value := "value".
Definition default_opts : opts :=
  {| o_nonce := 0; o_version := 0; o_subject_pos := pos_index; o_root_pos := ""; o_updatable := false |}.
Definition with_root_pos (o : opts) (p : string) : opts :=
  {| o_nonce := o_nonce o; o_version := o_version o; o_subject_pos := o_subject_pos o;
     o_root_pos := p; o_updatable := o_updatable o |}.
Definition opts_eqb (a b : opts) : bool :=
  Z.eqb (o_nonce a) (o_nonce b) && Z.eqb (o_version a) (o_version b) &&
  String.eqb (o_subject_pos a) (o_subject_pos b) && String.eqb (o_root_pos a) (o_root_pos b) &&
  Bool.eqb (o_updatable a) (o_updatable b).

(* ---------- the credential as ToCoreClaim sees it ---------- *)
(* value returned by Merklizer.RawValue *)
Inductive rawv := RVStr (s : string) | RVArr (l : list rawv) | RVOther.

(* one entry of ld.Context termDefinitions *)
Inductive ctxshape :=
| CtxMap (ser : option string)   (* @context is a map; its "iden3_serialization" when that is a string *)
| CtxOther.                      (* @context is an array, a string, ... *)
Record term := {
  t_name : string;
  t_is_map : bool;               (* the definition is a map (a null definition is not) *)
  t_ctx : option ctxshape;       (* its "@context" member *)
  t_id : string                  (* its "@id" when that is a string, else "" *)
}.

Record mzview := {
  m_cs_type : option rawv;       (* RawValue(credentialSubject.@type), None = error *)
  m_top_type : option rawv;      (* RawValue(@type), None = error *)
  m_root : Z;                    (* mz.Root().BigInt() *)
  m_field : string -> res Z      (* p |-> ResolveDocPath("credentialSubject."+p); Entry; ValueMtEntry *)
}.

Record cred := {
  c_mz : option mzview;          (* vc.Merklize; None = error *)
  c_subject : option string;     (* fmt.Sprintf("%v", vc.CredentialSubject["id"]); None when nil *)
  c_expiration : option Z;       (* vc.Expiration.Unix() *)
  c_ctx : option (list term)     (* ld.NewContext(nil, opts).Parse(vc.Context) termDefinitions,
                                    in the order the map happens to present them; None = error *)
}.

(* time.Time as (Unix seconds, nanoseconds within the second, 0 <= nanos < 10^9);
   dt.Unix() is the seconds component: the fraction is dropped towards minus
   infinity, never rounded.  [cred_at] builds the credential from the instant
   vc.Expiration denotes; ToCoreClaim reads it through Unix() only. *)
Record gotime := { gt_sec : Z; gt_nanos : Z }.
Definition time_unix (t : gotime) : Z := gt_sec t.
Definition cred_at (mz : option mzview) (subj : option string) (exp : option gotime)
  (ctx : option (list term)) : cred :=
  {| c_mz := mz; c_subject := subj;
     c_expiration := match exp with Some t => Some (time_unix t) | None => None end;
     c_ctx := ctx |}.

(* ---------- findCredentialType ---------- *)
Definition vc_type_iri := "https://www.w3.org/2018/credentials#VerifiableCredential".

Fixpoint to_string_slice (l : list rawv) : res (list string) :=
  match l with
  | [] => Ok []
  | RVStr s :: t => r <- to_string_slice t ;; Ok (s :: r)
  | _ :: _ => Err "type-not-string"
  end.

Definition find_credential_type (mz : mzview) : res string :=
  match m_cs_type mz with
  | Some (RVStr tp) => Ok tp
  | _ =>
    match m_top_type mz with
    | None => Err "top-type"
    | Some (RVArr l) =>
        ts <- to_string_slice l ;;
        match ts with
        | [a; b] =>
            if String.eqb vc_type_iri a then Ok b
            else if String.eqb vc_type_iri b then Ok a
            else Err "no-vc-type"
        | _ => Err "top-type-length"
        end
    | Some _ => Err "top-type-not-array"
    end
  end.

(* ---------- GetSerializationAttrFromParsedContext ---------- *)
Definition find_term (n : string) (ts : list term) : option term :=
  find (fun t => String.eqb (t_name t) n) ts.

Fixpoint ser_attr_loop (names : list string) (ts : list term) (tp : string) : res string :=
  match names with
  | [] => Ok ""
  | n :: rest =>
    match find_term n ts with
    | None => ser_attr_loop rest ts tp
    | Some t =>
      if negb (t_is_map t) then ser_attr_loop rest ts tp else
      match t_ctx t with
      | None => ser_attr_loop rest ts tp
      | Some sh =>
        if negb (String.eqb n tp) && negb (String.eqb (t_id t) tp) then ser_attr_loop rest ts tp
        else match sh with
             | CtxMap (Some s) => Ok s
             | CtxMap None => Ok ""
             | CtxOther => Err "type-context-shape"
             end
      end
    end
  end.

(* the keys of the map are collected and sorted, then visited in that order *)
Definition serialization_attr_of_context (ts : list term) (tp : string) : res string :=
  ser_attr_loop (sort_strings (map t_name ts)) ts tp.

(* ---------- ParseSerializationAttr ---------- *)
Record slots_paths := { p_index_a : string; p_index_b : string; p_value_a : string; p_value_b : string }.
Definition paths_empty : slots_paths :=
  {| p_index_a := ""; p_index_b := ""; p_value_a := ""; p_value_b := "" |}.
Definition paths_is_empty (p : slots_paths) : bool :=
  String.eqb (p_index_a p) "" && String.eqb (p_index_b p) "" &&
  String.eqb (p_value_a p) "" && String.eqb (p_value_b p) "".

(* strings.Split(s, sep) for a one-byte separator: never empty *)
Fixpoint split_on (sep : ascii) (s : string) : list string :=
  match s with
  | EmptyString => [EmptyString]
  | String c t =>
      if Ascii.eqb c sep then EmptyString :: split_on sep t
      else match split_on sep t with
           | h :: r => String c h :: r
           | [] => [String c EmptyString]
           end
  end.

Fixpoint strip_prefix (p s : string) : option string :=
  match p, s with
  | EmptyString, _ => Some s
  | String a p', String b s' => if Ascii.eqb a b then strip_prefix p' s' else None
  | String _ _, EmptyString => None
  end.

Definition ser_prefix := "iden3:v1:".

Definition set_path (p : slots_paths) (k v : string) : res slots_paths :=
  if String.eqb k "slotIndexA" then
    Ok {| p_index_a := v; p_index_b := p_index_b p; p_value_a := p_value_a p; p_value_b := p_value_b p |}
  else if String.eqb k "slotIndexB" then
    Ok {| p_index_a := p_index_a p; p_index_b := v; p_value_a := p_value_a p; p_value_b := p_value_b p |}
  else if String.eqb k "slotValueA" then
    Ok {| p_index_a := p_index_a p; p_index_b := p_index_b p; p_value_a := v; p_value_b := p_value_b p |}
  else if String.eqb k "slotValueB" then
    Ok {| p_index_a := p_index_a p; p_index_b := p_index_b p; p_value_a := p_value_a p; p_value_b := v |}
  else Err "unknown-slot".

Fixpoint parse_parts (parts : list string) (p : slots_paths) : res slots_paths :=
  match parts with
  | [] => Ok p
  | part :: rest =>
      match split_on "="%char part with
      | [k; v] => p' <- set_path p k v ;; parse_parts rest p'
      | _ => Err "part-format"
      end
  end.

Definition parse_serialization_attr (a : string) : res slots_paths :=
  match strip_prefix ser_prefix a with
  | None => Err "attr-prefix"
  | Some rest =>
      let parts := split_on "&"%char rest in
      if Nat.ltb 4 (List.length parts) then Err "too-many-parts"
      else parse_parts parts paths_empty
  end.

(* ---------- parseSlots / fillSlot ---------- *)
(* fillSlot: copy(slotData, SwapEndianness(intVal.Bytes())) into a 32-byte slice *)
Definition fill_slot (mz : mzview) (path : string) : res Z :=
  if String.eqb path "" then Ok 0
  else v <- m_field mz path ;; Ok (v mod 2 ^ 256).

Definition get_serialization_attr (c : cred) (tp : string) : res string :=
  ts <- of_option (c_ctx c) "context-parse" ;;
  serialization_attr_of_context ts tp.

(* returns (slots, nonMerklized) *)
Definition parse_slots (c : cred) (mz : mzview) (tp : string) : res (slots * bool) :=
  a <- get_serialization_attr c tp ;;
  if String.eqb a "" then Ok (slots_zero, false) else
  sp <- parse_serialization_attr a ;;
  if paths_is_empty sp then Ok (slots_zero, true) else
  ia <- fill_slot mz (p_index_a sp) ;;
  ib <- fill_slot mz (p_index_b sp) ;;
  va <- fill_slot mz (p_value_a sp) ;;
  vb <- fill_slot mz (p_value_b sp) ;;
  Ok ({| s_index_a := ia; s_index_b := ib; s_value_a := va; s_value_b := vb |}, true).

(* ---------- W3CCredential.ToCoreClaim ----------
   Pointer semantics of `opts *CoreClaimOptions`: two option objects exist
   during a call, the one the caller passed (or, for a nil pointer, the literal
   allocated at the top of the function) and the local `optsCopy`.  The
   variable `opts` is a pointer naming one of the two cells; every read and the
   one write (`opts.MerklizedRootPosition = "index"`) go through it. *)
Inductive optr := PCaller | PLocal.
Record ostore := { st_caller : opts; st_local : opts }.
Definition oload (s : ostore) (p : optr) : opts :=
  match p with PCaller => st_caller s | PLocal => st_local s end.
Definition ostore_w (s : ostore) (p : optr) (o : opts) : ostore :=
  match p with
  | PCaller => {| st_caller := o; st_local := st_local s |}
  | PLocal => {| st_caller := st_caller s; st_local := o |}
  end.

(* vc.Merklize; findCredentialType; parseSlots: reads of the credential only *)
Definition tcc_prefix (c : cred) : res (mzview * string * slots * bool) :=
  mz <- of_option (c_mz c) "merklize" ;;
  ty <- find_credential_type mz ;;
  sn <- parse_slots c mz ty ;;
  Ok (mz, ty, fst sn, snd sn).

(* the if/else on nonMerklized: the only statement that writes through `opts` *)
Definition tcc_root_default (s : ostore) (p : optr) (non_merklized : bool) : res unit * ostore :=
  if negb non_merklized then
    if String.eqb (o_root_pos (oload s p)) ""
    then (Ok tt, ostore_w s p (with_root_pos (oload s p) pos_index))
    else (Ok tt, s)
  else if negb (String.eqb (o_root_pos (oload s p)) "") then (Err "root-position-not-supported", s)
  else (Ok tt, s).

(* core.NewClaim ... return claim: reads `work` = *opts *)
Definition tcc_build (O : oracles) (c : cred) (mz : mzview) (ty : string) (sl : slots) (work : opts)
  : res claim :=
  cl <- new_claim (schema_hash O ty) sl (o_nonce work) (o_version work) ;;
  let cl := if o_updatable work then set_flag_updatable cl (o_updatable work) else cl in
  let cl := match c_expiration c with Some e => set_expiration_date cl e | None => cl end in
  cl <- match c_subject c with
        | None => Ok cl
        | Some s =>
            id <- of_option (did_to_id O s) "did" ;;
            let p := o_subject_pos work in
            if String.eqb p "" || String.eqb p pos_index then Ok (set_index_id cl id)
            else if String.eqb p pos_value then Ok (set_value_id cl id)
            else Err "unknown-subject-position"
        end ;;
  let rp := o_root_pos work in
  if String.eqb rp pos_index then set_index_merklized_root cl (m_root mz)
  else if String.eqb rp pos_value then set_value_merklized_root cl (m_root mz)
  else if String.eqb rp "" then Ok cl
  else Err "unknown-root-position".

(* [after_copy] is the cell `opts` names after the statements
   `optsCopy := *opts; opts = &optsCopy`: PLocal in the code as it is now.
   (PCaller is the code before commit a78f738, kept to show what the purity
   theorem excludes.) *)
Definition to_core_claim_at (after_copy : optr) (O : oracles) (c : cred) (caller : option opts)
  : res claim * ostore :=
  (* if opts == nil { opts = &CoreClaimOptions{...} } *)
  let first := match caller with None => default_opts | Some o => o end in
  (* optsCopy := *opts *)
  let s := {| st_caller := first; st_local := first |} in
  let p := after_copy in
  match tcc_prefix c with
  | Ok (mz, ty, sl, non_merklized) =>
      let '(r, s) := tcc_root_default s p non_merklized in
      match r with
      | Ok _ => (tcc_build O c mz ty sl (oload s p), s)
      | Err t => (Err t, s)
      | Panic w => (Panic w, s)
      | Diverge => (Diverge, s)
      end
  | Err t => (Err t, s)
  | Panic w => (Panic w, s)
  | Diverge => (Diverge, s)
  end.

(* [caller] is the options object the caller passed (None = nil pointer); the
   second component of the result is the caller's object as it is left behind. *)
Definition to_core_claim (O : oracles) (c : cred) (caller : option opts) : res claim * option opts :=
  let rs := to_core_claim_at PLocal O c caller in
  (fst rs, match caller with Some _ => Some (st_caller (snd rs)) | None => None end).

(* the function as it was before the repair (writes through the caller's pointer) *)
Definition to_core_claim_unrepaired (O : oracles) (c : cred) (caller : option opts) : res claim * option opts :=
  let rs := to_core_claim_at PCaller O c caller in
  (fst rs, match caller with Some _ => Some (st_caller (snd rs)) | None => None end).

(* ---------- call sequences over shared objects ---------- *)
Record call := { k_cred : nat; k_opts : option nat }.     (* None = nil options *)

Fixpoint replace_nth {A} (l : list A) (n : nat) (a : A) : list A :=
  match l, n with
  | [], _ => []
  | _ :: t, O => a :: t
  | h :: t, S k => h :: replace_nth t k a
  end.

Definition run_call (O : oracles) (creds : list cred) (st : list opts) (k : call)
  : res claim * list opts :=
  match nth_error creds (k_cred k) with
  | None => (Panic "bad-credential-index", st)
  | Some c =>
    match k_opts k with
    | None => (fst (to_core_claim O c None), st)
    | Some j =>
      match nth_error st j with
      | None => (Panic "bad-options-index", st)
      | Some o =>
          let ro := to_core_claim O c (Some o) in
          (fst ro, match snd ro with Some o' => replace_nth st j o' | None => st end)
      end
    end
  end.

Fixpoint run_history (O : oracles) (creds : list cred) (st : list opts) (ks : list call)
  : list (res claim) * list opts :=
  match ks with
  | [] => ([], st)
  | k :: rest =>
      let rs := run_call O creds st k in
      let rr := run_history O creds (snd rs) rest in
      (fst rs :: fst rr, snd rr)
  end.

(* ---------- verifyCredentialCoreClaim ---------- *)
Definition opts_of_claim (cl : claim) : res opts :=
  mp <- get_merklized_position cl ;;
  let mps := match mp with PNone => "" | PIndex => pos_index | PValue => pos_value end in
  ip <- get_id_position cl ;;
  let ips := match ip with PNone => "" | PIndex => pos_index | PValue => pos_value end in
  Ok {| o_nonce := get_revocation_nonce cl; o_version := get_version cl;
        o_subject_pos := ips; o_root_pos := mps; o_updatable := get_flag_updatable cl |}.

(* Hex() of both claims is compared: 8 x 32 bytes, i.e. the 8 slot integers *)
Definition verify_binding (O : oracles) (c : cred) (cl : claim) : res unit :=
  o <- opts_of_claim cl ;;
  cl' <- fst (to_core_claim O c (Some o)) ;;
  if claim_eqb cl cl' then Ok tt else Err "another-credential".

(* ---------- json.Parser ---------- *)
(* the schema bytes handed to GetFieldSlotIndex *)
Inductive schema_doc :=
| SBadJSON | SNotObject | SNoContext
| SCtx (ts : option (list term)).   (* "@context" present; None = ld context parse error *)

Definition get_field_slot_index (field tp : string) (d : schema_doc) : res Z :=
  match d with
  | SBadJSON => Err "json"
  | SNotObject => Err "not-object"
  | SNoContext => Err "no-context"
  | SCtx None => Err "context-parse"
  | SCtx (Some ts) =>
      a <- serialization_attr_of_context ts tp ;;
      if String.eqb a "" then Err "not-specified" else
      sp <- parse_serialization_attr a ;;
      if String.eqb field (p_index_a sp) then Ok 2
      else if String.eqb field (p_index_b sp) then Ok 3
      else if String.eqb field (p_value_a sp) then Ok 6
      else if String.eqb field (p_value_b sp) then Ok 7
      else Err "not-specified"
  end.

(* Parser.ParseClaim: verifiableOpts := CoreClaimOptions of the dereferenced pointer; a nil
   pointer is dereferenced *)
Definition parser_parse_claim (O : oracles) (c : cred) (o : option opts) : res claim :=
  match o with
  | None => Panic "nil-options"
  | Some o => fst (to_core_claim O c (Some o))
  end.

(* raw slot i of a claim *)
Definition raw_slot (cl : claim) (i : Z) : Z := nth (Z.to_nat i) (ints cl) 0.

(* ---------- processor.Processor ---------- *)
Section Facade.
  Variables C S D Opt : Type.     (* credential, schema bytes, data bytes, options *)
  Record parser := {
    ps_parse_claim : C -> Opt -> res claim;
    ps_slot_index : string -> string -> S -> res Z
  }.
  Record processor := {
    pr_validator : option (D -> S -> res unit);
    pr_loader : option (string -> res S);
    pr_parser : option parser
  }.
  Definition facade_load (p : processor) (url : string) : res S :=
    match pr_loader p with None => Err "loader-not-defined" | Some l => l url end.
  Definition facade_parse_claim (p : processor) (c : C) (o : Opt) : res claim :=
    match pr_parser p with None => Err "parser-not-defined" | Some ps => ps_parse_claim ps c o end.
  Definition facade_slot_index (p : processor) (f t : string) (s : S) : res Z :=
    match pr_parser p with None => Err "parser-not-defined" | Some ps => ps_slot_index ps f t s end.
  Definition facade_validate (p : processor) (d : D) (s : S) : res unit :=
    match pr_validator p with None => Err "validator-not-defined" | Some v => v d s end.
End Facade.
