(* Claim/BindingRun.v — evaluation of per-run case files for the binding check
   (C06).  Credentials, oracle tables and option objects are written with the
   constructor functions of Claim/Run.v (shared with C05/C17).  Case files use
   the constructor functions below (no record syntax, no nat numerals). *)
From Coq Require Import ZArith List String Ascii Bool Uint63.
From GSP Require Import Base.Prelude Base.Decode Claim.Model Claim.Run Claim.Binding.
Import ListNotations.
Open Scope list_scope.

(* ---- issuance: ToCoreClaim (the issuer of the correspondence) ---- *)
Record icase := { i_id : int; i_cred : int; i_opts : option opts; i_obs : cobs }.
Definition mki (id cr : int) (o : option opts) (ob : cobs) : icase :=
  {| i_id := id; i_cred := cr; i_opts := o; i_obs := ob |}.

Definition icase_ok (r : raw_oracles) (creds : list cred) (c : icase) : bool :=
  match nth_error creds (nat_of_int (i_cred c)) with
  | None => false
  | Some cr =>
      oracles_cover r cr &&
      obs_agree (fst (to_core_claim (mk_oracles r) cr (i_opts c))) (i_obs c)
  end.
Definition imismatches (r : raw_oracles) (creds : list cred) (cs : list icase) : list int :=
  fold_right (fun c acc => if icase_ok r creds c then acc else i_id c :: acc) [] cs.

(* ---- the binding check: verifyCredentialCoreClaim ---- *)
Inductive bobs := BAccept | BReject | BPanic.

Record bcase := { b_id : int; b_cred : int; b_claim : list limbs; b_obs : bobs }.
Definition mkb (id cr : int) (cl : list limbs) (ob : bobs) : bcase :=
  {| b_id := id; b_cred := cr; b_claim := cl; b_obs := ob |}.

Definition claim_of_limbs (l : list limbs) : option claim :=
  match map z_of_limbs l with
  | [a; b; c; d; e; f; g; h] =>
      Some {| i0 := a; i1 := b; i2 := c; i3 := d; v0 := e; v1 := f; v2 := g; v3 := h |}
  | _ => None
  end.

Definition bobs_agree (r : res unit) (o : bobs) : bool :=
  match r, o with
  | Ok _, BAccept => true
  | Err _, BReject => true
  | _, _ => false            (* includes every Panic (oracle miss) and Diverge *)
  end.

Definition bcase_ok (r : raw_oracles) (creds : list cred) (b : bcase) : bool :=
  match nth_error creds (nat_of_int (b_cred b)), claim_of_limbs (b_claim b) with
  | Some cr, Some cl =>
      oracles_cover r cr && bobs_agree (verify_binding (mk_oracles r) cr cl) (b_obs b)
  | _, _ => false
  end.
Definition bmismatches (r : raw_oracles) (creds : list cred) (cs : list bcase) : list int :=
  fold_right (fun b acc => if bcase_ok r creds b then acc else b_id b :: acc) [] cs.

(* ---- VerifyProof: selection, GetCoreClaim, binding check, dispatch ----
   A proof object is its type, its claim (None = GetCoreClaim fails) and whether
   the proof-type specific material was produced honestly for that claim (the
   harness knows how it built the bundle); the proof-type specific verifiers of
   the model are the functions that answer exactly that. *)
Inductive pobs := PAccept | PNotFound | PNotSupported | PReject | PPanic.

Record praw := { pr_type : string; pr_claim : option (list limbs); pr_rest_ok : bool }.
Definition mkp (ty : string) (cl : option (list limbs)) (ok : bool) : praw :=
  {| pr_type := ty; pr_claim := cl; pr_rest_ok := ok |}.

Record vcase := { vc_id : int; vc_cred : int; vc_proofs : list praw; vc_req : string; vc_obs : pobs }.
Definition mkv (id cr : int) (ps : list praw) (req : string) (ob : pobs) : vcase :=
  {| vc_id := id; vc_cred := cr; vc_proofs := ps; vc_req := req; vc_obs := ob |}.

Definition to_vproof (p : praw) : vproof bool :=
  {| vp_type := pr_type p;
     vp_claim := match pr_claim p with
                 | None => Err "hex"
                 | Some l => match claim_of_limbs l with Some c => Ok c | None => Panic "bad-case" end
                 end;
     vp_body := pr_rest_ok p |}.
Definition step_of (ok : bool) (_ : claim) : res unit := if ok then Ok tt else Err "proof-invalid".

Definition pobs_agree (r : res unit) (o : pobs) : bool :=
  match r, o with
  | Ok _, PAccept => true
  | Err e, PNotFound => String.eqb e e_proof_not_found
  | Err e, PNotSupported => String.eqb e e_proof_not_supported
  | Err e, PReject => negb (String.eqb e e_proof_not_found) && negb (String.eqb e e_proof_not_supported)
  | _, _ => false
  end.

Definition vcase_ok (r : raw_oracles) (creds : list cred) (v : vcase) : bool :=
  match nth_error creds (nat_of_int (vc_cred v)) with
  | None => false
  | Some cr =>
      oracles_cover r cr &&
      pobs_agree (verify_proof bool step_of step_of (mk_oracles r) cr (map to_vproof (vc_proofs v)) (vc_req v))
                 (vc_obs v)
  end.
Definition vmismatches (r : raw_oracles) (creds : list cred) (cs : list vcase) : list int :=
  fold_right (fun v acc => if vcase_ok r creds v then acc else vc_id v :: acc) [] cs.
