(* Claim/Binding.v — executable model of the credential / claim binding check
     verifiable/credential.go   verifyCredentialCoreClaim (91-149)
                                W3CCredential.VerifyProof (40-89)
   on top of Claim/Model.v (core.Claim slots, ToCoreClaim).  No proofs in this file.

   verifyCredentialCoreClaim, statement by statement:
     GetMerklizedPosition            error -> "can't get core claim merklized position"
     switch -> position string       ("", "index", "value")
     GetIDPosition                   error -> "can't get core claim id position"
     switch -> position string
     CoreClaimOptions{RevNonce, Version, SubjectPosition, MerklizedRootPosition,
                      Updatable, MerklizerOpts}      (read back from the proof's claim)
     vc.ToCoreClaim(ctx, &opts)      error -> returned
     proofCoreClaim.Hex(), credentialClaim.Hex()      (MarshalBinary never fails)
     hex strings differ              -> "proof generated for another credential"
   The merklizer options are not part of the claim: the credential abstraction
   [cred] of Model.v is the document as seen under the options the verifier passes
   (DESIGN.md reading note O7).

   The definitions [opts_of_claim] / [verify_binding] restate the ones at the end
   of Claim/Model.v (same text) so that this development does not depend on them
   staying there; BindingTheory.binding_same_as_model proves they coincide. *)
From Coq Require Import ZArith List String Ascii Bool.
From GSP Require Import Base.Prelude Claim.Model.
Import ListNotations.
Open Scope string_scope.
Open Scope list_scope.
Open Scope Z_scope.

(* error classes of the binding check *)
Definition e_merklized_position := "merklized-position".
Definition e_id_position := "id-position".
Definition e_another_credential := "another-credential".

Definition pos_string (p : position) : string :=
  match p with PNone => "" | PIndex => pos_index | PValue => pos_value end.

(* the CoreClaimOptions rebuilt from the proof's claim *)
Definition opts_of_claim (cl : claim) : res opts :=
  mp <- get_merklized_position cl ;;
  ip <- get_id_position cl ;;
  Ok {| o_nonce := get_revocation_nonce cl;
        o_version := get_version cl;
        o_subject_pos := pos_string ip;
        o_root_pos := pos_string mp;
        o_updatable := get_flag_updatable cl |}.

(* Claim.Hex(): the 8 slots, 32 bytes each, little-endian.  A slot is modelled by
   the integer it denotes, so two hex strings are equal iff the 8 integers are. *)
Definition hex_eqb (a b : claim) : bool := list_eqb Z.eqb (ints a) (ints b).

Definition verify_binding (O : oracles) (c : cred) (cl : claim) : res unit :=
  o <- opts_of_claim cl ;;
  cl' <- fst (to_core_claim O c (Some o)) ;;
  if hex_eqb cl cl' then Ok tt else Err e_another_credential.

(* ---------- W3CCredential.VerifyProof ----------
   A proof object as VerifyProof sees it: its ProofType(), the result of
   GetCoreClaim() and the rest of the object (type X), which only the
   proof-type specific verifiers look at.  Those verifiers (remarshalObj +
   verifyBJJSignatureProof / verifyIden3SparseMerkleTreeProof, including the
   DID resolver and every option) are parameters: C06 says nothing about them
   except WHEN they run. *)
Definition bjj_proof_type := "BJJSignature2021".
Definition smt_proof_type := "Iden3SparseMerkleTreeProof".
Definition e_proof_not_found := "proof-not-found".
Definition e_core_claim := "cant-get-core-claim".
Definition e_proof_not_supported := "proof-not-supported".

Section VerifyProof.
  Variable X : Type.
  Record vproof := { vp_type : string; vp_claim : res claim; vp_body : X }.
  Variable step_bjj : X -> claim -> res unit.
  Variable step_smt : X -> claim -> res unit.

  (* for _, p := range vc.Proof { if p.ProofType() == proofType { credProof = p; break } } *)
  Definition select_proof (ps : list vproof) (pt : string) : option vproof :=
    find (fun p => String.eqb (vp_type p) pt) ps.

  (* the switch on proofType after the binding check *)
  Definition dispatch (pt : string) (p : vproof) (cl : claim) : res unit :=
    if String.eqb pt bjj_proof_type then step_bjj (vp_body p) cl
    else if String.eqb pt smt_proof_type then step_smt (vp_body p) cl
    else Err e_proof_not_supported.

  Definition verify_proof (O : oracles) (c : cred) (ps : list vproof) (pt : string) : res unit :=
    match select_proof ps pt with
    | None => Err e_proof_not_found
    | Some p =>
        match vp_claim p with
        | Err _ => Err e_core_claim
        | Panic w => Panic w
        | Diverge => Diverge
        | Ok cl =>
            _ <- verify_binding O c cl ;;
            dispatch pt p cl
        end
    end.
End VerifyProof.
