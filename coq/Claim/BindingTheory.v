(* Claim/BindingTheory.v — theorems about the credential / claim binding check
   (property C06).  Model: Claim/Model.v (ToCoreClaim, core.Claim slots, owned by
   the C05 development) + Claim/Binding.v (verifyCredentialCoreClaim, VerifyProof).

   Structure
     1. bit-field lemmas for get_field / set_field (own copies: this file does not
        depend on Claim/Theory.v)
     2. [derive]: the re-derivation `fst (to_core_claim O c (Some o))` written as one
        function of the options; [to_core_claim_derive] is the ONLY lemma that
        unfolds Model.to_core_claim
     3. [build_reads]: every field of a claim built by ToCoreClaim, read back
     4. [derive_readback]: idempotence through the claim  (=> completeness)
     5. binding-level theorems: verify_binding_iff, binding_complete, binding_exact,
        binding_sound_meta, binding_tamper_rejected, binding_sound_doc,
        binding_sound_entries (with SMT.Sound: equal roots => equal entries or an
        explicit Collision)
     6. VerifyProof runs the binding check first
     7. Examples (non-vacuity) *)
From Coq Require Import ZArith List String Ascii Bool Lia Permutation.
From GSP Require Import Base.Prelude SMT.Model SMT.Theory SMT.Sound Claim.Model Claim.Binding.
Import ListNotations.
Open Scope string_scope.
Open Scope list_scope.
Open Scope Z_scope.

(* ------------------------------------------------------------------ *)
Lemma pow2_pos : forall n, 0 <= n -> 0 < 2 ^ n.
Proof. intros. apply Z.pow_pos_nonneg; lia. Qed.

Lemma get_set_same : forall x off w v, 0 <= off -> 0 <= w ->
  get_field (set_field x off w v) off w = v mod 2 ^ w.
Proof.
  intros x off w v Hoff Hw. unfold set_field, get_field.
  pose proof (pow2_pos off Hoff) as Po. pose proof (pow2_pos w Hw) as Pw.
  rewrite Z.div_add by lia.
  set (A := x / 2 ^ off).
  replace (A + (v mod 2 ^ w - A mod 2 ^ w)) with (v mod 2 ^ w + (A / 2 ^ w) * 2 ^ w).
  - rewrite Z.mod_add by lia. apply Z.mod_mod. lia.
  - pose proof (Z.div_mod A (2 ^ w)). lia.
Qed.

(* adding a multiple of 2^(off+w) does not change the field *)
Lemma get_field_add_high : forall x m off w, 0 <= off -> 0 <= w ->
  get_field (x + m * 2 ^ (off + w)) off w = get_field x off w.
Proof.
  intros x m off w Hoff Hw. unfold get_field.
  pose proof (pow2_pos off Hoff) as Po. pose proof (pow2_pos w Hw) as Pw.
  rewrite Z.pow_add_r by lia.
  replace (m * (2 ^ off * 2 ^ w)) with ((m * 2 ^ w) * 2 ^ off) by ring.
  rewrite Z.div_add by lia. rewrite Z.mod_add by lia. reflexivity.
Qed.

Lemma get_set_below : forall x off w v off' w', 0 <= off' -> 0 <= w' -> off' + w' <= off ->
  get_field (set_field x off w v) off' w' = get_field x off' w'.
Proof.
  intros x off w v off' w' H1 H2 H3. unfold set_field.
  replace (2 ^ off) with (2 ^ (off - (off' + w')) * 2 ^ (off' + w')).
  - rewrite Z.mul_assoc. apply get_field_add_high; lia.
  - rewrite <- Z.pow_add_r by lia. f_equal. lia.
Qed.

Lemma get_set_above : forall x off w v off' w', 0 <= off -> 0 <= w -> off + w <= off' ->
  get_field (set_field x off w v) off' w' = get_field x off' w'.
Proof.
  intros x off w v off' w' Hoff Hw H3.
  assert (Hd : set_field x off w v / 2 ^ off' = x / 2 ^ off'); [| unfold get_field; now rewrite Hd].
  pose proof (pow2_pos off Hoff) as Po. pose proof (pow2_pos w Hw) as Pw.
  assert (He : 0 <= off' - off - w) by lia.
  pose proof (pow2_pos _ He) as Pe.
  replace (2 ^ off') with (2 ^ off * (2 ^ w * 2 ^ (off' - off - w))).
  2:{ rewrite <- !Z.pow_add_r by lia. f_equal. lia. }
  rewrite <- !Z.div_div by lia.
  f_equal.
  unfold set_field, get_field. rewrite Z.div_add by lia.
  set (A := x / 2 ^ off).
  pose proof (Z.div_mod A (2 ^ w)) as HA.
  pose proof (Z.mod_pos_bound v (2 ^ w) Pw) as Hv.
  replace (A + (v mod 2 ^ w - A mod 2 ^ w)) with (v mod 2 ^ w + (A / 2 ^ w) * 2 ^ w) by lia.
  rewrite Z.div_add by lia. rewrite Z.div_small by lia. lia.
Qed.

(* ------------------------------------------------------------------ *)
Lemma get_field_zero : forall off w, get_field 0 off w = 0.
Proof. intros. unfold get_field. rewrite Zdiv_0_l. apply Zmod_0_l. Qed.

Lemma set_field_zero : forall w v, set_field 0 0 w v = v mod 2 ^ w.
Proof. intros. unfold set_field. rewrite get_field_zero. change (2 ^ 0) with 1. lia. Qed.

Lemma set_field_mod : forall x off w v, set_field x off w (v mod 2 ^ w) = set_field x off w v.
Proof.
  intros. unfold set_field. destruct (Z.eq_dec (2 ^ w) 0) as [E|E].
  - rewrite E. now rewrite !Zmod_0_r.
  - now rewrite Z.mod_mod.
Qed.

(* ---------- the re-derivation as a function of the options ---------- *)
Definition eff_root_pos (non_merklized : bool) (rp : string) : res string :=
  if negb non_merklized then Ok (if String.eqb rp "" then pos_index else rp)
  else if negb (String.eqb rp "") then Err "root-position-not-supported"
  else Ok rp.

Definition place_subject (O : oracles) (c : cred) (sp : string) (cl : claim) : res claim :=
  match c_subject c with
  | None => Ok cl
  | Some s =>
      id <- of_option (did_to_id O s) "did" ;;
      if String.eqb sp "" || String.eqb sp pos_index then Ok (set_index_id cl id)
      else if String.eqb sp pos_value then Ok (set_value_id cl id)
      else Err "unknown-subject-position"
  end.

Definition place_root (mz : mzview) (rp : string) (cl : claim) : res claim :=
  if String.eqb rp pos_index then set_index_merklized_root cl (m_root mz)
  else if String.eqb rp pos_value then set_value_merklized_root cl (m_root mz)
  else if String.eqb rp "" then Ok cl
  else Err "unknown-root-position".

Definition build (O : oracles) (c : cred) (mz : mzview) (ty : string) (sl : slots)
  (nonce ver : Z) (upd : bool) (sp rp : string) : res claim :=
  cl <- new_claim (schema_hash O ty) sl nonce ver ;;
  let cl := if upd then set_flag_updatable cl true else cl in
  let cl := match c_expiration c with Some e => set_expiration_date cl e | None => cl end in
  cl <- place_subject O c sp cl ;;
  place_root mz rp cl.

Definition derive (O : oracles) (c : cred) (o : opts) : res claim :=
  mz <- of_option (c_mz c) "merklize" ;;
  ty <- find_credential_type mz ;;
  sn <- parse_slots c mz ty ;;
  rp <- eff_root_pos (snd sn) (o_root_pos o) ;;
  build O c mz ty (fst sn) (o_nonce o) (o_version o) (o_updatable o) (o_subject_pos o) rp.

Lemma to_core_claim_derive : forall O c o, fst (to_core_claim O c (Some o)) = derive O c o.
Proof.
  intros O c o. unfold to_core_claim, to_core_claim_at, derive, tcc_prefix, tcc_root_default, eff_root_pos.
  cbn [fst snd oload ostore_w st_local st_caller].
  destruct (of_option (c_mz c) "merklize") as [mz| | |]; cbn [bind fst]; try reflexivity.
  destruct (find_credential_type mz) as [ty| | |]; cbn [bind fst]; try reflexivity.
  destruct (parse_slots c mz ty) as [[sl nm]| | |]; cbn [bind fst snd]; try reflexivity.
  destruct nm; cbn [negb].
  - destruct (String.eqb (o_root_pos o) ""); cbn [negb bind fst oload st_local]; try reflexivity.
    unfold tcc_build, build, place_subject, place_root.
    destruct (o_updatable o); reflexivity.
  - destruct (String.eqb (o_root_pos o) "") eqn:E; cbn [negb bind fst oload st_local ostore_w];
    unfold tcc_build, build, place_subject, place_root, with_root_pos;
    cbn [o_nonce o_version o_subject_pos o_root_pos o_updatable];
    destruct (o_updatable o); reflexivity.
Qed.

(* ------------------------------------------------------------------ *)
Definition rd_schema (cl : claim) : Z := get_field (i0 cl) off_schema w_schema.
Definition rd_expflag (cl : claim) : Z := get_field (i0 cl) off_expflag 1.
Definition rd_exp (cl : claim) : Z := get_field (v0 cl) 64 64.

Lemma new_claim_ok : forall sh sl nonce ver cl,
  new_claim sh sl nonce ver = Ok cl ->
  cl = {| i0 := set_field (set_field 0 off_schema w_schema sh) off_version w_version ver;
          i1 := 0; i2 := s_index_a sl; i3 := s_index_b sl;
          v0 := set_field 0 0 64 nonce; v1 := 0; v2 := s_value_a sl; v3 := s_value_b sl |}.
Proof.
  intros sh sl nonce ver cl H. unfold new_claim, set_slot_bytes in H.
  destruct (s_index_a sl <? q); [|discriminate].
  destruct (s_index_b sl <? q); [|discriminate].
  destruct (s_value_a sl <? q); [|discriminate].
  destruct (s_value_b sl <? q); [|discriminate].
  cbn [bind] in H. inversion H. reflexivity.
Qed.

Lemma get_set_same_b : forall x off w v, ((0 <=? off) && (0 <=? w)) = true ->
  get_field (set_field x off w v) off w = v mod 2 ^ w.
Proof. intros x off w v H. apply andb_prop in H. destruct H as [H1 H2].
  apply get_set_same; lia. Qed.
Lemma get_set_below_b : forall x off w v off' w',
  ((0 <=? off') && (0 <=? w') && (off' + w' <=? off)) = true ->
  get_field (set_field x off w v) off' w' = get_field x off' w'.
Proof. intros x off w v off' w' H. apply andb_prop in H. destruct H as [H H3].
  apply andb_prop in H. destruct H as [H1 H2]. apply get_set_below; lia. Qed.
Lemma get_set_above_b : forall x off w v off' w',
  ((0 <=? off) && (0 <=? w) && (off + w <=? off')) = true ->
  get_field (set_field x off w v) off' w' = get_field x off' w'.
Proof. intros x off w v off' w' H. apply andb_prop in H. destruct H as [H H3].
  apply andb_prop in H. destruct H as [H1 H2]. apply get_set_above; lia. Qed.
Ltac side := reflexivity.
Ltac fields :=
  repeat first
    [ rewrite get_set_same_b by side
    | rewrite get_set_below_b by side
    | rewrite get_set_above_b by side
    | rewrite get_field_zero
    | rewrite set_field_zero ].

Ltac expose :=
  cbv beta iota zeta delta
    [get_revocation_nonce get_version get_flag_updatable get_subject get_merklized
     rd_schema rd_expflag rd_exp
     set_index_id set_value_id set_subject set_expiration_date set_flag_expiration
     set_flag_updatable set_flag_merklized b2z
     with_i0 with_i1 with_i2 with_i3 with_v0 with_v1 with_v2 with_v3
     i0 i1 i2 i3 v0 v1 v2 v3].

Ltac fin := repeat split; try reflexivity; auto.
Ltac ors := first [ solve [fin] | left; ors | right; ors ].

Definition subject_reads (O : oracles) (c : cred) (sp : string) (cl : claim) : Prop :=
  match c_subject c with
  | None => get_subject cl = subject_self /\ i1 cl = 0 /\ v1 cl = 0
  | Some s => exists id, did_to_id O s = Some id /\
      (((sp = "" \/ sp = pos_index) /\ get_subject cl = subject_index /\ i1 cl = id mod 2 ^ w_id /\ v1 cl = 0) \/
       (sp = pos_value /\ get_subject cl = subject_value /\ v1 cl = id mod 2 ^ w_id /\ i1 cl = 0))
  end.

Definition root_reads (mz : mzview) (sl : slots) (rp : string) (cl : claim) : Prop :=
  (rp = pos_index /\ get_merklized cl = mrk_index /\ i2 cl = m_root mz /\ v2 cl = 0) \/
  (rp = pos_value /\ get_merklized cl = mrk_value /\ v2 cl = m_root mz /\ i2 cl = 0) \/
  (rp = "" /\ get_merklized cl = mrk_none /\ i2 cl = s_index_a sl /\ v2 cl = s_value_a sl).

Lemma build_reads : forall O c mz ty sl nonce ver upd sp rp cl,
  build O c mz ty sl nonce ver upd sp rp = Ok cl ->
  get_revocation_nonce cl = nonce mod 2 ^ 64 /\
  get_version cl = ver mod 2 ^ w_version /\
  get_flag_updatable cl = upd /\
  rd_schema cl = schema_hash O ty mod 2 ^ w_schema /\
  rd_expflag cl = match c_expiration c with Some _ => 1 | None => 0 end /\
  rd_exp cl = match c_expiration c with Some e => e mod 2 ^ 64 | None => 0 end /\
  i3 cl = s_index_b sl /\ v3 cl = s_value_b sl /\
  subject_reads O c sp cl /\
  root_reads mz sl rp cl.
Proof.
  intros O c mz ty sl nonce ver upd sp rp cl H. unfold build in H.
  destruct (new_claim (schema_hash O ty) sl nonce ver) as [cl0| | |] eqn:Hn; try discriminate.
  apply new_claim_ok in Hn. cbn [bind] in H.
  unfold place_subject, place_root, subject_reads, root_reads in *.
  unfold set_index_merklized_root, set_value_merklized_root, set_slot_int in H.
  destruct (c_subject c) as [s|];
  [ destruct (did_to_id O s) as [id|]; cbn [of_option bind] in H; [|discriminate];
    destruct (String.eqb sp "") eqn:Esp0; [apply String.eqb_eq in Esp0|];
    [|destruct (String.eqb sp pos_index) eqn:Espi; [apply String.eqb_eq in Espi|];
      [|destruct (String.eqb sp pos_value) eqn:Espv; [apply String.eqb_eq in Espv|]]];
    cbn [orb bind] in H; try discriminate
  | cbn [bind] in H ];
  (destruct (String.eqb rp pos_index) eqn:Erpi; [apply String.eqb_eq in Erpi|];
   [|destruct (String.eqb rp pos_value) eqn:Erpv; [apply String.eqb_eq in Erpv|];
     [|destruct (String.eqb rp "") eqn:Erp0; [apply String.eqb_eq in Erp0|]]]);
  try discriminate;
  try (destruct (in_field (m_root mz)); cbn [bind] in H; [|discriminate]).
  idtac.
  all: inversion H as [Hcl]; clear H; subst cl0.
  all: destruct upd; destruct (c_expiration c) as [e|].
  all: expose.
  all: fields.
  all: (repeat match goal with |- _ /\ _ => split end); try reflexivity.
  all: try (eexists; split; [reflexivity|]).
  all: ors.
Qed.

(* ------------------------------------------------------------------ *)
(* the subject position as the claim records it *)
Definition norm_sp (c : cred) (sp : string) : string :=
  match c_subject c with
  | None => ""
  | Some _ => if String.eqb sp "" || String.eqb sp pos_index then pos_index else pos_value
  end.

Lemma new_claim_norm : forall sh sl nonce ver,
  new_claim sh sl (nonce mod 2 ^ 64) (ver mod 2 ^ w_version) = new_claim sh sl nonce ver.
Proof.
  intros. unfold new_claim.
  destruct (set_slot_bytes (s_index_a sl)); cbn [bind]; try reflexivity.
  destruct (set_slot_bytes (s_index_b sl)); cbn [bind]; try reflexivity.
  destruct (set_slot_bytes (s_value_a sl)); cbn [bind]; try reflexivity.
  destruct (set_slot_bytes (s_value_b sl)); cbn [bind]; try reflexivity.
  unfold set_revocation_nonce, set_version. now rewrite !set_field_mod.
Qed.

Lemma place_subject_norm : forall O c sp x y,
  place_subject O c sp x = Ok y -> place_subject O c (norm_sp c sp) x = Ok y.
Proof.
  intros O c sp x y H. unfold place_subject, norm_sp in *.
  destruct (c_subject c) as [s|]; [|exact H].
  destruct (of_option (did_to_id O s) "did") as [id| | |]; cbn [bind] in *; try discriminate.
  destruct (String.eqb sp "" || String.eqb sp pos_index) eqn:E.
  - exact H.
  - destruct (String.eqb sp pos_value); [exact H|discriminate].
Qed.

Lemma build_norm : forall O c mz ty sl nonce ver upd sp rp cl,
  build O c mz ty sl nonce ver upd sp rp = Ok cl ->
  build O c mz ty sl (nonce mod 2 ^ 64) (ver mod 2 ^ w_version) upd (norm_sp c sp) rp = Ok cl.
Proof.
  intros O c mz ty sl nonce ver upd sp rp cl H. unfold build in *.
  rewrite new_claim_norm.
  destruct (new_claim (schema_hash O ty) sl nonce ver) as [cl0| | |]; cbn [bind] in *; try discriminate.
  match type of H with (bind (place_subject O c sp ?x) _ = _) =>
    destruct (place_subject O c sp x) as [cl1| | |] eqn:Hp; cbn [bind] in H; try discriminate;
    apply place_subject_norm in Hp; rewrite Hp end.
  exact H.
Qed.

Lemma opts_of_built : forall O c mz ty sl nonce ver upd sp rp cl,
  build O c mz ty sl nonce ver upd sp rp = Ok cl ->
  opts_of_claim cl =
  Ok {| o_nonce := nonce mod 2 ^ 64; o_version := ver mod 2 ^ w_version;
        o_subject_pos := norm_sp c sp; o_root_pos := rp; o_updatable := upd |}.
Proof.
  intros O c mz ty sl nonce ver upd sp rp cl H.
  apply build_reads in H. destruct H as (Hn & Hv & Hu & _ & _ & _ & _ & _ & Hs & Hr).
  unfold opts_of_claim, get_merklized_position, get_id_position.
  rewrite Hn, Hv, Hu. unfold subject_reads, norm_sp in *. unfold root_reads in Hr.
  destruct Hr as [(-> & Hm & _) | [(-> & Hm & _) | (-> & Hm & _)]]; rewrite Hm;
  (destruct (c_subject c) as [s|];
   [ destruct Hs as (id & _ & [([-> | ->] & Hg & _) | (-> & Hg & _)]) | destruct Hs as (Hg & _) ];
   rewrite Hg; reflexivity).
Qed.

(* ToCoreClaim is idempotent through the claim: re-deriving with the options
   read back from the result gives the same claim *)
Theorem derive_readback : forall O c o cl,
  derive O c o = Ok cl ->
  exists o', opts_of_claim cl = Ok o' /\ derive O c o' = Ok cl.
Proof.
  intros O c o cl H. unfold derive in H.
  destruct (of_option (c_mz c) "merklize") as [mz| | |] eqn:Hmz; cbn [bind] in H; try discriminate.
  destruct (find_credential_type mz) as [ty| | |] eqn:Hty; cbn [bind] in H; try discriminate.
  destruct (parse_slots c mz ty) as [[sl nm]| | |] eqn:Hps; cbn [bind fst snd] in H; try discriminate.
  destruct (eff_root_pos nm (o_root_pos o)) as [rp| | |] eqn:Hrp; cbn [bind] in H; try discriminate.
  pose proof (opts_of_built _ _ _ _ _ _ _ _ _ _ _ H) as Ho.
  pose proof (build_reads _ _ _ _ _ _ _ _ _ _ _ H) as Hr.
  destruct Hr as (_ & _ & _ & _ & _ & _ & _ & _ & _ & Hr).
  eexists. split; [exact Ho|].
  unfold derive. rewrite Hmz. cbn [bind]. rewrite Hty. cbn [bind]. rewrite Hps.
  cbn [bind fst snd o_nonce o_version o_subject_pos o_root_pos o_updatable].
  assert (Heff : eff_root_pos nm rp = Ok rp).
  { unfold eff_root_pos in *. destruct nm; cbn [negb] in *.
    - destruct (String.eqb (o_root_pos o) "") eqn:E; cbn [negb] in Hrp; [|discriminate].
      inversion Hrp; subst rp. now rewrite E.
    - unfold root_reads in Hr.
      destruct Hr as [(-> & _) | [(-> & _) | (-> & _)]]; try reflexivity.
      destruct (String.eqb (o_root_pos o) "") eqn:E; inversion Hrp as [Hx].
      rewrite Hx in E. discriminate. }
  rewrite Heff. cbn [bind]. apply build_norm. exact H.
Qed.

(* ------------------------------------------------------------------ *)
Lemma hex_eqb_eq : forall a b, hex_eqb a b = true <-> a = b.
Proof.
  intros a b. split.
  - destruct a, b. unfold hex_eqb, ints. cbn [Model.i0 Model.i1 Model.i2 Model.i3 Model.v0 Model.v1 Model.v2 Model.v3 list_eqb].
    intros H.
    repeat (apply andb_prop in H; let h := fresh "E" in destruct H as [h H]; apply Z.eqb_eq in h).
    subst. reflexivity.
  - intros ->. destruct b. unfold hex_eqb, ints. cbn [Model.i0 Model.i1 Model.i2 Model.i3 Model.v0 Model.v1 Model.v2 Model.v3 list_eqb].
    now rewrite !Z.eqb_refl.
Qed.

Lemma to_core_claim_nil : forall O c,
  fst (to_core_claim O c None) = fst (to_core_claim O c (Some default_opts)).
Proof. reflexivity. Qed.

(* the binding check accepts exactly the claims that re-derive to themselves *)
Theorem verify_binding_iff : forall O c cl,
  verify_binding O c cl = Ok tt <->
  exists o, opts_of_claim cl = Ok o /\ derive O c o = Ok cl.
Proof.
  intros O c cl. unfold verify_binding. split.
  - intros H. destruct (opts_of_claim cl) as [o| | |]; cbn [bind] in H; try discriminate.
    rewrite to_core_claim_derive in H.
    destruct (derive O c o) as [cl'| | |] eqn:Hd; cbn [bind] in H; try discriminate.
    destruct (hex_eqb cl cl') eqn:E; [|discriminate].
    apply hex_eqb_eq in E. subst cl'. exists o. split; [reflexivity|exact Hd].
  - intros (o & Ho & Hd). rewrite Ho. cbn [bind]. rewrite to_core_claim_derive, Hd. cbn [bind].
    assert (E : hex_eqb cl cl = true) by (apply hex_eqb_eq; reflexivity).
    now rewrite E.
Qed.

(* the outcome is always Ok or an error: the check itself adds no Panic / Diverge *)
Theorem binding_complete : forall O c caller cl,
  fst (to_core_claim O c caller) = Ok cl -> verify_binding O c cl = Ok tt.
Proof.
  intros O c caller cl H.
  assert (Hd : exists o, derive O c o = Ok cl).
  { destruct caller as [o|].
    - exists o. now rewrite <- to_core_claim_derive.
    - exists default_opts. rewrite <- to_core_claim_derive. now rewrite <- to_core_claim_nil. }
  destruct Hd as (o & Hd). apply verify_binding_iff. eapply derive_readback. exact Hd.
Qed.

Theorem binding_exact : forall O c cl,
  verify_binding O c cl = Ok tt <-> exists o, fst (to_core_claim O c (Some o)) = Ok cl.
Proof.
  intros O c cl. split.
  - intros H. apply verify_binding_iff in H. destruct H as (o & _ & Hd).
    exists o. now rewrite to_core_claim_derive.
  - intros (o & H). eapply binding_complete. exact H.
Qed.

Theorem binding_sound_meta : forall O c cl cl',
  verify_binding O c cl = Ok tt -> verify_binding O c cl' = Ok tt ->
  opts_of_claim cl = opts_of_claim cl' -> cl = cl'.
Proof.
  intros O c cl cl' H H' E.
  apply verify_binding_iff in H. apply verify_binding_iff in H'.
  destruct H as (o & Ho & Hd). destruct H' as (o' & Ho' & Hd').
  rewrite E, Ho' in Ho. inversion Ho; subst o'. rewrite Hd in Hd'. now inversion Hd'.
Qed.

(* single-site form: a claim accepted for c, changed anywhere without changing
   what verifyCredentialCoreClaim reads back, is rejected with the comparison error *)
Theorem binding_tamper_rejected : forall O c cl cl',
  verify_binding O c cl = Ok tt -> cl' <> cl -> opts_of_claim cl' = opts_of_claim cl ->
  verify_binding O c cl' = Err e_another_credential.
Proof.
  intros O c cl cl' H Hne E.
  apply verify_binding_iff in H. destruct H as (o & Ho & Hd).
  unfold verify_binding. rewrite E, Ho. cbn [bind]. rewrite to_core_claim_derive, Hd. cbn [bind].
  destruct (hex_eqb cl' cl) eqn:Eh; [|reflexivity].
  apply hex_eqb_eq in Eh. contradiction.
Qed.

(* ------------------------------------------------------------------ *)
(* ---------- range of the schema hash ---------- *)
Lemma bswap_acc_range : forall n x acc, 0 <= acc ->
  0 <= bswap_acc n x acc < (acc + 1) * 256 ^ Z.of_nat n.
Proof.
  induction n as [|k IH]; intros x acc Hacc.
  - cbn [bswap_acc]. change (256 ^ Z.of_nat 0) with 1. lia.
  - cbn [bswap_acc].
    pose proof (Z.mod_pos_bound x 256 ltac:(lia)) as Hm.
    specialize (IH (x / 256) (acc * 256 + x mod 256) ltac:(lia)).
    rewrite Nat2Z.inj_succ, Z.pow_succ_r by lia.
    assert (0 < 256 ^ Z.of_nat k) by (apply Z.pow_pos_nonneg; lia).
    nia.
Qed.

Lemma schema_hash_range : forall O ty, 0 <= schema_hash O ty < 2 ^ w_schema.
Proof.
  intros. unfold schema_hash, bswap.
  pose proof (bswap_acc_range 16 (keccak O ty mod 2 ^ 128) 0 ltac:(lia)) as H.
  change ((0 + 1) * 256 ^ Z.of_nat 16) with (2 ^ w_schema) in H. exact H.
Qed.

(* ---------- what ToCoreClaim reads from the credential ---------- *)
Definition cred_view (c : cred) : res (mzview * string * slots * bool) :=
  mz <- of_option (c_mz c) "merklize" ;;
  ty <- find_credential_type mz ;;
  sn <- parse_slots c mz ty ;;
  Ok (mz, ty, fst sn, snd sn).

Lemma derive_inv : forall O c o cl, derive O c o = Ok cl ->
  exists mz ty sl nm rp,
    cred_view c = Ok (mz, ty, sl, nm) /\
    eff_root_pos nm (o_root_pos o) = Ok rp /\
    build O c mz ty sl (o_nonce o) (o_version o) (o_updatable o) (o_subject_pos o) rp = Ok cl.
Proof.
  intros O c o cl H. unfold derive in H. unfold cred_view.
  destruct (of_option (c_mz c) "merklize") as [mz| | |]; cbn [bind] in *; try discriminate.
  destruct (find_credential_type mz) as [ty| | |]; cbn [bind] in *; try discriminate.
  destruct (parse_slots c mz ty) as [[sl nm]| | |]; cbn [bind fst snd] in *; try discriminate.
  destruct (eff_root_pos nm (o_root_pos o)) as [rp| | |] eqn:Hrp; cbn [bind] in *; try discriminate.
  exists mz, ty, sl, nm, rp. auto.
Qed.

Definition opt_rel {A} (R : A -> A -> Prop) (a b : option A) : Prop :=
  match a, b with
  | None, None => True
  | Some x, Some y => R x y
  | _, _ => False
  end.

Definition same_expiration (e e' : Z) : Prop := e mod 2 ^ 64 = e' mod 2 ^ 64.
Definition same_subject (O : oracles) (s s' : string) : Prop :=
  exists id id', did_to_id O s = Some id /\ did_to_id O s' = Some id' /\
                 id mod 2 ^ w_id = id' mod 2 ^ w_id.

Lemma eff_root_pos_cases : forall nm x rp, eff_root_pos nm x = Ok rp ->
  (nm = true /\ x = "" /\ rp = "") \/ (nm = false /\ rp <> "").
Proof.
  intros nm x rp H. unfold eff_root_pos in H. destruct nm; cbn [negb] in H.
  - destruct (String.eqb x "") eqn:E; cbn [negb] in H; [|discriminate].
    apply String.eqb_eq in E. inversion H. subst. auto.
  - right. split; [reflexivity|]. destruct (String.eqb x "") eqn:E; inversion H; subst.
    + discriminate.
    + intros ->. discriminate.
Qed.

Theorem binding_sound_doc : forall O c c' cl,
  verify_binding O c cl = Ok tt -> verify_binding O c' cl = Ok tt ->
  exists mz ty sl mz' ty' sl' nm,
    cred_view c = Ok (mz, ty, sl, nm) /\ cred_view c' = Ok (mz', ty', sl', nm) /\
    schema_hash O ty = schema_hash O ty' /\
    (nm = false -> m_root mz = m_root mz') /\
    (nm = true -> sl = sl') /\
    opt_rel same_expiration (c_expiration c) (c_expiration c') /\
    opt_rel (same_subject O) (c_subject c) (c_subject c').
Proof.
  intros O c c' cl H H'.
  apply verify_binding_iff in H. apply verify_binding_iff in H'.
  destruct H as (o & Ho & Hd). destruct H' as (o' & Ho' & Hd').
  rewrite Ho in Ho'. inversion Ho'; subst o'. clear Ho'.
  apply derive_inv in Hd. apply derive_inv in Hd'.
  destruct Hd as (mz & ty & sl & nm & rp & Hv & Hrp & Hb).
  destruct Hd' as (mz' & ty' & sl' & nm' & rp' & Hv' & Hrp' & Hb').
  apply build_reads in Hb. apply build_reads in Hb'.
  destruct Hb as (_ & _ & _ & Hs & Hef & He & Hi3 & Hv3 & Hsu & Hr).
  destruct Hb' as (_ & _ & _ & Hs' & Hef' & He' & Hi3' & Hv3' & Hsu' & Hr').
  (* the root position is recorded in the claim: the same for both *)
  assert (Erp : rp = rp').
  { unfold root_reads in *.
    destruct Hr as [(-> & Hm & _) | [(-> & Hm & _) | (-> & Hm & _)]];
    destruct Hr' as [(-> & Hm' & _) | [(-> & Hm' & _) | (-> & Hm' & _)]];
    try reflexivity; rewrite Hm in Hm'; discriminate. }
  subst rp'.
  assert (Enm : nm = nm').
  { apply eff_root_pos_cases in Hrp. apply eff_root_pos_cases in Hrp'.
    destruct Hrp as [(-> & _ & ->) | (-> & Hne)]; destruct Hrp' as [(-> & _ & E') | (-> & Hne')];
    try reflexivity; congruence. }
  subst nm'.
  exists mz, ty, sl, mz', ty', sl', nm.
  split; [exact Hv|]. split; [exact Hv'|].
  split.
  { rewrite Hs in Hs'.
    pose proof (schema_hash_range O ty) as R. pose proof (schema_hash_range O ty') as R'.
    rewrite !Z.mod_small in Hs' by assumption. exact Hs'. }
  split.
  { intros ->. apply eff_root_pos_cases in Hrp. destruct Hrp as [(D & _) | (_ & Hne)]; [discriminate|].
    unfold root_reads in *.
    destruct Hr as [(-> & _ & Hx & _) | [(-> & _ & Hx & _) | (-> & _)]]; [| |contradiction];
    (destruct Hr' as [(E & _ & Hx' & _) | [(E & _ & Hx' & _) | (E & _)]]; try discriminate E);
    congruence. }
  split.
  { intros ->. apply eff_root_pos_cases in Hrp. destruct Hrp as [(_ & _ & ->) | (D & _)]; [|discriminate].
    unfold root_reads in *.
    destruct Hr as [(E & _) | [(E & _) | (_ & _ & Ha & Hb)]]; try discriminate E.
    destruct Hr' as [(E & _) | [(E & _) | (_ & _ & Ha' & Hb')]]; try discriminate E.
    rewrite Hi3' in Hi3. rewrite Hv3' in Hv3. rewrite Ha' in Ha. rewrite Hb' in Hb.
    destruct sl as [a1 a2 a3 a4], sl' as [b1 b2 b3 b4]. cbn [s_index_a s_index_b s_value_a s_value_b] in *. congruence. }
  split.
  { unfold opt_rel, same_expiration.
    destruct (c_expiration c) as [e|]; destruct (c_expiration c') as [e'|]; try congruence; exact I. }
  { unfold opt_rel, same_subject, subject_reads in *.
    destruct (c_subject c) as [s|]; destruct (c_subject c') as [s'|].
    - destruct Hsu as (id & Hid & Hsu). destruct Hsu' as (id' & Hid' & Hsu').
      exists id, id'. split; [exact Hid|]. split; [exact Hid'|].
      destruct Hsu as [(_ & Hg & Hx & _) | (_ & Hg & Hx & _)];
      destruct Hsu' as [(_ & Hg' & Hx' & _) | (_ & Hg' & Hx' & _)];
      try congruence; rewrite Hg in Hg'; discriminate.
    - destruct Hsu as (id & _ & [(_ & Hg & _) | (_ & Hg & _)]); destruct Hsu' as (Hg' & _);
      rewrite Hg in Hg'; discriminate.
    - destruct Hsu' as (id & _ & [(_ & Hg & _) | (_ & Hg & _)]); destruct Hsu as (Hg' & _);
      rewrite Hg in Hg'; discriminate.
    - exact I. }
Qed.

(* ------------------------------------------------------------------ *)
(* ---------- entries: equal roots, hence equal entry sets or a collision ---------- *)
Theorem binding_sound_entries : forall (hl hm : Z -> Z -> Z) (maxlev : nat) O c c' cl mz mz' l l' t t',
  verify_binding O c cl = Ok tt -> verify_binding O c' cl = Ok tt ->
  c_mz c = Some mz -> c_mz c' = Some mz' ->
  get_merklized cl <> mrk_none ->
  add_all maxlev l = Ok t -> add_all maxlev l' = Ok t' ->
  root hl hm t = m_root mz -> root hl hm t' = m_root mz' ->
  Permutation l l' \/ Collision hl hm.
Proof.
  intros hl hm maxlev O c c' cl mz mz' l l' t t' H H' Hmz Hmz' Hflag Hl Hl' Hr Hr'.
  destruct (binding_sound_doc _ _ _ _ H H') as
    (mz1 & ty & sl & mz1' & ty' & sl' & nm & Hv & Hv' & _ & Hroot & _).
  assert (E1 : mz1 = mz).
  { unfold cred_view in Hv. rewrite Hmz in Hv. cbn [of_option bind] in Hv.
    destruct (find_credential_type mz); cbn [bind] in Hv; try discriminate.
    destruct (parse_slots c mz a); cbn [bind] in Hv; try discriminate. now inversion Hv. }
  assert (E1' : mz1' = mz').
  { unfold cred_view in Hv'. rewrite Hmz' in Hv'. cbn [of_option bind] in Hv'.
    destruct (find_credential_type mz'); cbn [bind] in Hv'; try discriminate.
    destruct (parse_slots c' mz' a); cbn [bind] in Hv'; try discriminate. now inversion Hv'. }
  subst mz1 mz1'.
  assert (Enm : nm = false).
  { destruct nm; [|reflexivity]. exfalso.
    apply verify_binding_iff in H. destruct H as (o & Ho & Hd).
    apply derive_inv in Hd. destruct Hd as (mz2 & ty2 & sl2 & nm2 & rp & Hv2 & Hrp & Hb).
    rewrite Hv in Hv2. inversion Hv2; subst.
    apply eff_root_pos_cases in Hrp. destruct Hrp as [(_ & _ & ->) | (D & _)]; [|discriminate].
    apply build_reads in Hb. destruct Hb as (_ & _ & _ & _ & _ & _ & _ & _ & _ & Hr2).
    unfold root_reads in Hr2.
    destruct Hr2 as [(E & _) | [(E & _) | (_ & Hm & _)]]; try discriminate E. contradiction. }
  specialize (Hroot Enm).
  eapply add_all_root_binding; eauto. congruence.
Qed.

(* ---------- VerifyProof: the binding check comes first ---------- *)
Section First.
  Variable X : Type.

  Theorem verify_proof_accepts_bound : forall sb ss O c ps pt,
    verify_proof X sb ss O c ps pt = Ok tt ->
    exists p cl, select_proof X ps pt = Some p /\ vp_claim X p = Ok cl /\
                 verify_binding O c cl = Ok tt /\ dispatch X sb ss pt p cl = Ok tt.
  Proof.
    intros sb ss O c ps pt H. unfold verify_proof in H.
    destruct (select_proof X ps pt) as [p|]; [|discriminate].
    destruct (vp_claim X p) as [cl| | |] eqn:Hc; try discriminate.
    destruct (verify_binding O c cl) as [[]| | |] eqn:Hb; cbn [bind] in H; try discriminate.
    exists p, cl. auto.
  Qed.

  (* when the binding check does not pass, the outcome is the binding check's
     outcome whatever the proof-type specific verifiers are: they are not consulted *)
  Theorem verify_proof_binding_first : forall sb ss sb' ss' O c ps pt p cl,
    select_proof X ps pt = Some p -> vp_claim X p = Ok cl ->
    verify_binding O c cl <> Ok tt ->
    verify_proof X sb ss O c ps pt = verify_proof X sb' ss' O c ps pt /\
    (forall e, verify_binding O c cl = Err e -> verify_proof X sb ss O c ps pt = Err e).
  Proof.
    intros sb ss sb' ss' O c ps pt p cl Hs Hc Hb. unfold verify_proof. rewrite Hs, Hc.
    destruct (verify_binding O c cl) as [[]| | |]; cbn [bind].
    - contradiction.
    - split; [reflexivity|]. intros e0 E. exact E.
    - split; [reflexivity|]. intros e0 E. discriminate E.
    - split; [reflexivity|]. intros e0 E. discriminate E.
  Qed.

  (* no proof of the requested type / unreadable claim: decided before any verifier runs *)
  Theorem verify_proof_no_claim : forall sb ss O c ps pt,
    (select_proof X ps pt = None -> verify_proof X sb ss O c ps pt = Err e_proof_not_found) /\
    (forall p e, select_proof X ps pt = Some p -> vp_claim X p = Err e ->
                 verify_proof X sb ss O c ps pt = Err e_core_claim).
  Proof.
    intros. unfold verify_proof. split.
    - intros ->. reflexivity.
    - intros p e -> ->. reflexivity.
  Qed.
End First.

(* ------------------------------------------------------------------ *)
(* corollaries in the vocabulary of Model.to_core_claim *)
Theorem to_core_claim_readback : forall O c o cl,
  fst (to_core_claim O c (Some o)) = Ok cl ->
  exists o', opts_of_claim cl = Ok o' /\ fst (to_core_claim O c (Some o')) = Ok cl.
Proof.
  intros O c o cl H. rewrite to_core_claim_derive in H.
  destruct (derive_readback _ _ _ _ H) as (o' & Ho & Hd).
  exists o'. split; [exact Ho|]. now rewrite to_core_claim_derive.
Qed.

(* equal schema hashes: the same type IRI, or two IRIs whose Keccak digests agree on
   the 16 bytes kept (an explicit collision witness, no injectivity assumed) *)
Theorem binding_sound_type : forall O c c' cl,
  verify_binding O c cl = Ok tt -> verify_binding O c' cl = Ok tt ->
  exists mz ty sl nm mz' ty' sl' nm',
    cred_view c = Ok (mz, ty, sl, nm) /\ cred_view c' = Ok (mz', ty', sl', nm') /\
    (ty = ty' \/ (ty <> ty' /\ schema_hash O ty = schema_hash O ty')).
Proof.
  intros O c c' cl H H'.
  destruct (binding_sound_doc _ _ _ _ H H') as (mz & ty & sl & mz' & ty' & sl' & nm & Hv & Hv' & Hs & _).
  exists mz, ty, sl, nm, mz', ty', sl', nm. split; [exact Hv|]. split; [exact Hv'|].
  destruct (string_dec ty ty') as [E|E]; [left; exact E|right; split; assumption].
Qed.

Lemma same_expiration_int64 : forall e e',
  e mod 2 ^ 64 = e' mod 2 ^ 64 ->
  - 2 ^ 63 <= e < 2 ^ 63 -> - 2 ^ 63 <= e' < 2 ^ 63 -> e = e'.
Proof.
  intros e e' H R R'.
  change (2 ^ 64) with 18446744073709551616 in H.
  change (2 ^ 63) with 9223372036854775808 in R, R'.
  pose proof (Z.div_mod e 18446744073709551616 ltac:(lia)) as D.
  pose proof (Z.div_mod e' 18446744073709551616 ltac:(lia)) as D'.
  lia.
Qed.

Lemma same_id_248 : forall id id',
  id mod 2 ^ w_id = id' mod 2 ^ w_id -> 0 <= id < 2 ^ w_id -> 0 <= id' < 2 ^ w_id -> id = id'.
Proof. intros id id' H R R'. now rewrite !Z.mod_small in H by assumption. Qed.

(* ------------------------------------------------------------------ *)
(* the definitions of Binding.v are the ones at the end of Claim/Model.v *)
Lemma binding_same_as_model : forall O c cl,
  Binding.verify_binding O c cl = Model.verify_binding O c cl.
Proof.
  intros O c cl. unfold Binding.verify_binding, Model.verify_binding,
    Binding.opts_of_claim, Model.opts_of_claim, pos_string, hex_eqb, claim_eqb, e_another_credential.
  destruct (get_merklized_position cl) as [mp| | |]; cbn [bind]; try reflexivity.
  all: try (destruct (get_id_position cl) as [ip| | |]; cbn [bind]; reflexivity).
Qed.

(* ------------------------------------------------------------------ *)
(* Examples: the hypotheses of the theorems are satisfiable by concrete inputs *)
Module Ex.
  Definition O : oracles :=
    {| keccak := fun s => if String.eqb s "urn:T" then 2 ^ 200 + 12345678901234567890 else 2 ^ 130 + 77;
       did_to_id := fun s => if String.eqb s "did:ex:alice" then Some (2 ^ 240 + 5)
                             else if String.eqb s "did:ex:bob" then Some 9 else None |}.
  Definition mz (r : Z) : mzview :=
    {| m_cs_type := Some (RVStr "urn:T"); m_top_type := None; m_root := r;
       m_field := fun p => if String.eqb p "price" then Ok 42 else Err "field" |}.
  (* merklized schema: no serialization attribute in the context *)
  Definition cred_m (r : Z) (subj : option string) (exp : option Z) : cred :=
    {| c_mz := Some (mz r); c_subject := subj; c_expiration := exp; c_ctx := Some [] |}.
  (* serialized schema: slotIndexA=price *)
  Definition cred_s : cred :=
    {| c_mz := Some (mz 1000); c_subject := Some "did:ex:alice"; c_expiration := None;
       c_ctx := Some [ {| t_name := "T"; t_is_map := true;
                          t_ctx := Some (CtxMap (Some "iden3:v1:slotIndexA=price"));
                          t_id := "urn:T" |} ] |}.
  Definition o1 : opts :=
    {| o_nonce := 2 ^ 64 - 1; o_version := 7; o_subject_pos := pos_value; o_root_pos := pos_value;
       o_updatable := true |}.
  Definition c1 := cred_m 1000 (Some "did:ex:alice") (Some (-5)).
  Definition claim_of (c : cred) (o : option opts) : claim :=
    match fst (to_core_claim O c o) with Ok cl => cl | _ => claim_zero end.

  (* issuance succeeds with non-default options, nil options, and for the serialized schema *)
  Example issue_ok :
    is_ok (fst (to_core_claim O c1 (Some o1))) = true /\
    is_ok (fst (to_core_claim O c1 None)) = true /\
    is_ok (fst (to_core_claim O cred_s None)) = true.
  Proof. vm_compute. auto. Qed.

  (* completeness instance *)
  Example complete_ex :
    verify_binding O c1 (claim_of c1 (Some o1)) = Ok tt /\
    verify_binding O c1 (claim_of c1 None) = Ok tt /\
    verify_binding O cred_s (claim_of cred_s None) = Ok tt.
  Proof. vm_compute. auto. Qed.

  (* soundness instances: a changed root, subject, expiration, type of the document, and a
     changed slot of the claim, are all rejected *)
  Example doc_tamper_ex :
    let cl := claim_of c1 (Some o1) in
    verify_binding O (cred_m 1001 (Some "did:ex:alice") (Some (-5))) cl = Err e_another_credential /\
    verify_binding O (cred_m 1000 (Some "did:ex:bob") (Some (-5))) cl = Err e_another_credential /\
    verify_binding O (cred_m 1000 None (Some (-5))) cl = Err e_another_credential /\
    verify_binding O (cred_m 1000 (Some "did:ex:alice") (Some (-4))) cl = Err e_another_credential /\
    verify_binding O (cred_m 1000 (Some "did:ex:alice") None) cl = Err e_another_credential.
  Proof. vm_compute. auto 10. Qed.

  Example claim_tamper_ex :
    let cl := claim_of c1 (Some o1) in
    verify_binding O c1 (with_i3 cl 1) = Err e_another_credential /\
    verify_binding O c1 (with_v2 cl (v2 cl + 1)) = Err e_another_credential /\
    verify_binding O c1 (with_i0 cl (i0 cl + 1)) = Err e_another_credential /\
    opts_of_claim (with_i3 cl 1) = opts_of_claim cl /\ with_i3 cl 1 <> cl.
  Proof. vm_compute. repeat split; auto. discriminate. Qed.

  (* two different credentials accepted for one claim (they differ only in what the claim
     does not depend on: here the context term list) satisfy the hypotheses of binding_sound_doc *)
  Definition c1' : cred :=
    {| c_mz := c_mz c1; c_subject := c_subject c1; c_expiration := c_expiration c1;
       c_ctx := Some [ {| t_name := "Other"; t_is_map := false; t_ctx := None; t_id := "" |} ] |}.
  Example sound_doc_hyp_ex :
    verify_binding O c1 (claim_of c1 (Some o1)) = Ok tt /\
    verify_binding O c1' (claim_of c1 (Some o1)) = Ok tt /\ c1 <> c1'.
  Proof. split; [vm_compute; reflexivity|]. split; [vm_compute; reflexivity|]. discriminate. Qed.

  (* VerifyProof: binding failure wins over an accepting verifier, for a supported and for an
     unsupported proof type; success requires both *)
  Definition yes (_ : unit) (_ : claim) : res unit := Ok tt.
  Definition ps (cl : claim) : list (vproof unit) :=
    [ {| vp_type := "Other2021"; vp_claim := Ok cl; vp_body := tt |};
      {| vp_type := bjj_proof_type; vp_claim := Ok cl; vp_body := tt |} ].
  Example first_ex :
    let good := claim_of c1 (Some o1) in
    let bad := with_i3 good 1 in
    verify_proof unit yes yes O c1 (ps good) bjj_proof_type = Ok tt /\
    verify_proof unit yes yes O c1 (ps bad) bjj_proof_type = Err e_another_credential /\
    verify_proof unit yes yes O c1 (ps bad) "Other2021" = Err e_another_credential /\
    verify_proof unit yes yes O c1 (ps good) "Other2021" = Err e_proof_not_supported /\
    verify_proof unit yes yes O c1 (ps good) smt_proof_type = Err e_proof_not_found.
  Proof. vm_compute. auto 10. Qed.
End Ex.

(* ------------------------------------------------------------------ *)
(* ---------- entries with their raw values ----------
   The leaves of the merklizer's tree are (path key, enc value) where enc is the
   value encoding (integers as themselves, strings through HashBytes, ...).  enc is
   an arbitrary function here; no injectivity is assumed: a pair of different values
   with equal encodings is an explicit disjunct. *)
Section Values.
  Variable V : Type.
  Variable V_eq_dec : forall x y : V, {x = y} + {x <> y}.
  Variable enc : V -> Z.

  Definition ValueCollision : Prop := exists x y : V, x <> y /\ enc x = enc y.
  Definition leaf_of (kx : Z * V) : Z * Z := (fst kx, enc (snd kx)).

  Lemma map_leaf_eq : forall l1 l2 : list (Z * V),
    map leaf_of l1 = map leaf_of l2 -> l1 = l2 \/ ValueCollision.
  Proof.
    induction l1 as [|[k x] l1 IH]; intros [|[k' y] l2] H; cbn [map] in H; try discriminate.
    - left. reflexivity.
    - inversion H as [[Hk He Ht]]. cbn [fst snd] in *. subst k'.
      destruct (V_eq_dec x y) as [E|E].
      + subst y. destruct (IH _ Ht) as [->|C]; [left; reflexivity|right; exact C].
      + right. exists x, y. split; assumption.
  Qed.

  Theorem perm_leaves_values : forall raw raw' : list (Z * V),
    Permutation (map leaf_of raw) (map leaf_of raw') ->
    Permutation raw raw' \/ ValueCollision.
  Proof.
    intros raw raw' H.
    destruct (Permutation_map_inv _ _ H) as (l3 & E & P).
    destruct (map_leaf_eq _ _ E) as [->|C]; [|right; exact C].
    left. symmetry. exact P.
  Qed.

  Theorem binding_sound_entries_values :
    forall (hl hm : Z -> Z -> Z) (maxlev : nat) O c c' cl mz mz' (raw raw' : list (Z * V)) t t',
    verify_binding O c cl = Ok tt -> verify_binding O c' cl = Ok tt ->
    c_mz c = Some mz -> c_mz c' = Some mz' ->
    get_merklized cl <> mrk_none ->
    add_all maxlev (map leaf_of raw) = Ok t -> add_all maxlev (map leaf_of raw') = Ok t' ->
    root hl hm t = m_root mz -> root hl hm t' = m_root mz' ->
    Permutation raw raw' \/ ValueCollision \/ Collision hl hm.
  Proof.
    intros hl hm maxlev O c c' cl mz mz' raw raw' t t' H H' Hm Hm' Hf Ha Ha' Hr Hr'.
    destruct (binding_sound_entries hl hm maxlev O c c' cl mz mz' _ _ t t' H H' Hm Hm' Hf Ha Ha' Hr Hr') as [P|C].
    - destruct (perm_leaves_values _ _ P) as [P'|C]; [left; exact P'|right; left; exact C].
    - right. right. exact C.
  Qed.
End Values.

(* non-vacuity: with an encoding that forgets trailing zeros (as HashBytes' zero padding of
   the last block does for NUL bytes) two different value lists give the same leaves *)
Example value_collision_ex :
  let enc := fun l : list Z => fold_right (fun d acc => d + 256 * acc) 0 l in
  ValueCollision (list Z) enc /\
  Permutation (map (leaf_of (list Z) enc) [(7, [65; 66])]) (map (leaf_of (list Z) enc) [(7, [65; 66; 0])]) /\
  ~ Permutation [(7, [65; 66])] [(7, [65; 66; 0])].
Proof.
  cbn zeta. split; [|split].
  - exists [65; 66], [65; 66; 0]. split; [discriminate|reflexivity].
  - apply Permutation_refl.
  - intros P. apply Permutation_length_1_inv in P. discriminate.
Qed.

(* ------------------------------------------------------------------ *)
(* ---------- what the binding check does NOT bind: the option fields ---------- *)
Lemma set_field_eq : forall x off w v,
  set_field x off w v = x + (v mod 2 ^ w - get_field x off w) * 2 ^ off.
Proof. reflexivity. Qed.

Lemma set_set_same : forall x off w a b, 0 <= off -> 0 <= w ->
  set_field (set_field x off w a) off w b = set_field x off w b.
Proof.
  intros x off w a b Ho Hw. rewrite (set_field_eq (set_field x off w a)).
  rewrite get_set_same by assumption. rewrite !set_field_eq. ring.
Qed.

Lemma set_set_comm : forall x o1 w1 a o2 w2 b,
  0 <= o1 -> 0 <= w1 -> 0 <= o2 -> 0 <= w2 -> (o1 + w1 <= o2 \/ o2 + w2 <= o1) ->
  set_field (set_field x o1 w1 a) o2 w2 b = set_field (set_field x o2 w2 b) o1 w1 a.
Proof.
  intros x o1 w1 a o2 w2 b H1 H2 H3 H4 D.
  assert (G2 : get_field (set_field x o1 w1 a) o2 w2 = get_field x o2 w2).
  { destruct D; [apply get_set_above|apply get_set_below]; lia. }
  assert (G1 : get_field (set_field x o2 w2 b) o1 w1 = get_field x o1 w1).
  { destruct D; [apply get_set_below|apply get_set_above]; lia. }
  rewrite (set_field_eq (set_field x o1 w1 a)), (set_field_eq (set_field x o2 w2 b)), G2, G1.
  rewrite !set_field_eq. ring.
Qed.

Lemma set_get_id : forall x off w v, 0 <= w -> get_field x off w = v mod 2 ^ w -> set_field x off w v = x.
Proof. intros x off w v Hw H. rewrite set_field_eq, H. ring. Qed.

Lemma set_set_comm_b : forall x o1 w1 a o2 w2 b,
  ((0 <=? o1) && (0 <=? w1) && (0 <=? o2) && (0 <=? w2) && ((o1 + w1 <=? o2) || (o2 + w2 <=? o1))) = true ->
  set_field (set_field x o1 w1 a) o2 w2 b = set_field (set_field x o2 w2 b) o1 w1 a.
Proof.
  intros x o1 w1 a o2 w2 b H.
  repeat (apply andb_prop in H; let h := fresh "H" in destruct H as [H h]).
  apply orb_prop in H0. apply set_set_comm; try lia. all: try (destruct H0; [left|right]; lia).
Qed.
Lemma set_set_same_b : forall x off w a b, ((0 <=? off) && (0 <=? w)) = true ->
  set_field (set_field x off w a) off w b = set_field x off w b.
Proof. intros x off w a b H. apply andb_prop in H. destruct H. apply set_set_same; lia. Qed.

Local Opaque set_field get_field Z.pow.

(* changing the nonce of a claim built by ToCoreClaim is building it with that nonce *)
Lemma build_renonce : forall O c mz ty sl nonce ver upd sp rp cl n,
  build O c mz ty sl nonce ver upd sp rp = Ok cl ->
  build O c mz ty sl n ver upd sp rp = Ok (set_revocation_nonce cl n).
Proof.
  intros O c mz ty sl nonce ver upd sp rp cl n H. unfold build in *.
  unfold new_claim, set_slot_bytes in *.
  destruct (s_index_a sl <? q); [|discriminate].
  destruct (s_index_b sl <? q); [|discriminate].
  destruct (s_value_a sl <? q); [|discriminate].
  destruct (s_value_b sl <? q); [|discriminate].
  cbn [bind] in *.
  unfold place_subject, place_root, set_index_merklized_root, set_value_merklized_root, set_slot_int in *.
  destruct (c_subject c) as [s|];
  [ destruct (did_to_id O s) as [id|]; cbn [of_option bind] in *; [|discriminate];
    destruct (String.eqb sp "" || String.eqb sp pos_index);
    [|destruct (String.eqb sp pos_value); [|discriminate]]
  | ];
  cbn [bind] in *;
  (destruct (String.eqb rp pos_index);
   [|destruct (String.eqb rp pos_value); [|destruct (String.eqb rp ""); [|discriminate]]]);
  try (destruct (in_field (m_root mz)); cbn [bind] in *; [|discriminate]);
  inversion H as [Hcl]; clear H; f_equal;
  destruct upd; destruct (c_expiration c) as [e|];
  cbv beta iota zeta delta
    [set_revocation_nonce set_version set_schema_hash claim_zero
     set_index_id set_value_id set_subject set_expiration_date set_flag_expiration
     set_flag_updatable set_flag_merklized b2z
     with_i0 with_i1 with_i2 with_i3 with_v0 with_v1 with_v2 with_v3
     i0 i1 i2 i3 v0 v1 v2 v3];
  f_equal;
  repeat first [ reflexivity
               | rewrite set_set_same_b by reflexivity
               | rewrite (set_set_comm_b _ 64 64 _ 0 64) by reflexivity ].
Qed.


Lemma mk_claim_eq : forall a b c d e f g h a' b' c' d' e' f' g' h',
  a = a' -> b = b' -> c = c' -> d = d' -> e = e' -> f = f' -> g = g' -> h = h' ->
  Build_claim a b c d e f g h = Build_claim a' b' c' d' e' f' g' h'.
Proof. intros; subst; reflexivity. Qed.

Lemma build_reversion : forall O c mz ty sl nonce ver upd sp rp cl v,
  build O c mz ty sl nonce ver upd sp rp = Ok cl ->
  build O c mz ty sl nonce v upd sp rp = Ok (set_version cl v).
Proof.
  intros O c mz ty sl nonce ver upd sp rp cl v H. unfold build in *.
  unfold new_claim, set_slot_bytes in *.
  destruct (s_index_a sl <? q); [|discriminate].
  destruct (s_index_b sl <? q); [|discriminate].
  destruct (s_value_a sl <? q); [|discriminate].
  destruct (s_value_b sl <? q); [|discriminate].
  cbn [bind] in *.
  unfold place_subject, place_root, set_index_merklized_root, set_value_merklized_root, set_slot_int in *.
  destruct (c_subject c) as [s|];
  [ destruct (did_to_id O s) as [id|]; cbn [of_option bind] in *; [|discriminate];
    destruct (String.eqb sp "" || String.eqb sp pos_index);
    [|destruct (String.eqb sp pos_value); [|discriminate]]
  | ];
  cbn [bind] in *;
  (destruct (String.eqb rp pos_index);
   [|destruct (String.eqb rp pos_value); [|destruct (String.eqb rp ""); [|discriminate]]]);
  try (destruct (in_field (m_root mz)); cbn [bind] in *; [|discriminate]);
  inversion H as [Hcl]; clear H; apply (f_equal (@Ok claim));
  destruct upd; destruct (c_expiration c) as [e|];
  cbv beta iota zeta delta
    [set_revocation_nonce set_version set_schema_hash claim_zero
     set_index_id set_value_id set_subject set_expiration_date set_flag_expiration
     set_flag_updatable set_flag_merklized b2z
     with_i0 with_i1 with_i2 with_i3 with_v0 with_v1 with_v2 with_v3
     i0 i1 i2 i3 v0 v1 v2 v3];
  apply mk_claim_eq;
  unfold off_schema, w_schema, off_subject, w_subject, off_expflag, off_updatable, off_merklized, w_merklized, off_version, w_version, w_id;
  repeat first [ match goal with |- ?a = ?a => reflexivity end
               | rewrite set_set_same_b by reflexivity
               | rewrite (set_set_comm_b _ _ _ _ 160 32) by reflexivity ].
Qed.

Lemma build_reupdatable : forall O c mz ty sl nonce ver upd sp rp cl b,
  build O c mz ty sl nonce ver upd sp rp = Ok cl ->
  build O c mz ty sl nonce ver b sp rp = Ok (set_flag_updatable cl b).
Proof.
  intros O c mz ty sl nonce ver upd sp rp cl b H. unfold build in *.
  unfold new_claim, set_slot_bytes in *.
  destruct (s_index_a sl <? q); [|discriminate].
  destruct (s_index_b sl <? q); [|discriminate].
  destruct (s_value_a sl <? q); [|discriminate].
  destruct (s_value_b sl <? q); [|discriminate].
  cbn [bind] in *.
  unfold place_subject, place_root, set_index_merklized_root, set_value_merklized_root, set_slot_int in *.
  destruct (c_subject c) as [s|];
  [ destruct (did_to_id O s) as [id|]; cbn [of_option bind] in *; [|discriminate];
    destruct (String.eqb sp "" || String.eqb sp pos_index);
    [|destruct (String.eqb sp pos_value); [|discriminate]]
  | ];
  cbn [bind] in *;
  (destruct (String.eqb rp pos_index);
   [|destruct (String.eqb rp pos_value); [|destruct (String.eqb rp ""); [|discriminate]]]);
  try (destruct (in_field (m_root mz)); cbn [bind] in *; [|discriminate]);
  inversion H as [Hcl]; clear H; apply (f_equal (@Ok claim));
  destruct upd; destruct b; destruct (c_expiration c) as [e|];
  cbv beta iota zeta delta
    [set_revocation_nonce set_version set_schema_hash claim_zero
     set_index_id set_value_id set_subject set_expiration_date set_flag_expiration
     set_flag_updatable set_flag_merklized b2z
     with_i0 with_i1 with_i2 with_i3 with_v0 with_v1 with_v2 with_v3
     i0 i1 i2 i3 v0 v1 v2 v3];
  apply mk_claim_eq;
  unfold off_schema, w_schema, off_subject, w_subject, off_expflag, off_updatable, off_merklized, w_merklized, off_version, w_version, w_id;
  repeat first [ match goal with |- ?a = ?a => reflexivity end
               | rewrite (set_get_id _ 132 1 0) by (first [lia | fields; reflexivity])
               | rewrite set_set_same_b by reflexivity
               | rewrite (set_set_comm_b _ _ _ _ 132 1) by reflexivity ].
Qed.


Lemma derive_intro : forall O c o mz ty sl nm rp cl,
  cred_view c = Ok (mz, ty, sl, nm) ->
  eff_root_pos nm (o_root_pos o) = Ok rp ->
  build O c mz ty sl (o_nonce o) (o_version o) (o_updatable o) (o_subject_pos o) rp = Ok cl ->
  derive O c o = Ok cl.
Proof.
  intros O c o mz ty sl nm rp cl Hv Hrp Hb. unfold derive. unfold cred_view in Hv.
  destruct (of_option (c_mz c) "merklize") as [mz0| | |]; cbn [bind] in *; try discriminate.
  destruct (find_credential_type mz0) as [ty0| | |]; cbn [bind] in *; try discriminate.
  destruct (parse_slots c mz0 ty0) as [[sl0 nm0]| | |]; cbn [bind fst snd] in *; try discriminate.
  inversion Hv; subst. rewrite Hrp. cbn [bind]. exact Hb.
Qed.

Lemma derive_accepts : forall O c o cl, derive O c o = Ok cl -> verify_binding O c cl = Ok tt.
Proof. intros O c o cl H. apply verify_binding_iff. eapply derive_readback. exact H. Qed.

(* The option fields are free: the nonce, the version and the updatable bit of an accepted
   claim can be set to anything and the binding check still accepts (the result is the claim of
   the same credential under those options).  What protects them is the signature / the
   inclusion proof over the claim, not this check. *)
Theorem binding_option_fields_free : forall O c cl n v b,
  verify_binding O c cl = Ok tt ->
  verify_binding O c (set_revocation_nonce cl n) = Ok tt /\
  verify_binding O c (set_version cl v) = Ok tt /\
  verify_binding O c (set_flag_updatable cl b) = Ok tt.
Proof.
  intros O c cl n v b H.
  apply verify_binding_iff in H. destruct H as (o & _ & Hd).
  apply derive_inv in Hd. destruct Hd as (mz & ty & sl & nm & rp & Hv & Hrp & Hb).
  split; [|split].
  - apply (derive_accepts O c {| o_nonce := n; o_version := o_version o; o_subject_pos := o_subject_pos o;
                                 o_root_pos := o_root_pos o; o_updatable := o_updatable o |}).
    eapply derive_intro; [exact Hv|exact Hrp|]. cbn [o_nonce o_version o_updatable o_subject_pos].
    eapply build_renonce. exact Hb.
  - apply (derive_accepts O c {| o_nonce := o_nonce o; o_version := v; o_subject_pos := o_subject_pos o;
                                 o_root_pos := o_root_pos o; o_updatable := o_updatable o |}).
    eapply derive_intro; [exact Hv|exact Hrp|]. cbn [o_nonce o_version o_updatable o_subject_pos].
    eapply build_reversion. exact Hb.
  - apply (derive_accepts O c {| o_nonce := o_nonce o; o_version := o_version o; o_subject_pos := o_subject_pos o;
                                 o_root_pos := o_root_pos o; o_updatable := b |}).
    eapply derive_intro; [exact Hv|exact Hrp|]. cbn [o_nonce o_version o_updatable o_subject_pos].
    eapply build_reupdatable. exact Hb.
Qed.

Example option_fields_free_ex :
  let cl := Ex.claim_of Ex.c1 (Some Ex.o1) in
  verify_binding Ex.O Ex.c1 cl = Ok tt /\
  set_revocation_nonce cl 5 <> cl /\
  verify_binding Ex.O Ex.c1 (set_revocation_nonce cl 5) = Ok tt.
Proof. vm_compute. repeat split; try reflexivity. discriminate. Qed.

(* ------------------------------------------------------------------ *)
(* ---------- serialized schemas: every field the attribute names is in the claim ----------
   For any assignment of field paths to the four data slots (every subset), a credential
   accepted for a claim has, for every NAMED path, a successful field lookup whose encoding
   is the claim's slot: an absent field is an error, never a zero slot; an unnamed slot is 0. *)
Lemma fill_slot_named : forall mz p x, fill_slot mz p = Ok x -> p <> "" ->
  exists v, m_field mz p = Ok v /\ x = v mod 2 ^ 256.
Proof.
  intros mz p x H Hp. unfold fill_slot in H.
  destruct (String.eqb p "") eqn:E; [apply String.eqb_eq in E; contradiction|].
  destruct (m_field mz p) as [v| | |]; cbn [bind] in H; try discriminate.
  exists v. split; [reflexivity|]. now inversion H.
Qed.

Lemma fill_slot_unnamed : forall mz x, fill_slot mz "" = Ok x -> x = 0.
Proof. intros mz x H. unfold fill_slot in H. cbn in H. now inversion H. Qed.

Lemma parse_slots_serialized : forall c mz ty sl,
  parse_slots c mz ty = Ok (sl, true) ->
  exists a sp, get_serialization_attr c ty = Ok a /\ parse_serialization_attr a = Ok sp /\
    fill_slot mz (p_index_a sp) = Ok (s_index_a sl) /\ fill_slot mz (p_index_b sp) = Ok (s_index_b sl) /\
    fill_slot mz (p_value_a sp) = Ok (s_value_a sl) /\ fill_slot mz (p_value_b sp) = Ok (s_value_b sl).
Proof.
  intros c mz ty sl H. unfold parse_slots in H.
  destruct (get_serialization_attr c ty) as [a| | |] eqn:Ha; cbn [bind] in H; try discriminate.
  destruct (String.eqb a ""); [discriminate|].
  destruct (parse_serialization_attr a) as [sp| | |] eqn:Hsp; cbn [bind] in H; try discriminate.
  exists a, sp. split; [reflexivity|]. split; [exact Hsp|].
  destruct (paths_is_empty sp) eqn:E.
  - inversion H; subst sl. unfold paths_is_empty in E.
    repeat (apply andb_prop in E; let h := fresh "E" in destruct E as [E h]; apply String.eqb_eq in h).
    apply String.eqb_eq in E. rewrite E, E0, E1, E2. cbn. auto.
  - destruct (fill_slot mz (p_index_a sp)) as [ia| | |]; cbn [bind] in H; try discriminate.
    destruct (fill_slot mz (p_index_b sp)) as [ib| | |]; cbn [bind] in H; try discriminate.
    destruct (fill_slot mz (p_value_a sp)) as [va| | |]; cbn [bind] in H; try discriminate.
    destruct (fill_slot mz (p_value_b sp)) as [vb| | |]; cbn [bind] in H; try discriminate.
    inversion H; subst sl. cbn. auto.
Qed.

(* what a claim accepted for a serialized credential holds in its four data slots *)
Lemma binding_serialized_slots : forall O c cl mz ty sl,
  verify_binding O c cl = Ok tt -> cred_view c = Ok (mz, ty, sl, true) ->
  i2 cl = s_index_a sl /\ i3 cl = s_index_b sl /\ v2 cl = s_value_a sl /\ v3 cl = s_value_b sl.
Proof.
  intros O c cl mz ty sl H Hv.
  apply verify_binding_iff in H. destruct H as (o & _ & Hd).
  apply derive_inv in Hd. destruct Hd as (mz' & ty' & sl' & nm & rp & Hv' & Hrp & Hb).
  rewrite Hv in Hv'. inversion Hv'; subst mz' ty' sl' nm. clear Hv'.
  apply eff_root_pos_cases in Hrp. destruct Hrp as [(_ & _ & ->) | (D & _)]; [|discriminate].
  apply build_reads in Hb. destruct Hb as (_ & _ & _ & _ & _ & _ & Hi3 & Hv3 & _ & Hr).
  unfold root_reads in Hr.
  destruct Hr as [(E & _) | [(E & _) | (_ & _ & Ha & Hb)]]; try discriminate E. auto.
Qed.

Definition slot_holds (mz : mzview) (path : string) (slot : Z) : Prop :=
  if String.eqb path "" then slot = 0
  else exists v, m_field mz path = Ok v /\ slot = v mod 2 ^ 256.

Lemma fill_slot_holds : forall mz p x, fill_slot mz p = Ok x -> slot_holds mz p x.
Proof.
  intros mz p x H. unfold slot_holds. destruct (String.eqb p "") eqn:E.
  - apply String.eqb_eq in E. subst p. now apply fill_slot_unnamed in H.
  - apply fill_slot_named; [exact H|]. intros ->. discriminate.
Qed.

Theorem binding_slot_subset_sound : forall O c cl mz ty sl,
  verify_binding O c cl = Ok tt -> cred_view c = Ok (mz, ty, sl, true) ->
  exists a sp, get_serialization_attr c ty = Ok a /\ parse_serialization_attr a = Ok sp /\
    slot_holds mz (p_index_a sp) (i2 cl) /\ slot_holds mz (p_index_b sp) (i3 cl) /\
    slot_holds mz (p_value_a sp) (v2 cl) /\ slot_holds mz (p_value_b sp) (v3 cl).
Proof.
  intros O c cl mz ty sl H Hv.
  destruct (binding_serialized_slots _ _ _ _ _ _ H Hv) as (E2 & E3 & E6 & E7).
  assert (Hp : parse_slots c mz ty = Ok (sl, true)).
  { unfold cred_view in Hv.
    destruct (of_option (c_mz c) "merklize") as [mz0| | |]; cbn [bind] in Hv; try discriminate.
    destruct (find_credential_type mz0) as [ty0| | |]; cbn [bind] in Hv; try discriminate.
    destruct (parse_slots c mz0 ty0) as [[sl0 nm0]| | |] eqn:Hps; cbn [bind fst snd] in Hv; try discriminate.
    inversion Hv; subst. exact Hps. }
  destruct (parse_slots_serialized _ _ _ _ Hp) as (a & sp & Ha & Hsp & F1 & F2 & F3 & F4).
  exists a, sp. rewrite E2, E3, E6, E7.
  repeat split; try assumption; apply fill_slot_holds; assumption.
Qed.

(* two-credential form: a named field cannot be changed (mod 2^256) nor removed *)
Corollary binding_named_field_bound : forall O c c' cl mz ty sl mz' ty' sl' a sp p,
  verify_binding O c cl = Ok tt -> verify_binding O c' cl = Ok tt ->
  cred_view c = Ok (mz, ty, sl, true) -> cred_view c' = Ok (mz', ty', sl', true) ->
  get_serialization_attr c ty = Ok a -> get_serialization_attr c' ty' = Ok a ->
  parse_serialization_attr a = Ok sp ->
  p <> "" -> In p [p_index_a sp; p_index_b sp; p_value_a sp; p_value_b sp] ->
  exists v v', m_field mz p = Ok v /\ m_field mz' p = Ok v' /\ v mod 2 ^ 256 = v' mod 2 ^ 256.
Proof.
  intros O c c' cl mz ty sl mz' ty' sl' a sp p H H' Hv Hv' Ha Ha' Hsp Hp Hin.
  destruct (binding_slot_subset_sound _ _ _ _ _ _ H Hv) as (a1 & sp1 & Ha1 & Hsp1 & S1 & S2 & S3 & S4).
  destruct (binding_slot_subset_sound _ _ _ _ _ _ H' Hv') as (a2 & sp2 & Ha2 & Hsp2 & T1 & T2 & T3 & T4).
  rewrite Ha in Ha1. inversion Ha1; subst a1. rewrite Hsp in Hsp1. inversion Hsp1; subst sp1.
  rewrite Ha' in Ha2. inversion Ha2; subst a2. rewrite Hsp in Hsp2. inversion Hsp2; subst sp2.
  assert (Hne : String.eqb p "" = false).
  { destruct (String.eqb p "") eqn:E; [apply String.eqb_eq in E; contradiction|reflexivity]. }
  unfold slot_holds in *.
  cbn [In] in Hin. destruct Hin as [E|[E|[E|[E|[]]]]]; subst p; rewrite Hne in *.
  - destruct S1 as (v & Hm & Hx). destruct T1 as (v' & Hm' & Hx'). exists v, v'. repeat split; congruence.
  - destruct S2 as (v & Hm & Hx). destruct T2 as (v' & Hm' & Hx'). exists v, v'. repeat split; congruence.
  - destruct S3 as (v & Hm & Hx). destruct T3 as (v' & Hm' & Hx'). exists v, v'. repeat split; congruence.
  - destruct S4 as (v & Hm & Hx). destruct T4 as (v' & Hm' & Hx'). exists v, v'. repeat split; congruence.
Qed.

(* ------------------------------------------------------------------ *)
(* ---------- seeded variants of parseSlots, refuted ----------
   parseSlots with its emptiness test and its slot filler as parameters; the model's
   parse_slots is the instance (paths_is_empty, fill_slot). *)
Definition parse_slots_with (is_empty : slots_paths -> bool) (fill : mzview -> string -> res Z)
  (c : cred) (mz : mzview) (tp : string) : res (slots * bool) :=
  a <- get_serialization_attr c tp ;;
  if String.eqb a "" then Ok (slots_zero, false) else
  sp <- parse_serialization_attr a ;;
  if is_empty sp then Ok (slots_zero, true) else
  ia <- fill mz (p_index_a sp) ;;
  ib <- fill mz (p_index_b sp) ;;
  va <- fill mz (p_value_a sp) ;;
  vb <- fill mz (p_value_b sp) ;;
  Ok ({| s_index_a := ia; s_index_b := ib; s_value_a := va; s_value_b := vb |}, true).

Lemma parse_slots_is_instance : forall c mz tp,
  parse_slots c mz tp = parse_slots_with paths_is_empty fill_slot c mz tp.
Proof. reflexivity. Qed.

(* isEmpty without the ValueB conjunct (seeded change C06-l) *)
Definition is_empty_without_value_b (p : slots_paths) : bool :=
  String.eqb (p_index_a p) "" && String.eqb (p_index_b p) "" && String.eqb (p_value_a p) "".
(* fillSlot that leaves the slot zero when the field is absent (seeded change C06-n) *)
Definition fill_slot_absent_is_zero (mz : mzview) (path : string) : res Z :=
  if String.eqb path "" then Ok 0
  else match m_field mz path with
       | Ok v => Ok (v mod 2 ^ 256)
       | Err _ => Ok 0
       | Panic w => Panic w
       | Diverge => Diverge
       end.

Module SlotEx.
  Definition mzf (f : string -> res Z) : mzview :=
    {| m_cs_type := Some (RVStr "urn:T"); m_top_type := None; m_root := 1000; m_field := f |}.
  Definition cred_with (attr : string) (f : string -> res Z) : cred :=
    {| c_mz := Some (mzf f); c_subject := None; c_expiration := None;
       c_ctx := Some [ {| t_name := "T"; t_is_map := true; t_ctx := Some (CtxMap (Some attr)); t_id := "urn:T" |} ] |}.
  Definition score (v : Z) : string -> res Z := fun p => if String.eqb p "score" then Ok v else Err "field".
  Definition no_score : string -> res Z := fun _ => Err "field".
  Definition only_b := "iden3:v1:slotValueB=score".
End SlotEx.
Import SlotEx.

(* the code as it is: score 7 and score 8 give different slots, an absent score is an error *)
Example slots_bound_ex :
  parse_slots (cred_with only_b (score 7)) (mzf (score 7)) "urn:T" <>
  parse_slots (cred_with only_b (score 8)) (mzf (score 8)) "urn:T" /\
  parse_slots (cred_with only_b no_score) (mzf no_score) "urn:T" = Err "field" /\
  parse_slots (cred_with only_b (score 0)) (mzf (score 0)) "urn:T" =
    Ok ({| s_index_a := 0; s_index_b := 0; s_value_a := 0; s_value_b := 0 |}, true).
Proof. vm_compute. repeat split; try reflexivity. discriminate. Qed.

(* C06-l: with the weakened emptiness test a schema serializing only into value slot B binds nothing *)
Theorem slots_without_value_b_refuted :
  exists (attr : string) (v v' : Z), v <> v' /\
    parse_slots_with is_empty_without_value_b fill_slot (cred_with attr (score v)) (mzf (score v)) "urn:T" =
    parse_slots_with is_empty_without_value_b fill_slot (cred_with attr (score v')) (mzf (score v')) "urn:T" /\
    parse_slots (cred_with attr (score v)) (mzf (score v)) "urn:T" <>
    parse_slots (cred_with attr (score v')) (mzf (score v')) "urn:T".
Proof.
  exists only_b, 7, 8. split; [discriminate|]. split; [vm_compute; reflexivity|]. vm_compute. discriminate.
Qed.

(* C06-n: when an absent field leaves a zero slot, removing a field whose encoding is 0 changes nothing *)
Theorem slots_absent_is_zero_refuted :
  exists (attr : string),
    parse_slots_with paths_is_empty fill_slot_absent_is_zero (cred_with attr (score 0)) (mzf (score 0)) "urn:T" =
    parse_slots_with paths_is_empty fill_slot_absent_is_zero (cred_with attr no_score) (mzf no_score) "urn:T" /\
    is_ok (parse_slots (cred_with attr (score 0)) (mzf (score 0)) "urn:T") = true /\
    is_ok (parse_slots (cred_with attr no_score) (mzf no_score) "urn:T") = false.
Proof. exists only_b. vm_compute. auto. Qed.

(* end to end on the model: the honest claim of the score-7 credential is rejected for the
   score-8 credential and for the credential without score *)
Example slot_binding_ex :
  let O := {| keccak := fun _ => 99; did_to_id := fun _ => None |} in
  let c7 := cred_with only_b (score 7) in
  let cl := match fst (to_core_claim O c7 None) with Ok cl => cl | _ => claim_zero end in
  verify_binding O c7 cl = Ok tt /\
  verify_binding O (cred_with only_b (score 8)) cl = Err e_another_credential /\
  verify_binding O (cred_with only_b no_score) cl = Err "field".
Proof. vm_compute. auto. Qed.
