(* Claim/OptsSlice.v — CoreClaimOptions.MerklizerOpts at the level of Go slices
   (heap of backing arrays, slice headers; Merklizer/SliceModel.v).
   W3CCredential.ToCoreClaim copies the options struct (`optsCopy := *opts`): the
   MerklizerOpts HEADER is copied, the backing array is shared with the caller and
   with every other options value built on the same array.  The call then passes
   the header to vc.Merklize(ctx, opts.MerklizerOpts...): the callee reads the
   view; nothing is appended, no cell is written.  [VAppend x] is the seeded
   variant C05-i, `append(opts.MerklizerOpts, x)` before the call: with spare
   capacity it writes the cell after the view in the shared array.  Executable
   definitions first (no proofs needed to evaluate them), theorems below. *)
From Coq Require Import List Arith Bool Lia.
From GSP Require Import Merklizer.SliceModel Merklizer.SliceTheory.
Import ListNotations.

Section OptsSlice.
Variable A : Type.            (* a MerklizeOption (the harness tells options apart by code pointer) *)
Variable dflt : A.
Variable slack : nat -> nat.

Inductive mzvariant := VRepo | VAppend (x : A).

(* what ToCoreClaim does with the options slice: the heap it leaves, the options Merklize receives *)
Definition tcc_mz (v : mzvariant) (h : heap A) (s : slice) : heap A * list A :=
  match v with
  | VRepo => (h, view A h s)
  | VAppend x => let hs := go_append A dflt slack h s [x] in (fst hs, view A (fst hs) (snd hs))
  end.

(* a history of calls, each with one of the caller's option slices *)
Fixpoint run_mz (v : mzvariant) (h : heap A) (calls : list slice) : heap A * list (list A) :=
  match calls with
  | [] => (h, [])
  | s :: rest =>
      let r := tcc_mz v h s in
      let rr := run_mz v (fst r) rest in
      (fst rr, snd r :: snd rr)
  end.

(* the whole window of a slice, up to its capacity: what the harness snapshots *)
Definition full (s : slice) : slice := mkslice (s_arr s) (s_off s) (s_cap s) (s_cap s).

(* ---- theorems ---- *)

(* C05_options_backing_array_untouched: after any history of calls the heap is the heap before, hence
   every slice anybody holds - up to its capacity - reads as before, and the i-th call received
   exactly the view of its slice in the ORIGINAL heap *)
Theorem backing_array_untouched : forall calls h,
  fst (run_mz VRepo h calls) = h /\
  snd (run_mz VRepo h calls) = map (view A h) calls /\
  forall t, view A (fst (run_mz VRepo h calls)) (full t) = view A h (full t).
Proof.
  induction calls as [|s rest IH]; intros h.
  - repeat split; reflexivity.
  - cbn [run_mz tcc_mz fst snd map]. destruct (IH h) as (H1 & H2 & H3).
    rewrite H1, H2. repeat split; reflexivity.
Qed.

(* the seeded variant keeps the promise only when the slice has no spare capacity ... *)
Theorem append_variant_full_slice : forall x h s,
  s_cap s < s_len s + 1 ->
  forall t, valid A h t -> view A (fst (tcc_mz (VAppend x) h s)) t = view A h t.
Proof.
  intros x h s Hc t Ht. cbn [tcc_mz fst].
  destruct (go_append_grow_frame A dflt slack h s [x]) as (_ & F); [cbn; lia|].
  now destruct (F t Ht).
Qed.
End OptsSlice.

(* ... and breaks it otherwise: optsA = common[:1], optsB = append(common, hasher) on one array
   of capacity 4; a call with optsA overwrites optsB's second option *)
Example append_variant_refuted :
  let h := [[1; 2; 0; 0]] in
  let optsA := mkslice 0 0 1 4 in
  let optsB := mkslice 0 0 2 4 in
  view nat h optsB = [1; 2] /\
  view nat (fst (tcc_mz nat 0 (fun _ => 0) (VAppend nat 9) h optsA)) optsB = [1; 9] /\
  snd (run_mz nat 0 (fun _ => 0) (VAppend nat 9) h [optsB; optsA; optsB]) = [[1; 2; 9]; [1; 9]; [1; 9; 9]] /\
  snd (run_mz nat 0 (fun _ => 0) (VRepo nat) h [optsB; optsA; optsB]) = [[1; 2]; [1]; [1; 2]].
Proof. vm_compute. repeat split; reflexivity. Qed.
