(* SMT/Theory.v — theorems about the sparse Merkle tree model SMT/Model.v.
   Everything holds for ARBITRARY hl hm (no injectivity, no collision-freeness),
   any maxlev, any number of leaves, unbounded keys.  Soundness statements carry an
   explicit `Collision` witness. *)
From Coq Require Import ZArith List String Bool Arith Lia Permutation.
From GSP Require Import Base.Prelude SMT.Model.
Import ListNotations.
Open Scope list_scope.
Open Scope Z_scope.

(* ------------------------------------------------------------------ *)
(* generic list facts                                                   *)
(* ------------------------------------------------------------------ *)
Lemma filter_all {A} (f : A -> bool) (l : list A) :
  (forall x, In x l -> f x = true) -> filter f l = l.
Proof.
  induction l as [|a l IH]; intros H; simpl; [reflexivity|].
  rewrite (H a (or_introl eq_refl)). f_equal. apply IH. intros x Hx. apply H. now right.
Qed.

Lemma filter_none {A} (f : A -> bool) (l : list A) :
  (forall x, In x l -> f x = false) -> filter f l = [].
Proof.
  induction l as [|a l IH]; intros H; simpl; [reflexivity|].
  rewrite (H a (or_introl eq_refl)). apply IH. intros x Hx. apply H. now right.
Qed.

Lemma perm_filter {A} (f : A -> bool) (l1 l2 : list A) :
  Permutation l1 l2 -> Permutation (filter f l1) (filter f l2).
Proof.
  induction 1 as [|x l1 l2 HP IH|x y l|l1 l2 l3 HP1 IH1 HP2 IH2]; simpl.
  - constructor.
  - destruct (f x); [now constructor|assumption].
  - destruct (f x), (f y); try reflexivity. apply perm_swap.
  - now transitivity (filter f l2).
Qed.

Lemma tag_exists_maxlevel : EExists <> EMaxLevel.
Proof. unfold EExists, EMaxLevel. discriminate. Qed.

Section Theory.
Variable hl : Z -> Z -> Z.
Variable hm : Z -> Z -> Z.
Variable maxlev : nat.

Notation root := (root hl hm).
Notation add := (add maxlev).
Notation add_list := (add_list maxlev).
Notation add_all := (add_all maxlev).
Notation gen := (gen hl hm).
Notation gen_b := (gen_b hl hm).
Notation up := (up hm).
Notation proof_mid := (proof_mid hl).
Notation root_from_proof := (root_from_proof hl hm).
Notation verify_proof := (verify_proof hl hm).

(* ================================================================== *)
(* 1. completeness of GenerateProof / RootFromProof / VerifyProof       *)
(* ================================================================== *)

Lemma gen_up : forall t lvl k acc p v,
  gen t lvl k acc = (p, v) ->
  exists tail mid,
    sibs p = rev acc ++ tail /\
    proof_mid p k (if ex p then v else 0) = Some mid /\
    up k lvl tail mid = root t.
Proof.
  induction t as [|k' v'|l IHl r IHr]; intros lvl k acc p v H; simpl in H.
  - inversion H; subst; clear H. exists [], 0. unfold Model.proof_mid; simpl.
    rewrite app_nil_r. auto.
  - destruct (Z.eqb_spec k k') as [->|Hne]; inversion H; subst; clear H.
    + exists [], (hl k' v). unfold Model.proof_mid; simpl. rewrite app_nil_r. auto.
    + exists [], (hl k' v). unfold Model.proof_mid; simpl. rewrite app_nil_r.
      destruct (Z.eqb_spec k k') as [Heq|_]; [contradiction|]. auto.
  - destruct (bit k lvl) eqn:Hb.
    + destruct (IHr _ _ _ _ _ H) as (tail & mid & Hs & Hm & Hu).
      exists (Model.root hl hm l :: tail), mid. simpl in Hs. rewrite <- app_assoc in Hs.
      simpl in Hs. repeat split; auto. simpl. rewrite Hb, Hu. reflexivity.
    + destruct (IHl _ _ _ _ _ H) as (tail & mid & Hs & Hm & Hu).
      exists (Model.root hl hm r :: tail), mid. simpl in Hs. rewrite <- app_assoc in Hs.
      simpl in Hs. repeat split; auto. simpl. rewrite Hb, Hu. reflexivity.
Qed.

(* The proof generated for ANY key of ANY tree recomputes the tree's root, when
   checked against the value found (existence) or against 0 (non-existence). *)
Theorem completeness : forall t k p v,
  gen t 0 k [] = (p, v) ->
  root_from_proof p k (if ex p then v else 0) = Some (root t).
Proof.
  intros t k p v H. destruct (gen_up _ _ _ _ _ _ H) as (tail & mid & Hs & Hm & Hu).
  simpl in Hs. unfold Model.root_from_proof. rewrite Hm, Hs, Hu. reflexivity.
Qed.

Corollary completeness_verify : forall t k p v,
  gen t 0 k [] = (p, v) ->
  verify_proof (root t) p k (if ex p then v else 0) = true.
Proof.
  intros t k p v H. unfold Model.verify_proof. rewrite (completeness _ _ _ _ H).
  apply Z.eqb_refl.
Qed.

(* a non-existence proof verifies against every value: RootFromProof ignores v *)
Lemma root_from_proof_nonex_any_v : forall p k v v',
  ex p = false -> root_from_proof p k v = root_from_proof p k v'.
Proof.
  intros p k v v' He. unfold Model.root_from_proof, Model.proof_mid. rewrite He. reflexivity.
Qed.

(* what the generated proof says about the tree *)
Lemma gen_ex_leaf : forall t lvl k acc p v,
  gen t lvl k acc = (p, v) -> ex p = true -> In (k, v) (leaves t).
Proof.
  induction t as [|k' v'|l IHl r IHr]; intros lvl k acc p v H He; simpl in H.
  - inversion H; subst. discriminate.
  - destruct (Z.eqb_spec k k') as [->|Hne]; inversion H; subst; simpl in *; [auto|discriminate].
  - simpl. apply in_or_app. destruct (bit k lvl); [right; eauto|left; eauto].
Qed.

Lemma gen_aux_leaf : forall t lvl k acc p v ak av,
  gen t lvl k acc = (p, v) -> aux p = Some (ak, av) ->
  ex p = false /\ ak <> k /\ v = av /\ In (ak, av) (leaves t).
Proof.
  induction t as [|k' v'|l IHl r IHr]; intros lvl k acc p v ak av H Ha; simpl in H.
  - inversion H; subst. discriminate.
  - destruct (Z.eqb_spec k k') as [->|Hne]; inversion H; subst; simpl in *; [discriminate|].
    inversion Ha; subst. auto.
  - simpl. destruct (bit k lvl).
    + destruct (IHr _ _ _ _ _ _ _ H Ha) as (A & B & C & D). repeat split; auto.
      apply in_or_app; auto.
    + destruct (IHl _ _ _ _ _ _ _ H Ha) as (A & B & C & D). repeat split; auto.
      apply in_or_app; auto.
Qed.

Lemma gen_sibs_length : forall t lvl k acc p v,
  gen t lvl k acc = (p, v) -> (List.length acc <= List.length (sibs p))%nat.
Proof.
  induction t as [|k' v'|l IHl r IHr]; intros lvl k acc p v H; simpl in H.
  - inversion H; subst; simpl. rewrite rev_length. lia.
  - destruct (k =? k'); inversion H; subst; simpl; rewrite rev_length; lia.
  - destruct (bit k lvl).
    + apply IHr in H. simpl in H. lia.
    + apply IHl in H. simpl in H. lia.
Qed.

(* ================================================================== *)
(* 2. well-formed trees = the shapes `add` produces                     *)
(* ================================================================== *)

(* wf_at lvl t: t is a subtree hanging at level lvl.
   - middle nodes exist only at levels <= maxlev-2, leaves at levels <= maxlev-1
   - a middle node holds at least two leaves (so: no M E E, and a subtree with one
     leaf IS that leaf)
   - keys of the left/right subtree have bit lvl = 0/1 (every leaf sits on the
     path of its key) *)
Fixpoint wf_at (lvl : nat) (t : tree) : Prop :=
  match t with
  | E => True
  | L _ _ => (lvl < maxlev)%nat
  | M l r =>
      (lvl + 2 <= maxlev)%nat /\
      (2 <= List.length (leaves l) + List.length (leaves r))%nat /\
      (forall k, In k (keys l) -> bit k lvl = false) /\
      (forall k, In k (keys r) -> bit k lvl = true) /\
      wf_at (S lvl) l /\ wf_at (S lvl) r
  end.
Definition wf (t : tree) : Prop := wf_at 0 t.

Lemma keys_M : forall l r, keys (M l r) = keys l ++ keys r.
Proof. intros. unfold keys. simpl. apply map_app. Qed.

Lemma in_keys : forall t k, In k (keys t) <-> exists v, In (k, v) (leaves t).
Proof.
  intros t k. unfold keys. rewrite in_map_iff. split.
  - intros ((k', v) & Hk & Hin). simpl in Hk. subst. eauto.
  - intros (v & Hin). exists (k, v). auto.
Qed.

Lemma perm_keys : forall t1 t2, Permutation (leaves t1) (leaves t2) -> Permutation (keys t1) (keys t2).
Proof. intros. unfold keys. now apply Permutation_map. Qed.

(* results of push / add are always Ok, Err EExists or Err EMaxLevel *)
Lemma push_cases : forall f lvl nk nv ok ov,
  (exists t, push f lvl nk nv ok ov = Ok t) \/ push f lvl nk nv ok ov = Err EMaxLevel.
Proof.
  induction f as [|f IH]; intros lvl nk nv ok ov; simpl.
  - now right.
  - destruct (Bool.eqb (bit nk lvl) (bit ok lvl)).
    + destruct (IH (S lvl) nk nv ok ov) as [(t & Ht)|He]; rewrite ?Ht, ?He; simpl; eauto.
    + eauto.
Qed.

Lemma add_cases : forall t lvl k v,
  (exists t', add t lvl k v = Ok t') \/ add t lvl k v = Err EExists \/ add t lvl k v = Err EMaxLevel.
Proof.
  induction t as [|k' v'|l IHl r IHr]; intros lvl k v; simpl;
    destruct (Nat.leb maxlev lvl); auto.
  - eauto.
  - destruct (k =? k'); auto. destruct (push_cases (maxlev - 1 - lvl) lvl k v k' v') as [H|H]; auto.
  - destruct (bit k lvl).
    + destruct (IHr (S lvl) k v) as [(t' & H)|[H|H]]; rewrite H; simpl; eauto.
    + destruct (IHl (S lvl) k v) as [(t' & H)|[H|H]]; rewrite H; simpl; eauto.
Qed.

Lemma push_ok : forall f lvl nk nv ok ov t,
  push f lvl nk nv ok ov = Ok t -> (lvl + 1 + f <= maxlev)%nat ->
  wf_at lvl t /\ Permutation (leaves t) [(nk, nv); (ok, ov)].
Proof.
  induction f as [|f IH]; intros lvl nk nv ok ov t H Hf; simpl in H; [discriminate|].
  destruct (Bool.eqb (bit nk lvl) (bit ok lvl)) eqn:Hb.
  - apply eqb_prop in Hb.
    destruct (push f (S lvl) nk nv ok ov) as [t0| | |] eqn:Hp; simpl in H; try discriminate.
    inversion H; subst t; clear H.
    destruct (IH _ _ _ _ _ _ Hp ltac:(lia)) as (Hwf & Hperm).
    assert (Hlen : List.length (leaves t0) = 2%nat) by (now rewrite (Permutation_length Hperm)).
    assert (Hk : forall k, In k (keys t0) -> bit k lvl = bit nk lvl).
    { intros k Hk. unfold keys in Hk.
      apply (Permutation_in _ (Permutation_map fst Hperm)) in Hk. simpl in Hk.
      destruct Hk as [<-|[<-|[]]]; congruence. }
    destruct (bit nk lvl) eqn:Hnk; simpl.
    + split; [|now rewrite Hperm].
      repeat split; auto; try lia; try (intros ? []).
    + rewrite app_nil_r. split; [|assumption].
      repeat split; auto; try (simpl; lia); try (intros ? []).
  - apply eqb_false_iff in Hb.
    destruct (bit nk lvl) eqn:Hnk; inversion H; subst t; clear H; simpl.
    + split; [|apply perm_swap].
      repeat split; try lia; unfold keys; simpl.
      * intros k [<-|[]]. destruct (bit ok lvl); congruence.
      * intros k [<-|[]]. assumption.
    + split; [|reflexivity].
      repeat split; try lia; unfold keys; simpl.
      * intros k [<-|[]]. assumption.
      * intros k [<-|[]]. destruct (bit ok lvl); congruence.
Qed.

Lemma wf_add_at : forall t lvl k v t',
  wf_at lvl t -> add t lvl k v = Ok t' ->
  wf_at lvl t' /\ Permutation (leaves t') ((k, v) :: leaves t).
Proof.
  induction t as [|k' v'|l IHl r IHr]; intros lvl k v t' Hwf H; simpl in H;
    destruct (Nat.leb maxlev lvl) eqn:Hlv; try discriminate; apply Nat.leb_gt in Hlv.
  - inversion H; subst. simpl. auto.
  - destruct (k =? k'); [discriminate|].
    apply push_ok in H; [|lia]. exact H.
  - destruct Hwf as (Hlvl & Hsz & HL & HR & Hwl & Hwr).
    destruct (bit k lvl) eqn:Hb.
    + destruct (add r (S lvl) k v) as [r'| | |] eqn:Ha; simpl in H; try discriminate.
      inversion H; subst t'; clear H.
      destruct (IHr _ _ _ _ Hwr Ha) as (Hwr' & Hp).
      split.
      * simpl. repeat split; auto.
        -- rewrite (Permutation_length Hp). simpl. lia.
        -- intros k0 Hk0. unfold keys in Hk0.
           apply (Permutation_in _ (Permutation_map fst Hp)) in Hk0. simpl in Hk0.
           destruct Hk0 as [<-|Hk0]; auto.
      * simpl. rewrite Hp. symmetry. apply Permutation_middle.
    + destruct (add l (S lvl) k v) as [l'| | |] eqn:Ha; simpl in H; try discriminate.
      inversion H; subst t'; clear H.
      destruct (IHl _ _ _ _ Hwl Ha) as (Hwl' & Hp).
      split.
      * simpl. repeat split; auto.
        -- rewrite (Permutation_length Hp). simpl. lia.
        -- intros k0 Hk0. unfold keys in Hk0.
           apply (Permutation_in _ (Permutation_map fst Hp)) in Hk0. simpl in Hk0.
           destruct Hk0 as [<-|Hk0]; auto.
      * simpl. rewrite Hp. reflexivity.
Qed.

(* Add preserves well-formedness and adds exactly the new leaf *)
Theorem wf_add : forall t k v t',
  wf t -> add t 0 k v = Ok t' ->
  wf t' /\ Permutation (leaves t') ((k, v) :: leaves t).
Proof. intros t k v t'. apply wf_add_at. Qed.

Lemma wf_E : wf E.
Proof. exact I. Qed.

(* ---- exact characterisation of the two errors of Add ---- *)

Lemma bind_M_ok : forall (r : res tree) (f : tree -> tree) t',
  (x <- r ;; Ok (f x)) = Ok t' <-> exists x, r = Ok x /\ t' = f x.
Proof.
  intros r f t'. destruct r as [x| | |]; simpl; split.
  - intros H. inversion H. eauto.
  - intros (x0 & H1 & H2). inversion H1. subst. reflexivity.
  - discriminate.
  - intros (x0 & H1 & _). discriminate.
  - discriminate.
  - intros (x0 & H1 & _). discriminate.
  - discriminate.
  - intros (x0 & H1 & _). discriminate.
Qed.

Lemma bind_M_err : forall (r : res tree) (f : tree -> tree) e,
  (x <- r ;; Ok (f x)) = Err e <-> r = Err e.
Proof. intros r f e. destruct r; simpl; split; intros H; try discriminate; assumption. Qed.

Lemma wf_key_side : forall lvl l r k,
  wf_at lvl (M l r) -> In k (keys (M l r)) ->
  In k (keys (if bit k lvl then r else l)).
Proof.
  intros lvl l r k (_ & _ & HL & HR & _ & _) Hin. rewrite keys_M in Hin.
  apply in_app_or in Hin. destruct Hin as [Hin|Hin].
  - now rewrite (HL _ Hin).
  - now rewrite (HR _ Hin).
Qed.

Lemma add_exists_at : forall t lvl k v,
  wf_at lvl t -> (add t lvl k v = Err EExists <-> In k (keys t)).
Proof.
  induction t as [|k' v'|l IHl r IHr]; intros lvl k v Hwf; simpl.
  - destruct (Nat.leb maxlev lvl); split; intros H; try contradiction; discriminate.
  - simpl in Hwf. apply Nat.leb_gt in Hwf. rewrite Hwf. unfold keys; simpl.
    destruct (Z.eqb_spec k k') as [->|Hne]; split; auto.
    + intros H. exfalso.
      destruct (push_cases (maxlev - 1 - lvl) lvl k v k' v') as [(t & Ht)|Ht]; rewrite Ht in H;
        discriminate.
    + intros [->|[]]. contradiction.
  - pose proof Hwf as (Hlvl & Hsz & HL & HR & Hwl & Hwr).
    assert (Hlv : Nat.leb maxlev lvl = false) by (apply Nat.leb_gt; lia). rewrite Hlv.
    rewrite keys_M. destruct (bit k lvl) eqn:Hb; rewrite bind_M_err.
    + rewrite (IHr _ k v Hwr). split; intros H; [apply in_or_app; now right|].
      apply in_app_or in H. destruct H as [H|H]; [|assumption].
      apply HL in H. congruence.
    + rewrite (IHl _ k v Hwl). split; intros H; [apply in_or_app; now left|].
      apply in_app_or in H. destruct H as [H|H]; [assumption|].
      apply HR in H. congruence.
Qed.

(* Add fails with ErrEntryIndexAlreadyExists exactly on keys already present *)
Theorem add_exists_iff : forall t k v,
  wf t -> (add t 0 k v = Err EExists <-> In k (keys t)).
Proof. intros t k v. apply add_exists_at. Qed.

(* k and k' agree on all bits i with lvl <= i <= maxlev-2 *)
Definition agree_from (lvl : nat) (k k' : Z) : Prop :=
  forall i, (lvl <= i)%nat -> (i + 2 <= maxlev)%nat -> bit k i = bit k' i.
(* two keys that no tree of maxlev levels can hold together: same bits 0..maxlev-2 *)
Definition clash (k k' : Z) : Prop := agree_from 0 k k'.

Lemma clash_refl : forall k, clash k k.
Proof. intros k i _ _. reflexivity. Qed.
Lemma clash_sym : forall k k', clash k k' -> clash k' k.
Proof. intros k k' H i H1 H2. symmetry. now apply H. Qed.

Lemma push_err : forall f lvl nk nv ok ov e,
  push f lvl nk nv ok ov = Err e ->
  e = EMaxLevel /\ forall i, (lvl <= i < lvl + f)%nat -> bit nk i = bit ok i.
Proof.
  induction f as [|f IH]; intros lvl nk nv ok ov e H; simpl in H.
  - inversion H. split; auto. intros i Hi. lia.
  - destruct (Bool.eqb (bit nk lvl) (bit ok lvl)) eqn:Hb.
    + apply eqb_prop in Hb. apply bind_M_err in H. apply IH in H. destruct H as (He & Hi).
      split; auto. intros i Hr. destruct (Nat.eq_dec i lvl) as [->|Hn]; auto. apply Hi. lia.
    + discriminate.
Qed.

Lemma push_agree : forall f lvl nk nv ok ov,
  (forall i, (lvl <= i < lvl + f)%nat -> bit nk i = bit ok i) ->
  push f lvl nk nv ok ov = Err EMaxLevel.
Proof.
  induction f as [|f IH]; intros lvl nk nv ok ov H; simpl; [reflexivity|].
  rewrite (H lvl ltac:(lia)). rewrite eqb_reflx.
  rewrite (IH (S lvl)); [reflexivity|]. intros i Hi. apply H. lia.
Qed.

Lemma add_maxlevel_at : forall t lvl k v,
  wf_at lvl t ->
  (add t lvl k v = Err EMaxLevel <->
   (maxlev <= lvl)%nat \/
   (~ In k (keys t) /\ exists k', In k' (keys t) /\ agree_from lvl k k')).
Proof.
  induction t as [|k' v'|l IHl r IHr]; intros lvl k v Hwf; simpl.
  - destruct (Nat.leb maxlev lvl) eqn:Hlv.
    + apply Nat.leb_le in Hlv. split; auto.
    + apply Nat.leb_gt in Hlv. split; [discriminate|].
      intros [H|(_ & k' & [] & _)]. lia.
  - simpl in Hwf. pose proof Hwf as Hlv. apply Nat.leb_gt in Hlv. rewrite Hlv. unfold keys; simpl.
    destruct (Z.eqb_spec k k') as [->|Hne].
    + split.
      * intros H. discriminate.
      * intros [H|(H & _)]; [lia|]. exfalso. apply H. now left.
    + split.
      * intros H. right. split; [intros [->|[]]; contradiction|].
        exists k'. split; [now left|]. apply push_err in H. destruct H as (_ & H).
        intros i H1 H2. apply H. lia.
      * intros [H|(_ & k'' & [<-|[]] & Hag)]; [lia|].
        apply push_agree. intros i Hi. apply Hag; lia.
  - pose proof Hwf as (Hlvl & Hsz & HL & HR & Hwl & Hwr).
    assert (Hlv : Nat.leb maxlev lvl = false) by (apply Nat.leb_gt; lia). rewrite Hlv.
    rewrite keys_M. destruct (bit k lvl) eqn:Hb; rewrite bind_M_err.
    + rewrite (IHr _ k v Hwr). split.
      * intros [H|(Hn & k' & Hin & Hag)]; [lia|]. right. split.
        -- intros H. apply in_app_or in H. destruct H as [H|H]; [|contradiction].
           apply HL in H. congruence.
        -- exists k'. split; [apply in_or_app; now right|].
           intros i H1 H2. destruct (Nat.eq_dec i lvl) as [->|Hne]; [|apply Hag; lia].
           rewrite (HR _ Hin). assumption.
      * intros [H|(Hn & k' & Hin & Hag)]; [lia|]. right. split.
        -- intros H. apply Hn. apply in_or_app. now right.
        -- exists k'. split.
           ++ apply in_app_or in Hin. destruct Hin as [Hin|Hin]; [|assumption].
              apply HL in Hin. rewrite <- (Hag lvl) in Hin; [congruence|lia|lia].
           ++ intros i H1 H2. apply Hag; lia.
    + rewrite (IHl _ k v Hwl). split.
      * intros [H|(Hn & k' & Hin & Hag)]; [lia|]. right. split.
        -- intros H. apply in_app_or in H. destruct H as [H|H]; [contradiction|].
           apply HR in H. congruence.
        -- exists k'. split; [apply in_or_app; now left|].
           intros i H1 H2. destruct (Nat.eq_dec i lvl) as [->|Hne]; [|apply Hag; lia].
           rewrite (HL _ Hin). assumption.
      * intros [H|(Hn & k' & Hin & Hag)]; [lia|]. right. split.
        -- intros H. apply Hn. apply in_or_app. now left.
        -- exists k'. split.
           ++ apply in_app_or in Hin. destruct Hin as [Hin|Hin]; [assumption|].
              apply HR in Hin. rewrite <- (Hag lvl) in Hin; [congruence|lia|lia].
           ++ intros i H1 H2. apply Hag; lia.
Qed.

(* Add fails with ErrReachedMaxLevel exactly when the tree has no level at all, or
   the key is new and some key of the tree has the same bits 0..maxlev-2 *)
Theorem add_maxlevel_iff : forall t k v,
  wf t ->
  (add t 0 k v = Err EMaxLevel <->
   maxlev = 0%nat \/ (~ In k (keys t) /\ exists k', In k' (keys t) /\ clash k k')).
Proof.
  intros t k v Hwf. rewrite (add_maxlevel_at t 0 k v Hwf). unfold clash.
  split; (intros [H|H]; [left; lia|now right]).
Qed.

Theorem add_ok_iff : forall t k v,
  wf t -> (1 <= maxlev)%nat ->
  ((exists t', add t 0 k v = Ok t') <-> forall k', In k' (keys t) -> ~ clash k k').
Proof.
  intros t k v Hwf Hml. split.
  - intros (t' & Hadd) k' Hin Hcl.
    destruct (in_dec Z.eq_dec k (keys t)) as [Hk|Hk].
    + apply (add_exists_iff t k v Hwf) in Hk. congruence.
    + assert (H : add t 0 k v = Err EMaxLevel).
      { apply add_maxlevel_iff; auto. right. split; auto. exists k'. auto. }
      congruence.
  - intros H. destruct (add_cases t 0 k v) as [Hok|[He|He]]; auto; exfalso.
    + apply add_exists_iff in He; auto. apply (H k He). apply clash_refl.
    + apply add_maxlevel_iff in He; auto. destruct He as [He|(_ & k' & Hin & Hcl)]; [lia|].
      apply (H k' Hin Hcl).
Qed.

(* ================================================================== *)
(* 3. canonical form: a well-formed tree is determined by its leaf set  *)
(* ================================================================== *)

Definition side (lvl : nat) (b : bool) (kv : Z * Z) : bool := Bool.eqb (bit (fst kv) lvl) b.

Lemma wf_filter : forall lvl l r,
  wf_at lvl (M l r) ->
  filter (side lvl false) (leaves (M l r)) = leaves l /\
  filter (side lvl true) (leaves (M l r)) = leaves r.
Proof.
  intros lvl l r (_ & _ & HL & HR & _ & _). simpl. rewrite !filter_app.
  assert (Hl : forall x, In x (leaves l) -> bit (fst x) lvl = false).
  { intros x Hx. apply HL. unfold keys. now apply in_map. }
  assert (Hr : forall x, In x (leaves r) -> bit (fst x) lvl = true).
  { intros x Hx. apply HR. unfold keys. now apply in_map. }
  split.
  - rewrite (filter_all (side lvl false) (leaves l)), (filter_none (side lvl false) (leaves r)).
    + apply app_nil_r.
    + intros x Hx. unfold side. now rewrite (Hr x Hx).
    + intros x Hx. unfold side. now rewrite (Hl x Hx).
  - rewrite (filter_none (side lvl true) (leaves l)), (filter_all (side lvl true) (leaves r)).
    + reflexivity.
    + intros x Hx. unfold side. now rewrite (Hr x Hx).
    + intros x Hx. unfold side. now rewrite (Hl x Hx).
Qed.

Lemma canonical_at : forall t1 t2 lvl,
  wf_at lvl t1 -> wf_at lvl t2 -> Permutation (leaves t1) (leaves t2) -> t1 = t2.
Proof.
  induction t1 as [|k v|l1 IHl r1 IHr]; intros t2 lvl Hw1 Hw2 Hp.
  - simpl in Hp. apply Permutation_nil in Hp.
    destruct t2 as [|k2 v2|l2 r2]; [reflexivity|discriminate|].
    destruct Hw2 as (_ & Hsz & _). simpl in Hp. rewrite <- app_length, Hp in Hsz. simpl in Hsz. lia.
  - simpl in Hp. apply Permutation_length_1_inv in Hp.
    destruct t2 as [|k2 v2|l2 r2]; [discriminate| |].
    + simpl in Hp. inversion Hp. reflexivity.
    + destruct Hw2 as (_ & Hsz & _). simpl in Hp. rewrite <- app_length, Hp in Hsz. simpl in Hsz. lia.
  - pose proof Hw1 as (_ & Hsz1 & _ & _ & Hwl1 & Hwr1).
    pose proof (Permutation_length Hp) as Hlen. simpl in Hlen. rewrite app_length in Hlen.
    destruct t2 as [|k2 v2|l2 r2]; [simpl in Hlen; lia|simpl in Hlen; lia|].
    pose proof Hw2 as (_ & _ & _ & _ & Hwl2 & Hwr2).
    destruct (wf_filter _ _ _ Hw1) as (Fl1 & Fr1). destruct (wf_filter _ _ _ Hw2) as (Fl2 & Fr2).
    pose proof (perm_filter (side lvl false) _ _ Hp) as Pl. rewrite Fl1, Fl2 in Pl.
    pose proof (perm_filter (side lvl true) _ _ Hp) as Pr. rewrite Fr1, Fr2 in Pr.
    f_equal; [eapply IHl|eapply IHr]; eauto.
Qed.

(* two well-formed trees with the same leaves (as a multiset) are the same tree *)
Theorem canonical : forall t1 t2,
  wf t1 -> wf t2 -> Permutation (leaves t1) (leaves t2) -> t1 = t2.
Proof. intros t1 t2. apply canonical_at. Qed.

Lemma wf_nodup_keys : forall t lvl, wf_at lvl t -> NoDup (keys t).
Proof.
  induction t as [|k v|l IHl r IHr]; intros lvl Hwf.
  - constructor.
  - unfold keys; simpl. constructor; [intros []|constructor].
  - destruct Hwf as (_ & _ & HL & HR & Hwl & Hwr). rewrite keys_M.
    assert (G : forall a b : list Z, NoDup a -> NoDup b ->
               (forall x, In x a -> ~ In x b) -> NoDup (a ++ b)).
    { induction a as [|x a IHa]; intros b Ha Hb Hd; simpl; auto.
      inversion Ha; subst. constructor.
      - intros Hin. apply in_app_or in Hin. destruct Hin as [Hin|Hin]; [contradiction|].
        apply (Hd x); [now left|assumption].
      - apply IHa; auto. intros y Hy. apply Hd. now right. }
    apply G; eauto.
    intros x H1 H2. apply HL in H1. apply HR in H2. congruence.
Qed.

(* ================================================================== *)
(* 4. inserting a list: success condition and order independence        *)
(* ================================================================== *)

Fixpoint pairwise (l : list (Z * Z)) : Prop :=
  match l with
  | [] => True
  | a :: r => (forall b, In b r -> ~ clash (fst a) (fst b)) /\ pairwise r
  end.

Lemma pairwise_perm : forall l1 l2, Permutation l1 l2 -> pairwise l1 -> pairwise l2.
Proof.
  induction 1 as [|x l1 l2 HP IH|x y l|l1 l2 l3 HP1 IH1 HP2 IH2]; simpl; auto.
  - intros (H1 & H2). split; auto. intros b Hb. apply H1.
    apply (Permutation_in _ (Permutation_sym HP)). assumption.
  - intros (H1 & H2 & H3). split; [|split; [|assumption]].
    + intros b [<-|Hb]; auto. intros Hc. apply (H1 x (or_introl eq_refl)). now apply clash_sym.
    + intros b Hb. apply H1. now right.
Qed.

Lemma add_list_ok_wf : forall l t t',
  wf t -> add_list t l = Ok t' ->
  wf t' /\ Permutation (leaves t') (l ++ leaves t).
Proof.
  induction l as [|(k, v) l IH]; intros t t' Hwf H; simpl in H.
  - inversion H; subst. simpl. auto.
  - destruct (add t 0 k v) as [t1| | |] eqn:Ha; simpl in H; try discriminate.
    destruct (wf_add _ _ _ _ Hwf Ha) as (Hwf1 & Hp1).
    destruct (IH _ _ Hwf1 H) as (Hwf' & Hp'). split; auto.
    rewrite Hp', Hp1. simpl. symmetry. apply Permutation_middle.
Qed.

Lemma add_list_ok_iff : forall l t,
  wf t ->
  ((exists t', add_list t l = Ok t') <->
   (l = [] \/ (1 <= maxlev)%nat) /\ pairwise l /\
   (forall a k', In a l -> In k' (keys t) -> ~ clash (fst a) k')).
Proof.
  induction l as [|(k, v) l IH]; intros t Hwf; simpl.
  - split; [intros _|eauto]. repeat split; auto; try (intros a k' []).
  - split.
    + intros (t' & H).
      destruct (add t 0 k v) as [t1| | |] eqn:Ha; simpl in H; try discriminate.
      assert (Hml : (1 <= maxlev)%nat).
      { destruct maxlev eqn:Hm; [|lia]. exfalso.
        assert (Hx : add t 0 k v = Err EMaxLevel) by (apply add_maxlevel_iff; auto).
        congruence. }
      destruct (wf_add _ _ _ _ Hwf Ha) as (Hwf1 & Hp1).
      assert (Hex : exists t', add_list t1 l = Ok t') by eauto.
      apply (IH t1 Hwf1) in Hex. destruct Hex as (_ & Hpw & Hcross).
      assert (Hk1 : forall x, In x (keys t1) <-> x = k \/ In x (keys t)).
      { intros x. unfold keys. split; intros Hx.
        - apply (Permutation_in _ (Permutation_map fst Hp1)) in Hx. simpl in Hx.
          destruct Hx; auto.
        - apply (Permutation_in _ (Permutation_sym (Permutation_map fst Hp1))). simpl.
          destruct Hx; auto. }
      assert (Hhead : forall k', In k' (keys t) -> ~ clash k k').
      { apply (add_ok_iff t k v Hwf Hml). eauto. }
      repeat split; auto.
      * intros b Hb Hc. apply (Hcross b k Hb); [apply Hk1; now left|now apply clash_sym].
      * intros a k' [<-|Ha'] Hk'; simpl; auto. apply (Hcross a k' Ha'). apply Hk1. now right.
    + intros ([Hnil|Hml] & (Hhead & Hpw) & Hcross); [discriminate|].
      assert (Hex : exists t1, add t 0 k v = Ok t1).
      { apply add_ok_iff; auto. intros k' Hk'. apply (Hcross (k, v) k'); auto. }
      destruct Hex as (t1 & Ha). rewrite Ha. simpl.
      destruct (wf_add _ _ _ _ Hwf Ha) as (Hwf1 & Hp1).
      apply (IH t1 Hwf1). repeat split; auto.
      intros a k' Ha' Hk'. unfold keys in Hk'.
      apply (Permutation_in _ (Permutation_map fst Hp1)) in Hk'. simpl in Hk'.
      destruct Hk' as [<-|Hk'].
      * intros Hc. apply (Hhead a Ha'). now apply clash_sym.
      * apply Hcross; auto.
Qed.

(* add_all succeeds exactly on lists whose keys are pairwise separated at some level
   <= maxlev-2 (in particular pairwise different) *)
Theorem add_all_ok_iff : forall l,
  (exists t, add_all l = Ok t) <-> (l = [] \/ (1 <= maxlev)%nat) /\ pairwise l.
Proof.
  intros l. unfold Model.add_all. rewrite (add_list_ok_iff l E wf_E). split.
  - intros (A & B & _). auto.
  - intros (A & B). repeat split; auto; try (intros a k' _ []).
Qed.

Theorem add_all_wf : forall l t,
  add_all l = Ok t -> wf t /\ Permutation (leaves t) l.
Proof.
  intros l t H. apply (add_list_ok_wf l E t wf_E) in H. simpl in H.
  now rewrite app_nil_r in H.
Qed.

(* insertion-order independence, success case: the SAME tree, hence the same root *)
Theorem add_all_perm_ok : forall l1 l2 t,
  Permutation l1 l2 -> add_all l1 = Ok t -> add_all l2 = Ok t.
Proof.
  intros l1 l2 t HP H1.
  assert (Hex : exists t2, add_all l2 = Ok t2).
  { apply add_all_ok_iff. assert (H : exists t, add_all l1 = Ok t) by eauto.
    apply add_all_ok_iff in H. destruct H as (A & B). split.
    - destruct A as [->|A]; auto. left. now apply Permutation_nil.
    - eapply pairwise_perm; eauto. }
  destruct Hex as (t2 & H2). rewrite H2. f_equal.
  destruct (add_all_wf _ _ H1) as (W1 & P1). destruct (add_all_wf _ _ H2) as (W2 & P2).
  apply canonical; auto. rewrite P2, P1. now symmetry.
Qed.

Lemma add_list_no_panic : forall l t, add_list t l <> Diverge /\ forall w, add_list t l <> Panic w.
Proof.
  induction l as [|(k, v) l IH]; intros t; simpl.
  - split; [discriminate|intros w; discriminate].
  - destruct (add_cases t 0 k v) as [(t' & H)|[H|H]]; rewrite H; simpl; auto;
      split; try discriminate; intros w; discriminate.
Qed.

Lemma add_list_err_tag : forall l t e,
  wf t -> NoDup (map fst l) -> (forall a, In a l -> ~ In (fst a) (keys t)) ->
  add_list t l = Err e -> e = EMaxLevel.
Proof.
  induction l as [|(k, v) l IH]; intros t e Hwf Hnd Hnew H; simpl in H; [discriminate|].
  simpl in Hnd. inversion Hnd as [|x xs Hnotin Hnd']; subst.
  destruct (add_cases t 0 k v) as [(t' & Ha)|[Ha|Ha]]; rewrite Ha in H; simpl in H.
  - destruct (wf_add _ _ _ _ Hwf Ha) as (Hwf1 & Hp1).
    apply (IH t' e Hwf1 Hnd'); auto.
    intros a Hin Hk. unfold keys in Hk.
    apply (Permutation_in _ (Permutation_map fst Hp1)) in Hk. simpl in Hk.
    destruct Hk as [Hk|Hk].
    + apply Hnotin. rewrite Hk. now apply in_map.
    + apply (Hnew a); auto. now right.
  - exfalso. apply add_exists_iff in Ha; auto. apply (Hnew (k, v)); auto. now left.
  - now inversion H.
Qed.

(* insertion-order independence for duplicate-free lists: literally the same outcome
   (same tree, or the same error class ErrReachedMaxLevel) *)
Theorem add_all_perm : forall l1 l2,
  Permutation l1 l2 -> NoDup (map fst l1) -> add_all l1 = add_all l2.
Proof.
  intros l1 l2 HP Hnd.
  assert (Hnd2 : NoDup (map fst l2)).
  { eapply Permutation_NoDup; [apply Permutation_map; eassumption|assumption]. }
  destruct (add_all l1) as [t1|e1|w1|] eqn:H1.
  - symmetry. eapply add_all_perm_ok; eauto.
  - assert (E1 : e1 = EMaxLevel).
    { eapply (add_list_err_tag l1 E e1 wf_E Hnd); [intros a _ []|exact H1]. }
    destruct (add_all l2) as [t2|e2|w2|] eqn:H2.
    + apply (add_all_perm_ok l2 l1 t2 (Permutation_sym HP)) in H2. congruence.
    + assert (E2 : e2 = EMaxLevel).
      { eapply (add_list_err_tag l2 E e2 wf_E Hnd2); [intros a _ []|exact H2]. }
      congruence.
    + exfalso. exact (proj2 (add_list_no_panic l2 E) w2 H2).
    + exfalso. exact (proj1 (add_list_no_panic l2 E) H2).
  - exfalso. exact (proj2 (add_list_no_panic l1 E) w1 H1).
  - exfalso. exact (proj1 (add_list_no_panic l1 E) H1).
Qed.

Corollary add_all_perm_root : forall l1 l2 t1 t2,
  Permutation l1 l2 -> add_all l1 = Ok t1 -> add_all l2 = Ok t2 -> root t1 = root t2.
Proof.
  intros l1 l2 t1 t2 HP H1 H2. apply (add_all_perm_ok _ _ _ HP) in H1. congruence.
Qed.

(* with duplicates allowed only success/failure is order independent (the class of
   the error can differ: [a;a;b] gives Exists, [a;b;a] MaxLevel when a, b clash) *)
Corollary add_all_perm_fail : forall l1 l2,
  Permutation l1 l2 -> is_ok (add_all l1) = is_ok (add_all l2).
Proof.
  intros l1 l2 HP.
  destruct (add_all l1) as [t1| | |] eqn:H1.
  - now rewrite (add_all_perm_ok _ _ _ HP H1).
  - destruct (add_all l2) as [t2| | |] eqn:H2; auto.
    apply (add_all_perm_ok _ _ _ (Permutation_sym HP)) in H2. congruence.
  - destruct (add_all l2) as [t2| | |] eqn:H2; auto.
    apply (add_all_perm_ok _ _ _ (Permutation_sym HP)) in H2. congruence.
  - destruct (add_all l2) as [t2| | |] eqn:H2; auto.
    apply (add_all_perm_ok _ _ _ (Permutation_sym HP)) in H2. congruence.
Qed.

(* wf is EXACTLY reachability: every well-formed tree is built by inserting its leaves *)
Lemma pairwise_app : forall l1 l2,
  pairwise l1 -> pairwise l2 ->
  (forall a b, In a l1 -> In b l2 -> ~ clash (fst a) (fst b)) -> pairwise (l1 ++ l2).
Proof.
  induction l1 as [|x l1 IH]; intros l2 H1 H2 Hc; simpl; auto.
  destruct H1 as (Hx & H1). split.
  - intros b Hb. apply in_app_or in Hb. destruct Hb as [Hb|Hb]; auto. apply Hc; auto. now left.
  - apply IH; auto. intros a b Ha Hb. apply Hc; auto. now right.
Qed.

Lemma wf_pairwise : forall t lvl, wf_at lvl t -> pairwise (leaves t).
Proof.
  induction t as [|k v|l IHl r IHr]; intros lvl Hwf; simpl.
  - exact I.
  - split; [intros b []|exact I].
  - destruct Hwf as (Hlvl & _ & HL & HR & Hwl & Hwr).
    apply pairwise_app; eauto.
    intros a b Ha Hb Hc.
    assert (A : bit (fst a) lvl = false) by (apply HL; unfold keys; now apply in_map).
    assert (B : bit (fst b) lvl = true) by (apply HR; unfold keys; now apply in_map).
    specialize (Hc lvl ltac:(lia) Hlvl). congruence.
Qed.

Lemma wf_nonempty_maxlev : forall t lvl, wf_at lvl t -> leaves t = [] \/ (1 <= maxlev)%nat.
Proof.
  intros t lvl Hwf. destruct t as [|k v|l r]; simpl in *; auto; right; lia.
Qed.

Theorem wf_reachable : forall t, wf t -> add_all (leaves t) = Ok t.
Proof.
  intros t Hwf.
  assert (Hex : exists t', add_all (leaves t) = Ok t').
  { apply add_all_ok_iff. split; [eapply wf_nonempty_maxlev|eapply wf_pairwise]; eauto. }
  destruct Hex as (t' & H). rewrite H. f_equal.
  destruct (add_all_wf _ _ H) as (W & P). apply canonical; auto.
Qed.

Corollary wf_iff_reachable : forall t, wf t <-> exists l, add_all l = Ok t.
Proof.
  intros t. split.
  - intros H. exists (leaves t). now apply wf_reachable.
  - intros (l & H). now apply add_all_wf in H.
Qed.

End Theory.
