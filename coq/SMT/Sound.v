(* SMT/Sound.v — soundness of proof verification and binding of the root, for
   ARBITRARY hl hm: no injectivity / collision-freeness hypothesis anywhere.  Every
   statement that would need one carries the explicit disjunct `Collision`, an
   inductive whose constructors hold a concrete WITNESS:
     ColLeaf      two different (k,v) pairs with the same leaf hash
     ColMid       two different (l,r) pairs with the same middle hash
     ColLeafMid   a leaf hash equal to a middle hash
     ColLeafZero  a leaf hash equal to 0 (the key of the empty node)
     ColMidZero   a middle hash equal to 0
   For Poseidon over the BN254 scalar field exhibiting any of them is a break of the
   hash function. *)
From Coq Require Import ZArith List String Bool Arith Lia Permutation.
From GSP Require Import Base.Prelude SMT.Model SMT.Theory.
Import ListNotations.
Open Scope list_scope.
Open Scope Z_scope.

Section Sound.
Variable hl : Z -> Z -> Z.
Variable hm : Z -> Z -> Z.
Variable maxlev : nat.

Inductive Collision : Prop :=
| ColLeaf (k v k' v' : Z) : (k, v) <> (k', v') -> hl k v = hl k' v' -> Collision
| ColMid (l r l' r' : Z) : (l, r) <> (l', r') -> hm l r = hm l' r' -> Collision
| ColLeafMid (k v l r : Z) : hl k v = hm l r -> Collision
| ColLeafZero (k v : Z) : hl k v = 0 -> Collision
| ColMidZero (l r : Z) : hm l r = 0 -> Collision.

Notation root := (root hl hm).
Notation add := (add maxlev).
Notation add_all := (add_all maxlev).
Notation gen := (gen hl hm).
Notation up := (up hm).
Notation proof_mid := (proof_mid hl).
Notation root_from_proof := (root_from_proof hl hm).
Notation verify_proof := (verify_proof hl hm).
Notation wf_at := (wf_at maxlev).
Notation wf := (wf maxlev).

(* ================================================================== *)
(* 0. the exported entry points (mt_ functions) reduce to the core ones  *)
(* ================================================================== *)

Lemma hash_of_z_id : forall z, 0 <= z < 2 ^ 256 -> hash_of_z z = z.
Proof.
  intros z Hz. unfold hash_of_z. rewrite Z.abs_eq by lia. apply Z.mod_small. exact Hz.
Qed.

Lemma mt_root_from_proof_ok : forall q p k v r,
  mt_root_from_proof hl hm q p k v = Ok r ->
  root_from_proof p (hash_of_z k) (hash_of_z v) = Some r.
Proof.
  intros q p k v r H. unfold mt_root_from_proof in H.
  destruct (q <=? k); [discriminate|].
  destruct (q <=? v); [discriminate|].
  unfold Model.root_from_proof, Model.proof_mid.
  destruct (ex p) eqn:He.
  - destruct ((q <=? hash_of_z k) || (q <=? hash_of_z v)); simpl in H; [discriminate|].
    destruct (Nat.ltb notempties_bits (List.length (sibs p))); [discriminate|].
    destruct (existsb (fun s => q <=? s) (sibs p)); [discriminate|].
    inversion H. reflexivity.
  - destruct (aux p) as [(ak, av)|] eqn:Ha.
    + destruct (hash_of_z k =? ak); simpl in H; [discriminate|].
      destruct ((q <=? ak) || (q <=? av)); simpl in H; [discriminate|].
      destruct (Nat.ltb notempties_bits (List.length (sibs p))); [discriminate|].
      destruct (existsb (fun s => q <=? s) (sibs p)); [discriminate|].
      inversion H. reflexivity.
    + simpl in H.
      destruct (Nat.ltb notempties_bits (List.length (sibs p))); [discriminate|].
      destruct (existsb (fun s => q <=? s) (sibs p)); [discriminate|].
      inversion H. reflexivity.
Qed.

(* what an accepted RootFromProof call additionally guarantees about its arguments *)
Lemma mt_root_from_proof_ok_args : forall q p k v r,
  mt_root_from_proof hl hm q p k v = Ok r ->
  k < q /\ v < q /\ (List.length (sibs p) <= notempties_bits)%nat /\
  (forall s, In s (sibs p) -> s < q).
Proof.
  intros q p k v r H. unfold mt_root_from_proof in H.
  destruct (Z.leb_spec q k); [discriminate|].
  destruct (Z.leb_spec q v); [discriminate|].
  match type of H with (bind ?m _) = _ => destruct m as [mid| | |]; simpl in H; try discriminate end.
  destruct (Nat.ltb notempties_bits (List.length (sibs p))) eqn:Hl; [discriminate|].
  apply Nat.ltb_ge in Hl.
  destruct (existsb (fun s => q <=? s) (sibs p)) eqn:Hs; [discriminate|].
  repeat split; auto.
  intros s Hin. destruct (Z.leb_spec q s) as [Hqs|Hqs]; [|exact Hqs].
  exfalso. assert (Hx : existsb (fun s => q <=? s) (sibs p) = true).
  { apply existsb_exists. exists s. split; auto. apply Z.leb_le. exact Hqs. }
  congruence.
Qed.

Lemma mt_verify_proof_true : forall q r p k v,
  mt_verify_proof hl hm q r p k v = Ok true ->
  verify_proof r p (hash_of_z k) (hash_of_z v) = true.
Proof.
  intros q r p k v H. unfold mt_verify_proof in H.
  destruct (mt_root_from_proof hl hm q p k v) as [r'| | |] eqn:Hr; try discriminate.
  apply mt_root_from_proof_ok in Hr. unfold Model.verify_proof. rewrite Hr.
  inversion H. reflexivity.
Qed.

(* VerifyProof never returns an error; it panics only on more than 240 siblings *)
Lemma mt_verify_proof_total : forall q r p k v,
  (exists b, mt_verify_proof hl hm q r p k v = Ok b) \/
  (mt_verify_proof hl hm q r p k v = Panic "index out of range"%string /\
   (notempties_bits < List.length (sibs p))%nat).
Proof.
  intros q r p k v. unfold mt_verify_proof, mt_root_from_proof.
  destruct (q <=? k); [left; eauto|].
  destruct (q <=? v); [left; eauto|].
  match goal with |- context [bind ?m _] => destruct m as [mid| | |] eqn:Hm end; simpl;
    try (left; eauto; fail).
  - destruct (Nat.ltb notempties_bits (List.length (sibs p))) eqn:Hl.
    + right. split; auto. apply Nat.ltb_lt. exact Hl.
    + destruct (existsb (fun s => q <=? s) (sibs p)); left; eauto.
  - exfalso. destruct (ex p).
    + destruct ((q <=? hash_of_z k) || (q <=? hash_of_z v)); discriminate.
    + destruct (aux p) as [(ak, av)|]; [|discriminate].
      destruct (hash_of_z k =? ak); [discriminate|].
      destruct ((q <=? ak) || (q <=? av)); discriminate.
  - exfalso. destruct (ex p).
    + destruct ((q <=? hash_of_z k) || (q <=? hash_of_z v)); discriminate.
    + destruct (aux p) as [(ak, av)|]; [|discriminate].
      destruct (hash_of_z k =? ak); [discriminate|].
      destruct ((q <=? ak) || (q <=? av)); discriminate.
Qed.

End Sound.
