(* SMT/Sound.v — soundness of proof verification and binding of the root, for
   ARBITRARY hl hm: no injectivity / collision-freeness hypothesis anywhere.  Every
   statement that would need one carries the explicit disjunct `Collision`, an
   inductive whose constructors hold a concrete WITNESS:
     ColLeaf      two different (k,v) pairs with the same leaf hash
     ColMid       two different (l,r) pairs with the same middle hash
     ColLeafMid   a leaf hash equal to a middle hash
     ColLeafZero  a leaf hash equal to 0 (the key of the empty node)
     ColMidZero   a middle hash equal to 0
   For Poseidon over the BN254 scalar field exhibiting any of them is a break of the
   hash function. *)
From Coq Require Import ZArith List String Bool Arith Lia Permutation.
From GSP Require Import Base.Prelude SMT.Model SMT.Theory.
Import ListNotations.
Open Scope list_scope.
Open Scope Z_scope.

Section Sound.
Variable hl : Z -> Z -> Z.
Variable hm : Z -> Z -> Z.
Variable maxlev : nat.

Inductive Collision : Prop :=
| ColLeaf (k v k' v' : Z) : (k, v) <> (k', v') -> hl k v = hl k' v' -> Collision
| ColMid (l r l' r' : Z) : (l, r) <> (l', r') -> hm l r = hm l' r' -> Collision
| ColLeafMid (k v l r : Z) : hl k v = hm l r -> Collision
| ColLeafZero (k v : Z) : hl k v = 0 -> Collision
| ColMidZero (l r : Z) : hm l r = 0 -> Collision.

Notation root := (root hl hm).
Notation add := (add maxlev).
Notation add_all := (add_all maxlev).
Notation gen := (gen hl hm).
Notation up := (up hm).
Notation proof_mid := (proof_mid hl).
Notation root_from_proof := (root_from_proof hl hm).
Notation verify_proof := (verify_proof hl hm).
Notation wf_at := (wf_at maxlev).
Notation wf := (wf maxlev).

(* ================================================================== *)
(* 0. the exported entry points (mt_ functions) reduce to the core ones  *)
(* ================================================================== *)

Lemma hash_of_z_id : forall z, 0 <= z < 2 ^ 256 -> hash_of_z z = z.
Proof.
  intros z Hz. unfold hash_of_z. rewrite Z.abs_eq by lia. apply Z.mod_small. exact Hz.
Qed.

Lemma mt_root_from_proof_ok : forall q p k v r,
  mt_root_from_proof hl hm q p k v = Ok r ->
  root_from_proof p (hash_of_z k) (hash_of_z v) = Some r.
Proof.
  intros q p k v r H. unfold mt_root_from_proof in H.
  destruct (q <=? k); [discriminate|].
  destruct (q <=? v); [discriminate|].
  unfold Model.root_from_proof, Model.proof_mid.
  destruct (ex p) eqn:He.
  - destruct ((q <=? hash_of_z k) || (q <=? hash_of_z v)); simpl in H; [discriminate|].
    destruct (Nat.ltb notempties_bits (List.length (sibs p))); [discriminate|].
    destruct (existsb (fun s => q <=? s) (sibs p)); [discriminate|].
    inversion H. reflexivity.
  - destruct (aux p) as [(ak, av)|] eqn:Ha.
    + destruct (hash_of_z k =? ak); simpl in H; [discriminate|].
      destruct ((q <=? ak) || (q <=? av)); simpl in H; [discriminate|].
      destruct (Nat.ltb notempties_bits (List.length (sibs p))); [discriminate|].
      destruct (existsb (fun s => q <=? s) (sibs p)); [discriminate|].
      inversion H. reflexivity.
    + simpl in H.
      destruct (Nat.ltb notempties_bits (List.length (sibs p))); [discriminate|].
      destruct (existsb (fun s => q <=? s) (sibs p)); [discriminate|].
      inversion H. reflexivity.
Qed.

(* what an accepted RootFromProof call additionally guarantees about its arguments *)
Lemma mt_root_from_proof_ok_args : forall q p k v r,
  mt_root_from_proof hl hm q p k v = Ok r ->
  k < q /\ v < q /\ (List.length (sibs p) <= notempties_bits)%nat /\
  (forall s, In s (sibs p) -> s < q).
Proof.
  intros q p k v r H. unfold mt_root_from_proof in H.
  destruct (Z.leb_spec q k); [discriminate|].
  destruct (Z.leb_spec q v); [discriminate|].
  match type of H with (bind ?m _) = _ => destruct m as [mid| | |]; simpl in H; try discriminate end.
  destruct (Nat.ltb notempties_bits (List.length (sibs p))) eqn:Hl; [discriminate|].
  apply Nat.ltb_ge in Hl.
  destruct (existsb (fun s => q <=? s) (sibs p)) eqn:Hs; [discriminate|].
  repeat split; auto.
  intros s Hin. destruct (Z.leb_spec q s) as [Hqs|Hqs]; [|exact Hqs].
  exfalso. assert (Hx : existsb (fun s => q <=? s) (sibs p) = true).
  { apply existsb_exists. exists s. split; auto. apply Z.leb_le. exact Hqs. }
  congruence.
Qed.

Lemma mt_verify_proof_true : forall q r p k v,
  mt_verify_proof hl hm q r p k v = Ok true ->
  verify_proof r p (hash_of_z k) (hash_of_z v) = true.
Proof.
  intros q r p k v H. unfold mt_verify_proof in H.
  destruct (mt_root_from_proof hl hm q p k v) as [r'| | |] eqn:Hr; try discriminate.
  apply mt_root_from_proof_ok in Hr. unfold Model.verify_proof. rewrite Hr.
  inversion H. reflexivity.
Qed.

(* VerifyProof never returns an error; it panics only on more than 240 siblings *)
Lemma mt_verify_proof_total : forall q r p k v,
  (exists b, mt_verify_proof hl hm q r p k v = Ok b) \/
  (mt_verify_proof hl hm q r p k v = Panic "index out of range"%string /\
   (notempties_bits < List.length (sibs p))%nat).
Proof.
  intros q r p k v. unfold mt_verify_proof, mt_root_from_proof.
  destruct (q <=? k); [left; eauto|].
  destruct (q <=? v); [left; eauto|].
  match goal with |- context [bind ?m _] => destruct m as [mid| | |] eqn:Hm end; simpl;
    try (left; eauto; fail).
  - destruct (Nat.ltb notempties_bits (List.length (sibs p))) eqn:Hl.
    + right. split; auto. apply Nat.ltb_lt. exact Hl.
    + destruct (existsb (fun s => q <=? s) (sibs p)); left; eauto.
  - exfalso. destruct (ex p).
    + destruct ((q <=? hash_of_z k) || (q <=? hash_of_z v)); discriminate.
    + destruct (aux p) as [(ak, av)|]; [|discriminate].
      destruct (hash_of_z k =? ak); [discriminate|].
      destruct ((q <=? ak) || (q <=? av)); discriminate.
  - exfalso. destruct (ex p).
    + destruct ((q <=? hash_of_z k) || (q <=? hash_of_z v)); discriminate.
    + destruct (aux p) as [(ak, av)|]; [|discriminate].
      destruct (hash_of_z k =? ak); [discriminate|].
      destruct ((q <=? ak) || (q <=? av)); discriminate.
Qed.


(* ================================================================== *)
(* 1. one hash equation: equal arguments, or a collision witness        *)
(* ================================================================== *)

Lemma col_leaf : forall a b c d, hl a b = hl c d -> (a = c /\ b = d) \/ Collision.
Proof.
  intros a b c d H.
  destruct (Z.eq_dec a c) as [Eac|Nac]; [destruct (Z.eq_dec b d) as [Ebd|Nbd]|].
  - left. auto.
  - right. apply (ColLeaf a b c d); [congruence|exact H].
  - right. apply (ColLeaf a b c d); [congruence|exact H].
Qed.

Lemma col_mid : forall a b c d, hm a b = hm c d -> (a = c /\ b = d) \/ Collision.
Proof.
  intros a b c d H.
  destruct (Z.eq_dec a c) as [Eac|Nac]; [destruct (Z.eq_dec b d) as [Ebd|Nbd]|].
  - left. auto.
  - right. apply (ColMid a b c d); [congruence|exact H].
  - right. apply (ColMid a b c d); [congruence|exact H].
Qed.

(* ================================================================== *)
(* 2. binding: the root determines the tree                             *)
(* ================================================================== *)

(* holds for ALL trees, well-formed or not: a tree is a hash-consed term *)
Theorem binding_any : forall t1 t2, root t1 = root t2 -> t1 = t2 \/ Collision.
Proof.
  induction t1 as [|k1 v1|l1 IHl r1 IHr]; intros [|k2 v2|l2 r2] H; simpl in H.
  - left. reflexivity.
  - right. apply (ColLeafZero k2 v2). symmetry. exact H.
  - right. apply (ColMidZero (root l2) (root r2)). symmetry. exact H.
  - right. apply (ColLeafZero k1 v1). exact H.
  - destruct (col_leaf _ _ _ _ H) as [(Ek & Ev)|C]; [|right; exact C].
    left. subst. reflexivity.
  - right. apply (ColLeafMid k1 v1 (root l2) (root r2)). exact H.
  - right. apply (ColMidZero (root l1) (root r1)). exact H.
  - right. apply (ColLeafMid k2 v2 (root l1) (root r1)). symmetry. exact H.
  - destruct (col_mid _ _ _ _ H) as [(El & Er)|C]; [|right; exact C].
    destruct (IHl _ El) as [El'|C]; [|right; exact C].
    destruct (IHr _ Er) as [Er'|C]; [|right; exact C].
    left. subst. reflexivity.
Qed.

Theorem binding : forall t1 t2,
  wf t1 -> wf t2 -> root t1 = root t2 -> t1 = t2 \/ Collision.
Proof. intros t1 t2 _ _. apply binding_any. Qed.

(* equal roots: same leaves (no well-formedness needed) *)
Corollary binding_leaves : forall t1 t2,
  root t1 = root t2 -> leaves t1 = leaves t2 \/ Collision.
Proof.
  intros t1 t2 H. destruct (binding_any _ _ H) as [E12|C]; [left; now subst|right; exact C].
Qed.

(* two lists that both insert successfully and give the same root are permutations of
   each other.  (Success of add_all already forces pairwise different keys, so the
   NoDup hypotheses a client has at hand are not needed.) *)
Theorem add_all_root_binding : forall l1 l2 t1 t2,
  add_all l1 = Ok t1 -> add_all l2 = Ok t2 -> root t1 = root t2 ->
  Permutation l1 l2 \/ Collision.
Proof.
  intros l1 l2 t1 t2 H1 H2 Hr.
  destruct (binding_any _ _ Hr) as [E12|C]; [|right; exact C].
  left. subst t2.
  destruct (add_all_wf _ _ _ H1) as (_ & P1). destruct (add_all_wf _ _ _ H2) as (_ & P2).
  rewrite <- P1. exact P2.
Qed.

Corollary add_all_root_binding_nodup : forall l1 l2 t1 t2,
  NoDup (map fst l1) -> NoDup (map fst l2) ->
  add_all l1 = Ok t1 -> add_all l2 = Ok t2 -> root t1 = root t2 ->
  Permutation l1 l2 \/ Collision.
Proof. intros l1 l2 t1 t2 _ _. apply add_all_root_binding. Qed.

(* the converse direction is Theory.add_all_perm_root; together: for lists that insert
   successfully, equal roots <-> same multiset of leaves, up to a collision witness *)
Corollary add_all_root_iff : forall l1 l2 t1 t2,
  add_all l1 = Ok t1 -> add_all l2 = Ok t2 ->
  (Permutation l1 l2 -> root t1 = root t2) /\
  (root t1 = root t2 -> Permutation l1 l2 \/ Collision).
Proof.
  intros l1 l2 t1 t2 H1 H2. split.
  - intros HP. eapply add_all_perm_root; eauto.
  - apply add_all_root_binding; assumption.
Qed.

(* ================================================================== *)
(* 3. soundness of existence proofs                                     *)
(* ================================================================== *)

(* the chain of hashes of a proof, started at the leaf hash of (k,v) at level lvl,
   reaches the key of a subtree only if (k,v) is a leaf of it.  Any tree, any level,
   any number of siblings (zero siblings included). *)
Lemma up_ex_sound : forall ss t lvl k v,
  up k lvl ss (hl k v) = root t -> In (k, v) (leaves t) \/ Collision.
Proof.
  induction ss as [|s ss IH]; intros t lvl k v H; simpl in H.
  - destruct t as [|k' v'|l r]; simpl in H.
    + right. apply (ColLeafZero k v). exact H.
    + destruct (col_leaf _ _ _ _ H) as [(Ek & Ev)|C]; [|right; exact C].
      left. subst. simpl. auto.
    + right. apply (ColLeafMid k v (root l) (root r)). exact H.
  - destruct t as [|k' v'|l r]; simpl in H.
    + right. destruct (bit k lvl).
      * apply (ColMidZero s (up k (S lvl) ss (hl k v))). exact H.
      * apply (ColMidZero (up k (S lvl) ss (hl k v)) s). exact H.
    + right. destruct (bit k lvl).
      * apply (ColLeafMid k' v' s (up k (S lvl) ss (hl k v))). symmetry. exact H.
      * apply (ColLeafMid k' v' (up k (S lvl) ss (hl k v)) s). symmetry. exact H.
    + destruct (bit k lvl) eqn:Hb.
      * destruct (col_mid _ _ _ _ H) as [(Es & Em)|C]; [|right; exact C].
        destruct (IH _ _ _ _ Em) as [Hin|C]; [|right; exact C].
        left. simpl. apply in_or_app. right. exact Hin.
      * destruct (col_mid _ _ _ _ H) as [(Em & Es)|C]; [|right; exact C].
        destruct (IH _ _ _ _ Em) as [Hin|C]; [|right; exact C].
        left. simpl. apply in_or_app. left. exact Hin.
Qed.

Lemma verify_proof_true : forall r p k v,
  verify_proof r p k v = true ->
  exists mid, proof_mid p k v = Some mid /\ up k 0 (sibs p) mid = r.
Proof.
  intros r p k v H. unfold Model.verify_proof, Model.root_from_proof in H.
  destruct (proof_mid p k v) as [mid|] eqn:Hm; [|discriminate].
  exists mid. split; [reflexivity|]. apply Z.eqb_eq. exact H.
Qed.

(* an accepted proof of existence: (k,v) IS a leaf, or we hold a collision *)
Theorem soundness_ex_any : forall t p k v,
  verify_proof (root t) p k v = true -> ex p = true ->
  In (k, v) (leaves t) \/ Collision.
Proof.
  intros t p k v H He. destruct (verify_proof_true _ _ _ _ H) as (mid & Hm & Hu).
  unfold Model.proof_mid in Hm. rewrite He in Hm. inversion Hm; subst mid.
  eapply up_ex_sound. exact Hu.
Qed.

Theorem soundness_ex : forall t p k v,
  wf t -> verify_proof (root t) p k v = true -> ex p = true ->
  In (k, v) (leaves t) \/ Collision.
Proof. intros t p k v _. apply soundness_ex_any. Qed.

(* ================================================================== *)
(* 4. soundness of non-existence proofs                                 *)
(* ================================================================== *)

(* start values of a non-existence proof for k: the empty node, or a leaf with
   another key (the rule "k = NodeAux.Key => error" of RootFromProof) *)
Definition nonex_mid (k mid : Z) : Prop :=
  mid = 0 \/ exists ak av, ak <> k /\ mid = hl ak av.

Lemma up_nonex_sound : forall ss t lvl k mid,
  wf_at lvl t -> nonex_mid k mid -> up k lvl ss mid = root t ->
  ~ In k (keys t) \/ Collision.
Proof.
  induction ss as [|s ss IH]; intros t lvl k mid Hwf Hmid H; simpl in H.
  - destruct Hmid as [Hz|(ak & av & Hne & Hmk)]; subst mid.
    + destruct t as [|k' v'|l r]; simpl in H.
      * left. intros [].
      * right. apply (ColLeafZero k' v'). symmetry. exact H.
      * right. apply (ColMidZero (root l) (root r)). symmetry. exact H.
    + destruct t as [|k' v'|l r]; simpl in H.
      * right. apply (ColLeafZero ak av). exact H.
      * destruct (col_leaf _ _ _ _ H) as [(Ek & Ev)|C]; [|right; exact C].
        left. unfold keys. simpl. intros [Hk|[]]. subst. contradiction.
      * right. apply (ColLeafMid ak av (root l) (root r)). exact H.
  - destruct t as [|k' v'|l r]; simpl in H.
    + left. intros [].
    + right. destruct (bit k lvl).
      * apply (ColLeafMid k' v' s (up k (S lvl) ss mid)). symmetry. exact H.
      * apply (ColLeafMid k' v' (up k (S lvl) ss mid) s). symmetry. exact H.
    + destruct Hwf as (_ & _ & HL & HR & Hwl & Hwr).
      destruct (bit k lvl) eqn:Hb.
      * destruct (col_mid _ _ _ _ H) as [(Es & Em)|C]; [|right; exact C].
        destruct (IH _ _ _ _ Hwr Hmid Em) as [Hn|C]; [|right; exact C].
        left. rewrite keys_M. intros Hin. apply in_app_or in Hin. destruct Hin as [Hin|Hin].
        -- apply HL in Hin. congruence.
        -- contradiction.
      * destruct (col_mid _ _ _ _ H) as [(Em & Es)|C]; [|right; exact C].
        destruct (IH _ _ _ _ Hwl Hmid Em) as [Hn|C]; [|right; exact C].
        left. rewrite keys_M. intros Hin. apply in_app_or in Hin. destruct Hin as [Hin|Hin].
        -- contradiction.
        -- apply HR in Hin. congruence.
Qed.

Lemma proof_mid_nonex : forall p k v mid,
  ex p = false -> proof_mid p k v = Some mid -> nonex_mid k mid.
Proof.
  intros p k v mid He Hm. unfold Model.proof_mid in Hm. rewrite He in Hm.
  destruct (aux p) as [(ak, av)|].
  - destruct (Z.eqb_spec k ak) as [Heq|Hne]; [discriminate|].
    inversion Hm. right. exists ak, av. split; [congruence|reflexivity].
  - inversion Hm. left. reflexivity.
Qed.

(* an accepted proof of non-existence: k is NOT a key of the tree, or we hold a
   collision.  Here well-formedness matters: every leaf sits on the path of its key. *)
Theorem soundness_nonex : forall t p k v,
  wf t -> verify_proof (root t) p k v = true -> ex p = false ->
  ~ In k (keys t) \/ Collision.
Proof.
  intros t p k v Hwf H He. destruct (verify_proof_true _ _ _ _ H) as (mid & Hm & Hu).
  eapply up_nonex_sound; [exact Hwf|eapply proof_mid_nonex; eassumption|exact Hu].
Qed.

(* both in one: what an accepted proof says about the tree *)
Corollary soundness : forall t p k v,
  wf t -> verify_proof (root t) p k v = true ->
  (if ex p then In (k, v) (leaves t) else ~ In k (keys t)) \/ Collision.
Proof.
  intros t p k v Hwf H. destruct (ex p) eqn:He.
  - eapply soundness_ex; eauto.
  - eapply soundness_nonex; eauto.
Qed.

(* no tree has both kinds of accepted proof for one key *)
Corollary no_double_proof : forall t p1 p2 k v1 v2,
  wf t -> verify_proof (root t) p1 k v1 = true -> ex p1 = true ->
  verify_proof (root t) p2 k v2 = true -> ex p2 = false -> Collision.
Proof.
  intros t p1 p2 k v1 v2 Hwf H1 E1 H2 E2.
  destruct (soundness_ex _ _ _ _ Hwf H1 E1) as [Hin|C]; [|exact C].
  destruct (soundness_nonex _ _ _ _ Hwf H2 E2) as [Hn|C]; [|exact C].
  exfalso. apply Hn. apply in_keys. eauto.
Qed.

(* an accepted existence proof fixes the value: a well-formed tree has one leaf per key *)
Corollary value_binding : forall t p1 p2 k v1 v2,
  wf t -> verify_proof (root t) p1 k v1 = true -> ex p1 = true ->
  verify_proof (root t) p2 k v2 = true -> ex p2 = true -> v1 = v2 \/ Collision.
Proof.
  intros t p1 p2 k v1 v2 Hwf H1 E1 H2 E2.
  destruct (soundness_ex _ _ _ _ Hwf H1 E1) as [Hin1|C]; [|right; exact C].
  destruct (soundness_ex _ _ _ _ Hwf H2 E2) as [Hin2|C]; [|right; exact C].
  left. pose proof (wf_nodup_keys maxlev t 0 Hwf) as Hnd. unfold keys in Hnd.
  revert Hnd Hin1 Hin2. generalize (leaves t). intros l.
  induction l as [|(a, b) l IHl]; simpl; intros Hnd Hin1 Hin2; [contradiction|].
  inversion Hnd as [|x xs Hnotin Hnd']; subst.
  destruct Hin1 as [E1'|Hin1]; destruct Hin2 as [E2'|Hin2].
  - congruence.
  - exfalso. inversion E1'; subst. apply Hnotin. apply (in_map fst) in Hin2. exact Hin2.
  - exfalso. inversion E2'; subst. apply Hnotin. apply (in_map fst) in Hin1. exact Hin1.
  - apply IHl; assumption.
Qed.

(* ================================================================== *)
(* 5. the exported entry points (what a verifier really calls)          *)
(* ================================================================== *)

(* VerifyProof(root, proof, k, v) = true with Existence set: the normalised pair is a
   leaf.  Every restriction of the real function only removes accepted inputs: at most
   240 siblings, all numbers below q; a Panic is not `Ok true`. *)
Theorem mt_soundness_ex : forall q t p k v,
  wf t -> mt_verify_proof hl hm q (root t) p k v = Ok true -> ex p = true ->
  In (hash_of_z k, hash_of_z v) (leaves t) \/ Collision.
Proof.
  intros q t p k v Hwf H He. apply mt_verify_proof_true in H.
  eapply soundness_ex; eauto.
Qed.

Theorem mt_soundness_nonex : forall q t p k v,
  wf t -> mt_verify_proof hl hm q (root t) p k v = Ok true -> ex p = false ->
  ~ In (hash_of_z k) (keys t) \/ Collision.
Proof.
  intros q t p k v Hwf H He. apply mt_verify_proof_true in H.
  eapply soundness_nonex; eauto.
Qed.

(* for the numbers a caller normally passes (0 <= k,v, field below 2^256) no
   normalisation happens *)
Lemma mt_verify_args : forall q r p k v,
  q <= 2 ^ 256 -> 0 <= k -> 0 <= v ->
  mt_verify_proof hl hm q r p k v = Ok true -> hash_of_z k = k /\ hash_of_z v = v.
Proof.
  intros q r p k v Hq Hk Hv H. unfold mt_verify_proof in H.
  destruct (mt_root_from_proof hl hm q p k v) as [r'| | |] eqn:Hr; try discriminate.
  destruct (mt_root_from_proof_ok_args _ _ _ _ _ Hr) as (Hkq & Hvq & _).
  split; apply hash_of_z_id; lia.
Qed.

Corollary mt_soundness_ex_plain : forall q t p k v,
  q <= 2 ^ 256 -> 0 <= k -> 0 <= v ->
  wf t -> mt_verify_proof hl hm q (root t) p k v = Ok true -> ex p = true ->
  In (k, v) (leaves t) \/ Collision.
Proof.
  intros q t p k v Hq Hk Hv Hwf H He.
  destruct (mt_verify_args _ _ _ _ _ Hq Hk Hv H) as (Ek & Ev).
  pose proof (mt_soundness_ex _ _ _ _ _ Hwf H He) as S. rewrite Ek, Ev in S. exact S.
Qed.

Corollary mt_soundness_nonex_plain : forall q t p k v,
  q <= 2 ^ 256 -> 0 <= k -> 0 <= v ->
  wf t -> mt_verify_proof hl hm q (root t) p k v = Ok true -> ex p = false ->
  ~ In k (keys t) \/ Collision.
Proof.
  intros q t p k v Hq Hk Hv Hwf H He.
  destruct (mt_verify_args _ _ _ _ _ Hq Hk Hv H) as (Ek & Ev).
  pose proof (mt_soundness_nonex _ _ _ _ _ Hwf H He) as S. rewrite Ek in S. exact S.
Qed.

(* ================================================================== *)
(* 6. GenerateProof decides membership on well-formed trees             *)
(* ================================================================== *)

Lemma gen_ex_iff_at : forall t lvl k acc,
  wf_at lvl t -> (ex (fst (gen t lvl k acc)) = true <-> In k (keys t)).
Proof.
  induction t as [|k' v'|l IHl r IHr]; intros lvl k acc Hwf; simpl.
  - split; [discriminate|intros []].
  - unfold keys. simpl. destruct (Z.eqb_spec k k') as [Heq|Hne]; simpl.
    + split; auto.
    + split; [discriminate|]. intros [Hk|[]]. congruence.
  - destruct Hwf as (_ & _ & HL & HR & Hwl & Hwr). rewrite keys_M.
    destruct (bit k lvl) eqn:Hb.
    + rewrite (IHr _ k _ Hwr). split; intros Hin; [apply in_or_app; now right|].
      apply in_app_or in Hin. destruct Hin as [Hin|Hin]; [|exact Hin].
      apply HL in Hin. congruence.
    + rewrite (IHl _ k _ Hwl). split; intros Hin; [apply in_or_app; now left|].
      apply in_app_or in Hin. destruct Hin as [Hin|Hin]; [exact Hin|].
      apply HR in Hin. congruence.
Qed.

(* the existence flag of the generated proof IS membership *)
Theorem gen_ex_iff : forall t k,
  wf t -> (ex (fst (gen t 0 k [])) = true <-> In k (keys t)).
Proof. intros t k. apply gen_ex_iff_at. Qed.

Corollary gen_nonex_iff : forall t k,
  wf t -> (ex (fst (gen t 0 k [])) = false <-> ~ In k (keys t)).
Proof.
  intros t k Hwf. rewrite <- (gen_ex_iff t k Hwf).
  destruct (ex (fst (gen t 0 k []))); split; intros H; congruence.
Qed.

Lemma gen_member_at : forall t lvl k v acc,
  wf_at lvl t -> In (k, v) (leaves t) ->
  exists p, gen t lvl k acc = (p, v) /\ ex p = true /\ aux p = None.
Proof.
  induction t as [|k' v'|l IHl r IHr]; intros lvl k v acc Hwf Hin; simpl in *.
  - contradiction.
  - destruct Hin as [Heq|[]]. inversion Heq; subst. rewrite Z.eqb_refl. eauto.
  - destruct Hwf as (_ & _ & HL & HR & Hwl & Hwr).
    apply in_app_or in Hin. destruct Hin as [Hin|Hin].
    + assert (Hb : bit k lvl = false).
      { apply HL. unfold keys. apply (in_map fst) in Hin. exact Hin. }
      rewrite Hb. apply IHl; assumption.
    + assert (Hb : bit k lvl = true).
      { apply HR. unfold keys. apply (in_map fst) in Hin. exact Hin. }
      rewrite Hb. apply IHr; assumption.
Qed.

(* every leaf of a well-formed tree gets an existence proof carrying its value, and
   that proof verifies (with Theory.completeness_verify) *)
Theorem gen_member : forall t k v,
  wf t -> In (k, v) (leaves t) ->
  exists p, gen t 0 k [] = (p, v) /\ ex p = true /\ aux p = None /\
            verify_proof (root t) p k v = true.
Proof.
  intros t k v Hwf Hin.
  destruct (gen_member_at t 0 k v [] Hwf Hin) as (p & Hg & He & Ha).
  exists p. repeat split; auto.
  pose proof (completeness_verify hl hm _ _ _ _ Hg) as Hc. rewrite He in Hc. exact Hc.
Qed.

(* every absent key gets a non-existence proof that verifies against any value *)
Theorem gen_absent : forall t k v0,
  wf t -> ~ In k (keys t) ->
  exists p v, gen t 0 k [] = (p, v) /\ ex p = false /\
              verify_proof (root t) p k v0 = true.
Proof.
  intros t k v0 Hwf Hn. destruct (gen t 0 k []) as (p, v) eqn:Hg.
  assert (He : ex p = false).
  { pose proof (proj2 (gen_nonex_iff t k Hwf) Hn) as Hx. rewrite Hg in Hx. exact Hx. }
  exists p, v. repeat split; auto.
  pose proof (completeness_verify hl hm _ _ _ _ Hg) as Hc. rewrite He in Hc.
  unfold Model.verify_proof in *.
  rewrite (root_from_proof_nonex_any_v hl hm p k v0 0 He). exact Hc.
Qed.

(* the level bound of GenerateProof's loop is never hit on a well-formed tree *)
Lemma gen_b_wf_at : forall t lvl k acc,
  wf_at lvl t -> (lvl < maxlev)%nat ->
  gen_b hl hm (maxlev - lvl) t lvl k acc = Ok (gen t lvl k acc).
Proof.
  induction t as [|k' v'|l IHl r IHr]; intros lvl k acc Hwf Hlt;
    destruct (maxlev - lvl)%nat as [|f] eqn:Hf; try lia; simpl.
  - reflexivity.
  - destruct (k =? k'); reflexivity.
  - destruct Hwf as (Hlvl & _ & _ & _ & Hwl & Hwr).
    assert (Ef : f = (maxlev - S lvl)%nat) by lia. subst f.
    destruct (bit k lvl); [apply IHr|apply IHl]; auto; lia.
Qed.

Theorem gen_b_wf : forall t k,
  wf t -> (1 <= maxlev)%nat -> gen_b hl hm maxlev t 0 k [] = Ok (gen t 0 k []).
Proof.
  intros t k Hwf Hml. pose proof (gen_b_wf_at t 0 k [] Hwf ltac:(lia)) as H.
  rewrite Nat.sub_0_r in H. exact H.
Qed.

(* MerkleTree.GenerateProof on a well-formed tree: an error only for k >= q *)
Corollary mt_gen_wf : forall q t k,
  wf t -> (1 <= maxlev)%nat -> k < q ->
  mt_gen hl hm maxlev q t k = Ok (gen t 0 (hash_of_z k) []).
Proof.
  intros q t k Hwf Hml Hk. unfold mt_gen.
  destruct (Z.leb_spec q k); [lia|]. apply gen_b_wf; assumption.
Qed.


(* ================================================================== *)
(* 7. uniqueness: the only accepted proof is the generated one           *)
(* ================================================================== *)

(* where GenerateProof's walk for k stops, and the siblings it passes *)
Fixpoint term (t : tree) (lvl : nat) (k : Z) : tree :=
  match t with
  | M l r => if bit k lvl then term r (S lvl) k else term l (S lvl) k
  | _ => t
  end.
Fixpoint psibs (t : tree) (lvl : nat) (k : Z) : list Z :=
  match t with
  | M l r => if bit k lvl then root l :: psibs r (S lvl) k else root r :: psibs l (S lvl) k
  | _ => []
  end.
Definition gen_of_term (n : tree) (ss : list Z) (k : Z) : proof * Z :=
  match n with
  | L k' v' => if k =? k' then (mkproof true ss None, v')
               else (mkproof false ss (Some (k', v')), v')
  | _ => (mkproof false ss None, 0)
  end.

Lemma gen_term : forall t lvl k acc,
  gen t lvl k acc = gen_of_term (term t lvl k) (rev acc ++ psibs t lvl k) k.
Proof.
  induction t as [|k' v'|l IHl r IHr]; intros lvl k acc; simpl.
  - rewrite app_nil_r. reflexivity.
  - rewrite app_nil_r. reflexivity.
  - destruct (bit k lvl).
    + rewrite IHr. simpl. rewrite <- app_assoc. reflexivity.
    + rewrite IHl. simpl. rewrite <- app_assoc. reflexivity.
Qed.

Lemma term_not_M : forall t lvl k l r, term t lvl k <> M l r.
Proof.
  induction t as [|k' v'|l0 IHl r0 IHr]; intros lvl k l r; simpl; try discriminate.
  destruct (bit k lvl); auto.
Qed.

(* a chain of hashes that starts at 0 or at a leaf hash and reaches the key of t has
   exactly the siblings of k's path in t and starts at the node where that path ends *)
Lemma up_unique : forall ss t lvl k mid,
  (mid = 0 \/ exists a b, mid = hl a b) ->
  up k lvl ss mid = root t ->
  (ss = psibs t lvl k /\ mid = root (term t lvl k)) \/ Collision.
Proof.
  induction ss as [|s ss IH]; intros t lvl k mid Hmid H; simpl in H.
  - destruct t as [|k' v'|l r]; simpl.
    + left. auto.
    + left. auto.
    + right. simpl in H. destruct Hmid as [Hz|(a & b & Hab)]; subst mid.
      * apply (ColMidZero (root l) (root r)). symmetry. exact H.
      * apply (ColLeafMid a b (root l) (root r)). exact H.
  - destruct t as [|k' v'|l r]; simpl in H.
    + right. destruct (bit k lvl).
      * apply (ColMidZero s (up k (S lvl) ss mid)). exact H.
      * apply (ColMidZero (up k (S lvl) ss mid) s). exact H.
    + right. destruct (bit k lvl).
      * apply (ColLeafMid k' v' s (up k (S lvl) ss mid)). symmetry. exact H.
      * apply (ColLeafMid k' v' (up k (S lvl) ss mid) s). symmetry. exact H.
    + simpl. destruct (bit k lvl) eqn:Hb.
      * destruct (col_mid _ _ _ _ H) as [(Es & Em)|C]; [|right; exact C].
        destruct (IH _ _ _ _ Hmid Em) as [(Ess & Emid)|C]; [|right; exact C].
        left. subst. auto.
      * destruct (col_mid _ _ _ _ H) as [(Em & Es)|C]; [|right; exact C].
        destruct (IH _ _ _ _ Hmid Em) as [(Ess & Emid)|C]; [|right; exact C].
        left. subst. auto.
Qed.

(* Whatever proof VerifyProof accepts for key k against the root of t (ANY tree), it
   has the existence flag and exactly the sibling list (zero siblings included, no
   more, no fewer levels) of the proof GenerateProof builds for k; an existence proof
   carries the stored value, a non-existence proof the same NodeAux.  The only
   freedom left is what RootFromProof does not read: NodeAux of an existence proof and
   the value argument of a non-existence proof. *)
Theorem proof_unique : forall t p k v p' v',
  verify_proof (root t) p k v = true -> gen t 0 k [] = (p', v') ->
  (ex p = ex p' /\ sibs p = sibs p' /\ (if ex p then v = v' else aux p = aux p')) \/ Collision.
Proof.
  intros t p k v p' v' H Hg. destruct (verify_proof_true _ _ _ _ H) as (mid & Hm & Hu).
  assert (Hleafish : mid = 0 \/ exists a b, mid = hl a b).
  { unfold Model.proof_mid in Hm. destruct (ex p).
    - inversion Hm. right. eauto.
    - destruct (aux p) as [(ak, av)|].
      + destruct (k =? ak); [discriminate|]. inversion Hm. right. eauto.
      + inversion Hm. left. reflexivity. }
  destruct (up_unique _ _ _ _ _ Hleafish Hu) as [(Ess & Emid)|C]; [|right; exact C].
  rewrite gen_term in Hg. simpl in Hg.
  unfold Model.proof_mid in Hm.
  destruct (term t 0 k) as [|k' v0|l r] eqn:Ht.
  - (* the path ends at an empty node *)
    simpl in Hg, Emid. inversion Hg; subst p' v'; clear Hg. simpl.
    destruct (ex p).
    + right. inversion Hm. apply (ColLeafZero k v). congruence.
    + destruct (aux p) as [(ak, av)|].
      * destruct (k =? ak); [discriminate|]. right. inversion Hm.
        apply (ColLeafZero ak av). congruence.
      * left. auto.
  - (* the path ends at a leaf *)
    simpl in Hg, Emid. destruct (ex p).
    + inversion Hm as [Hm']. rewrite Emid in Hm'.
      destruct (col_leaf _ _ _ _ Hm') as [(Ek & Ev)|C]; [|right; exact C].
      subst k' v0. rewrite Z.eqb_refl in Hg. inversion Hg; subst p' v'. simpl. left. auto.
    + destruct (aux p) as [(ak, av)|].
      * destruct (Z.eqb_spec k ak) as [Heq|Hne]; [discriminate|].
        inversion Hm as [Hm']. rewrite Emid in Hm'.
        destruct (col_leaf _ _ _ _ Hm') as [(Ek & Ev)|C]; [|right; exact C].
        subst k' v0. destruct (Z.eqb_spec k ak) as [Heq|_]; [contradiction|].
        inversion Hg; subst p' v'. simpl. left. auto.
      * right. inversion Hm. apply (ColLeafZero k' v0). congruence.
  - exfalso. exact (term_not_M _ _ _ _ _ Ht).
Qed.

(* ================================================================== *)
(* 8. the exported entry points: invariants of Add, completeness         *)
(* ================================================================== *)

(* every number stored in the tree is a canonical field element *)
Definition tree_in_field (q : Z) (t : tree) : Prop :=
  forall k v, In (k, v) (leaves t) -> (0 <= k < q) /\ (0 <= v < q).

Lemma tree_in_field_E : forall q, tree_in_field q E.
Proof. intros q k v []. Qed.

Lemma hash_of_z_nonneg : forall z, 0 <= hash_of_z z.
Proof. intros z. unfold hash_of_z. apply Z.mod_pos_bound. lia. Qed.

(* MerkleTree.Add succeeds exactly when the arguments pass both field checks and the
   core insertion of the normalised pair succeeds *)
Lemma mt_add_ok_inv : forall q t k v t',
  mt_add maxlev q t k v = Ok t' <->
  k < q /\ v < q /\ hash_of_z k < q /\ hash_of_z v < q /\
  add t 0 (hash_of_z k) (hash_of_z v) = Ok t'.
Proof.
  intros q t k v t'. unfold mt_add.
  destruct (Z.leb_spec q k) as [Hk|Hk]; [split; [discriminate|intros (A & _); lia]|].
  destruct (Z.leb_spec q v) as [Hv|Hv]; [split; [discriminate|intros (_ & A & _); lia]|].
  destruct (add t 0 (hash_of_z k) (hash_of_z v)) as [t1| | |] eqn:Ha; simpl.
  - destruct (Z.leb_spec q (hash_of_z k)) as [Hk'|Hk']; simpl.
    + split; [discriminate|intros (_ & _ & A & _); lia].
    + destruct (Z.leb_spec q (hash_of_z v)) as [Hv'|Hv']; simpl.
      * split; [discriminate|intros (_ & _ & _ & A & _); lia].
      * split; [intros H; inversion H; subst; auto|].
        intros (_ & _ & _ & _ & H). exact H.
  - split; [discriminate|intros (_ & _ & _ & _ & H); discriminate].
  - split; [discriminate|intros (_ & _ & _ & _ & H); discriminate].
  - split; [discriminate|intros (_ & _ & _ & _ & H); discriminate].
Qed.

(* Add keeps the tree well formed and in the field, and adds exactly the normalised leaf *)
Theorem mt_add_wf : forall q t k v t',
  wf t -> tree_in_field q t -> mt_add maxlev q t k v = Ok t' ->
  wf t' /\ tree_in_field q t' /\
  Permutation (leaves t') ((hash_of_z k, hash_of_z v) :: leaves t).
Proof.
  intros q t k v t' Hwf Hf H. apply mt_add_ok_inv in H.
  destruct H as (_ & _ & Hk & Hv & Ha).
  destruct (wf_add maxlev _ _ _ _ Hwf Ha) as (Hwf' & HP).
  repeat split; auto.
  - apply (Permutation_in _ HP) in H. simpl in H. destruct H as [Heq|Hin].
    + inversion Heq; subst. apply hash_of_z_nonneg.
    + apply (Hf _ _ Hin).
  - apply (Permutation_in _ HP) in H. simpl in H. destruct H as [Heq|Hin].
    + inversion Heq; subst. exact Hk.
    + apply (Hf _ _ Hin).
  - apply (Permutation_in _ HP) in H. simpl in H. destruct H as [Heq|Hin].
    + inversion Heq; subst. apply hash_of_z_nonneg.
    + apply (Hf _ _ Hin).
  - apply (Permutation_in _ HP) in H. simpl in H. destruct H as [Heq|Hin].
    + inversion Heq; subst. exact Hv.
    + apply (Hf _ _ Hin).
Qed.

(* the error classes of MerkleTree.Add on arguments that pass the field checks are
   exactly those of the core insertion (Theory.add_exists_iff / add_maxlevel_iff) *)
Lemma mt_add_err_inv : forall q t k v e,
  k < q -> v < q ->
  mt_add maxlev q t k v = Err e ->
  add t 0 (hash_of_z k) (hash_of_z v) = Err e \/
  (e = EHash /\ exists t', add t 0 (hash_of_z k) (hash_of_z v) = Ok t').
Proof.
  intros q t k v e Hk Hv H. unfold mt_add in H.
  destruct (Z.leb_spec q k); [lia|]. destruct (Z.leb_spec q v); [lia|].
  destruct (add t 0 (hash_of_z k) (hash_of_z v)) as [t1| | |] eqn:Ha; simpl in H;
    try discriminate.
  - right. destruct ((q <=? hash_of_z k) || (q <=? hash_of_z v)); [|discriminate].
    inversion H. eauto.
  - left. exact H.
Qed.

Lemma gen_sibs_psibs : forall t k, sibs (fst (gen t 0 k [])) = psibs t 0 k.
Proof.
  intros t k. rewrite gen_term. simpl.
  destruct (term t 0 k) as [|k' v'|l r]; simpl; try reflexivity.
  destruct (k =? k'); reflexivity.
Qed.

Lemma psibs_length : forall t lvl k,
  wf_at lvl t -> (lvl < maxlev)%nat -> (lvl + List.length (psibs t lvl k) < maxlev)%nat.
Proof.
  induction t as [|k' v'|l IHl r IHr]; intros lvl k Hwf Hlt; simpl; try lia.
  destruct Hwf as (Hlvl & _ & _ & _ & Hwl & Hwr).
  destruct (bit k lvl); simpl.
  - specialize (IHr (S lvl) k Hwr ltac:(lia)). lia.
  - specialize (IHl (S lvl) k Hwl ltac:(lia)). lia.
Qed.

(* a generated proof of a well-formed tree has at most maxlev-1 siblings *)
Corollary gen_depth : forall t k,
  wf t -> (1 <= maxlev)%nat ->
  (List.length (sibs (fst (gen t 0 k []))) <= maxlev - 1)%nat.
Proof.
  intros t k Hwf Hml. rewrite gen_sibs_psibs.
  pose proof (psibs_length t 0 k Hwf ltac:(lia)). lia.
Qed.

Lemma root_range : forall q t,
  0 < q -> (forall a b, 0 <= hl a b < q) -> (forall a b, 0 <= hm a b < q) -> 0 <= root t < q.
Proof. intros q t Hq Hl Hm. destruct t; simpl; auto. lia. Qed.

Lemma psibs_range : forall q t lvl k s,
  0 < q -> (forall a b, 0 <= hl a b < q) -> (forall a b, 0 <= hm a b < q) ->
  In s (psibs t lvl k) -> 0 <= s < q.
Proof.
  intros q t. induction t as [|k' v'|l IHl r IHr]; intros lvl k s Hq Hl Hm Hin; simpl in Hin;
    try contradiction.
  destruct (bit k lvl); destruct Hin as [Heq|Hin]; subst; eauto using root_range.
Qed.

Lemma mt_root_from_proof_intro : forall q p k v r,
  k < q -> v < q ->
  (ex p = true -> hash_of_z k < q /\ hash_of_z v < q) ->
  (ex p = false -> forall ak av, aux p = Some (ak, av) -> ak < q /\ av < q) ->
  (List.length (sibs p) <= notempties_bits)%nat ->
  (forall s, In s (sibs p) -> s < q) ->
  root_from_proof p (hash_of_z k) (hash_of_z v) = Some r ->
  mt_root_from_proof hl hm q p k v = Ok r.
Proof.
  intros q p k v r Hk Hv Hex Haux Hlen Hs H.
  unfold Model.root_from_proof, Model.proof_mid in H. unfold mt_root_from_proof.
  destruct (Z.leb_spec q k); [lia|]. destruct (Z.leb_spec q v); [lia|].
  assert (Hl : Nat.ltb notempties_bits (List.length (sibs p)) = false) by (apply Nat.ltb_ge; exact Hlen).
  assert (He : existsb (fun s => q <=? s) (sibs p) = false).
  { destruct (existsb (fun s => q <=? s) (sibs p)) eqn:E; [|reflexivity].
    apply existsb_exists in E. destruct E as (s & Hin & Hle). apply Z.leb_le in Hle.
    specialize (Hs s Hin). lia. }
  destruct (ex p) eqn:Hexp.
  - destruct (Hex eq_refl) as (Hk' & Hv').
    destruct (Z.leb_spec q (hash_of_z k)); [lia|]. destruct (Z.leb_spec q (hash_of_z v)); [lia|].
    simpl. rewrite Hl, He. inversion H. reflexivity.
  - destruct (aux p) as [(ak, av)|] eqn:Ha.
    + destruct (hash_of_z k =? ak); [discriminate|].
      destruct (Haux eq_refl ak av eq_refl) as (Hak & Hav).
      destruct (Z.leb_spec q ak); [lia|]. destruct (Z.leb_spec q av); [lia|].
      simpl. rewrite Hl, He. inversion H. reflexivity.
    + simpl. rewrite Hl, He. inversion H. reflexivity.
Qed.

(* COMPLETENESS OF THE REAL ENTRY POINTS.  If the hash functions map into the field
   (true for Poseidon; a range condition, not injectivity), the field is at most 2^256
   and the tree has at most 241 levels (so a proof has at most 240 siblings), then on
   every tree built by Add, for EVERY key k < q (member or not, also negative),
   GenerateProof succeeds and VerifyProof accepts its result against the root: with the
   returned value for an existence proof, with 0 for a non-existence proof. *)
Theorem mt_completeness : forall q t k,
  0 < q -> q <= 2 ^ 256 ->
  (forall a b, 0 <= hl a b < q) -> (forall a b, 0 <= hm a b < q) ->
  (1 <= maxlev <= 241)%nat -> wf t -> tree_in_field q t -> k < q ->
  exists p v,
    mt_gen hl hm maxlev q t k = Ok (p, v) /\
    mt_verify_proof hl hm q (root t) p k (if ex p then v else 0) = Ok true /\
    (ex p = true <-> In (hash_of_z k) (keys t)) /\
    (ex p = true -> In (hash_of_z k, v) (leaves t)).
Proof.
  intros q t k Hq Hq256 Hl Hm Hml Hwf Hf Hk.
  destruct (gen t 0 (hash_of_z k) []) as (p, v) eqn:Hg. exists p, v.
  split; [rewrite (mt_gen_wf q t k Hwf ltac:(lia) Hk), Hg; reflexivity|].
  assert (Hiff : ex p = true <-> In (hash_of_z k) (keys t)).
  { pose proof (gen_ex_iff t (hash_of_z k) Hwf) as G. rewrite Hg in G. exact G. }
  assert (Hleaf : ex p = true -> In (hash_of_z k, v) (leaves t)).
  { intros He. eapply gen_ex_leaf; eauto. }
  split; [|split; assumption].
  set (va := if ex p then v else 0).
  assert (Hva : 0 <= va < q).
  { unfold va. destruct (ex p) eqn:He; [|lia]. apply (Hf _ _ (Hleaf eq_refl)). }
  assert (Hvaid : hash_of_z va = va) by (apply hash_of_z_id; lia).
  pose proof (completeness hl hm _ _ _ _ Hg) as Hc. fold va in Hc.
  assert (Hsibs : sibs p = psibs t 0 (hash_of_z k)).
  { pose proof (gen_sibs_psibs t (hash_of_z k)) as G. rewrite Hg in G. exact G. }
  assert (Hr : mt_root_from_proof hl hm q p k va = Ok (root t)).
  { apply mt_root_from_proof_intro; try lia.
    - intros He. split; [apply (Hf _ _ (Hleaf He))|rewrite Hvaid; lia].
    - intros He ak av Ha. destruct (gen_aux_leaf hl hm _ _ _ _ _ _ _ _ Hg Ha) as (_ & _ & _ & Hin).
      split; apply (Hf _ _ Hin).
    - rewrite Hsibs. pose proof (psibs_length t 0 (hash_of_z k) Hwf ltac:(lia)) as Hlen.
      unfold notempties_bits. lia.
    - intros s Hin. rewrite Hsibs in Hin. eapply psibs_range; eauto.
    - rewrite Hvaid. exact Hc. }
  unfold mt_verify_proof. rewrite Hr, Z.eqb_refl. reflexivity.
Qed.

(* Well-formedness cannot be dropped from soundness_nonex, for ANY pair of hash
   functions (also collision-free ones): in the ill-formed tree M (L 1 10) E the leaf
   with key 1 hangs on the 0-side although bit 0 of its key is 1; the walk for key 1
   goes right, meets the empty node, and that non-existence proof verifies. *)
Theorem soundness_nonex_without_wf_refuted :
  exists t p k v, verify_proof (root t) p k v = true /\ ex p = false /\ In k (keys t).
Proof.
  exists (M (L 1 10) E), (mkproof false [hl 1 10] None), 1, 0.
  unfold Model.verify_proof, Model.root_from_proof, Model.proof_mid, keys. simpl.
  rewrite Z.eqb_refl. auto.
Qed.

End Sound.

(* ================================================================== *)
(* Examples: the hypotheses are satisfiable, the conclusions are hit on  *)
(* their first disjunct by a toy hash pair, and on their second by a     *)
(* colliding one (so the Collision disjunct cannot be dropped)           *)
(* ================================================================== *)
Module SoundExamples.

Definition thl (k v : Z) : Z := 2 * (k * 1000 + v) + 1.      (* odd, > 0 on k,v >= 0 *)
Definition thm (l r : Z) : Z := 2 * (l * 1000003 + r) + 2.   (* even, > 0 on l,r >= 0 *)
Definition toy_list : list (Z * Z) := [(1, 10); (2, 20); (5, 50); (13, 130); (29, 290)].
Definition toy_t : tree :=
  match add_all 8 toy_list with Ok t => t | _ => E end.

Example toy_built : add_all 8 toy_list = Ok toy_t.
Proof. vm_compute. reflexivity. Qed.
Example toy_wf : wf 8 toy_t.
Proof. exact (proj1 (add_all_wf 8 _ _ toy_built)). Qed.
Example toy_depth : List.length (sibs (fst (gen thl thm toy_t 0 29 []))) = 5%nat.
Proof. vm_compute. reflexivity. Qed.

(* soundness_ex: hypotheses hold for the generated proof of the deep leaf (29,290),
   and the conclusion holds through its first disjunct *)
Example soundness_ex_nonvacuous :
  let p := fst (gen thl thm toy_t 0 29 []) in
  wf 8 toy_t /\ verify_proof thl thm (root thl thm toy_t) p 29 290 = true /\ ex p = true /\
  In (29, 290) (leaves toy_t).
Proof. split; [exact toy_wf|]. vm_compute. intuition (auto; try discriminate). Qed.

(* soundness_nonex with NodeAux (21 = 10101b runs into the leaf 5 = 00101b) and with
   an empty node (3 = 11b: all odd keys of the tree have bit 1 = 0) *)
Example soundness_nonex_nonvacuous :
  let p := fst (gen thl thm toy_t 0 21 []) in
  let p' := fst (gen thl thm toy_t 0 3 []) in
  verify_proof thl thm (root thl thm toy_t) p 21 0 = true /\ ex p = false /\ aux p = Some (5, 50) /\
  verify_proof thl thm (root thl thm toy_t) p' 3 77 = true /\ ex p' = false /\ aux p' = None /\
  ~ In 21 (keys toy_t) /\ ~ In 3 (keys toy_t).
Proof. vm_compute. intuition (auto; try discriminate). Qed.

(* the NodeAux rule: the same proof is refused for k = NodeAux.Key *)
Example nodeaux_rule :
  let p := fst (gen thl thm toy_t 0 21 []) in
  root_from_proof thl thm p 5 50 = None /\ verify_proof thl thm (root thl thm toy_t) p 5 50 = false.
Proof. vm_compute. auto. Qed.

(* binding / add_all_root_binding: another insertion order, same tree, same root;
   a different value gives a different root *)
Example binding_nonvacuous :
  exists t2, add_all 8 (rev toy_list) = Ok t2 /\ wf 8 t2 /\
             root thl thm t2 = root thl thm toy_t /\ t2 = toy_t.
Proof.
  exists toy_t. split; [vm_compute; reflexivity|]. split; [exact toy_wf|]. auto.
Qed.
Example binding_distinguishes :
  exists t2, add_all 8 [(1, 10); (2, 21); (5, 50); (13, 130); (29, 290)] = Ok t2 /\
             root thl thm t2 <> root thl thm toy_t.
Proof. eexists. split; [vm_compute; reflexivity|]. vm_compute. discriminate. Qed.

(* gen_ex_iff / gen_member / gen_absent *)
Example gen_ex_iff_nonvacuous :
  ex (fst (gen thl thm toy_t 0 13 [])) = true /\ In 13 (keys toy_t) /\
  ex (fst (gen thl thm toy_t 0 12 [])) = false /\ ~ In 12 (keys toy_t).
Proof. vm_compute. intuition (auto; try discriminate). Qed.

(* proof_unique: a tampered sibling list is rejected, the generated one accepted *)
Example proof_unique_nonvacuous :
  let p := fst (gen thl thm toy_t 0 29 []) in
  verify_proof thl thm (root thl thm toy_t) p 29 290 = true /\
  verify_proof thl thm (root thl thm toy_t) (mkproof true (sibs p ++ [0]) None) 29 290 = false /\
  verify_proof thl thm (root thl thm toy_t) (mkproof true (removelast (sibs p)) None) 29 290 = false /\
  verify_proof thl thm (root thl thm toy_t) (mkproof false (sibs p) None) 29 290 = false.
Proof. vm_compute. auto. Qed.

(* the exported entry points on the toy tree (q = 2^200 bounds every toy hash) *)
Example mt_entry_points_nonvacuous :
  let q := 2 ^ 200 in
  exists p v, mt_gen thl thm 8 q toy_t 13 = Ok (p, v) /\ v = 130 /\
              mt_verify_proof thl thm q (root thl thm toy_t) p 13 v = Ok true /\
              mt_verify_proof thl thm q (root thl thm toy_t) p 13 131 = Ok false /\
              mt_verify_proof thl thm q (root thl thm toy_t) p (-13) v = Ok true /\
              mt_verify_proof thl thm q (root thl thm toy_t) p q v = Ok false.
Proof. eexists. eexists. split; [vm_compute; reflexivity|]. vm_compute. auto 10. Qed.

(* ---- the Collision disjunct is necessary ---- *)

(* a constant leaf hash: every existence claim verifies against L 1 10 *)
Definition chl (k v : Z) : Z := 7.
Example soundness_ex_needs_collision :
  let t := L 1 10 in let p := mkproof true [] None in
  wf 8 t /\ verify_proof chl thm (root chl thm t) p 2 20 = true /\ ex p = true /\
  ~ In (2, 20) (leaves t) /\ Collision chl thm.
Proof.
  simpl. split; [unfold wf; simpl; lia|]. split; [reflexivity|]. split; [reflexivity|]. split.
  - intros [Heq|[]]. discriminate.
  - apply (ColLeaf chl thm 1 10 2 20); [discriminate|reflexivity].
Qed.

(* a leaf hash with a zero: the leaf (1,10) is invisible, "key 1 is absent" verifies *)
Definition zhl (k v : Z) : Z := 0.
Example soundness_nonex_needs_collision :
  let t := L 1 10 in let p := mkproof false [] None in
  wf 8 t /\ verify_proof zhl thm (root zhl thm t) p 1 0 = true /\ ex p = false /\
  In 1 (keys t) /\ Collision zhl thm.
Proof.
  simpl. split; [unfold wf; simpl; lia|]. split; [reflexivity|]. split; [reflexivity|]. split.
  - unfold keys. simpl. auto.
  - apply (ColLeafZero zhl thm 1 10). reflexivity.
Qed.

Example binding_needs_collision :
  wf 8 (L 1 10) /\ wf 8 (L 2 20) /\ root chl thm (L 1 10) = root chl thm (L 2 20) /\
  L 1 10 <> L 2 20 /\ Collision chl thm.
Proof.
  repeat split; try (unfold wf; simpl; lia); try discriminate.
  apply (ColLeaf chl thm 1 10 2 20); [discriminate|reflexivity].
Qed.

End SoundExamples.

(* everything above is closed under the global context (no axioms, no hypotheses
   on the hash functions) *)
Print Assumptions binding.
Print Assumptions binding_any.
Print Assumptions add_all_root_binding.
Print Assumptions soundness_ex.
Print Assumptions soundness_nonex.
Print Assumptions mt_soundness_ex_plain.
Print Assumptions mt_soundness_nonex_plain.
Print Assumptions value_binding.
Print Assumptions no_double_proof.
Print Assumptions gen_ex_iff.
Print Assumptions gen_member.
Print Assumptions gen_absent.
Print Assumptions mt_gen_wf.
Print Assumptions proof_unique.
Print Assumptions soundness_nonex_without_wf_refuted.
Print Assumptions mt_add_wf.
Print Assumptions mt_completeness.
