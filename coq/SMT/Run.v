(* SMT/Run.v — evaluation of per-run case files for the sparse-Merkle-tree model
   (pseudo-property "SMT"; the same machinery is imported by the properties that rest
   on the tree).  No proofs here.

   A case is a SCENARIO: one fresh tree (MaxLevels given), then a sequence of
   operations, each carrying what go-merkletree-sql v2.0.4 (memory storage) did:

     RAdd k v cls root       MerkleTree.Add: error class, Root() after the call
     RGen k ex sibs aux v    MerkleTree.GenerateProof(k, nil): Existence, AllSiblings(),
     RGenErr k                 NodeAux, returned value / an error
     RChk ex sibs aux k v root rfp vp
                             NewProofFromData(ex, sibs, aux) then RootFromProof(p,k,v)
                             and VerifyProof(root,p,k,v) (genuine and tampered proofs)

   The two hash functions are tables of PRIMITIVE Poseidon calls recorded by the
   harness (hl k v = Poseidon[k;v;1], hm l r = Poseidon[l;r]).  A miss answers -1,
   which is not a field element: it can never equal an observed hash or root, it is
   not a key of any table (so it propagates upwards), hence a miss always surfaces
   as a disagreement of the operation that needed the entry. *)
From Coq Require Import ZArith List String Bool Uint63.
From GSP Require Import Base.Prelude Base.Decode SMT.Model.
Import ListNotations.
Open Scope list_scope.
Open Scope Z_scope.

(* ---- oracle tables ---- *)
Definition miss : Z := -1.

Fixpoint look2 (a b : Z) (t : list (Z * Z * Z)) : Z :=
  match t with
  | [] => miss
  | (x, y, h) :: r =>
      if Z.eqb x a then (if Z.eqb y b then h else look2 a b r) else look2 a b r
  end.

Definition raw_tab := list (limbs * limbs * limbs).
Definition mk_tab (t : raw_tab) : list (Z * Z * Z) :=
  map (fun e => (z_of_limbs (fst (fst e)), z_of_limbs (snd (fst e)), z_of_limbs (snd e))) t.

(* ---- what the implementation did ---- *)
Inductive rfp_obs := ROk (r : limbs) | RErr | RPanic.

Inductive raw_op :=
| RAdd (k v : snum) (cls : int) (root : limbs)
    (* cls: 0 ok, 1 ErrEntryIndexAlreadyExists, 2 ErrReachedMaxLevel,
            3 argument not in the field (NewHashFromBigInt or Poseidon), 4 anything else *)
| RGen (k : snum) (ex : bool) (sibs : list limbs) (aux : option (limbs * limbs)) (v : limbs)
| RGenErr (k : snum)
| RChk (ex : bool) (sibs : list limbs) (aux : option (limbs * limbs)) (k v : snum)
       (root : limbs) (rfp : rfp_obs) (vp : int).
    (* vp: 0 false, 1 true, 2 panic *)

Inductive scase := mksc (id maxlev : int) (thl thm : raw_tab) (ops : list raw_op).
Definition sc_id (c : scase) : int := match c with mksc id _ _ _ _ => id end.

Definition nat_of_int (i : int) : nat := Z.to_nat (Uint63.to_Z i).

Fixpoint zlist_eqb (a b : list Z) : bool :=
  match a, b with
  | [], [] => true
  | x :: a', y :: b' => if Z.eqb x y then zlist_eqb a' b' else false
  | _, _ => false
  end.

Definition aux_eqb (a b : option (Z * Z)) : bool :=
  match a, b with
  | None, None => true
  | Some (x, y), Some (x', y') => Z.eqb x x' && Z.eqb y y'
  | _, _ => false
  end.

Definition aux_of (a : option (limbs * limbs)) : option (Z * Z) :=
  match a with
  | None => None
  | Some (x, y) => Some (z_of_limbs x, z_of_limbs y)
  end.

(* class of an error tag of mt_add *)
Definition add_class (tag : string) : int :=
  if String.eqb tag EExists then 1%uint63
  else if String.eqb tag EMaxLevel then 2%uint63
  else if String.eqb tag EField then 3%uint63
  else if String.eqb tag EHash then 3%uint63
  else 4%uint63.

Section Eval.
Variable hl : Z -> Z -> Z.
Variable hm : Z -> Z -> Z.
Variable maxlev : nat.
Variable q : Z.

(* one operation: new tree and "model agrees with the observation" *)
Definition step (t : tree) (o : raw_op) : tree * bool :=
  match o with
  | RAdd k v cls r =>
      match mt_add maxlev q t (z_of_snum k) (z_of_snum v) with
      | Ok t' => (t', Uint63.eqb cls 0%uint63 && Z.eqb (root hl hm t') (z_of_limbs r))
      | Err tag => (t, Uint63.eqb cls (add_class tag) && Z.eqb (root hl hm t) (z_of_limbs r))
      | Panic _ => (t, false)
      | Diverge => (t, false)
      end
  | RGen k e ss a v =>
      (t, match mt_gen hl hm maxlev q t (z_of_snum k) with
          | Ok (p, v') =>
              Bool.eqb (ex p) e && zlist_eqb (sibs p) (map z_of_limbs ss)
              && aux_eqb (aux p) (aux_of a) && Z.eqb v' (z_of_limbs v)
          | _ => false
          end)
  | RGenErr k =>
      (t, match mt_gen hl hm maxlev q t (z_of_snum k) with Err _ => true | _ => false end)
  | RChk e ss a k v r rfp vp =>
      let p := mkproof e (map z_of_limbs ss) (aux_of a) in
      let kz := z_of_snum k in
      let vz := z_of_snum v in
      (t, match mt_root_from_proof hl hm q p kz vz, rfp with
          | Ok r', ROk ro => Z.eqb r' (z_of_limbs ro)
          | Err _, RErr => true
          | Panic _, RPanic => true
          | _, _ => false
          end
          &&
          match mt_verify_proof hl hm q (z_of_limbs r) p kz vz with
          | Ok true => Uint63.eqb vp 1%uint63
          | Ok false => Uint63.eqb vp 0%uint63
          | Panic _ => Uint63.eqb vp 2%uint63
          | _ => false
          end)
  end.

(* index (from 0) of the first disagreeing operation, as a list of at most one int *)
Fixpoint first_bad (t : tree) (i : int) (ops : list raw_op) : option int :=
  match ops with
  | [] => None
  | o :: r =>
      let '(t', ok) := step t o in
      if ok then first_bad t' (Uint63.add i 1%uint63) r else Some i
  end.
End Eval.

Definition run_case (q : Z) (c : scase) : option int :=
  match c with
  | mksc _ ml thl thm ops =>
      let tl := mk_tab thl in
      let tm := mk_tab thm in
      first_bad (fun a b => look2 a b tl) (fun a b => look2 a b tm) (nat_of_int ml) q E 0%uint63 ops
  end.

(* ids of the scenarios on which model and implementation disagree *)
Definition smismatches (q : limbs) (cs : list scase) : list int :=
  let qz := z_of_limbs q in
  fold_right (fun c acc => match run_case qz c with None => acc | Some _ => sc_id c :: acc end) [] cs.

(* for debugging a disagreement by hand: (scenario id, index of the first bad operation) *)
Definition sdetails (q : limbs) (cs : list scase) : list (int * int) :=
  let qz := z_of_limbs q in
  fold_right (fun c acc => match run_case qz c with None => acc | Some i => (sc_id c, i) :: acc end) [] cs.
