(* SMT/Examples.v — non-vacuity of the theorems of SMT/Theory.v: for each theorem a
   concrete instance in which its hypotheses hold (vm_compute on a toy hash pair and a
   small tree with an 8-level limit, so that ErrReachedMaxLevel is reachable).  The
   examples for SMT/Sound.v are in that file (Module SoundExamples).  Nothing depends
   on this file. *)
From Coq Require Import ZArith List String Bool Arith Lia Permutation.
From GSP Require Import Base.Prelude SMT.Model SMT.Theory SMT.Sound.
Import ListNotations.
Open Scope list_scope.
Open Scope Z_scope.
Import SoundExamples.

(* completeness / completeness_verify: member with a deep path, absent key with
   NodeAux, absent key at an empty node; also on an ILL-formed tree (completeness
   needs no well-formedness) *)
Example completeness_nonvacuous :
  (let '(p, v) := gen thl thm toy_t 0 29 [] in
   ex p = true /\ v = 290 /\ root_from_proof thl thm p 29 v = Some (root thl thm toy_t)) /\
  (let '(p, v) := gen thl thm toy_t 0 21 [] in
   ex p = false /\ aux p = Some (5, 50) /\ root_from_proof thl thm p 21 0 = Some (root thl thm toy_t)) /\
  (let '(p, v) := gen thl thm toy_t 0 3 [] in
   ex p = false /\ aux p = None /\ root_from_proof thl thm p 3 0 = Some (root thl thm toy_t)) /\
  (let t := M (L 1 10) E in let '(p, v) := gen thl thm t 0 1 [] in
   ex p = false /\ root_from_proof thl thm p 1 0 = Some (root thl thm t)).
Proof. vm_compute. intuition. Qed.

(* wf_add: the hypotheses hold at every step of building toy_t *)
Example wf_add_nonvacuous :
  exists t0 t1, add_all 8 [(1, 10); (2, 20); (5, 50)] = Ok t0 /\ wf 8 t0 /\
                add 8 t0 0 13 130 = Ok t1 /\ wf 8 t1 /\
                Permutation (leaves t1) ((13, 130) :: leaves t0).
Proof.
  eexists. eexists. split; [vm_compute; reflexivity|].
  assert (W : wf 8 (M (L 2 20) (M (M (L 1 10) (L 5 50)) E))).
  { apply (add_all_wf 8 [(1, 10); (2, 20); (5, 50)]). vm_compute. reflexivity. }
  split; [exact W|]. split; [vm_compute; reflexivity|].
  apply (wf_add 8 _ 13 130); [exact W|vm_compute; reflexivity].
Qed.

(* add_exists_iff: both sides true for key 5, both false for key 6 *)
Example add_exists_iff_nonvacuous :
  add 8 toy_t 0 5 51 = Err EExists /\ In 5 (keys toy_t) /\
  add 8 toy_t 0 6 60 <> Err EExists /\ ~ In 6 (keys toy_t).
Proof. vm_compute. intuition (auto; try discriminate). Qed.

(* add_maxlevel_iff with maxlev = 8: 129 = 10000001b agrees with key 1 on bits 0..6
   (clash), 65 = 1000001b differs at bit 6 (deepest possible pair of leaves, level 7) *)
Example add_maxlevel_iff_nonvacuous :
  add 8 toy_t 0 129 0 = Err EMaxLevel /\ ~ In 129 (keys toy_t) /\
  (forall i, (i + 2 <= 8)%nat -> bit 129 i = bit 1 i) /\
  is_ok (add 8 toy_t 0 65 0) = true /\ bit 65 6 <> bit 1 6.
Proof.
  split; [vm_compute; reflexivity|]. split; [vm_compute; intuition (auto; try discriminate)|].
  split.
  - intros i Hi. do 7 (destruct i as [|i]; [reflexivity|]). lia.
  - vm_compute. split; [reflexivity|discriminate].
Qed.

Example add_maxlevel_clash_nonvacuous : clash 8 129 1.
Proof.
  intros i _ Hi. do 7 (destruct i as [|i]; [reflexivity|]). lia.
Qed.

(* canonical / add_all_perm / add_all_perm_root: three insertion orders, one tree *)
Example add_all_perm_nonvacuous :
  NoDup (map fst toy_list) /\
  add_all 8 (rev toy_list) = add_all 8 toy_list /\
  add_all 8 [(13, 130); (1, 10); (29, 290); (2, 20); (5, 50)] = Ok toy_t.
Proof.
  split.
  - repeat constructor; simpl; intuition discriminate.
  - vm_compute. auto.
Qed.

(* order independence of the ERROR class needs NoDup: with duplicates the class differs
   (the remark before Theory.add_all_perm_fail) *)
Example add_all_perm_needs_nodup :
  add_all 8 [(1, 10); (1, 10); (129, 0)] = Err EExists /\
  add_all 8 [(1, 10); (129, 0); (1, 10)] = Err EMaxLevel /\
  Permutation [(1, 10); (1, 10); (129, 0)] [(1, 10); (129, 0); (1, 10)].
Proof.
  split; [vm_compute; reflexivity|]. split; [vm_compute; reflexivity|].
  apply perm_skip. apply perm_swap.
Qed.

(* wf_reachable: re-inserting the leaves of the well-formed toy tree rebuilds it *)
Example wf_reachable_nonvacuous : wf 8 toy_t /\ add_all 8 (leaves toy_t) = Ok toy_t.
Proof. split; [exact toy_wf|vm_compute; reflexivity]. Qed.

(* an ill-formed tree is NOT reachable and violates the conclusion of canonical *)
Example wf_needed_for_canonical :
  let t := M (L 1 10) E in
  ~ wf 8 t /\ leaves t = leaves (L 1 10) /\ t <> L 1 10.
Proof.
  simpl. split; [|split; [reflexivity|discriminate]].
  unfold wf. simpl. intros (_ & H & _). lia.
Qed.
