(* SMT/Model.v — executable model of the iden3 sparse Merkle tree
   (github.com/iden3/go-merkletree-sql/v2 v2.0.4: merkletree.go, proof.go, node.go,
   hash.go, utils.go).  NO proofs in this file (theorems: SMT/Theory.v, per-run
   evaluation: SMT/Run.v).

   What is modelled
   ----------------
   * The node database (content-addressed: key = Poseidon hash of the node) is
     abstracted to the tree it denotes: `tree`.  `root` recomputes what the library
     stores as node keys.  Under Add-only use (the only mutation /repo performs) a
     failing Add writes nothing (pushLeaf fails at the bottom of its recursion, before
     any addNode; addLeaf checks `err` before addNode), so the DB is always the set of
     all subtrees ever built and this abstraction is exact UNLESS two different nodes
     hash to the same key (then GetNode may return the other node and addNode may
     answer ErrNodeKeyAlreadyExists).  The model never predicts that error; the
     harness observes it as class "other", i.e. as a disagreement.
   * `hl k v` = Poseidon[k; v; 1] (LeafKey), `hm l r` = Poseidon[l; r] (middle node
     key), empty node key = 0 (HashZero).  Both are Section variables: no property of
     the hash is assumed anywhere.
   * `bit k i` = getPath(..)[i] = TestBit(little-endian bytes of k, i) = Z.testbit k i.
   * `add t lvl k v` = addLeaf at level lvl, `push` = pushLeaf.  Level checks:
       addLeaf : `lvl > maxLevels-1`  <->  maxlev <= lvl
       pushLeaf: `lvl > maxLevels-2`  <->  fuel = maxlev-1-lvl = 0   (fuel = levels left)
   * `gen t lvl k acc` = the loop of GenerateProof without its level bound;
     `gen_b` is the same loop with the bound (`depth < maxLevels`, else ErrKeyNotFound);
     Theory.gen_b_wf proves they coincide on every tree `add` can build.
     A proof is modelled by what `AllSiblings()` / the JSON form expose: existence flag,
     the FULL sibling list (index = level, zero siblings included; `depth` = its
     length) and NodeAux.
   * `root_from_proof` / `verify_proof` = RootFromProof / VerifyProof on in-field,
     non-negative k v (None = the "k = NodeAux.Key" error; VerifyProof maps an error
     to false).
   * The `mt_*` functions are the exported Go entry points including argument
     normalisation: CheckBigIntInField is only `x < Q` (negative numbers pass!), and
     NewHashFromBigInt then stores |x| mod 2^256; Poseidon rejects inputs >= Q; a proof
     with more than 240 siblings makes RootFromProof index `notempties` (30 bytes) out
     of range (Panic).

   Signatures after the Section is closed (Coq abstracts only the variables used):
     root hl hm t            add maxlev t lvl k v        push fuel lvl nk nv ok ov
     gen hl hm t lvl k acc   gen_b hl hm fuel t lvl k acc
     root_from_proof hl hm p k v      verify_proof hl hm r p k v
     add_list maxlev t kvs   add_all maxlev kvs
     mt_add maxlev q t k v   mt_gen hl hm maxlev q t k
     mt_root_from_proof hl hm q p k v   mt_verify_proof hl hm q r p k v *)
From Coq Require Import ZArith List String Bool Arith.
From GSP Require Import Base.Prelude.
Import ListNotations.
Open Scope list_scope.
Open Scope Z_scope.

(* error classes (tags of Prelude.res) *)
Definition EExists   : string := "smt-exists"%string.     (* ErrEntryIndexAlreadyExists *)
Definition EMaxLevel : string := "smt-maxlevel"%string.   (* ErrReachedMaxLevel *)
Definition ENotFound : string := "smt-notfound"%string.   (* ErrKeyNotFound (GenerateProof fell through) *)
Definition EField    : string := "smt-field"%string.      (* NewHashFromBigInt: not inside the field *)
Definition EHash     : string := "smt-hash"%string.       (* poseidon.Hash: input not inside the field *)
Definition ENodeAux  : string := "smt-nodeaux"%string.    (* non-existence proof checked against k = NodeAux.Key *)

Inductive tree := E | L (k v : Z) | M (l r : tree).

(* getPath: bit i of the key, least significant first *)
Definition bit (k : Z) (i : nat) : bool := Z.testbit k (Z.of_nat i).

Record proof := mkproof { ex : bool; sibs : list Z; aux : option (Z * Z) }.

Fixpoint leaves (t : tree) : list (Z * Z) :=
  match t with
  | E => []
  | L k v => [(k, v)]
  | M l r => leaves l ++ leaves r
  end.
Definition keys (t : tree) : list Z := map fst (leaves t).

(* NewHashFromBigInt (after its field check): b.Bytes() is the big-endian magnitude,
   copy() keeps the 32 low bytes *)
Definition hash_of_z (z : Z) : Z := Z.abs z mod 2 ^ 256.

(* number of bits of Proof.notempties: [ElemBytesLen - proofFlagsLen]byte = 30 bytes *)
Definition notempties_bits : nat := 240.

Section SMT.
Variable hl : Z -> Z -> Z.   (* Poseidon[k; v; 1] *)
Variable hm : Z -> Z -> Z.   (* Poseidon[l; r] *)
Variable maxlev : nat.       (* MerkleTree.maxLevels (40 everywhere in /repo) *)
Variable q : Z.              (* constants.Q, used only by the mt_* entry points *)

(* Node.Key *)
Fixpoint root (t : tree) : Z :=
  match t with
  | E => 0
  | L k v => hl k v
  | M l r => hm (root l) (root r)
  end.

(* pushLeaf; fuel = maxlev - 1 - lvl, so `fuel = 0` is `lvl > maxLevels-2` *)
Fixpoint push (fuel lvl : nat) (nk nv ok ov : Z) : res tree :=
  match fuel with
  | O => Err EMaxLevel
  | S f =>
    if Bool.eqb (bit nk lvl) (bit ok lvl) then
      t <- push f (S lvl) nk nv ok ov ;;
      Ok (if bit nk lvl then M E t else M t E)
    else Ok (if bit nk lvl then M (L ok ov) (L nk nv) else M (L nk nv) (L ok ov))
  end.

(* addLeaf *)
Fixpoint add (t : tree) (lvl : nat) (k v : Z) : res tree :=
  if Nat.leb maxlev lvl then Err EMaxLevel else
  match t with
  | E => Ok (L k v)
  | L k' v' =>
      if k =? k' then Err EExists
      else push (maxlev - 1 - lvl) lvl k v k' v'
  | M l r =>
      if bit k lvl
      then r' <- add r (S lvl) k v ;; Ok (M l r')
      else l' <- add l (S lvl) k v ;; Ok (M l' r)
  end.

(* insertion of a list, head first, into t *)
Fixpoint add_list (t : tree) (kvs : list (Z * Z)) : res tree :=
  match kvs with
  | [] => Ok t
  | (k, v) :: rest => t' <- add t 0 k v ;; add_list t' rest
  end.
Definition add_all (kvs : list (Z * Z)) : res tree := add_list E kvs.

(* GenerateProof, loop body; acc = siblings met so far, deepest first.
   Returns the proof and the value found (0 at an empty node, the other leaf's
   value when a different leaf is met). *)
Fixpoint gen (t : tree) (lvl : nat) (k : Z) (acc : list Z) : proof * Z :=
  match t with
  | E => (mkproof false (rev acc) None, 0)
  | L k' v' =>
      if k =? k' then (mkproof true (rev acc) None, v')
      else (mkproof false (rev acc) (Some (k', v')), v')
  | M l r =>
      if bit k lvl then gen r (S lvl) k (root l :: acc)
      else gen l (S lvl) k (root r :: acc)
  end.

(* the same loop with its bound `p.depth < maxLevels`; fuel = maxlev - lvl *)
Fixpoint gen_b (fuel : nat) (t : tree) (lvl : nat) (k : Z) (acc : list Z) : res (proof * Z) :=
  match fuel with
  | O => Err ENotFound
  | S f =>
    match t with
    | E => Ok (mkproof false (rev acc) None, 0)
    | L k' v' =>
        if k =? k' then Ok (mkproof true (rev acc) None, v')
        else Ok (mkproof false (rev acc) (Some (k', v')), v')
    | M l r =>
        if bit k lvl then gen_b f r (S lvl) k (root l :: acc)
        else gen_b f l (S lvl) k (root r :: acc)
    end
  end.

(* RootFromProof, the loop: ss = siblings from level lvl downwards *)
Fixpoint up (k : Z) (lvl : nat) (ss : list Z) (mid : Z) : Z :=
  match ss with
  | [] => mid
  | s :: ss' =>
      let m := up k (S lvl) ss' mid in
      if bit k lvl then hm s m else hm m s
  end.

(* the start value midKey of RootFromProof; None = "k equal to NodeAux.Key" *)
Definition proof_mid (p : proof) (k v : Z) : option Z :=
  if ex p then Some (hl k v)
  else match aux p with
       | None => Some 0
       | Some (ak, av) => if k =? ak then None else Some (hl ak av)
       end.

Definition root_from_proof (p : proof) (k v : Z) : option Z :=
  match proof_mid p k v with
  | Some mid => Some (up k 0 (sibs p) mid)
  | None => None
  end.

Definition verify_proof (r : Z) (p : proof) (k v : Z) : bool :=
  match root_from_proof p k v with
  | Some r' => r' =? r
  | None => false
  end.

(* ---- exported Go entry points, with argument checks and normalisation ---- *)

(* MerkleTree.Add *)
Definition mt_add (t : tree) (k v : Z) : res tree :=
  if q <=? k then Err EField else
  if q <=? v then Err EField else
  let k' := hash_of_z k in
  let v' := hash_of_z v in
  t' <- add t 0 k' v' ;;
  (* every successful path evaluates newLeaf.Key() = Poseidon[k'; v'; 1] *)
  if (q <=? k') || (q <=? v') then Err EHash else Ok t'.

(* MerkleTree.GenerateProof(ctx, k, nil) *)
Definition mt_gen (t : tree) (k : Z) : res (proof * Z) :=
  if q <=? k then Err EField else gen_b maxlev t 0 (hash_of_z k) [].

(* merkletree.RootFromProof *)
Definition mt_root_from_proof (p : proof) (k v : Z) : res Z :=
  if q <=? k then Err EField else
  if q <=? v then Err EField else
  let k' := hash_of_z k in
  let v' := hash_of_z v in
  mid <- (if ex p then
            if (q <=? k') || (q <=? v') then Err EHash else Ok (hl k' v')
          else match aux p with
               | None => Ok 0
               | Some (ak, av) =>
                   if k' =? ak then Err ENodeAux
                   else if (q <=? ak) || (q <=? av) then Err EHash
                   else Ok (hl ak av)
               end) ;;
  if Nat.ltb notempties_bits (List.length (sibs p)) then Panic "index out of range"%string
  else if existsb (fun s => q <=? s) (sibs p) then Err EHash
  else Ok (up k' 0 (sibs p) mid).

(* merkletree.VerifyProof: any error is `false` *)
Definition mt_verify_proof (r : Z) (p : proof) (k v : Z) : res bool :=
  match mt_root_from_proof p k v with
  | Ok r' => Ok (r' =? r)
  | Err _ => Ok false
  | Panic w => Panic w
  | Diverge => Diverge
  end.

End SMT.
