(* GENERATED on every run by harness/c14/translator.go from verifiable/*.go -- do not edit. *)
From Coq Require Import String List.
From GSP Require Import Codec.Desc.
Import ListNotations.
Open Scope string_scope.
Open Scope list_scope.

Definition d_CredentialSchema : list fdesc :=
  [FD "ID" "id" false KString;
   FD "Type" "type" false KString].

Definition d_CredentialStatus : list fdesc :=
  [FD "ID" "id" false KString;
   FD "Type" "type" false KString;
   FD "RevocationNonce" "revocationNonce" false KUint64;
   FD "StatusIssuer" "statusIssuer" true (KRec "CredentialStatus")].

Definition d_RefreshService : list fdesc :=
  [FD "ID" "id" false KString;
   FD "Type" "type" false KString].

Definition d_DisplayMethod : list fdesc :=
  [FD "ID" "id" false KString;
   FD "Type" "type" false KString].

Definition d_State : list fdesc :=
  [FD "TxID" "txId" true KPtrString;
   FD "BlockTimestamp" "blockTimestamp" true KPtrInt;
   FD "BlockNumber" "blockNumber" true KPtrInt;
   FD "RootOfRoots" "rootOfRoots" true KPtrString;
   FD "ClaimsTreeRoot" "claimsTreeRoot" true KPtrString;
   FD "RevocationTreeRoot" "revocationTreeRoot" true KPtrString;
   FD "Value" "value" true KPtrString;
   FD "Status" "status" true KString].

Definition d_IssuerData : list fdesc :=
  [FD "ID" "id" true KString;
   FD "State" "state" true (KStruct d_State);
   FD "AuthCoreClaim" "authCoreClaim" true KString;
   FD "MTP" "mtp" true (KCustom CuPtrMtProof);
   FD "CredentialStatus" "credentialStatus" true KAny].

Definition d_BJJSignatureProof2021 : list fdesc :=
  [FD "Type" "type" false KString;
   FD "IssuerData" "issuerData" false (KStruct d_IssuerData);
   FD "CoreClaim" "coreClaim" false KString;
   FD "Signature" "signature" false KString].

Definition d_Iden3SparseMerkleProof : list fdesc :=
  [FD "Type" "type" false KString;
   FD "IssuerData" "issuerData" false (KStruct d_IssuerData);
   FD "CoreClaim" "coreClaim" false KString;
   FD "MTP" "mtp" false (KCustom CuPtrMtProof)].

Definition d_Iden3SparseMerkleTreeProof : list fdesc :=
  [FD "Type" "type" false KString;
   FD "IssuerData" "issuerData" false (KStruct d_IssuerData);
   FD "CoreClaim" "coreClaim" false KString;
   FD "MTP" "mtp" false (KCustom CuPtrMtProof)].

Definition d_W3CCredential : list fdesc :=
  [FD "ID" "id" true KString;
   FD "Context" "@context" false KSliceString;
   FD "Type" "type" false KSliceString;
   FD "Expiration" "expirationDate" true KPtrTime;
   FD "IssuanceDate" "issuanceDate" true KPtrTime;
   FD "CredentialSubject" "credentialSubject" false KMapAny;
   FD "CredentialStatus" "credentialStatus" true KAny;
   FD "Issuer" "issuer" false KString;
   FD "CredentialSchema" "credentialSchema" false (KStruct d_CredentialSchema);
   FD "Proof" "proof" true (KCustom CuCredentialProofs);
   FD "RefreshService" "refreshService" true (KPtrStruct d_RefreshService);
   FD "DisplayMethod" "displayMethod" true (KPtrStruct d_DisplayMethod)].

Definition d_Service : list fdesc :=
  [FD "ID" "id" false KString;
   FD "Type" "type" false KString;
   FD "ServiceEndpoint" "serviceEndpoint" false KString].

Definition d_StateInfo : list fdesc :=
  [FD "ID" "id" false KString;
   FD "State" "state" false KString;
   FD "ReplacedByState" "replacedByState" false KString;
   FD "CreatedAtTimestamp" "createdAtTimestamp" false KString;
   FD "ReplacedAtTimestamp" "replacedAtTimestamp" false KString;
   FD "CreatedAtBlock" "createdAtBlock" false KString;
   FD "ReplacedAtBlock" "replacedAtBlock" false KString].

Definition d_GistInfo : list fdesc :=
  [FD "Root" "root" false KString;
   FD "ReplacedByRoot" "replacedByRoot" false KString;
   FD "CreatedAtTimestamp" "createdAtTimestamp" false KString;
   FD "ReplacedAtTimestamp" "replacedAtTimestamp" false KString;
   FD "CreatedAtBlock" "createdAtBlock" false KString;
   FD "ReplacedAtBlock" "replacedAtBlock" false KString;
   FD "Proof" "proof" true (KCustom CuPtrGistInfoProof)].

Definition d_IdentityState : list fdesc :=
  [FD "Published" "published" true KPtrBool;
   FD "Info" "info" true (KPtrStruct d_StateInfo);
   FD "Global" "global" true (KPtrStruct d_GistInfo)].

Definition d_CommonVerificationMethod : list fdesc :=
  [FD "ID" "id" false KString;
   FD "Type" "type" false KString;
   FD "Controller" "controller" false KString;
   FD "PublicKeyJwk" "publicKeyJwk" true KMapAny;
   FD "PublicKeyMultibase" "publicKeyMultibase" true KString;
   FD "PublicKeyHex" "publicKeyHex" true KString;
   FD "PublicKeyBase58" "publicKeyBase58" true KString;
   FD "EthereumAddress" "ethereumAddress" true KString;
   FD "BlockchainAccountID" "blockchainAccountId" true KString;
   FD "StateContractAddress" "stateContractAddress" true KString;
   FD "IdentityState.Published" "published" true KPtrBool;
   FD "IdentityState.Info" "info" true (KPtrStruct d_StateInfo);
   FD "IdentityState.Global" "global" true (KPtrStruct d_GistInfo)].

Definition d_DIDDocument : list fdesc :=
  [FD "Context" "@context" false KAny;
   FD "ID" "id" false KString;
   FD "Service" "service" true KSliceAny;
   FD "VerificationMethod" "verificationMethod" true (KSliceStruct d_CommonVerificationMethod);
   FD "AssertionMethod" "assertionMethod" true (KCustom CuSliceAuthentication);
   FD "Authentication" "authentication" true (KCustom CuSliceAuthentication);
   FD "KeyAgreement" "keyAgreement" true KSliceAny].

Definition structs : list (string * list fdesc) :=
  [("CredentialSchema", d_CredentialSchema);
   ("CredentialStatus", d_CredentialStatus);
   ("RefreshService", d_RefreshService);
   ("DisplayMethod", d_DisplayMethod);
   ("State", d_State);
   ("IssuerData", d_IssuerData);
   ("BJJSignatureProof2021", d_BJJSignatureProof2021);
   ("Iden3SparseMerkleProof", d_Iden3SparseMerkleProof);
   ("Iden3SparseMerkleTreeProof", d_Iden3SparseMerkleTreeProof);
   ("W3CCredential", d_W3CCredential);
   ("Service", d_Service);
   ("StateInfo", d_StateInfo);
   ("GistInfo", d_GistInfo);
   ("IdentityState", d_IdentityState);
   ("CommonVerificationMethod", d_CommonVerificationMethod);
   ("DIDDocument", d_DIDDocument)].

Definition w_BJJSignatureProof2021 : list fdesc :=
  [FD "Type" "type" false KString;
   FD "IssuerData" "issuerData" false KRaw;
   FD "CoreClaim" "coreClaim" false KString;
   FD "Signature" "signature" false KString].

Definition w_BJJSignatureProof2021_type_const : string := "BJJSignature2021".

Definition w_Iden3SparseMerkleProof : list fdesc :=
  [FD "Type" "type" false KString;
   FD "IssuerData" "issuerData" false KRaw;
   FD "CoreClaim" "coreClaim" false KString;
   FD "MTP" "mtp" false KRaw].

Definition w_Iden3SparseMerkleProof_type_const : string := "Iden3SparseMerkleProof".

Definition w_Iden3SparseMerkleTreeProof : list fdesc :=
  [FD "Type" "type" false KString;
   FD "IssuerData" "issuerData" false KRaw;
   FD "CoreClaim" "coreClaim" false KString;
   FD "MTP" "mtp" false KRaw].

Definition w_Iden3SparseMerkleTreeProof_type_const : string := "Iden3SparseMerkleTreeProof".

(* structs decoded by reflection except for the listed members, which go through decodeMTP *)
Definition guarded_structs : list (string * list string) :=
  [("IssuerData", ["mtp"])].

Definition merklize_calls : list string := ["json.Marshal"; "json.Unmarshal"; "delete:proof"; "json.Marshal"; "merklize.MerklizeJSONLD"; "bytes.NewReader"].
Definition merklize_deleted : list string := ["proof"].

(* (value of the "type" member, Go struct decoded into); "" = default branch *)
Definition proof_dispatch : list (string * string) :=
  [("BJJSignature2021", "BJJSignatureProof2021");
   ("Iden3SparseMerkleProof", "Iden3SparseMerkleProof");
   ("Iden3SparseMerkleTreeProof", "Iden3SparseMerkleTreeProof");
   ("", "CommonProof")].

(* types of the package with hand-written JSON methods: (name, MarshalJSON, UnmarshalJSON) *)
Definition custom_codecs : list (string * bool * bool) :=
  [("Authentication", true, true);
   ("BJJSignatureProof2021", false, true);
   ("CommonProof", false, true);
   ("CredentialProofs", false, true);
   ("GistInfoProof", true, true);
   ("Iden3SparseMerkleProof", false, true);
   ("Iden3SparseMerkleTreeProof", false, true);
   ("IssuerData", false, true);
   ("RevocationStatus", false, true)].
