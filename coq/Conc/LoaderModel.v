(* Conc/LoaderModel.v — property C20: the HTTP branch of loaders.documentLoader
   (loadDocumentFromHTTP) as a state machine over ONE url, run by any number of goroutines.
   The cache entry is an atomic register: that Get/Set of memoryCacheEngine behave atomically
   under every interleaving is Conc/Theory.v (discipline_sound) on the translated skeleton.
   Steps of one load, in the order of the Go statements:
     start                         the caller enters LoadDocument            (ts := clock)
     get     cacheEngine.Get(u)    (doc, expireTime) or ErrCacheMiss
     check   now := time.Now(); if cacheFound && expireTime.After(now) return doc
     serve   httpClient.Do: the origin answers with a NEW version (monotone counter) and, when
             the response is cacheable, an expiry chosen by the environment; or with a failure
     store   cacheEngine.Set(u, doc, expireTime)   (only when shouldCache)
     ret     return doc
   The clock is advanced by the environment (tick) between any two steps.
   The machine writes the same log the stress harness records on the implementation:
   loads (start, end, version or failure), origin answers (version, start, end, ok), stores
   (version, expiry).  NO proofs in this file. *)
From Coq Require Import List ZArith Bool.
Import ListNotations.
Local Open Scope Z_scope.

Inductive record :=
| RLoad (ts te : Z) (res : option Z)        (* a finished load: Some version / None = error *)
| RServe (k fs fe : Z) (ok : bool)          (* the origin answered request [fs, fe] with version k / a failure *)
| RStore (v x : Z).                         (* cacheEngine.Set of version v with expiry x *)

Inductive phase :=
| Idle
| Started (ts : Z)
| Looked (ts : Z) (e : option (Z * Z))      (* what Get returned: (version, expiry) *)
| Fetching (ts fs : Z)
| Fetched (ts k : Z) (x : option Z)         (* version k received; Some x = still to be stored with expiry x *)
| Waiting (ts : Z).                         (* variant NoFallback only: waits for another goroutine's fetch *)

(* the code as it is, and two seeded variants that the theorems exclude *)
Inductive variant :=
| Correct
| Rearm (grace : Z)      (* an expired entry is stored again with expiry now+grace before the refresh (C20-j) *)
| NoFallback.            (* a goroutine that finds a fetch in flight waits and then takes whatever the cache holds (C20-h) *)

Inductive action :=
| ATick
| AStart (g : nat) | AGet (g : nat) | ACheck (g : nat)
| AServeOk (g : nat) (x : option Z) | AServeFail (g : nat)
| AStore (g : nat) | ARet (g : nat) | AWake (g : nat).

Record lstate := mkls {
  clock : Z;
  cache : option (Z * Z);
  next  : Z;                    (* next version the origin hands out *)
  thr   : list phase;
  log   : list record           (* newest first *)
}.

Definition linit (n : nat) : lstate := mkls 0 None 1 (repeat Idle n) [].

Fixpoint set_nth {A} (i : nat) (x : A) (l : list A) : list A :=
  match l, i with
  | [], _ => []
  | _ :: t, O => x :: t
  | a :: t, S i' => a :: set_nth i' x t
  end.

Definition is_fetching (p : phase) : bool := match p with Fetching _ _ => true | _ => false end.

Definition with_thr (s : lstate) (g : nat) (p : phase) : lstate :=
  mkls (clock s) (cache s) (next s) (set_nth g p (thr s)) (log s).
Definition with_log (s : lstate) (r : record) : lstate :=
  mkls (clock s) (cache s) (next s) (thr s) (r :: log s).
Definition with_cache (s : lstate) (c : option (Z * Z)) : lstate :=
  mkls (clock s) c (next s) (thr s) (log s).
Definition with_next (s : lstate) (n : Z) : lstate :=
  mkls (clock s) (cache s) n (thr s) (log s).

Definition lstep (va : variant) (s : lstate) (a : action) : option lstate :=
  match a with
  | ATick => Some (mkls (clock s + 1) (cache s) (next s) (thr s) (log s))
  | AStart g =>
      match nth_error (thr s) g with
      | Some Idle => Some (with_thr s g (Started (clock s)))
      | _ => None
      end
  | AGet g =>
      match nth_error (thr s) g with
      | Some (Started ts) => Some (with_thr s g (Looked ts (cache s)))
      | _ => None
      end
  | ACheck g =>
      match nth_error (thr s) g with
      | Some (Looked ts e) =>
          let now := clock s in
          let hit := match e with Some (v, x) => if now <? x then Some v else None | None => None end in
          match hit with
          | Some v => Some (with_log (with_thr s g Idle) (RLoad ts now (Some v)))
          | None =>
              match va, e with
              | Rearm grace, Some (v, _) =>
                  Some (with_log (with_cache (with_thr s g (Fetching ts now)) (Some (v, now + grace)))
                                 (RStore v (now + grace)))
              | NoFallback, _ =>
                  if existsb is_fetching (thr s) then Some (with_thr s g (Waiting ts))
                  else Some (with_thr s g (Fetching ts now))
              | _, _ => Some (with_thr s g (Fetching ts now))
              end
          end
      | _ => None
      end
  | AServeOk g x =>
      match nth_error (thr s) g with
      | Some (Fetching ts fs) =>
          let k := next s in
          Some (with_log (with_next (with_thr s g (Fetched ts k x)) (k + 1)) (RServe k fs (clock s) true))
      | _ => None
      end
  | AServeFail g =>
      match nth_error (thr s) g with
      | Some (Fetching ts fs) =>
          let k := next s in
          Some (with_log (with_log (with_next (with_thr s g Idle) (k + 1)) (RServe k fs (clock s) false))
                         (RLoad ts (clock s) None))
      | _ => None
      end
  | AStore g =>
      match nth_error (thr s) g with
      | Some (Fetched ts k (Some x)) =>
          Some (with_log (with_cache (with_thr s g (Fetched ts k None)) (Some (k, x))) (RStore k x))
      | _ => None
      end
  | ARet g =>
      match nth_error (thr s) g with
      | Some (Fetched ts k None) => Some (with_log (with_thr s g Idle) (RLoad ts (clock s) (Some k)))
      | _ => None
      end
  | AWake g =>
      match va, nth_error (thr s) g with
      | NoFallback, Some (Waiting ts) =>
          if existsb is_fetching (thr s) then None else
          match cache s with
          | Some (v, _) => Some (with_log (with_thr s g Idle) (RLoad ts (clock s) (Some v)))
          | None => Some (with_log (with_thr s g Idle) (RLoad ts (clock s) None))
          end
      | _, _ => None
      end
  end.

Fixpoint lrun (va : variant) (s : lstate) (acts : list action) : option lstate :=
  match acts with
  | [] => Some s
  | a :: acts' => match lstep va s a with Some s' => lrun va s' acts' | None => None end
  end.

(* ------------------------------------------------------------------------------------ *)
(* the executable judgement on a log (the one evaluated on the implementation's logs)    *)
(* ------------------------------------------------------------------------------------ *)
(* the load fetched version v itself: the origin answered with v inside the load's interval *)
Definition own_fetch (lg : list record) (ts te v : Z) : bool :=
  existsb (fun r => match r with
                    | RServe k fs fe true => (k =? v) && (ts <=? fs) && (fe <=? te)
                    | _ => false end) lg.

(* the load saw a failing answer of the origin inside its interval *)
Definition own_failure (lg : list record) (ts te : Z) : bool :=
  existsb (fun r => match r with
                    | RServe _ fs fe false => (ts <=? fs) && (fe <=? te)
                    | _ => false end) lg.

(* expiry under which version v was stored the FIRST time (chronological log) *)
Fixpoint first_store (chron : list record) (v : Z) : option Z :=
  match chron with
  | [] => None
  | RStore v' x :: r => if v' =? v then Some x else first_store r v
  | _ :: r => first_store r v
  end.

(* a cached version may be handed out only to a load that started before its expiry *)
Definition cached_ok (chron : list record) (ts v : Z) : bool :=
  match first_store chron v with Some x => ts <? x | None => false end.

Definition explained (chron : list record) (r : record) : bool :=
  match r with
  | RLoad ts te (Some v) => own_fetch chron ts te v || cached_ok chron ts v
  | RLoad ts te None => own_failure chron ts te
  | _ => true
  end.

(* chron: oldest first *)
Definition log_explained (chron : list record) : bool := forallb (explained chron) chron.
