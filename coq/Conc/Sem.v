(* Conc/Sem.v — property C20: skeleton language of shared-state events (the type the
   go/ast translator harness/c20/translate.go targets), its expansion into straight-line
   event traces (one per control path, deferred calls run at every Return), the executable
   lock-discipline check, and the interleaving semantics with an RW lock.
   NO proofs in this file (Conc/Theory.v has them). *)
From Coq Require Import List String Bool Arith.
Import ListNotations.
Open Scope list_scope.

(* ------------------------------------------------------------------------------------ *)
(* 1. Skeleton language.  One skeleton = body of one Go method of memoryCacheEngine.      *)
(* ------------------------------------------------------------------------------------ *)
Inductive stmt : Type :=
| ReadImmutable (field : string)      (* read of a field that is written only before the engine is shared *)
| RLock | RUnlock | Lock | Unlock     (* m.m.RLock() ... on the engine's sync.RWMutex *)
| Defer (s : stmt)                    (* defer m.m.RUnlock() / defer m.m.Unlock() *)
| MapRead (field : string)            (* m.cache[k], len(m.cache), ... *)
| MapWrite (field : string)           (* m.cache[k] = v, delete(m.cache,k), m.cache = ... *)
| If (th el : list stmt)              (* both branches; the condition's own events precede the If *)
| Call (body : list stmt)             (* inlined call of another method of the same engine: the callee's Return
                                         (and its own deferred calls) end the callee only *)
| Return.                             (* return / panic / falling off the end: runs the deferred calls *)

Definition skeleton := list stmt.

(* Events of the semantics.  Lock() is two events: the writer first announces itself
   (EvLockReq; from then on new readers are held back, as in Go's sync.RWMutex), then
   acquires (EvLock) when no reader and no writer is inside. *)
Inductive event : Type :=
| EvImm | EvRLock | EvRUnlock | EvLockReq | EvLock | EvUnlock | EvRead | EvWrite
| EvBad.   (* a construct with no meaning in the model, e.g. `defer` of a non-unlock *)

Definition event_eqb (a b : event) : bool :=
  match a, b with
  | EvImm, EvImm | EvRLock, EvRLock | EvRUnlock, EvRUnlock | EvLockReq, EvLockReq
  | EvLock, EvLock | EvUnlock, EvUnlock | EvRead, EvRead | EvWrite, EvWrite | EvBad, EvBad => true
  | _, _ => false
  end.

(* events of a simple (non-control) statement, used for `Defer s` *)
Definition simple_events (s : stmt) : list event :=
  match s with
  | ReadImmutable _ => [EvImm]
  | RLock => [EvRLock]
  | RUnlock => [EvRUnlock]
  | Lock => [EvLockReq; EvLock]
  | Unlock => [EvUnlock]
  | MapRead _ => [EvRead]       (* every non-immutable field is one location `cache`: conservative *)
  | MapWrite _ => [EvWrite]
  | Defer _ | If _ _ | Call _ | Return => [EvBad]
  end.

(* A control path under construction: events so far (newest first), deferred events
   (next to run first), finished? *)
Record pst := mkpst { p_tr : list event; p_dfr : list event; p_done : bool }.

Fixpoint run_stmt (s : stmt) (p : pst) {struct s} : list pst :=
  if p_done p then [p] else
  match s with
  | Defer d => [mkpst (p_tr p) (simple_events d ++ p_dfr p) false]
  | Return => [mkpst (rev_append (p_dfr p) (p_tr p)) [] true]
  | If th el =>
      (fix go (l : list stmt) (ps : list pst) {struct l} : list pst :=
         match l with [] => ps | s' :: l' => go l' (flat_map (run_stmt s') ps) end) th [p]
      ++
      (fix go (l : list stmt) (ps : list pst) {struct l} : list pst :=
         match l with [] => ps | s' :: l' => go l' (flat_map (run_stmt s') ps) end) el [p]
  | Call body =>
      (* run the callee with its own (empty) list of deferred calls; when it returns or falls off
         its end its deferred calls have run, and the caller continues with its own *)
      map (fun q => mkpst (if p_done q then p_tr q else rev_append (p_dfr q) (p_tr q)) (p_dfr p) false)
          ((fix go (l : list stmt) (ps : list pst) {struct l} : list pst :=
              match l with [] => ps | s' :: l' => go l' (flat_map (run_stmt s') ps) end) body [mkpst (p_tr p) [] false])
  | _ => [mkpst (rev_append (simple_events s) (p_tr p)) (p_dfr p) false]
  end.

Fixpoint run_block (l : list stmt) (ps : list pst) : list pst :=
  match l with [] => ps | s :: l' => run_block l' (flat_map (run_stmt s) ps) end.

(* close a path: falling off the end of the body is an implicit Return *)
Definition finish (p : pst) : list event :=
  if p_done p then rev (p_tr p) else rev (rev_append (p_dfr p) (p_tr p)).

(* all control paths of a method, each a straight-line trace of events *)
Definition paths (sk : skeleton) : list (list event) :=
  map finish (run_block sk [mkpst [] [] false]).

(* ------------------------------------------------------------------------------------ *)
(* 2. Lock discipline, checked per path by abstract interpretation of what the calling   *)
(*    thread holds: nothing / announced writer / read lock / write lock.                  *)
(* ------------------------------------------------------------------------------------ *)
Inductive hold : Type := HN | HQ | HR | HW.

Definition hold_eqb (a b : hold) : bool :=
  match a, b with HN, HN | HQ, HQ | HR, HR | HW, HW => true | _, _ => false end.

Definition hstep (h : hold) (e : event) : option hold :=
  match e, h with
  | EvImm, HQ => None                 (* LockReq is immediately followed by Lock *)
  | EvImm, _ => Some h                (* unconstrained *)
  | EvRLock, HN => Some HR            (* no re-acquisition while holding anything *)
  | EvLockReq, HN => Some HQ
  | EvLock, HQ => Some HW
  | EvRUnlock, HR => Some HN          (* releases exactly what was acquired *)
  | EvUnlock, HW => Some HN
  | EvRead, HR | EvRead, HW => Some h (* reads under RLock or Lock *)
  | EvWrite, HW => Some HW            (* writes under Lock only *)
  | _, _ => None
  end.

Fixpoint run_hold (h : hold) (tr : list event) : option hold :=
  match tr with
  | [] => Some h
  | e :: tr' => match hstep h e with Some h' => run_hold h' tr' | None => None end
  end.

(* a call starts and ends holding nothing *)
Definition trace_ok (tr : list event) : bool :=
  match run_hold HN tr with Some HN => true | _ => false end.

(* the lock discipline alone *)
Definition lock_ok (sk : skeleton) : bool := forallb trace_ok (paths sk).

Definition is_access (e : event) : bool := match e with EvRead | EvWrite => true | _ => false end.
Definition is_write (e : event) : bool := match e with EvWrite => true | _ => false end.

(* at most one access to the shared map per call: the access is the call's linearization point *)
Definition one_access (tr : list event) : bool := Nat.leb (List.length (filter is_access tr)) 1.

(* discipline of a method = lock discipline + at most one map access, on every control path *)
Definition discipline_ok (sk : skeleton) : bool :=
  forallb (fun tr => trace_ok tr && one_access tr) (paths sk).

(* ------------------------------------------------------------------------------------ *)
(* 3. Interleaving semantics.                                                            *)
(* ------------------------------------------------------------------------------------ *)
(* RW lock: writer inside?, number of readers inside, number of announced writers.
   Go mutexes have no owner: any goroutine may call Unlock; unlocking an unlocked lock
   is a fatal runtime error (Fault). *)
Record lockst := mklk { lk_w : bool; lk_r : nat; lk_p : nat }.

Inductive lkres : Type := LkNext (l : lockst) | LkBlocked | LkFault.

Definition lk_step (l : lockst) (e : event) : lkres :=
  match e with
  | EvImm | EvRead | EvWrite => LkNext l
  | EvRLock => if lk_w l then LkBlocked
               else match lk_p l with
                    | O => LkNext (mklk false (S (lk_r l)) 0)
                    | S _ => LkBlocked                       (* writer preference *)
                    end
  | EvLockReq => LkNext (mklk (lk_w l) (lk_r l) (S (lk_p l)))
  | EvLock => if lk_w l then LkBlocked
              else match lk_r l with
                   | O => match lk_p l with
                          | O => LkFault                     (* Lock without announcement: not produced by expansion *)
                          | S p => LkNext (mklk true 0 p)
                          end
                   | S _ => LkBlocked
                   end
  | EvRUnlock => match lk_r l with O => LkFault | S r => LkNext (mklk (lk_w l) r (lk_p l)) end
  | EvUnlock => if lk_w l then LkNext (mklk false (lk_r l) (lk_p l)) else LkFault
  | EvBad => LkFault
  end.

Section Sem.
  Variable V : Type.                   (* abstract value of the shared map `cache` *)

  (* one pending action of a thread: index of the call (within the thread) it belongs to,
     the event and, for a write, the update it applies *)
  Record action := mkact { a_cid : nat; a_ev : event; a_upd : V -> V }.

  (* a call = one control path of one method, with the update its MapWrite performs *)
  Record call := mkcall { c_trace : list event; c_upd : V -> V }.
  Definition call_actions (k : nat) (c : call) : list action := map (fun e => mkact k e (c_upd c)) (c_trace c).
  Fixpoint thread_actions_from (k : nat) (cs : list call) : list action :=
    match cs with
    | [] => []
    | c :: cs' => call_actions k c ++ thread_actions_from (S k) cs'
    end.
  Definition thread_actions (cs : list call) : list action := thread_actions_from 0 cs.

  Record state := mkst { st_lk : lockst; st_mem : V; st_thr : list (list action) }.

  Definition init (v0 : V) (ths : list (list call)) : state :=
    mkst (mklk false 0 0) v0 (map thread_actions ths).

  (* a step is labelled with the thread, the call index, the event and the value of the map
     after it (= the value observed, for a read) *)
  Record label := mklab { l_tid : nat; l_cid : nat; l_ev : event; l_val : V }.

  Fixpoint replace {A} (i : nat) (x : A) (l : list A) : list A :=
    match l, i with
    | [], _ => []
    | _ :: t, O => x :: t
    | a :: t, S i' => a :: replace i' x t
    end.

  Definition next_event (s : state) (i : nat) : option event :=
    match nth_error (st_thr s) i with
    | Some (a :: _) => Some (a_ev a)
    | _ => None
    end.

  (* executable small step of thread i *)
  Definition step_fn (s : state) (i : nat) : option (label * state) :=
    match nth_error (st_thr s) i with
    | Some (a :: rest) =>
        match lk_step (st_lk s) (a_ev a) with
        | LkNext l' =>
            let m' := match a_ev a with EvWrite => a_upd a (st_mem s) | _ => st_mem s end in
            Some (mklab i (a_cid a) (a_ev a) m', mkst l' m' (replace i rest (st_thr s)))
        | _ => None
        end
    | _ => None
    end.

  Definition step (s : state) (l : label) (s' : state) : Prop := step_fn s (l_tid l) = Some (l, s').

  (* reachability; the history is kept NEWEST FIRST *)
  Inductive reach (s0 : state) : list label -> state -> Prop :=
  | reach_nil : reach s0 [] s0
  | reach_cons : forall h s l s', reach s0 h s -> step s l s' -> reach s0 (l :: h) s'.

  Definition enabled (s : state) (e : event) : bool :=
    match lk_step (st_lk s) e with LkNext _ => true | _ => false end.

  (* data race: two different threads whose next events both touch the map, at least
     one writes, and both are enabled *)
  Definition race (s : state) : Prop :=
    exists i j ei ej, i <> j /\ next_event s i = Some ei /\ next_event s j = Some ej /\
      is_access ei = true /\ is_access ej = true /\ (is_write ei = true \/ is_write ej = true) /\
      enabled s ei = true /\ enabled s ej = true.

  (* some thread is about to crash the runtime (unlock of an unlocked mutex, EvBad) *)
  Definition faulty (s : state) : Prop :=
    exists i e, next_event s i = Some e /\ lk_step (st_lk s) e = LkFault.

  Definition all_done (s : state) : Prop := Forall (fun t => t = []) (st_thr s).
  Definition can_step (s : state) : Prop := exists l s', step s l s'.

  (* executable versions, for Examples and for the bounded search *)
  Definition raceb_pair (s : state) (i j : nat) : bool :=
    match next_event s i, next_event s j with
    | Some ei, Some ej =>
        negb (Nat.eqb i j) && is_access ei && is_access ej && (is_write ei || is_write ej)
        && enabled s ei && enabled s ej
    | _, _ => false
    end.
  Definition raceb (s : state) : bool :=
    let n := seq 0 (List.length (st_thr s)) in
    existsb (fun i => existsb (fun j => raceb_pair s i j) n) n.

  (* run a schedule (list of thread ids); the history is returned newest first.  A schedule
     that names a thread which is blocked or finished is not a run (None). *)
  Fixpoint run_from (h : list label) (s : state) (sched : list nat) : option (list label * state) :=
    match sched with
    | [] => Some (h, s)
    | i :: sched' => match step_fn s i with Some (l, s') => run_from (l :: h) s' sched' | None => None end
    end.
  Definition run (sched : list nat) (v0 : V) (ths : list (list call)) : option (list label * state) :=
    run_from [] (init v0 ths) sched.

  (* depth-first search for a schedule that reaches a racy state *)
  Fixpoint find_race (fuel : nat) (s : state) : option (list nat) :=
    if raceb s then Some [] else
    match fuel with
    | O => None
    | S fuel' =>
        (fix try (is : list nat) : option (list nat) :=
           match is with
           | [] => None
           | i :: is' =>
               match step_fn s i with
               | Some (_, s') =>
                   match find_race fuel' s' with
                   | Some sch => Some (i :: sch)
                   | None => try is'
                   end
               | None => try is'
               end
           end) (seq 0 (List.length (st_thr s)))
    end.

  (* ---- sequential specification: a call run alone on the abstract map ---- *)
  (* observations of its reads (in order) and the map after it; locks play no role *)
  Fixpoint trace_seq (f : V -> V) (tr : list event) (v : V) : list V * V :=
    match tr with
    | [] => ([], v)
    | EvRead :: tr' => let '(o, v') := trace_seq f tr' v in (v :: o, v')
    | EvWrite :: tr' => trace_seq f tr' (f v)
    | _ :: tr' => trace_seq f tr' v
    end.
  Definition call_seq (c : call) (v : V) : list V * V := trace_seq (c_upd c) (c_trace c) v.

  (* sequential execution of a list of calls: the value of the map after each of them *)
  Fixpoint seq_vals (v : V) (cs : list call) : list V :=
    match cs with
    | [] => []
    | c :: cs' => let v' := snd (call_seq c v) in v' :: seq_vals v' cs'
    end.
  Definition seq_mem (v : V) (cs : list call) : V := fold_left (fun v c => snd (call_seq c v)) cs v.

  Definition get_call (ths : list (list call)) (id : nat * nat) : option call :=
    match nth_error ths (fst id) with
    | Some cs => nth_error cs (snd id)
    | None => None
    end.

  (* the map accesses of a history, oldest first: which call, and the value after the access *)
  Definition accesses (h : list label) : list label := filter (fun l => is_access (l_ev l)) (rev h).
  Definition lin_order (h : list label) : list (nat * nat) := map (fun l => (l_tid l, l_cid l)) (accesses h).
  Definition lin_vals (h : list label) : list V := map l_val (accesses h).
End Sem.

Arguments mkact {V}.
Arguments a_cid {V}.
Arguments a_ev {V}.
Arguments a_upd {V}.
Arguments mkcall {V}.
Arguments c_trace {V}.
Arguments c_upd {V}.
Arguments mkst {V}.
Arguments st_lk {V}.
Arguments st_mem {V}.
Arguments st_thr {V}.
Arguments mklab {V}.
Arguments l_tid {V}.
Arguments l_cid {V}.
Arguments l_ev {V}.
Arguments l_val {V}.
Arguments init {V}.
Arguments step_fn {V}.
Arguments step {V}.
Arguments reach {V}.
Arguments race {V}.
Arguments faulty {V}.
Arguments all_done {V}.
Arguments can_step {V}.
Arguments raceb {V}.
Arguments raceb_pair {V}.
Arguments run_from {V}.
Arguments run {V}.
Arguments find_race {V}.
Arguments next_event {V}.
Arguments enabled {V}.
Arguments thread_actions {V}.
Arguments thread_actions_from {V}.
Arguments call_actions {V}.
Arguments trace_seq {V}.
Arguments call_seq {V}.
Arguments seq_vals {V}.
Arguments seq_mem {V}.
Arguments get_call {V}.
Arguments accesses {V}.
Arguments lin_order {V}.
Arguments lin_vals {V}.

(* calls admitted for a program = list of method skeletons: every call is one control
   path of one of the methods *)
Definition call_of {V} (prog : list skeleton) (c : @call V) : Prop :=
  exists sk, In sk prog /\ In (c_trace c) (paths sk).

Definition wf_threads {V} (prog : list skeleton) (ths : list (list (@call V))) : Prop :=
  Forall (Forall (call_of prog)) ths.

(* ------------------------------------------------------------------------------------ *)
(* 4. Bounded search used when the discipline check fails: enumerate 2 or 3 concurrent  *)
(*    calls (one per thread) of the given methods and look for a racy schedule.          *)
(*    Immutable reads are dropped first (they commute with everything).                  *)
(* ------------------------------------------------------------------------------------ *)
Definition strip_imm (tr : list event) : list event :=
  filter (fun e => match e with EvImm => false | _ => true end) tr.

(* (method index, path index, stripped trace) of every control path of every method *)
Definition all_paths (ms : list skeleton) : list (nat * nat * list event) :=
  flat_map (fun '(mi, sk) => map (fun '(pi, tr) => (mi, pi, strip_imm tr))
                               (combine (seq 0 (List.length (paths sk))) (paths sk)))
           (combine (seq 0 (List.length ms)) ms).

Definition unit_call (tr : list event) : @call unit := mkcall tr (fun u => u).

Definition try_config (fuel : nat) (cfg : list (nat * nat * list event)) : option (list (nat * nat) * list nat) :=
  match find_race fuel (init tt (map (fun '(_, _, tr) => [unit_call tr]) cfg)) with
  | Some sch => Some (map (fun '(mi, pi, _) => (mi, pi)) cfg, sch)
  | None => None
  end.

Fixpoint first_some {A B} (f : A -> option B) (l : list A) : option B :=
  match l with
  | [] => None
  | a :: l' => match f a with Some b => Some b | None => first_some f l' end
  end.

(* result: the calls (method index, path index), one per thread, and the schedule (thread ids) *)
Definition race_witness (ms : list skeleton) : option (list (nat * nat) * list nat) :=
  let ps := all_paths ms in
  match first_some (fun a => first_some (fun b => try_config 64 [a; b]) ps) ps with
  | Some w => Some w
  | None => first_some (fun a => first_some (fun b => first_some (fun c => try_config 64 [a; b; c]) ps) ps) ps
  end.
