(* Conc/Theory.v — property C20: theorems about the interleaving semantics of Conc/Sem.v.

   For every program (list of method skeletons) whose control paths pass the executable
   discipline check, for every number of threads, every list of calls per thread and every
   schedule:
     - no reachable state is racy or faulty (unlock of an unlocked mutex), and the system never
       deadlocks (inv_no_race, inv_no_fault, inv_progress);
     - the values observed / produced by the map accesses are those of the sequential execution
       of the same calls, one after the other, in the order of their map accesses; every call is
       linearized at most once, and exactly once when all threads have finished (linearizable).
   The statement for schedules is discipline_sound at the end of the file. *)
From Coq Require Import List String Bool Arith Lia Sorted.
From GSP Require Import Conc.Sem.
Import ListNotations.
Open Scope list_scope.

(* ------------------------------------------------------------------------------------ *)
(* generic list facts                                                                    *)
(* ------------------------------------------------------------------------------------ *)
Lemma replace_length : forall A (l : list A) i x, List.length (Sem.replace i x l) = List.length l.
Proof.
  induction l as [|a l IH]; intros i x; destruct i; simpl; auto.
Qed.

Lemma replace_nth_same : forall A (l : list A) i x y,
  nth_error l i = Some y -> nth_error (Sem.replace i x l) i = Some x.
Proof.
  induction l as [|a l IH]; intros i x y H; destruct i; simpl in *; try discriminate; eauto.
Qed.

Lemma replace_nth_other : forall A (l : list A) i j x,
  i <> j -> nth_error (Sem.replace i x l) j = nth_error l j.
Proof.
  induction l as [|a l IH]; intros i j x H; destruct i, j; simpl; auto; try congruence.
Qed.

Lemma nth_error_some_lt : forall A (l : list A) i x, nth_error l i = Some x -> i < List.length l.
Proof.
  intros A l i x H. apply nth_error_Some. congruence.
Qed.

Lemma nth_error_lt_some : forall A (l : list A) i, i < List.length l -> exists x, nth_error l i = Some x.
Proof.
  intros A l i H. destruct (nth_error l i) eqn:E; eauto. apply nth_error_None in E. lia.
Qed.

(* ------------------------------------------------------------------------------------ *)
(* 1. run_hold composes                                                                  *)
(* ------------------------------------------------------------------------------------ *)
Lemma run_hold_app : forall a b h,
  run_hold h (a ++ b) = match run_hold h a with Some h' => run_hold h' b | None => None end.
Proof.
  induction a as [|e a IH]; intros b h; simpl; auto.
  destruct (hstep h e); auto.
Qed.

Lemma trace_ok_run : forall tr, trace_ok tr = true -> run_hold HN tr = Some HN.
Proof.
  unfold trace_ok. intros tr H. destruct (run_hold HN tr) as [[]|]; try discriminate; auto.
Qed.

(* ------------------------------------------------------------------------------------ *)
(* 2. counting what threads hold                                                         *)
(* ------------------------------------------------------------------------------------ *)
Fixpoint cnt (x : hold) (hs : list hold) : nat :=
  match hs with
  | [] => 0
  | h :: t => (if hold_eqb x h then 1 else 0) + cnt x t
  end.

Lemma hold_eqb_eq : forall a b, hold_eqb a b = true <-> a = b.
Proof. destruct a, b; simpl; split; intro; try discriminate; auto. Qed.

Lemma cnt_replace : forall x hs i h h',
  nth_error hs i = Some h ->
  cnt x (Sem.replace i h' hs) + (if hold_eqb x h then 1 else 0) = cnt x hs + (if hold_eqb x h' then 1 else 0).
Proof.
  induction hs as [|a hs IH]; intros i h h' H; destruct i; simpl in *; try discriminate.
  - inversion H; subst. lia.
  - specialize (IH _ _ h' H). lia.
Qed.

Lemma cnt_pos : forall x hs i, nth_error hs i = Some x -> 1 <= cnt x hs.
Proof.
  induction hs as [|a hs IH]; intros i H; destruct i; simpl in *; try discriminate.
  - inversion H; subst. replace (hold_eqb x x) with true by (destruct x; auto). lia.
  - specialize (IH _ H). lia.
Qed.

Lemma cnt_two : forall x hs i j, i <> j -> nth_error hs i = Some x -> nth_error hs j = Some x -> 2 <= cnt x hs.
Proof.
  induction hs as [|a hs IH]; intros i j Hij Hi Hj; destruct i, j; simpl in *; try discriminate; try congruence.
  - inversion Hi; subst. replace (hold_eqb x x) with true by (destruct x; auto).
    pose proof (cnt_pos _ _ _ Hj). lia.
  - inversion Hj; subst. replace (hold_eqb x x) with true by (destruct x; auto).
    pose proof (cnt_pos _ _ _ Hi). lia.
  - assert (i <> j) by congruence. specialize (IH _ _ H Hi Hj). lia.
Qed.

Lemma cnt_pos_ex : forall x hs, 1 <= cnt x hs -> exists i, nth_error hs i = Some x.
Proof.
  induction hs as [|a hs IH]; simpl; intro H; [lia|].
  destruct (hold_eqb x a) eqn:E.
  - apply hold_eqb_eq in E. subst. exists 0. reflexivity.
  - destruct IH as [i Hi]; [lia|]. exists (S i). exact Hi.
Qed.

Lemma cnt_repeat_HN : forall x n, x <> HN -> cnt x (repeat HN n) = 0.
Proof.
  induction n as [|n IH]; intro H; simpl; auto.
  rewrite IH by auto. destruct x; simpl; congruence.
Qed.

(* ------------------------------------------------------------------------------------ *)
(* 3. the invariant: the lock state is the count of what the threads hold               *)
(* ------------------------------------------------------------------------------------ *)
Definition lock_inv (lk : lockst) (hs : list hold) : Prop :=
  lk_r lk = cnt HR hs /\ lk_p lk = cnt HQ hs /\
  (if lk_w lk then cnt HW hs = 1 /\ cnt HR hs = 0 else cnt HW hs = 0).

Section Inv.
  Variable V : Type.
  Notation state := (@state V).
  Notation action := (@action V).

  Definition evs (r : list action) : list event := map a_ev r.

  Definition holds_ok (hs : list hold) (thr : list (list action)) : Prop :=
    List.length hs = List.length thr /\
    forall i h r, nth_error hs i = Some h -> nth_error thr i = Some r -> run_hold h (evs r) = Some HN.

  Definition inv (s : state) : Prop :=
    exists hs, holds_ok hs (st_thr s) /\ lock_inv (st_lk s) hs.

  Lemma inv_step : forall s i l s', inv s -> step_fn s i = Some (l, s') -> inv s'.
  Proof.
    intros s i l s' [hs [[Hlen Hth] Hlk]] Hstep.
    unfold step_fn in Hstep.
    destruct (nth_error (st_thr s) i) as [[|a rest]|] eqn:Ethr; try discriminate.
    destruct (lk_step (st_lk s) (a_ev a)) as [lk'| |] eqn:Elk; try discriminate.
    inversion Hstep; subst; clear Hstep. simpl.
    destruct (nth_error_lt_some _ hs i) as [h Eh].
    { rewrite Hlen. eapply nth_error_some_lt; eauto. }
    pose proof (Hth _ _ _ Eh Ethr) as Hrun. simpl in Hrun.
    destruct (hstep h (a_ev a)) as [h'|] eqn:Ehs; try discriminate.
    exists (Sem.replace i h' hs). split.
    - split; simpl.
      + rewrite !replace_length. exact Hlen.
      + intros j hj rj Hj Hrj. destruct (Nat.eq_dec i j) as [->|Hne].
        * rewrite (replace_nth_same _ _ _ _ _ Eh) in Hj. rewrite (replace_nth_same _ _ _ _ _ Ethr) in Hrj.
          inversion Hj; inversion Hrj; subst. exact Hrun.
        * rewrite replace_nth_other in Hj by auto. rewrite replace_nth_other in Hrj by auto. eauto.
    - pose proof (cnt_replace HR _ _ _ h' Eh) as CR.
      pose proof (cnt_replace HQ _ _ _ h' Eh) as CQ.
      pose proof (cnt_replace HW _ _ _ h' Eh) as CW.
      pose proof (cnt_pos _ _ _ Eh) as CP.
      destruct Hlk as [Hr [Hp Hw]].
      destruct (st_lk s) as [w r p]. simpl in *. unfold lock_inv.
      destruct (a_ev a); destruct h; simpl in Ehs; inversion Ehs; subst h'; simpl in *;
        try (inversion Elk; subst lk'; simpl; destruct w; simpl in *; repeat split; lia);
        try (destruct w; try discriminate; destruct p; try discriminate; inversion Elk; subst lk'; simpl in *; repeat split; lia);
        try (destruct w; try discriminate; destruct r; try discriminate; destruct p; try discriminate; inversion Elk; subst lk'; simpl in *; repeat split; lia);
        try (destruct r; try discriminate; inversion Elk; subst lk'; simpl in *; destruct w; simpl in *; repeat split; lia).
  Qed.

  Lemma inv_no_race : forall s : state, inv s -> ~ race s.
  Proof.
    intros s [hs [[Hlen Hth] Hlk]] (i & j & ei & ej & Hij & Hi & Hj & Ai & Aj & Hw & _ & _).
    unfold next_event in Hi, Hj.
    destruct (nth_error (st_thr s) i) as [[|ai ri]|] eqn:Ei; try discriminate.
    destruct (nth_error (st_thr s) j) as [[|aj rj]|] eqn:Ej; try discriminate.
    inversion Hi; inversion Hj; subst; clear Hi Hj.
    destruct (nth_error_lt_some _ hs i) as [hi Ehi]. { rewrite Hlen. eapply nth_error_some_lt; eauto. }
    destruct (nth_error_lt_some _ hs j) as [hj Ehj]. { rewrite Hlen. eapply nth_error_some_lt; eauto. }
    pose proof (Hth _ _ _ Ehi Ei) as Ri. pose proof (Hth _ _ _ Ehj Ej) as Rj. simpl in Ri, Rj.
    destruct (hstep hi (a_ev ai)) eqn:Si; try discriminate.
    destruct (hstep hj (a_ev aj)) eqn:Sj; try discriminate.
    destruct Hlk as [Hr [Hp Hlw]].
    assert (Hcase : (hi = HW /\ (hj = HW \/ hj = HR)) \/ (hj = HW /\ (hi = HW \/ hi = HR))).
    { destruct (a_ev ai); simpl in Ai; try discriminate; destruct (a_ev aj); simpl in Aj; try discriminate;
        destruct hi; simpl in Si; try discriminate; destruct hj; simpl in Sj; try discriminate;
        simpl in Hw; destruct Hw; try discriminate; auto. }
    assert (HWpos : 1 <= cnt HW hs).
    { destruct Hcase as [[-> _]|[-> _]]; eapply cnt_pos; eauto. }
    destruct (lk_w (st_lk s)); [|lia]. destruct Hlw as [H1 H0].
    destruct Hcase as [[-> [->| ->]]|[-> [->| ->]]].
    - pose proof (cnt_two _ _ _ _ Hij Ehi Ehj). lia.
    - pose proof (cnt_pos _ _ _ Ehj). lia.
    - pose proof (cnt_two _ _ _ _ Hij Ehi Ehj). lia.
    - pose proof (cnt_pos _ _ _ Ehi). lia.
  Qed.

  Lemma inv_no_fault : forall s : state, inv s -> ~ faulty s.
  Proof.
    intros s [hs [[Hlen Hth] Hlk]] (i & e & Hi & Hf).
    unfold next_event in Hi.
    destruct (nth_error (st_thr s) i) as [[|ai ri]|] eqn:Ei; try discriminate.
    inversion Hi; subst; clear Hi.
    destruct (nth_error_lt_some _ hs i) as [hi Ehi]. { rewrite Hlen. eapply nth_error_some_lt; eauto. }
    pose proof (Hth _ _ _ Ehi Ei) as Ri. simpl in Ri.
    destruct (hstep hi (a_ev ai)) eqn:Si; try discriminate.
    pose proof (cnt_pos _ _ _ Ehi) as CP.
    destruct Hlk as [Hr [Hp Hlw]].
    destruct (st_lk s) as [w r p]. simpl in *.
    destruct (a_ev ai); destruct hi; simpl in Si; try discriminate; simpl in Hf;
      try discriminate;
      try (destruct w; try discriminate; destruct p; discriminate);
      try (destruct w; try discriminate; destruct r; try discriminate; destruct p; try discriminate; lia);
      try (destruct r; try discriminate; lia);
      try (destruct w; try discriminate; lia).
  Qed.

  Lemma some_thread_pending : forall thr : list (list action),
    Forall (fun t => t = []) thr \/ exists i a rest, nth_error thr i = Some (a :: rest).
  Proof.
    induction thr as [|t thr IH]; [left; constructor|].
    destruct t as [|a rest].
    - destruct IH as [IH|[i [a [rest H]]]].
      + left. constructor; auto.
      + right. exists (S i), a, rest. exact H.
    - right. exists 0, a, rest. reflexivity.
  Qed.

  Lemma can_step_intro : forall (s : state) i a rest lk',
    nth_error (st_thr s) i = Some (a :: rest) -> lk_step (st_lk s) (a_ev a) = LkNext lk' -> can_step s.
  Proof.
    intros s i a rest lk' Hn Hl. unfold can_step, step.
    eexists (mklab i (a_cid a) (a_ev a) _), _. simpl. unfold step_fn. rewrite Hn, Hl. reflexivity.
  Qed.

  Lemma inv_progress : forall s : state, inv s -> all_done s \/ can_step s.
  Proof.
    intros s [hs [[Hlen Hth] Hlk]].
    destruct (some_thread_pending (st_thr s)) as [Hd|[i0 [a0 [rest0 H0]]]]; [left; exact Hd|right].
    destruct Hlk as [Hr [Hp Hlw]].
    (* a thread inside a section can always move *)
    assert (Hin : forall x, (x = HR \/ x = HW) -> 1 <= cnt x hs -> can_step s).
    { intros x Hx Hc. destruct (cnt_pos_ex _ _ Hc) as [i Ehi].
      destruct (nth_error_lt_some _ (st_thr s) i) as [r Er]. { rewrite <- Hlen. eapply nth_error_some_lt; eauto. }
      pose proof (Hth _ _ _ Ehi Er) as Ri.
      destruct r as [|a rest]. { simpl in Ri. destruct Hx; subst; discriminate. }
      simpl in Ri. destruct (hstep x (a_ev a)) eqn:Si; try discriminate.
      destruct (st_lk s) as [w r p] eqn:Elk. simpl in *.
      assert (exists lk', lk_step (st_lk s) (a_ev a) = LkNext lk') as [lk' Hlk'].
      { rewrite Elk. destruct Hx; subst x; destruct (a_ev a); simpl in Si; try discriminate; simpl; eauto.
        - destruct r; eauto. lia.
        - destruct w; eauto. lia. }
      eapply can_step_intro; eauto. }
    destruct (le_lt_dec 1 (cnt HR hs)) as [HRp|HR0]; [apply (Hin HR); auto|].
    destruct (le_lt_dec 1 (cnt HW hs)) as [HWp|HW0]; [apply (Hin HW); auto|].
    destruct (st_lk s) as [w r p] eqn:Elk. simpl in *.
    destruct w; [lia|].
    destruct (le_lt_dec 1 (cnt HQ hs)) as [HQp|HQ0].
    - (* an announced writer acquires *)
      destruct (cnt_pos_ex _ _ HQp) as [i Ehi].
      destruct (nth_error_lt_some _ (st_thr s) i) as [ri Er]. { rewrite <- Hlen. eapply nth_error_some_lt; eauto. }
      pose proof (Hth _ _ _ Ehi Er) as Ri.
      destruct ri as [|a rest]; [simpl in Ri; discriminate|].
      simpl in Ri. destruct (hstep HQ (a_ev a)) eqn:Si; try discriminate.
      assert (a_ev a = EvLock) as Ea by (destruct (a_ev a); simpl in Si; try discriminate; auto).
      assert (exists lk', lk_step (st_lk s) (a_ev a) = LkNext lk') as [lk' Hlk'].
      { rewrite Elk, Ea. simpl. destruct r; [|lia]. destruct p; [lia|]. eauto. }
      eapply can_step_intro; eauto.
    - (* nobody holds or waits: the pending thread i0 holds nothing *)
      destruct (nth_error_lt_some _ hs i0) as [h0 Eh0]. { rewrite Hlen. eapply nth_error_some_lt; eauto. }
      pose proof (cnt_pos _ _ _ Eh0) as CP.
      assert (h0 = HN) as -> by (destruct h0; auto; lia).
      pose proof (Hth _ _ _ Eh0 H0) as Ri. simpl in Ri.
      destruct (hstep HN (a_ev a0)) eqn:Si; try discriminate.
      assert (exists lk', lk_step (st_lk s) (a_ev a0) = LkNext lk') as [lk' Hlk'].
      { rewrite Elk. destruct (a_ev a0); simpl in Si; try discriminate; simpl; eauto.
        destruct p; eauto. lia. }
      eapply can_step_intro; eauto.
  Qed.
End Inv.

Arguments inv {V}.
Arguments evs {V}.

(* ------------------------------------------------------------------------------------ *)
(* 4. initial state and reachability                                                     *)
(* ------------------------------------------------------------------------------------ *)
Section Reach.
  Variable V : Type.
  Notation state := (@state V).
  Notation action := (@action V).
  Notation call := (@call V).
  Notation label := (@label V).

  Lemma evs_call_actions : forall k (c : call), evs (call_actions k c) = c_trace c.
  Proof.
    intros k c. unfold evs, call_actions. rewrite map_map. simpl. apply map_id.
  Qed.

  Lemma evs_app : forall a b : list action, evs (a ++ b) = evs a ++ evs b.
  Proof. intros. unfold evs. apply map_app. Qed.

  Lemma thread_run_ok : forall (cs : list call) k,
    Forall (fun c => trace_ok (c_trace c) = true) cs ->
    run_hold HN (evs (thread_actions_from k cs)) = Some HN.
  Proof.
    induction cs as [|c cs IH]; intros k H; simpl; auto.
    inversion H; subst. rewrite evs_app, run_hold_app, evs_call_actions.
    rewrite (trace_ok_run _ H2). apply IH; auto.
  Qed.

  Definition calls_ok (ths : list (list call)) : Prop :=
    Forall (Forall (fun c => trace_ok (c_trace c) = true /\ one_access (c_trace c) = true)) ths.

  Lemma inv_init : forall v0 ths, calls_ok ths -> inv (init v0 ths).
  Proof.
    intros v0 ths Hok. exists (repeat HN (List.length ths)). split.
    - split; simpl.
      + rewrite repeat_length, map_length. reflexivity.
      + intros i h r Hh Hr.
        assert (h = HN) as -> by (apply nth_error_In in Hh; apply repeat_spec in Hh; auto).
        rewrite nth_error_map in Hr. destruct (nth_error ths i) as [cs|] eqn:E; try discriminate.
        inversion Hr; subst. apply thread_run_ok.
        apply nth_error_In in E. unfold calls_ok in Hok. rewrite Forall_forall in Hok.
        specialize (Hok _ E). eapply Forall_impl; [|exact Hok]. simpl. intros a [Ha _]. exact Ha.
    - unfold lock_inv. simpl. rewrite !cnt_repeat_HN by discriminate. auto.
  Qed.

  Lemma inv_reach : forall (s0 : state) h s, inv s0 -> reach s0 h s -> inv s.
  Proof.
    intros s0 h s H0 Hr. induction Hr as [|h s l s' Hr IH Hs]; auto.
    eapply inv_step; eauto.
  Qed.

  Lemma run_from_reach : forall (s0 : state) sched h s h' s',
    reach s0 h s -> run_from h s sched = Some (h', s') -> reach s0 h' s'.
  Proof.
    induction sched as [|i sched IH]; intros h s h' s' Hr Hrun; simpl in Hrun.
    - inversion Hrun; subst. exact Hr.
    - destruct (step_fn s i) as [[l s1]|] eqn:E; try discriminate.
      eapply IH; [|exact Hrun]. econstructor; eauto.
      unfold step. assert (l_tid l = i) as ->; auto.
      unfold step_fn in E. destruct (nth_error (st_thr s) i) as [[|a rest]|]; try discriminate.
      destruct (lk_step (st_lk s) (a_ev a)); try discriminate. inversion E; subst. reflexivity.
  Qed.

  Lemma reach_run : forall (s0 : state) h s, reach s0 h s -> exists sched, run_from [] s0 sched = Some (h, s).
  Proof.
    assert (Happ : forall sched (h0 : list label) (s0 : state) h1 s1 i l s2,
      run_from h0 s0 sched = Some (h1, s1) -> step_fn s1 i = Some (l, s2) ->
      run_from h0 s0 (sched ++ [i]) = Some (l :: h1, s2)).
    { induction sched as [|j sched IH]; intros h0 s0 h1 s1 i l s2 H1 H2; simpl in *.
      - inversion H1; subst. rewrite H2. reflexivity.
      - destruct (step_fn s0 j) as [[l' s']|]; try discriminate. eapply IH; eauto. }
    intros s0 h s Hr. induction Hr as [|h s l s' Hr [sched IH] Hs].
    - exists []. reflexivity.
    - exists (sched ++ [l_tid l]). eapply Happ; eauto.
  Qed.
End Reach.

Arguments calls_ok {V}.

(* ------------------------------------------------------------------------------------ *)
(* 5. linearizability: the map accesses, in the order in which they happen, are a        *)
(*    sequential execution of the calls they belong to                                   *)
(* ------------------------------------------------------------------------------------ *)
Section Lin.
  Variable V : Type.
  Notation state := (@state V).
  Notation action := (@action V).
  Notation call := (@call V).
  Notation label := (@label V).

  Definition sig (a : action) : nat * event := (a_cid a, a_ev a).

  (* what thread t has executed so far, oldest first (the history is newest first) *)
  Fixpoint done_of (t : nat) (h : list label) : list (nat * event) :=
    match h with
    | [] => []
    | l :: h' => if Nat.eqb (l_tid l) t then done_of t h' ++ [(l_cid l, l_ev l)] else done_of t h'
    end.

  (* every thread's remaining actions are a suffix of its program; the prefix is what the
     history records for it *)
  Definition prog_inv (ths : list (list call)) (h : list label) (s : state) : Prop :=
    forall t cs, nth_error ths t = Some cs ->
      exists pre r, nth_error (st_thr s) t = Some r /\ thread_actions cs = pre ++ r /\ map sig pre = done_of t h.

  Lemma prog_inv_init : forall v0 ths, prog_inv ths [] (init v0 ths).
  Proof.
    intros v0 ths t cs H. exists [], (thread_actions cs). simpl. rewrite nth_error_map, H. auto.
  Qed.

  Lemma step_fn_inv : forall (s : state) i l s',
    step_fn s i = Some (l, s') ->
    exists a rest lk', nth_error (st_thr s) i = Some (a :: rest) /\ lk_step (st_lk s) (a_ev a) = LkNext lk' /\
      l = mklab i (a_cid a) (a_ev a) (match a_ev a with EvWrite => a_upd a (st_mem s) | _ => st_mem s end) /\
      s' = mkst lk' (l_val l) (Sem.replace i rest (st_thr s)).
  Proof.
    intros s i l s' H. unfold step_fn in H.
    destruct (nth_error (st_thr s) i) as [[|a rest]|] eqn:E; try discriminate.
    destruct (lk_step (st_lk s) (a_ev a)) as [lk'| |] eqn:El; try discriminate.
    inversion H; subst. exists a, rest, lk'. auto.
  Qed.

  Lemma prog_inv_step : forall ths h s i l s',
    prog_inv ths h s -> step_fn s i = Some (l, s') -> prog_inv ths (l :: h) s'.
  Proof.
    intros ths h s i l s' Hinv Hstep t cs Ht.
    destruct (step_fn_inv _ _ _ _ Hstep) as (a & rest & lk' & Hn & _ & Hl & Hs').
    destruct (Hinv _ _ Ht) as (pre & r & Hr & Hsplit & Hdone).
    subst s'. simpl. destruct (Nat.eq_dec i t) as [->|Hne].
    - rewrite Hn in Hr. inversion Hr; subst r.
      exists (pre ++ [a]), rest. split; [eapply replace_nth_same; eauto|]. split.
      + rewrite <- app_assoc. exact Hsplit.
      + rewrite Hl. simpl. rewrite Nat.eqb_refl, map_app, Hdone. reflexivity.
    - exists pre, r. rewrite replace_nth_other by auto. split; auto. split; auto.
      rewrite Hl. simpl. apply Nat.eqb_neq in Hne. rewrite Hne. exact Hdone.
  Qed.

  (* ---- structure of a thread's program ---- *)
  Lemma in_thread_actions_from : forall (cs : list call) k0 a,
    In a (thread_actions_from k0 cs) ->
    exists j c, a_cid a = k0 + j /\ nth_error cs j = Some c /\ In (a_ev a) (c_trace c) /\ a_upd a = c_upd c.
  Proof.
    induction cs as [|c cs IH]; intros k0 a H; simpl in H; [contradiction|].
    apply in_app_or in H. destruct H as [H|H].
    - unfold call_actions in H. apply in_map_iff in H. destruct H as [e [<- He]].
      exists 0, c. simpl. rewrite Nat.add_0_r. auto.
    - destruct (IH _ _ H) as (j & c' & Hc & Hn & Hi & Hu).
      exists (S j), c'. simpl. split; [lia|auto].
  Qed.

  Lemma thread_actions_from_in : forall (cs : list call) k0 j c e,
    nth_error cs j = Some c -> In e (c_trace c) -> In (mkact (k0 + j) e (c_upd c)) (thread_actions_from k0 cs).
  Proof.
    induction cs as [|c0 cs IH]; intros k0 j c e Hn He; destruct j; simpl in *; try discriminate.
    - inversion Hn; subst. apply in_or_app. left. rewrite Nat.add_0_r.
      unfold call_actions. apply in_map_iff. eauto.
    - apply in_or_app. right. replace (k0 + S j) with (S k0 + j) by lia. eauto.
  Qed.

  Definition acc_of (k : nat) (a : action) : bool := Nat.eqb (a_cid a) k && is_access (a_ev a).

  Lemma filter_none : forall A (f : A -> bool) l, (forall x, In x l -> f x = false) -> filter f l = [].
  Proof.
    induction l as [|x l IH]; intro H; simpl; auto.
    rewrite (H x) by (left; auto). apply IH. intros y Hy. apply H. right; auto.
  Qed.

  Lemma acc_count : forall (cs : list call) k0 k,
    Forall (fun c => one_access (c_trace c) = true) cs ->
    List.length (filter (acc_of k) (thread_actions_from k0 cs)) <= 1.
  Proof.
    induction cs as [|c cs IH]; intros k0 k Hok; simpl; [lia|].
    inversion Hok as [|? ? Hc Hcs]; subst.
    rewrite filter_app, app_length.
    destruct (Nat.eq_dec k k0) as [->|Hne].
    - rewrite (filter_none _ _ (thread_actions_from (S k0) cs)).
      + simpl. rewrite Nat.add_0_r.
        unfold call_actions. unfold one_access in Hc. apply Nat.leb_le in Hc.
        assert (Hlen : forall tr, List.length (filter (acc_of k0) (map (fun e => mkact k0 e (c_upd c)) tr))
                              = List.length (filter is_access tr)).
        { induction tr as [|e tr IHt]; simpl; auto. unfold acc_of at 1. simpl. rewrite Nat.eqb_refl. simpl.
          destruct (is_access e); simpl; rewrite IHt; auto. }
        rewrite Hlen. exact Hc.
      + intros a Ha. destruct (in_thread_actions_from _ _ _ Ha) as (j & c' & Hcid & _).
        unfold acc_of. assert (Nat.eqb (a_cid a) k0 = false) as -> by (apply Nat.eqb_neq; lia). reflexivity.
    - rewrite (filter_none _ _ (call_actions k0 c)).
      + simpl. apply IH; auto.
      + intros a Ha. unfold call_actions in Ha. apply in_map_iff in Ha. destruct Ha as [e [<- _]].
        unfold acc_of. simpl. assert (Nat.eqb k0 k = false) as -> by (apply Nat.eqb_neq; lia). reflexivity.
  Qed.

  (* the access of a call is executed at most once: no earlier action of the thread is an
     access of the same call *)
  Lemma access_once : forall (cs : list call) pre a rest,
    Forall (fun c => one_access (c_trace c) = true) cs ->
    thread_actions cs = pre ++ a :: rest -> is_access (a_ev a) = true ->
    forall a', In a' pre -> a_cid a' = a_cid a -> is_access (a_ev a') = false.
  Proof.
    intros cs pre a rest Hok Hsplit Ha a' Hin Hcid.
    destruct (is_access (a_ev a')) eqn:E; auto. exfalso.
    pose proof (acc_count cs 0 (a_cid a) Hok) as Hc. fold (thread_actions cs) in Hc.
    rewrite Hsplit, filter_app, app_length in Hc. simpl in Hc.
    assert (acc_of (a_cid a) a = true) as Haa by (unfold acc_of; rewrite Nat.eqb_refl, Ha; auto).
    rewrite Haa in Hc. simpl in Hc.
    assert (In a' (filter (acc_of (a_cid a)) pre)) as Hf.
    { apply filter_In. split; auto. unfold acc_of. rewrite Hcid, Nat.eqb_refl, E. auto. }
    destruct (filter (acc_of (a_cid a)) pre); simpl in *; [contradiction|lia].
  Qed.

  (* ---- the sequential run of a call with one access ---- *)
  Lemma no_access_seq : forall f tr (v : V), filter is_access tr = [] -> trace_seq f tr v = ([], v).
  Proof.
    induction tr as [|e tr IH]; intros v H; simpl; auto.
    destruct e; simpl in H; try discriminate; auto.
  Qed.

  Lemma one_access_seq : forall f tr e (v : V),
    one_access tr = true -> In e tr -> is_access e = true ->
    snd (trace_seq f tr v) = match e with EvWrite => f v | _ => v end.
  Proof.
    unfold one_access. induction tr as [|e0 tr IH]; intros e v H1 Hin He; [contradiction|].
    apply Nat.leb_le in H1. simpl in H1.
    destruct (is_access e0) eqn:E0.
    - simpl in H1. assert (Hnil : filter is_access tr = []) by (destruct (filter is_access tr); simpl in *; auto; lia).
      assert (e = e0) as ->.
      { destruct Hin as [->|Hin]; auto. exfalso.
        assert (In e (filter is_access tr)) by (apply filter_In; auto). rewrite Hnil in H. contradiction. }
      destruct e0; simpl in E0; try discriminate; simpl; rewrite (no_access_seq _ _ _ Hnil); reflexivity.
    - destruct Hin as [->|Hin]; [congruence|].
      assert (IH' : snd (trace_seq f tr v) = match e with EvWrite => f v | _ => v end).
      { apply IH; auto. apply Nat.leb_le. exact H1. }
      destruct e0; simpl in E0; try discriminate; simpl; exact IH'.
  Qed.

  Lemma seq_mem_snoc : forall (cs : list call) c v, seq_mem v (cs ++ [c]) = snd (call_seq c (seq_mem v cs)).
  Proof. intros. unfold seq_mem. rewrite fold_left_app. reflexivity. Qed.

  Lemma seq_vals_snoc : forall (cs : list call) c v, seq_vals v (cs ++ [c]) = seq_vals v cs ++ [seq_mem v (cs ++ [c])].
  Proof.
    induction cs as [|c0 cs IH]; intros c v; simpl; auto.
    rewrite IH. reflexivity.
  Qed.

  (* ---- history bookkeeping ---- *)
  Lemma accesses_cons : forall (l : label) h,
    accesses (l :: h) = accesses h ++ (if is_access (l_ev l) then [l] else []).
  Proof.
    intros. unfold accesses. simpl. rewrite filter_app. simpl. destruct (is_access (l_ev l)); auto.
  Qed.

  Lemma lin_order_cons : forall (l : label) h,
    lin_order (l :: h) = lin_order h ++ (if is_access (l_ev l) then [(l_tid l, l_cid l)] else []).
  Proof.
    intros. unfold lin_order. rewrite accesses_cons, map_app. destruct (is_access (l_ev l)); auto.
  Qed.

  Lemma lin_vals_cons : forall (l : label) h,
    lin_vals (l :: h) = lin_vals h ++ (if is_access (l_ev l) then [l_val l] else []).
  Proof.
    intros. unfold lin_vals. rewrite accesses_cons, map_app. destruct (is_access (l_ev l)); auto.
  Qed.

  Lemma in_done_of : forall t (h : list label) l, In l h -> l_tid l = t -> In (l_cid l, l_ev l) (done_of t h).
  Proof.
    induction h as [|l0 h IH]; intros l Hin Ht; [contradiction|]. simpl.
    destruct Hin as [->|Hin].
    - rewrite Ht, Nat.eqb_refl. apply in_or_app. right. left. reflexivity.
    - destruct (Nat.eqb (l_tid l0) t); [apply in_or_app; left|]; eauto.
  Qed.

  Lemma done_of_in : forall t (h : list label) k e, In (k, e) (done_of t h) ->
    exists l, In l h /\ l_tid l = t /\ l_cid l = k /\ l_ev l = e.
  Proof.
    induction h as [|l0 h IH]; intros k e Hin; [contradiction|]. simpl in Hin.
    destruct (Nat.eqb (l_tid l0) t) eqn:E.
    - apply in_app_or in Hin. destruct Hin as [Hin|[Heq|[]]].
      + destruct (IH _ _ Hin) as (l & Hl & Hr). exists l. split; [right|]; auto.
      + inversion Heq; subst. apply Nat.eqb_eq in E. exists l0. split; [left|]; auto.
    - destruct (IH _ _ Hin) as (l & Hl & Hr). exists l. split; [right|]; auto.
  Qed.

  Lemma in_lin_order : forall (h : list label) t k,
    In (t, k) (lin_order h) <-> exists l, In l h /\ l_tid l = t /\ l_cid l = k /\ is_access (l_ev l) = true.
  Proof.
    intros h t k. unfold lin_order, accesses. rewrite in_map_iff. split.
    - intros [l [Heq Hin]]. apply filter_In in Hin. destruct Hin as [Hin Ha]. apply in_rev in Hin.
      inversion Heq; subst. exists l. auto.
    - intros [l (Hin & Ht & Hk & Ha)]. exists l. split; [congruence|]. apply filter_In. split; auto.
      apply in_rev. rewrite rev_involutive. exact Hin.
  Qed.

  Lemma NoDup_snoc : forall A (l : list A) x, NoDup l -> ~ In x l -> NoDup (l ++ [x]).
  Proof.
    induction l as [|a l IH]; intros x Hnd Hni; simpl.
    - constructor; [intros []|constructor].
    - inversion Hnd; subst. constructor.
      + intro Hin. apply in_app_or in Hin. destruct Hin as [Hin|[->|[]]]; auto. apply Hni. left. reflexivity.
      + apply IH; auto. intro. apply Hni. right. auto.
  Qed.

  Lemma calls_ok_nth : forall (ths : list (list call)) t cs, calls_ok ths -> nth_error ths t = Some cs ->
    Forall (fun c => one_access (c_trace c) = true) cs.
  Proof.
    intros ths t cs Hok Ht. apply nth_error_In in Ht. unfold calls_ok in Hok. rewrite Forall_forall in Hok.
    specialize (Hok _ Ht). eapply Forall_impl; [|exact Hok]. simpl. intros c [_ H]. exact H.
  Qed.

  (* what the theorem says about a history *)
  Definition linearized (v0 : V) (ths : list (list call)) (h : list label) (s : state) : Prop :=
    exists cs : list call,
      map (get_call ths) (lin_order h) = map Some cs /\   (* the linearized calls, in access order *)
      NoDup (lin_order h) /\                              (* each call at most once *)
      lin_vals h = seq_vals v0 cs /\                      (* observed values = sequential execution *)
      st_mem s = seq_mem v0 cs.                           (* and so is the current map *)

  Lemma reach_length : forall v0 (ths : list (list call)) h s,
    reach (init v0 ths) h s -> List.length (st_thr s) = List.length ths.
  Proof.
    intros v0 ths h s R. induction R as [|h0 s0 l0 s1 R IH S]; [simpl; apply map_length|].
    unfold step in S. destruct (step_fn_inv _ _ _ _ S) as (a0 & r0 & lk0 & _ & _ & _ & ->).
    simpl. rewrite replace_length. exact IH.
  Qed.

  Lemma linearizable : forall v0 ths, calls_ok ths ->
    forall h s, reach (init v0 ths) h s -> prog_inv ths h s /\ linearized v0 ths h s.
  Proof.
    intros v0 ths Hok h s Hr. induction Hr as [|h s l s' Hr [IHp IHl] Hs].
    - split; [apply prog_inv_init|]. exists []. simpl. repeat split; auto. constructor.
    - unfold step in Hs. split; [eapply prog_inv_step; eauto|].
      destruct (step_fn_inv _ _ _ _ Hs) as (a & rest & lk' & Hn & _ & Hl & Hs').
      destruct IHl as (cs & Hcalls & Hnd & Hvals & Hmem).
      unfold linearized. rewrite lin_order_cons, lin_vals_cons.
      assert (Hev : l_ev l = a_ev a) by (rewrite Hl; reflexivity).
      assert (Htid : l_tid l = l_tid l) by reflexivity.
      remember (l_tid l) as i eqn:Ei in Hn, Hs |- .
      rewrite Hev. destruct (is_access (a_ev a)) eqn:Ea.
      + (* the step is the map access of call (i, a_cid a) *)
        assert (Hi : i < List.length ths).
        { apply nth_error_some_lt in Hn. rewrite (reach_length _ _ _ _ Hr) in Hn. exact Hn. }
        destruct (nth_error_lt_some _ _ _ Hi) as [csi Hcsi].
        destruct (IHp _ _ Hcsi) as (pre & r & Hr' & Hsplit & Hdone).
        rewrite Hn in Hr'. inversion Hr'; subst r.
        assert (Hin : In a (thread_actions csi)) by (rewrite Hsplit; apply in_or_app; right; left; reflexivity).
        destruct (in_thread_actions_from _ _ _ Hin) as (j & c & Hcid & Hnc & Hinc & Hupd). simpl in Hcid.
        pose proof (calls_ok_nth _ _ _ Hok Hcsi) as Hone.
        assert (Hc1 : one_access (c_trace c) = true).
        { apply nth_error_In in Hnc. rewrite Forall_forall in Hone. apply Hone; auto. }
        assert (Hlid : (l_tid l, l_cid l) = (i, j)) by (rewrite Hl; simpl; congruence).
        assert (Hval : l_val l = snd (call_seq c (st_mem s))).
        { unfold call_seq. rewrite (one_access_seq _ _ _ _ Hc1 Hinc Ea). rewrite Hl. simpl. rewrite Hupd. reflexivity. }
        exists (cs ++ [c]). rewrite !map_app. simpl. rewrite Hlid. repeat split.
        * rewrite Hcalls. unfold get_call. simpl. rewrite Hcsi, Hnc. reflexivity.
        * apply NoDup_snoc; auto. intro Hdup.
          apply in_lin_order in Hdup. destruct Hdup as (l0 & Hl0 & Ht0 & Hk0 & Ha0).
          pose proof (in_done_of _ _ _ Hl0 Ht0) as Hd. rewrite <- Hdone in Hd.
          apply in_map_iff in Hd. destruct Hd as (a' & Hsig & Hpre). unfold sig in Hsig. inversion Hsig.
          assert (is_access (a_ev a') = false) as Hno.
          { eapply access_once; eauto. congruence. }
          congruence.
        * rewrite Hvals, seq_vals_snoc, seq_mem_snoc, <- Hmem, Hval. reflexivity.
        * rewrite Hs'. simpl. rewrite seq_mem_snoc, <- Hmem. exact Hval.
      + (* any other event leaves the map and the linearization unchanged *)
        exists cs. rewrite !app_nil_r. repeat split; auto.
        rewrite Hs', Hl. simpl. destruct (a_ev a); simpl in Ea; try discriminate; exact Hmem.
  Qed.

  (* when every thread has finished, every call that has a map access has been linearized *)
  Lemma linearized_complete : forall v0 ths h s,
    reach (init v0 ths) h s -> prog_inv ths h s -> all_done s ->
    forall t k c, get_call ths (t, k) = Some c -> existsb is_access (c_trace c) = true -> In (t, k) (lin_order h).
  Proof.
    intros v0 ths h s Hr Hp Hd t k c Hc Hacc.
    unfold get_call in Hc. simpl in Hc. destruct (nth_error ths t) as [cs|] eqn:Ht; try discriminate.
    destruct (Hp _ _ Ht) as (pre & r & Hn & Hsplit & Hdone).
    assert (r = []) as ->.
    { unfold all_done in Hd. rewrite Forall_forall in Hd. apply Hd. eapply nth_error_In; eauto. }
    rewrite app_nil_r in Hsplit. subst pre.
    apply existsb_exists in Hacc. destruct Hacc as (e & He & Hae).
    pose proof (thread_actions_from_in cs 0 k c e Hc He) as Hin. simpl in Hin.
    fold (thread_actions cs) in Hin.
    assert (In (k, e) (done_of t h)) as Hd'.
    { rewrite <- Hdone. apply in_map_iff. exists (mkact k e (c_upd c)). auto. }
    destruct (done_of_in _ _ _ _ Hd') as (l & Hl & Ht' & Hk & Hev).
    apply in_lin_order. exists l. repeat split; auto. congruence.
  Qed.
  (* ---- program order: within one thread, calls are linearized in the order they were issued ---- *)
  Definition thread_lin (t : nat) (h : list label) : list nat :=
    map snd (filter (fun id => Nat.eqb (fst id) t) (lin_order h)).

  Lemma thread_lin_done : forall t (h : list label),
    thread_lin t h = map fst (filter (fun x => is_access (snd x)) (done_of t h)).
  Proof.
    intros t h. unfold thread_lin. induction h as [|l h IH]; [reflexivity|].
    rewrite lin_order_cons, filter_app, map_app, IH. simpl.
    destruct (Nat.eqb (l_tid l) t) eqn:Et.
    - rewrite filter_app, map_app. simpl. destruct (is_access (l_ev l)); simpl; rewrite ?Et; reflexivity.
    - destruct (is_access (l_ev l)); simpl; rewrite ?Et; simpl; rewrite app_nil_r; reflexivity.
  Qed.

  Definition acc_cids (l : list action) : list nat := map a_cid (filter (fun a => is_access (a_ev a)) l).

  Lemma acc_cids_sorted : forall (cs : list call) k0,
    Forall (fun c => one_access (c_trace c) = true) cs ->
    StronglySorted lt (acc_cids (thread_actions_from k0 cs)).
  Proof.
    induction cs as [|c cs IH]; intros k0 Hok; [constructor|].
    inversion Hok as [|? ? Hc Hcs]; subst. simpl. unfold acc_cids. rewrite filter_app, map_app.
    assert (Hrest : Forall (lt k0) (acc_cids (thread_actions_from (S k0) cs))).
    { apply Forall_forall. intros x Hx. unfold acc_cids in Hx. apply in_map_iff in Hx.
      destruct Hx as (a & <- & Ha). apply filter_In in Ha. destruct Ha as [Ha _].
      destruct (in_thread_actions_from _ _ _ Ha) as (j & c' & Hcid & _). lia. }
    assert (Hhead : map a_cid (filter (fun a => is_access (a_ev a)) (call_actions k0 c)) = [] \/
                    map a_cid (filter (fun a => is_access (a_ev a)) (call_actions k0 c)) = [k0]).
    { unfold one_access in Hc. apply Nat.leb_le in Hc. unfold call_actions.
      assert (Hm : forall tr, map a_cid (filter (fun a => is_access (a_ev a)) (map (fun e => mkact k0 e (c_upd c)) tr))
                              = map (fun _ => k0) (filter is_access tr)).
      { induction tr as [|e tr IHt]; simpl; auto. destruct (is_access e); simpl; rewrite IHt; auto. }
      rewrite Hm. destruct (filter is_access (c_trace c)) as [|e1 [|e2 r]]; simpl in *; auto. lia. }
    destruct Hhead as [-> | ->]; simpl.
    - apply IH; auto.
    - constructor; [apply IH; auto|exact Hrest].
  Qed.

  Lemma StronglySorted_app_l : forall (a b : list nat), StronglySorted lt (a ++ b) -> StronglySorted lt a.
  Proof.
    induction a as [|x a IH]; intros b H; [constructor|].
    simpl in H. inversion H as [|? ? Hs Hf]; subst. constructor; [eapply IH; eauto|].
    apply Forall_app in Hf. tauto.
  Qed.

  Lemma program_order : forall v0 ths, calls_ok ths ->
    forall h s, reach (init v0 ths) h s -> forall t, StronglySorted lt (thread_lin t h).
  Proof.
    intros v0 ths Hok h s Hr t.
    destruct (linearizable v0 ths Hok h s Hr) as [Hp _].
    rewrite thread_lin_done.
    destruct (nth_error ths t) as [cs|] eqn:Ht.
    - destruct (Hp _ _ Ht) as (pre & r & _ & Hsplit & Hdone). rewrite <- Hdone.
      pose proof (acc_cids_sorted cs 0 (calls_ok_nth _ _ _ Hok Ht)) as Hs.
      fold (thread_actions cs) in Hs. rewrite Hsplit in Hs. unfold acc_cids in Hs.
      rewrite filter_app, map_app in Hs. apply StronglySorted_app_l in Hs.
      assert (Heq : map fst (filter (fun x => is_access (snd x)) (map sig pre))
                    = map a_cid (filter (fun a => is_access (a_ev a)) pre)).
      { clear. induction pre as [|a pre IH]; simpl; auto. destruct (is_access (a_ev a)); simpl; rewrite IH; auto. }
      rewrite Heq. exact Hs.
    - (* no such thread: it has executed nothing *)
      assert (Hnone : forall h0 s0, reach (init v0 ths) h0 s0 -> done_of t h0 = []).
      { intros h0 s0 R. induction R as [|h0 s0 l0 s1 R IH S]; [reflexivity|].
        unfold step in S. destruct (step_fn_inv _ _ _ _ S) as (a0 & r0 & lk0 & Hn0 & _ & _ & _).
        simpl. destruct (Nat.eqb (l_tid l0) t) eqn:E; auto.
        apply Nat.eqb_eq in E. subst t. exfalso.
        apply nth_error_some_lt in Hn0. rewrite (reach_length _ _ _ _ R) in Hn0.
        apply nth_error_None in Ht. lia. }
      rewrite (Hnone _ _ Hr). constructor.
  Qed.
End Lin.

Arguments thread_lin {V}.
Arguments linearized {V}.
Arguments prog_inv {V}.

(* ------------------------------------------------------------------------------------ *)
(* 6. the theorem for programs, thread counts, calls and schedules                      *)
(* ------------------------------------------------------------------------------------ *)
Lemma wf_calls_ok : forall V (prog : list skeleton) (ths : list (list (@call V))),
  forallb discipline_ok prog = true -> wf_threads prog ths -> calls_ok ths.
Proof.
  intros V prog ths Hd Hwf. unfold calls_ok, wf_threads in *.
  eapply Forall_impl; [|exact Hwf]. intros cs Hcs. eapply Forall_impl; [|exact Hcs].
  intros c (sk & Hsk & Hp). rewrite forallb_forall in Hd. specialize (Hd _ Hsk).
  unfold discipline_ok in Hd. rewrite forallb_forall in Hd. specialize (Hd _ Hp).
  apply andb_true_iff in Hd. exact Hd.
Qed.

Theorem discipline_sound_reach : forall prog : list skeleton,
  forallb discipline_ok prog = true ->
  forall (V : Type) (v0 : V) (ths : list (list (@call V))), wf_threads prog ths ->
  forall h s, reach (init v0 ths) h s ->
    ~ race s /\ ~ faulty s /\ (all_done s \/ can_step s) /\ linearized v0 ths h s /\
    (all_done s -> forall t k c, get_call ths (t, k) = Some c -> existsb is_access (c_trace c) = true ->
                   In (t, k) (lin_order h)).
Proof.
  intros prog Hd V v0 ths Hwf h s Hr.
  pose proof (wf_calls_ok _ _ _ Hd Hwf) as Hok.
  assert (Hinv : inv s) by (eapply inv_reach; [apply inv_init; exact Hok|exact Hr]).
  destruct (linearizable _ v0 ths Hok h s Hr) as [Hp Hl].
  split; [apply inv_no_race; auto|]. split; [apply inv_no_fault; auto|].
  split; [apply inv_progress; auto|]. split; auto.
  intro Hdone. eapply linearized_complete; eauto.
Qed.

Theorem discipline_sound : forall prog : list skeleton,
  forallb discipline_ok prog = true ->
  forall (V : Type) (v0 : V) (ths : list (list (@call V))), wf_threads prog ths ->
  forall sched h s, run sched v0 ths = Some (h, s) ->
    ~ race s /\ ~ faulty s /\ (all_done s \/ can_step s) /\ linearized v0 ths h s /\
    (all_done s -> forall t k c, get_call ths (t, k) = Some c -> existsb is_access (c_trace c) = true ->
                   In (t, k) (lin_order h)).
Proof.
  intros prog Hd V v0 ths Hwf sched h s Hrun.
  eapply discipline_sound_reach; eauto.
  unfold run in Hrun. eapply run_from_reach; [constructor|exact Hrun].
Qed.

(* within every thread, calls are linearized in the order in which the thread issued them *)
Theorem discipline_program_order : forall prog : list skeleton,
  forallb discipline_ok prog = true ->
  forall (V : Type) (v0 : V) (ths : list (list (@call V))), wf_threads prog ths ->
  forall sched h s, run sched v0 ths = Some (h, s) ->
  forall t, StronglySorted lt (thread_lin t h).
Proof.
  intros prog Hd V v0 ths Hwf sched h s Hrun t.
  eapply program_order; [eapply wf_calls_ok; eauto|].
  unfold run in Hrun. eapply run_from_reach; [constructor|exact Hrun].
Qed.

(* the lock discipline alone (without the one-access condition) already excludes races,
   runtime faults and deadlocks *)
Theorem lock_discipline_sound : forall (V : Type) (v0 : V) (ths : list (list (@call V))),
  Forall (Forall (fun c => trace_ok (c_trace c) = true)) ths ->
  forall h s, reach (init v0 ths) h s -> ~ race s /\ ~ faulty s /\ (all_done s \/ can_step s).
Proof.
  intros V v0 ths Hok h s Hr.
  assert (Hinv0 : inv (init v0 ths)).
  { exists (repeat HN (List.length ths)). split.
    - split; simpl.
      + rewrite repeat_length, map_length. reflexivity.
      + intros i hh r Hh Hr0.
        assert (hh = HN) as -> by (apply nth_error_In in Hh; apply repeat_spec in Hh; auto).
        rewrite nth_error_map in Hr0. destruct (nth_error ths i) as [cs|] eqn:E; try discriminate.
        inversion Hr0; subst. apply thread_run_ok.
        apply nth_error_In in E. rewrite Forall_forall in Hok. apply Hok; auto.
    - unfold lock_inv. simpl. rewrite !cnt_repeat_HN by discriminate. auto. }
  assert (Hinv : inv s) by (eapply inv_reach; eauto).
  split; [apply inv_no_race; auto|]. split; [apply inv_no_fault; auto|apply inv_progress; auto].
Qed.

(* what the executable check of one control path means: every map write happens while the write lock
   is held, every map read while the read or the write lock is held, and the path ends holding nothing *)
Lemma trace_ok_meaning : forall tr, trace_ok tr = true ->
  (forall pre post, tr = pre ++ EvWrite :: post -> run_hold HN pre = Some HW) /\
  (forall pre post, tr = pre ++ EvRead :: post -> run_hold HN pre = Some HR \/ run_hold HN pre = Some HW) /\
  run_hold HN tr = Some HN.
Proof.
  intros tr H. pose proof (trace_ok_run _ H) as Hr. repeat split; auto.
  - intros pre post E. subst tr. rewrite run_hold_app in Hr.
    destruct (run_hold HN pre) as [h|]; try discriminate. simpl in Hr.
    destruct h; simpl in Hr; try discriminate; reflexivity.
  - intros pre post E. subst tr. rewrite run_hold_app in Hr.
    destruct (run_hold HN pre) as [h|]; try discriminate. simpl in Hr.
    destruct h; simpl in Hr; try discriminate; auto.
Qed.

Lemma discipline_ok_meaning : forall sk, discipline_ok sk = true ->
  forall tr, In tr (paths sk) ->
    (forall pre post, tr = pre ++ EvWrite :: post -> run_hold HN pre = Some HW) /\
    (forall pre post, tr = pre ++ EvRead :: post -> run_hold HN pre = Some HR \/ run_hold HN pre = Some HW) /\
    run_hold HN tr = Some HN.
Proof.
  intros sk H tr Hin. unfold discipline_ok in H. rewrite forallb_forall in H. specialize (H _ Hin).
  apply andb_true_iff in H. apply trace_ok_meaning. tauto.
Qed.

(* the executable race test is sound (used by the Examples and by the driver's search) *)
Lemma raceb_pair_sound : forall V (s : @state V) i j, raceb_pair s i j = true -> race s.
Proof.
  intros V s i j H. unfold raceb_pair in H.
  destruct (next_event s i) as [ei|] eqn:Ei; try discriminate.
  destruct (next_event s j) as [ej|] eqn:Ej; try discriminate.
  repeat (apply andb_true_iff in H; destruct H as [H ?]).
  exists i, j, ei, ej. repeat split; auto.
  - apply negb_true_iff in H. apply Nat.eqb_neq in H. exact H.
  - apply orb_true_iff. auto.
Qed.

(* ------------------------------------------------------------------------------------ *)
(* 7. package-level state (C20_pure): specification of what the translator's tables must *)
(*    say.  The tables are produced by harness/c20/translate.go (syntactic scan).         *)
(* ------------------------------------------------------------------------------------ *)
Open Scope string_scope.

(* the only functions allowed to write a package-level variable of loaders / merklize *)
Definition allowed_writers : list (string * string * string) :=
  [("merklize", "defaultHasher", "SetHasher"); ("merklize", "defaultDocumentLoader", "SetDocumentLoader")].

Definition triple_eqb (a b : string * string * string) : bool :=
  String.eqb (fst (fst a)) (fst (fst b)) && String.eqb (snd (fst a)) (snd (fst b)) && String.eqb (snd a) (snd b).

Definition pkg_vars_ok (vars : list (string * string * list string)) : bool :=
  forallb (fun v => forallb (fun w => existsb (triple_eqb (fst (fst v), snd (fst v), w)) allowed_writers) (snd v)) vars.

(* every method writes no receiver field, except the listed ones (deserialisation into a fresh value) *)
Definition methods_readonly (except : list string) (ms : list (string * list string)) : bool :=
  forallb (fun m => match snd m with [] => true | _ => existsb (String.eqb (fst m)) except end) ms.

(* assignments through a pointer that may be the shared cache entry (see the translator): the only one
   allowed is loadDocumentFromHTTP filling `doc.Document` when it is still nil after following an
   alternate link (a cached document always has its Document, it is set before cacheEngine.Set) *)
Definition allowed_shared_writes : list (string * string) := [("loadDocumentFromHTTP", "doc.Document")].

Definition shared_writes_ok (ms : list (string * list string)) : bool :=
  forallb (fun m => forallb (fun w => existsb (fun a => String.eqb (fst a) (fst m) && String.eqb (snd a) w)
                                              allowed_shared_writes) (snd m)) ms.

Lemma shared_writes_ok_spec : forall ms, shared_writes_ok ms = true ->
  forall m ws w, In (m, ws) ms -> In w ws -> In (m, w) allowed_shared_writes.
Proof.
  intros ms H m ws w Hin Hw. unfold shared_writes_ok in H. rewrite forallb_forall in H.
  specialize (H _ Hin). cbn [fst snd] in H. rewrite forallb_forall in H. specialize (H _ Hw).
  apply existsb_exists in H. destruct H as ([m' w'] & Hin' & Heq). cbn [fst snd] in Heq.
  apply andb_true_iff in Heq. destruct Heq as [H1 H2]. apply String.eqb_eq in H1, H2. subst. exact Hin'.
Qed.

Lemma pkg_vars_ok_spec : forall vars, pkg_vars_ok vars = true ->
  forall p v ws w, In (p, v, ws) vars -> In w ws -> In (p, v, w) allowed_writers.
Proof.
  intros vars H p v ws w Hin Hw. unfold pkg_vars_ok in H. rewrite forallb_forall in H.
  specialize (H _ Hin). cbn [fst snd] in H. rewrite forallb_forall in H. specialize (H _ Hw).
  apply existsb_exists in H. destruct H as ([[p' v'] w'] & Hin' & Heq).
  unfold triple_eqb in Heq. simpl in Heq.
  apply andb_true_iff in Heq. destruct Heq as [Heq H3]. apply andb_true_iff in Heq. destruct Heq as [H1 H2].
  apply String.eqb_eq in H1, H2, H3. subst. exact Hin'.
Qed.

Lemma methods_readonly_spec : forall except ms, methods_readonly except ms = true ->
  forall m fs, In (m, fs) ms -> fs <> [] -> In m except.
Proof.
  intros except ms H m fs Hin Hne. unfold methods_readonly in H. rewrite forallb_forall in H.
  specialize (H _ Hin). simpl in H. destruct fs; [congruence|].
  apply existsb_exists in H. destruct H as (x & Hx & Heq). apply String.eqb_eq in Heq. subst. exact Hx.
Qed.

(* ------------------------------------------------------------------------------------ *)
(* 8. Examples (non-vacuity)                                                             *)
(* ------------------------------------------------------------------------------------ *)
(* the skeletons of Get and Set as written in DESIGN.md Appendix C *)
Definition ex_get : skeleton :=
  [ReadImmutable "embedDocs"; If [ReadImmutable "embedDocs"; If [Return] []] [];
   RLock; Defer RUnlock; MapRead "cache"; If [Return] []; Return].
Definition ex_set : skeleton :=
  [ReadImmutable "embedDocs"; If [ReadImmutable "embedDocs"; If [Return] []] [];
   Lock; Defer Unlock; MapWrite "cache"; Return].

Example ex_discipline : forallb discipline_ok [ex_get; ex_set] = true.
Proof. vm_compute. reflexivity. Qed.

(* three threads on a map abstracted to the last value written: Set 7 | Get | Set 9; Get *)
Definition ex_get_call : @call nat := mkcall [EvImm; EvRLock; EvRead; EvRUnlock] (fun v => v).
Definition ex_set_call (x : nat) : @call nat := mkcall [EvImm; EvLockReq; EvLock; EvWrite; EvUnlock] (fun _ => x).
Definition ex_threads : list (list (@call nat)) := [[ex_set_call 7]; [ex_get_call]; [ex_set_call 9; ex_get_call]].

Example ex_wf : wf_threads [ex_get; ex_set] ex_threads.
Proof.
  unfold ex_threads, wf_threads.
  assert (G : @call_of nat [ex_get; ex_set] ex_get_call).
  { exists ex_get. split; [left; reflexivity|]. vm_compute. auto 10. }
  assert (S : forall x, @call_of nat [ex_get; ex_set] (ex_set_call x)).
  { intro x. exists ex_set. split; [right; left; reflexivity|]. vm_compute. auto 10. }
  repeat constructor; auto.
Qed.

(* one schedule: the reader is inside while both writers announce themselves; it observes the
   initial map 0; thread 2's Set is linearized before thread 0's, so the last Get observes 7 *)
Example ex_run :
  match run [1;1;0;0;2;2;1;1;2;2;2;0;0;0;2;2;2;2] 0 ex_threads with
  | Some (h, s) => lin_order h = [(1,0); (2,0); (0,0); (2,1)] /\ lin_vals h = [0; 9; 7; 7] /\ st_mem s = 7
                   /\ Forall (fun t => t = []) (st_thr s)
  | None => False
  end.
Proof. vm_compute. repeat split; auto. Qed.

(* a blocked schedule is not a run: the reader cannot enter while the writer is inside *)
Example ex_blocked : run [0;0;0;1;1] 0 ex_threads = None.
Proof. vm_compute. reflexivity. Qed.

(* Set without the lock: the check fails and a racy state is reachable *)
Definition ex_bad_set : skeleton :=
  [ReadImmutable "embedDocs"; If [ReadImmutable "embedDocs"; If [Return] []] []; MapWrite "cache"; Return].

Example ex_bad_discipline : discipline_ok ex_bad_set = false.
Proof. vm_compute. reflexivity. Qed.

Example ex_bad_witness : race_witness [ex_get; ex_bad_set] <> None.
Proof. vm_compute. discriminate. Qed.

Example ex_bad_race : exists sched h s,
  run sched tt [[unit_call [EvRLock; EvRead; EvRUnlock]]; [unit_call [EvWrite]]] = Some (h, s) /\ race s.
Proof.
  exists [0]. eexists. eexists. split; [vm_compute; reflexivity|].
  apply (raceb_pair_sound _ _ 0 1). vm_compute. reflexivity.
Qed.

(* RLock instead of Lock in Set: two writers inside read sections *)
Definition ex_rlock_set : skeleton :=
  [ReadImmutable "embedDocs"; RLock; Defer RUnlock; MapWrite "cache"; Return].
Example ex_rlock_discipline : discipline_ok ex_rlock_set = false /\ race_witness [ex_rlock_set] <> None.
Proof. vm_compute. split; [reflexivity|discriminate]. Qed.

(* the map read before RLock in Get *)
Definition ex_early_get : skeleton :=
  [MapRead "cache"; If [Return] []; RLock; Defer RUnlock; Return].
Example ex_early_discipline : discipline_ok ex_early_get = false /\ race_witness [ex_early_get; ex_set] <> None.
Proof. vm_compute. split; [reflexivity|discriminate]. Qed.

Example ex_pkg_vars : pkg_vars_ok [("merklize", "defaultHasher", ["SetHasher"]); ("loaders", "ErrCacheMiss", [])] = true
                   /\ pkg_vars_ok [("loaders", "hits", ["memoryCacheEngine.Get"])] = false.
Proof. vm_compute. auto. Qed.
