(* Conc/Run.v — property C20: evaluation of per-run case files.
   A case is a small multi-threaded program of Get/Set calls on ONE cache engine together with
   a call-level schedule (which thread performs its next call); the harness executes it on the
   real memoryCacheEngine, every thread in its own goroutine, one call at a time (hand-over by
   channels), and records what every call returned.  The model executes the same program with
   Sem.run on the REGENERATED skeletons (the control path of a call is chosen by whether its key
   is an embedded document: embedded = the path without map access) over an abstract map, and
   the results are compared.  NO proofs here. *)
From Coq Require Import List Bool Arith ZArith Uint63.
From GSP Require Import Conc.Sem Conc.LoaderModel Generated.CacheSkeleton.
Import ListNotations.
Open Scope list_scope.

Inductive op := OGet (k : int) | OSet (k v : int).

(* abstract map: newest binding first *)
Definition amap := list (int * int).
Fixpoint alookup (k : int) (m : amap) : option int :=
  match m with
  | [] => None
  | (k', v) :: m' => if Uint63.eqb k k' then Some v else alookup k m'
  end.
Definition imem (k : int) (l : list int) : bool := existsb (Uint63.eqb k) l.

(* the control path of a method that does / does not touch the map *)
Definition pick (sk : skeleton) (touch : bool) : option (list event) :=
  find (fun tr => Bool.eqb (existsb is_access tr) touch) (paths sk).

Definition call_of_op (emb : list int) (o : op) : option (@call amap) :=
  match o with
  | OGet k => option_map (fun tr => mkcall tr (fun m => m)) (pick generated_get (negb (imem k emb)))
  | OSet k v => option_map (fun tr => mkcall tr (fun m => (k, v) :: m)) (pick generated_set (negb (imem k emb)))
  end.

Fixpoint all_some {A} (l : list (option A)) : option (list A) :=
  match l with
  | [] => Some []
  | Some a :: l' => option_map (cons a) (all_some l')
  | None :: _ => None
  end.

Definition nat_of (i : int) : nat := Z.to_nat (Uint63.to_Z i).

(* results as small integers: Set -> 0; Get: miss -> 1, embedded document -> 2, hit of value v -> 10 + v *)
Definition res_set : int := 0%uint63.
Definition res_miss : int := 1%uint63.
Definition res_emb : int := 2%uint63.
Definition res_hit (v : int) : int := Uint63.add 10%uint63 v.

(* walk the call-level schedule: next call index per thread *)
Fixpoint bump (t : nat) (ptr : list nat) : list nat :=
  match ptr, t with
  | [], _ => []
  | p :: r, O => S p :: r
  | p :: r, S t' => p :: bump t' r
  end.

(* event-level schedule: thread t repeated once per event of its next call *)
Fixpoint expand (ths : list (list (@call amap))) (ptr : list nat) (sched : list nat) : list nat :=
  match sched with
  | [] => []
  | t :: sched' =>
      let k := nth t ptr 0 in
      match get_call ths (t, k) with
      | Some c => repeat t (List.length (c_trace c)) ++ expand ths (bump t ptr) sched'
      | None => [t]          (* scheduling a thread that has no call left: not a run *)
      end
  end.

Definition find_label (h : list (@label amap)) (t k : nat) (e : event) : option (@label amap) :=
  find (fun l => Nat.eqb (l_tid l) t && Nat.eqb (l_cid l) k && event_eqb (l_ev l) e) h.

Definition bad : int := 999%uint63.

Fixpoint results (emb : list int) (prog : list (list op)) (h : list (@label amap)) (ptr : list nat) (sched : list nat) : list int :=
  match sched with
  | [] => []
  | t :: sched' =>
      let k := nth t ptr 0 in
      let r :=
        match nth_error (nth t prog []) k with
        | Some (OGet key) =>
            if imem key emb then res_emb else
            match find_label h t k EvRead with
            | Some l => match alookup key (l_val l) with Some v => res_hit v | None => res_miss end
            | None => bad
            end
        | Some (OSet key _) =>
            if imem key emb then res_set else
            match find_label h t k EvWrite with Some _ => res_set | None => bad end
        | None => bad
        end in
      r :: results emb prog h (bump t ptr) sched'
  end.

Fixpoint ilist_eqb (a b : list int) : bool :=
  match a, b with
  | [], [] => true
  | x :: a', y :: b' => Uint63.eqb x y && ilist_eqb a' b'
  | _, _ => false
  end.

Record case := mkcase { cs_id : int; cs_emb : list int; cs_prog : list (list op); cs_sched : list int; cs_obs : list int }.
Definition mkc (id : int) (emb : list int) (prog : list (list op)) (sched obs : list int) : case :=
  mkcase id emb prog sched obs.

(* the model's results for a case; None = the model cannot run the schedule *)
Definition model_results (c : case) : option (list int) :=
  match all_some (map (fun t => all_some (map (call_of_op (cs_emb c)) t)) (cs_prog c)) with
  | None => None
  | Some ths =>
      let sched := map nat_of (cs_sched c) in
      let ptr := map (fun _ => 0) ths in
      match run (expand ths ptr sched) [] ths with
      | None => None
      | Some (h, s) =>
          (* at call boundaries nobody is inside a section and the state is not racy *)
          if raceb s then None else Some (results (cs_emb c) (cs_prog c) h ptr sched)
      end
  end.

Definition agrees (c : case) : bool :=
  match model_results c with
  | Some r => ilist_eqb r (cs_obs c)
  | None => false
  end.

Definition cmismatches (cs : list case) : list int :=
  map cs_id (filter (fun c => negb (agrees c)) cs).

(* ------------------------------------------------------------------------------------ *)
(* loader logs recorded on the implementation (stress runs, one url each): loads of many *)
(* goroutines, the origin's answers, the stores into the cache.  The judgement is         *)
(* LoaderModel.log_explained, which accepts every log of the model                        *)
(* (LoaderTheory.model_log_explained): a log it rejects is not a behaviour of the model.  *)
(* ------------------------------------------------------------------------------------ *)
Inductive rawrec :=
| rl (ts te res : int)          (* load: res = 0 failure, otherwise the version returned *)
| rs (k fs fe ok : int)         (* origin answer: ok = 1 / 0 *)
| rt (v x : int).               (* store of version v with expiry x; stores are listed in the order they happened *)

Definition zi (i : int) : Z := Uint63.to_Z i.
Definition rec_of (r : rawrec) : record :=
  match r with
  | rl ts te res => RLoad (zi ts) (zi te) (if Uint63.eqb res 0%uint63 then None else Some (zi res))
  | rs k fs fe ok => RServe (zi k) (zi fs) (zi fe) (Uint63.eqb ok 1%uint63)
  | rt v x => RStore (zi v) (zi x)
  end.

Record lcase := mklcase { lc_id : int; lc_log : list rawrec }.
Definition mklc (id : int) (l : list rawrec) : lcase := mklcase id l.

Definition lagrees (c : lcase) : bool := log_explained (map rec_of (lc_log c)).
Definition lmismatches (cs : list lcase) : list int := map lc_id (filter (fun c => negb (lagrees c)) cs).
