(* Conc/Instance.v — property C20: the checks on the REGENERATED skeleton
   (Generated/CacheSkeleton.v is rewritten from the repository's Go source on every run by
   harness/c20/translate.go).  Everything here is decided by vm_compute on those tables;
   removing a lock in loaders/memory_cache.go makes cache_discipline fail to compile. *)
From Coq Require Import List String Bool.
From GSP Require Import Conc.Sem Conc.Theory Generated.CacheSkeleton.
Import ListNotations.
Open Scope string_scope.

Lemma cache_discipline :
  discipline_ok generated_get = true /\ discipline_ok generated_set = true.
Proof. vm_compute. split; reflexivity. Qed.

(* every method of memoryCacheEngine (not only Get and Set) obeys the discipline, and
   embedDocs is written only by constructor options / the constructor *)
Lemma cache_all_methods :
  forallb discipline_ok (map snd generated_methods) = true /\ generated_embedDocs_immutable = true.
Proof. vm_compute. split; reflexivity. Qed.

Lemma cache_get_set_listed :
  In ("Get", generated_get) generated_methods /\ In ("Set", generated_set) generated_methods.
Proof. vm_compute. auto 10. Qed.

Lemma cache_pure :
  pkg_vars_ok generated_pkg_vars = true /\
  methods_readonly ["UnmarshalBinary"] generated_merklizer_methods = true /\
  methods_readonly [] generated_loader_methods = true /\
  shared_writes_ok generated_loader_shared_writes = true.
Proof. vm_compute. repeat split; reflexivity. Qed.

(* on every control path of every entry-point method of the regenerated skeleton: map writes only under
   the write lock, map reads under the read or the write lock, nothing held at the end *)
Lemma cache_writes_under_write_lock :
  forall name sk, In (name, sk) generated_methods -> forall tr, In tr (paths sk) ->
    (forall pre post, tr = (pre ++ EvWrite :: post)%list -> run_hold HN pre = Some HW) /\
    (forall pre post, tr = (pre ++ EvRead :: post)%list -> run_hold HN pre = Some HR \/ run_hold HN pre = Some HW) /\
    run_hold HN tr = Some HN.
Proof.
  intros name sk Hin. apply discipline_ok_meaning.
  pose proof (proj1 cache_all_methods) as H. rewrite forallb_forall in H. apply H.
  apply in_map_iff. exists (name, sk). auto.
Qed.

(* the generic theorem at the generated program *)
Lemma cache_sound :
  forall (V : Type) (v0 : V) (ths : list (list (@call V))), wf_threads (map snd generated_methods) ths ->
  forall sched h s, run sched v0 ths = Some (h, s) ->
    ~ race s /\ ~ faulty s /\ (all_done s \/ can_step s) /\ linearized v0 ths h s /\
    (all_done s -> forall t k c, get_call ths (t, k) = Some c -> existsb is_access (c_trace c) = true ->
                   In (t, k) (lin_order h)).
Proof.
  intros V v0 ths Hwf. apply (discipline_sound _ (proj1 cache_all_methods) V v0 ths Hwf).
Qed.

(* non-vacuity: both methods have a control path that touches the map *)
Example cache_paths_touch_map :
  existsb (existsb is_access) (paths generated_get) = true /\ existsb (existsb is_write) (paths generated_set) = true.
Proof. vm_compute. split; reflexivity. Qed.
