(* Conc/LoaderTheory.v — property C20: theorems about the loader state machine of
   Conc/LoaderModel.v, for every number of goroutines and every interleaving of their steps,
   of the origin's answers and of clock ticks:
     no_stale_after_expiry          a load that returns a version it did not fetch itself started
                                    before the expiry under which that version was stored
     failure_needs_origin_failure   a load fails only if the origin failed one of its own requests
     model_log_explained            hence the executable judgement log_explained accepts every log
                                    the model can write (it is the judgement applied to the logs
                                    recorded on the implementation)
   and the seeded variants Rearm (C20-j) and NoFallback (C20-h) are refuted by explicit runs. *)
From Coq Require Import List ZArith Bool Lia.
From GSP Require Import Conc.LoaderModel.
Import ListNotations.
Local Open Scope Z_scope.

Lemma set_nth_same : forall A (l : list A) i x y, nth_error l i = Some y -> nth_error (set_nth i x l) i = Some x.
Proof. induction l as [|a l IH]; intros i x y H; destruct i; simpl in *; try discriminate; eauto. Qed.

Lemma set_nth_other : forall A (l : list A) i j x, i <> j -> nth_error (set_nth i x l) j = nth_error l j.
Proof. induction l as [|a l IH]; intros i j x H; destruct i, j; simpl; auto; try congruence. Qed.

(* what a log must contain for a load record to be explained *)
Definition ownP (lg : list record) (ts te v : Z) : Prop :=
  exists fs fe, In (RServe v fs fe true) lg /\ ts <= fs /\ fe <= te.
Definition cachedP (lg : list record) (ts v : Z) : Prop :=
  exists x, In (RStore v x) lg /\ ts < x.
Definition failP (lg : list record) (ts te : Z) : Prop :=
  exists k fs fe, In (RServe k fs fe false) lg /\ ts <= fs /\ fe <= te.
Definition explainedP (lg : list record) (r : record) : Prop :=
  match r with
  | RLoad ts te (Some v) => ownP lg ts te v \/ cachedP lg ts v
  | RLoad ts te None => failP lg ts te
  | _ => True
  end.

Definition phase_ok (s : lstate) (p : phase) : Prop :=
  match p with
  | Idle => True
  | Started ts => ts <= clock s
  | Looked ts e => ts <= clock s /\ forall v x, e = Some (v, x) -> In (RStore v x) (log s)
  | Fetching ts fs => ts <= fs /\ fs <= clock s
  | Fetched ts k xo =>
      k < next s /\ (exists fs fe, In (RServe k fs fe true) (log s) /\ ts <= fs /\ fe <= clock s) /\
      (xo <> None -> forall x', ~ In (RStore k x') (log s))
  | Waiting _ => False
  end.

Record Inv (s : lstate) : Prop := mkInv {
  i_thr : forall g p, nth_error (thr s) g = Some p -> phase_ok s p;
  i_dist : forall g g' ts k xo ts' k' xo', g <> g' ->
             nth_error (thr s) g = Some (Fetched ts k xo) -> nth_error (thr s) g' = Some (Fetched ts' k' xo') -> k <> k';
  i_lt : forall v x, In (RStore v x) (log s) -> v < next s;
  i_uniq : forall v x x', In (RStore v x) (log s) -> In (RStore v x') (log s) -> x = x';
  i_cache : forall v x, cache s = Some (v, x) -> In (RStore v x) (log s);
  i_log : forall r, In r (log s) -> explainedP (log s) r
}.

Lemma explainedP_mono : forall lg r r', explainedP lg r -> explainedP (r' :: lg) r.
Proof.
  intros lg r r' H. destruct r as [ts te [v|]| |]; simpl in *; auto.
  - destruct H as [(fs & fe & H & ?)|(x & H & ?)]; [left; exists fs, fe|right; exists x]; simpl; auto.
  - destruct H as (k & fs & fe & H & ?). exists k, fs, fe. simpl; auto.
Qed.

Lemma inv_init : forall n, Inv (linit n).
Proof.
  intro n. constructor; simpl; try (intros; contradiction); try (intros; discriminate).
  - intros g p H. apply nth_error_In in H. apply repeat_spec in H. subst. exact I.
  - intros g g' ts k xo ts' k' xo' _ H. apply nth_error_In in H. apply repeat_spec in H. discriminate.
Qed.

(* phases of goroutines that do not move stay fine when the clock / the version counter grow and the
   log gets a record that is not a store of a version some goroutine still has to store *)
Lemma phase_ok_frame : forall s s' p r,
  phase_ok s p -> clock s <= clock s' -> next s <= next s' -> log s' = r :: log s \/ log s' = log s ->
  (forall ts k xo x', p = Fetched ts k xo -> xo <> None -> r <> RStore k x') ->
  phase_ok s' p.
Proof.
  intros s s' p r H Hc Hn Hl Hr.
  assert (Hin : forall q, In q (log s) -> In q (log s')) by (intros q Hq; destruct Hl as [-> | ->]; simpl; auto).
  destruct p as [|ts|ts e|ts fs|ts k xo|ts]; simpl in *; auto.
  - lia.
  - destruct H as [H1 H2]. split; [lia|]. intros v x E. apply Hin. auto.
  - lia.
  - destruct H as (H1 & (fs & fe & H2 & H3 & H4) & H5). split; [lia|]. split.
    + exists fs, fe. split; [auto|lia].
    + intros Hx x' Hi. destruct Hl as [Hl|Hl]; rewrite Hl in Hi.
      * destruct Hi as [Hi|Hi]; [exact (Hr ts k xo x' eq_refl Hx Hi)|exact (H5 Hx x' Hi)].
      * exact (H5 Hx x' Hi).
Qed.

Ltac inv_thr_other Hinv Hne :=
  rewrite set_nth_other in * by exact Hne.

Lemma inv_step : forall s a s', Inv s -> lstep Correct s a = Some s' -> Inv s'.
Proof.
  intros s a s' Hinv Hstep. destruct Hinv as [Hthr Hdist Hlt Huniq Hcache Hlog].
  destruct a as [|g|g|g|g xo|g|g|g|g]; simpl in Hstep.
  - (* tick *)
    inversion Hstep; subst; clear Hstep.
    constructor; simpl; [ | exact Hdist | exact Hlt | exact Huniq | exact Hcache | exact Hlog].
    intros g p H. eapply (phase_ok_frame s _ p (RLoad 0 0 None)); eauto; simpl; try lia.
    intros. discriminate.
  - (* start *)
    destruct (nth_error (thr s) g) as [[| | | | |]|] eqn:Eg; try discriminate.
    inversion Hstep; subst; clear Hstep.
    constructor; simpl; [ | | exact Hlt | exact Huniq | exact Hcache | exact Hlog].
    + intros g' p H. destruct (Nat.eq_dec g g') as [->|Hne].
      * rewrite (set_nth_same _ _ _ _ _ Eg) in H. inversion H; subst. simpl. lia.
      * rewrite set_nth_other in H by auto. apply Hthr in H.
        eapply (phase_ok_frame s _ p (RLoad 0 0 None)); eauto; simpl; try lia. intros; discriminate.
    + intros g1 g2 ts k xo ts' k' xo' Hne H1 H2.
      destruct (Nat.eq_dec g g1) as [->|N1]; [rewrite (set_nth_same _ _ _ _ _ Eg) in H1; discriminate|].
      destruct (Nat.eq_dec g g2) as [->|N2]; [rewrite (set_nth_same _ _ _ _ _ Eg) in H2; discriminate|].
      rewrite set_nth_other in H1, H2 by auto. eauto.
  - (* get *)
    destruct (nth_error (thr s) g) as [[|ts| | | |]|] eqn:Eg; try discriminate.
    inversion Hstep; subst; clear Hstep. pose proof (Hthr _ _ Eg) as Hg. simpl in Hg.
    constructor; simpl; [ | | exact Hlt | exact Huniq | exact Hcache | exact Hlog].
    + intros g' p H. destruct (Nat.eq_dec g g') as [->|Hne].
      * rewrite (set_nth_same _ _ _ _ _ Eg) in H. inversion H; subst. simpl. split; [lia|]. intros v x E. auto.
      * rewrite set_nth_other in H by auto. apply Hthr in H.
        eapply (phase_ok_frame s _ p (RLoad 0 0 None)); eauto; simpl; try lia. intros; discriminate.
    + intros g1 g2 ts1 k xo ts' k' xo' Hne H1 H2.
      destruct (Nat.eq_dec g g1) as [->|N1]; [rewrite (set_nth_same _ _ _ _ _ Eg) in H1; discriminate|].
      destruct (Nat.eq_dec g g2) as [->|N2]; [rewrite (set_nth_same _ _ _ _ _ Eg) in H2; discriminate|].
      rewrite set_nth_other in H1, H2 by auto. eauto.
  - (* check *)
    destruct (nth_error (thr s) g) as [[| |ts e| | |]|] eqn:Eg; try discriminate.
    pose proof (Hthr _ _ Eg) as Hg. simpl in Hg. destruct Hg as [Hts He].
    assert (Hdist' : forall p0, (forall a b c, p0 <> Fetched a b c) ->
              forall g1 g2 ts1 k xo ts' k' xo', g1 <> g2 ->
              nth_error (set_nth g p0 (thr s)) g1 = Some (Fetched ts1 k xo) ->
              nth_error (set_nth g p0 (thr s)) g2 = Some (Fetched ts' k' xo') -> k <> k').
    { intros p0 Hp0 g1 g2 ts1 k xo ts' k' xo' Hne H1 H2.
      destruct (Nat.eq_dec g g1) as [->|N1]; [rewrite (set_nth_same _ _ _ _ _ Eg) in H1; inversion H1; exfalso; eapply Hp0; eauto|].
      destruct (Nat.eq_dec g g2) as [->|N2]; [rewrite (set_nth_same _ _ _ _ _ Eg) in H2; inversion H2; exfalso; eapply Hp0; eauto|].
      rewrite set_nth_other in H1, H2 by auto. eauto. }
    destruct (match e with Some (v, x) => if clock s <? x then Some v else None | None => None end) as [v|] eqn:Ehit.
    + (* cache hit *)
      inversion Hstep; subst; clear Hstep.
      assert (Hv : exists x, e = Some (v, x) /\ clock s < x).
      { destruct e as [[v0 x0]|]; try discriminate. destruct (clock s <? x0) eqn:El; try discriminate.
        inversion Ehit; subst. apply Z.ltb_lt in El. eauto. }
      destruct Hv as (x & -> & Hx).
      constructor; simpl.
      * intros g' p H. destruct (Nat.eq_dec g g') as [->|Hne].
        -- rewrite (set_nth_same _ _ _ _ _ Eg) in H. inversion H; subst. exact I.
        -- rewrite set_nth_other in H by auto. apply Hthr in H.
           eapply (phase_ok_frame s _ p (RLoad ts (clock s) (Some v))); eauto; simpl; try lia. intros; discriminate.
      * apply Hdist'. intros; discriminate.
      * intros v0 x0 [H|H]; [discriminate|eauto].
      * intros v0 x0 x0' [H|H] [H'|H']; try discriminate; eauto.
      * intros v0 x0 E. right. auto.
      * intros r [<-|Hr].
        -- simpl. right. exists x. split; [right; apply He; reflexivity|lia].
        -- apply explainedP_mono. auto.
    + (* miss or expired: fetch *)
      assert (Hs' : s' = with_thr s g (Fetching ts (clock s))).
      { destruct e as [[v0 x0]|]; inversion Hstep; reflexivity. }
      subst s'. clear Hstep.
      constructor; simpl; [ | | exact Hlt | exact Huniq | exact Hcache | exact Hlog].
      * intros g' p H. destruct (Nat.eq_dec g g') as [->|Hne].
        -- rewrite (set_nth_same _ _ _ _ _ Eg) in H. inversion H; subst. simpl. lia.
        -- rewrite set_nth_other in H by auto. apply Hthr in H.
           eapply (phase_ok_frame s _ p (RLoad 0 0 None)); eauto; simpl; try lia. intros; discriminate.
      * apply Hdist'. intros; discriminate.
  - (* the origin answers with a new version *)
    destruct (nth_error (thr s) g) as [[| | |ts fs| |]|] eqn:Eg; try discriminate.
    inversion Hstep; subst; clear Hstep.
    pose proof (Hthr _ _ Eg) as Hg. simpl in Hg.
    constructor; simpl.
    + intros g' p H. destruct (Nat.eq_dec g g') as [->|Hne].
      * rewrite (set_nth_same _ _ _ _ _ Eg) in H. inversion H; subst. simpl. split; [lia|]. split.
        -- exists fs, (clock s). split; [left; reflexivity|lia].
        -- intros _ x' [Hi|Hi]; [discriminate|]. apply Hlt in Hi. lia.
      * rewrite set_nth_other in H by auto. apply Hthr in H.
        eapply (phase_ok_frame s _ p (RServe (next s) fs (clock s) true)); eauto; simpl; try lia. intros; discriminate.
    + intros g1 g2 ts1 k xo1 ts' k' xo' Hne H1 H2.
      destruct (Nat.eq_dec g g1) as [->|N1].
      * rewrite (set_nth_same _ _ _ _ _ Eg) in H1. inversion H1; subst.
        rewrite set_nth_other in H2 by auto. apply Hthr in H2. simpl in H2. lia.
      * rewrite set_nth_other in H1 by auto.
        destruct (Nat.eq_dec g g2) as [->|N2].
        -- rewrite (set_nth_same _ _ _ _ _ Eg) in H2. inversion H2; subst. apply Hthr in H1. simpl in H1. lia.
        -- rewrite set_nth_other in H2 by auto. eauto.
    + intros v x [H|H]; [discriminate|]. apply Hlt in H. lia.
    + intros v x x' [H|H] [H'|H']; try discriminate; eauto.
    + intros v x E. right. auto.
    + intros r [<-|Hr]; [exact I|apply explainedP_mono; auto].
  - (* the origin fails the request: the load fails *)
    destruct (nth_error (thr s) g) as [[| | |ts fs| |]|] eqn:Eg; try discriminate.
    inversion Hstep; subst; clear Hstep.
    pose proof (Hthr _ _ Eg) as Hg. simpl in Hg.
    constructor; simpl.
    + intros g' p H. destruct (Nat.eq_dec g g') as [->|Hne].
      * rewrite (set_nth_same _ _ _ _ _ Eg) in H. inversion H; subst. exact I.
      * rewrite set_nth_other in H by auto. apply Hthr in H.
        eapply (phase_ok_frame s (mkls (clock s) (cache s) (next s + 1) (thr s) (RServe (next s) fs (clock s) false :: log s)) p
                  (RServe (next s) fs (clock s) false)) in H; simpl; auto; try lia; [|intros; discriminate].
        eapply (phase_ok_frame _ _ p (RLoad ts (clock s) None)); eauto; simpl; try lia. intros; discriminate.
    + intros g1 g2 ts1 k xo1 ts' k' xo' Hne H1 H2.
      destruct (Nat.eq_dec g g1) as [->|N1]; [rewrite (set_nth_same _ _ _ _ _ Eg) in H1; discriminate|].
      destruct (Nat.eq_dec g g2) as [->|N2]; [rewrite (set_nth_same _ _ _ _ _ Eg) in H2; discriminate|].
      rewrite set_nth_other in H1, H2 by auto. eauto.
    + intros v x [H|[H|H]]; try discriminate. apply Hlt in H. lia.
    + intros v x x' [H|[H|H]] [H'|[H'|H']]; try discriminate; eauto.
    + intros v x E. right. right. auto.
    + intros r [<-|[<-|Hr]].
      * simpl. exists (next s), fs, (clock s). split; [right; left; reflexivity|lia].
      * exact I.
      * apply explainedP_mono. apply explainedP_mono. auto.
  - (* store *)
    destruct (nth_error (thr s) g) as [[| | | |ts k [x|]|]|] eqn:Eg; try discriminate.
    inversion Hstep; subst; clear Hstep.
    pose proof (Hthr _ _ Eg) as Hg. simpl in Hg. destruct Hg as (Hk & Hsrv & Hnew).
    assert (Hnew' : forall x', ~ In (RStore k x') (log s)) by (apply Hnew; discriminate).
    constructor; simpl.
    + intros g' p H. destruct (Nat.eq_dec g g') as [->|Hne].
      * rewrite (set_nth_same _ _ _ _ _ Eg) in H. inversion H; subst. simpl. split; [lia|]. split.
        -- destruct Hsrv as (fs & fe & H1 & H2). exists fs, fe. split; [right; auto|auto].
        -- intro C. congruence.
      * rewrite set_nth_other in H by auto. pose proof H as H0. apply Hthr in H.
        eapply (phase_ok_frame s _ p (RStore k x)); eauto; simpl; try lia.
        intros ts' k' xo' x' -> Hx E. inversion E; subst.
        eapply (Hdist g g'); eauto.
    + intros g1 g2 ts1 k1 xo1 ts' k' xo' Hne H1 H2.
      destruct (Nat.eq_dec g g1) as [->|N1].
      * rewrite (set_nth_same _ _ _ _ _ Eg) in H1. inversion H1; subst.
        rewrite set_nth_other in H2 by auto. eapply (Hdist g1 g2); eauto.
      * rewrite set_nth_other in H1 by auto.
        destruct (Nat.eq_dec g g2) as [->|N2].
        -- rewrite (set_nth_same _ _ _ _ _ Eg) in H2. inversion H2; subst. eapply (Hdist g1 g2); eauto.
        -- rewrite set_nth_other in H2 by auto. eauto.
    + intros v x0 [H|H]; [inversion H; subst; lia|eauto].
    + intros v x0 x0' [H|H] [H'|H'].
      * inversion H; inversion H'; subst. reflexivity.
      * inversion H; subst. exfalso. eapply Hnew'; eauto.
      * inversion H'; subst. exfalso. eapply Hnew'; eauto.
      * eauto.
    + intros v x0 E. inversion E; subst. left. reflexivity.
    + intros r [<-|Hr]; [exact I|apply explainedP_mono; auto].
  - (* return of a load that fetched *)
    destruct (nth_error (thr s) g) as [[| | | |ts k [x|]|]|] eqn:Eg; try discriminate.
    inversion Hstep; subst; clear Hstep.
    pose proof (Hthr _ _ Eg) as Hg. simpl in Hg. destruct Hg as (Hk & (fs & fe & Hsrv & H1 & H2) & _).
    constructor; simpl.
    + intros g' p H. destruct (Nat.eq_dec g g') as [->|Hne].
      * rewrite (set_nth_same _ _ _ _ _ Eg) in H. inversion H; subst. exact I.
      * rewrite set_nth_other in H by auto. apply Hthr in H.
        eapply (phase_ok_frame s _ p (RLoad ts (clock s) (Some k))); eauto; simpl; try lia. intros; discriminate.
    + intros g1 g2 ts1 k1 xo1 ts' k' xo' Hne H3 H4.
      destruct (Nat.eq_dec g g1) as [->|N1]; [rewrite (set_nth_same _ _ _ _ _ Eg) in H3; discriminate|].
      destruct (Nat.eq_dec g g2) as [->|N2]; [rewrite (set_nth_same _ _ _ _ _ Eg) in H4; discriminate|].
      rewrite set_nth_other in H3, H4 by auto. eauto.
    + intros v x [H|H]; [discriminate|eauto].
    + intros v x x' [H|H] [H'|H']; try discriminate; eauto.
    + intros v x E. right. auto.
    + intros r [<-|Hr].
      * simpl. left. exists fs, fe. split; [right; auto|lia].
      * apply explainedP_mono. auto.
  - (* wake: not a step of the code as it is *)
    discriminate.
Qed.

Lemma inv_run : forall acts s s', Inv s -> lrun Correct s acts = Some s' -> Inv s'.
Proof.
  induction acts as [|a acts IH]; intros s s' Hi Hr; simpl in Hr.
  - inversion Hr; subst. exact Hi.
  - destruct (lstep Correct s a) as [s1|] eqn:E; try discriminate. eapply IH; [eapply inv_step; eauto|exact Hr].
Qed.

(* ------------------------------------------------------------------------------------ *)
(* the theorems                                                                          *)
(* ------------------------------------------------------------------------------------ *)
Theorem no_stale_after_expiry : forall n acts s,
  lrun Correct (linit n) acts = Some s ->
  forall ts te v, In (RLoad ts te (Some v)) (log s) ->
    (exists fs fe, In (RServe v fs fe true) (log s) /\ ts <= fs /\ fe <= te) \/
    (exists x, In (RStore v x) (log s) /\ ts < x /\ forall x', In (RStore v x') (log s) -> x' = x).
Proof.
  intros n acts s Hr ts te v Hin.
  pose proof (inv_run _ _ _ (inv_init n) Hr) as [_ _ _ Huniq _ Hlog].
  destruct (Hlog _ Hin) as [H|(x & Hx & Hlt)]; [left; exact H|right].
  exists x. split; auto. split; auto. intros x' Hx'. eapply Huniq; eauto.
Qed.

Theorem failure_needs_origin_failure : forall n acts s,
  lrun Correct (linit n) acts = Some s ->
  forall ts te, In (RLoad ts te None) (log s) ->
    exists k fs fe, In (RServe k fs fe false) (log s) /\ ts <= fs /\ fe <= te.
Proof.
  intros n acts s Hr ts te Hin.
  pose proof (inv_run _ _ _ (inv_init n) Hr) as [_ _ _ _ _ Hlog]. exact (Hlog _ Hin).
Qed.

(* the executable judgement agrees *)
Lemma first_store_uniq : forall chron v x,
  In (RStore v x) chron -> (forall x', In (RStore v x') chron -> x' = x) -> first_store chron v = Some x.
Proof.
  induction chron as [|r chron IH]; intros v x Hin Hu; [contradiction|].
  destruct r as [a b c|a b c d|v' x']; simpl.
  - destruct Hin as [H|H]; [discriminate|]. apply IH; auto. intros; apply Hu; right; auto.
  - destruct Hin as [H|H]; [discriminate|]. apply IH; auto. intros; apply Hu; right; auto.
  - destruct (v' =? v) eqn:E.
    + apply Z.eqb_eq in E. subst. f_equal. apply Hu. left. reflexivity.
    + destruct Hin as [H|H]; [inversion H; subst; rewrite Z.eqb_refl in E; discriminate|].
      apply IH; auto. intros; apply Hu; right; auto.
Qed.

Theorem model_log_explained : forall n acts s,
  lrun Correct (linit n) acts = Some s -> log_explained (rev (log s)) = true.
Proof.
  intros n acts s Hr. unfold log_explained. apply forallb_forall. intros r Hin.
  assert (Hrev : forall q, In q (rev (log s)) <-> In q (log s)) by (intro q; symmetry; apply in_rev).
  apply Hrev in Hin.
  destruct r as [ts te [v|]| |]; simpl; auto.
  - destruct (no_stale_after_expiry _ _ _ Hr _ _ _ Hin) as [(fs & fe & H & H1 & H2)|(x & Hx & Hlt & Hu)].
    + apply orb_true_iff. left. unfold own_fetch. apply existsb_exists.
      exists (RServe v fs fe true). split; [apply Hrev; auto|].
      rewrite Z.eqb_refl. simpl. apply andb_true_iff. split; apply Z.leb_le; lia.
    + apply orb_true_iff. right. unfold cached_ok.
      rewrite (first_store_uniq _ v x); [apply Z.ltb_lt; lia|apply Hrev; auto|].
      intros x' H'. apply Hu. apply Hrev. auto.
  - destruct (failure_needs_origin_failure _ _ _ Hr _ _ Hin) as (k & fs & fe & H & H1 & H2).
    unfold own_failure. apply existsb_exists. exists (RServe k fs fe false). split; [apply Hrev; auto|].
    apply andb_true_iff. split; apply Z.leb_le; lia.
Qed.

(* ------------------------------------------------------------------------------------ *)
(* Examples: non-vacuity, and the seeded variants refuted                                *)
(* ------------------------------------------------------------------------------------ *)
(* two goroutines: 0 fetches version 1 (expiry 3) and stores it; 1 hits the cache; after the expiry
   goroutine 1 fetches version 2 itself *)
Definition ex_acts : list action :=
  [AStart 0; AGet 0; ACheck 0; ATick; AServeOk 0 (Some 3); AStore 0; ARet 0;
   AStart 1; AGet 1; ACheck 1;
   ATick; ATick; ATick; AStart 1; AGet 1; ACheck 1; ATick; AServeOk 1 None; ARet 1].

Example ex_correct_run :
  match lrun Correct (linit 2) ex_acts with
  | Some s => rev (log s) = [RServe 1 0 1 true; RStore 1 3; RLoad 0 1 (Some 1); RLoad 1 1 (Some 1);
                             RServe 2 4 5 true; RLoad 4 5 (Some 2)]
              /\ log_explained (rev (log s)) = true
  | None => False
  end.
Proof. vm_compute. auto. Qed.

(* C20-j: the expired entry is re-armed; goroutine 1, which starts after the expiry while goroutine 0
   refreshes, gets the stale version 1 *)
Definition ex_rearm_acts : list action :=
  [AStart 0; AGet 0; ACheck 0; AServeOk 0 (Some 2); AStore 0; ARet 0;
   ATick; ATick; ATick;
   AStart 0; AGet 0; ACheck 0;            (* expired: re-armed until 3+5, refresh in flight *)
   AStart 1; AGet 1; ACheck 1].            (* started at 3 > 2, returns version 1 *)

Example rearm_refuted :
  exists s, lrun (Rearm 5) (linit 2) ex_rearm_acts = Some s /\
    In (RLoad 3 3 (Some 1)) (log s) /\ log_explained (rev (log s)) = false /\
    (forall fs fe, ~ In (RServe 1 fs fe true) (log s) \/ ~ (3 <= fs)) /\ first_store (rev (log s)) 1 = Some 2.
Proof.
  eexists. split; [vm_compute; reflexivity|]. split; [vm_compute; auto 10|]. split; [vm_compute; reflexivity|].
  split; [|vm_compute; reflexivity].
  intros fs fe. destruct (Z_le_gt_dec 3 fs) as [H|H]; [left|right; lia].
  intro Hin. vm_compute in Hin. repeat (destruct Hin as [Hin|Hin]; [inversion Hin; subst; lia|]). exact Hin.
Qed.

(* C20-h: goroutine 1 waits for goroutine 0's fetch; the answer is not cacheable, so the cache is
   still empty and goroutine 1 fails although the origin failed nobody *)
Definition ex_nofallback_acts : list action :=
  [AStart 0; AGet 0; ACheck 0; AStart 1; AGet 1; ACheck 1; AServeOk 0 None; ARet 0; AWake 1].

Example nofallback_refuted :
  exists s, lrun NoFallback (linit 2) ex_nofallback_acts = Some s /\
    In (RLoad 0 0 None) (log s) /\ (forall k fs fe, ~ In (RServe k fs fe false) (log s)) /\
    log_explained (rev (log s)) = false.
Proof.
  eexists. split; [vm_compute; reflexivity|]. split; [vm_compute; auto 10|]. split; [|vm_compute; reflexivity].
  intros k fs fe Hin. vm_compute in Hin. repeat (destruct Hin as [Hin|Hin]; [discriminate|]). exact Hin.
Qed.
