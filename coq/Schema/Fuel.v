(* Schema/Fuel.v — when the $ref chains of a schema end within the fuel (a static
   check, `ref_bounded`), `validate` returns a definite verdict for EVERY instance,
   so it is a two-valued decision procedure for Valid. *)
From Coq Require Import ZArith QArith List String Ascii Bool NArith Lia.
From GSP Require Import Base.Prelude Schema.Json Schema.Regex Schema.Model Schema.Spec
  Schema.ThRegex Schema.ThJson Schema.Theory Schema.Decide.
Import ListNotations.
Open Scope list_scope.

Lemma and3_defined : forall a b, a <> None -> b <> None -> and3 a b <> None.
Proof. intros [[|]|] [[|]|]; simpl; congruence. Qed.
Lemma or3_defined : forall a b, a <> None -> b <> None -> or3 a b <> None.
Proof. intros [[|]|] [[|]|]; simpl; congruence. Qed.
Lemma not3_defined : forall a, a <> None -> not3 a <> None.
Proof. intros [[|]|]; simpl; congruence. Qed.

Lemma all3_defined : forall {A} (f : A -> option bool) l,
  (forall x, In x l -> f x <> None) -> all3 (map f l) <> None.
Proof.
  intros A f l. induction l as [| h t IH]; simpl; intros H; [discriminate |].
  fold (all3 (map f t)). apply and3_defined; [apply H; auto | apply IH; intros x Hin; apply H; auto].
Qed.
Lemma any3_defined : forall {A} (f : A -> option bool) l,
  (forall x, In x l -> f x <> None) -> any3 (map f l) <> None.
Proof.
  intros A f l. induction l as [| h t IH]; simpl; intros H; [discriminate |].
  fold (any3 (map f t)). apply or3_defined; [apply H; auto | apply IH; intros x Hin; apply H; auto].
Qed.
Lemma one3_defined : forall {A} (f : A -> option bool) l,
  (forall x, In x l -> f x <> None) -> one3 (map f l) <> None.
Proof.
  intros A f l. induction l as [| h t IH]; simpl; intros H; [discriminate |].
  destruct (f h) as [[|]|] eqn:Eh.
  - rewrite map_map. apply all3_defined. intros x Hin. apply not3_defined. apply H. auto.
  - apply IH. intros x Hin. apply H. auto.
  - exfalso. apply (H h); auto.
Qed.

Lemma items3_defined : forall (vs : schema -> json -> option bool) rest prefix xs,
  (forall p, In p prefix -> forall x, vs p x <> None) ->
  (forall r, rest = Some r -> forall x, vs r x <> None) ->
  items3 vs rest prefix xs <> None.
Proof.
  intros vs rest prefix. induction prefix as [| p ps IH]; intros xs Hp Hr; simpl.
  - destruct rest as [r |]; [| discriminate]. apply all3_defined. intros x _. apply (Hr r eq_refl).
  - destruct xs as [| x xs]; [discriminate |].
    apply and3_defined; [apply Hp; left; reflexivity |].
    apply IH; [intros q Hin; apply Hp; right; exact Hin | exact Hr].
Qed.

Lemma props3_defined : forall (vs : schema -> json -> option bool) ps addl o,
  (forall k s, In (k, s) ps -> forall x, vs s x <> None) ->
  (forall a, addl = Some a -> forall x, vs a x <> None) ->
  props3 vs ps addl o <> None.
Proof.
  intros vs ps addl o Hp Ha. unfold props3. apply and3_defined.
  - apply all3_defined. intros [k s] Hin. simpl. destruct (jassoc k o); [eapply Hp; eauto | discriminate].
  - destruct addl as [a |]; [| discriminate]. apply all3_defined. intros [k v] _. simpl.
    destruct (jmem k ps); [discriminate | apply (Ha a eq_refl)].
Qed.

Lemma body_defined : forall (refb : string -> bool) (ref : string -> json -> option bool),
  (forall t, refb t = true -> forall j, ref t j <> None) ->
  forall S, bounded_body refb S = true -> forall j, validate_body ref S j <> None.
Proof.
  intros refb ref Href.
  induction S as [S IH] using schema_subs_ind.
  intros Hb j.
  destruct S as [ | | ts | vals | v | q | q | q | q | q | n | n | n | n | p | ks | ps addl | prefix rest
                | l | l | l | s | t]; try (simpl; unfold b3; discriminate).
  - (* SProps *)
    change (bounded_body refb (SProps ps addl)) with
      (forallb (fun ks => bounded_body refb (snd ks)) ps &&
       match addl with Some a => bounded_body refb a | None => true end) in Hb.
    apply andb_true_iff in Hb. destruct Hb as [Hps Haddl].
    change (validate_body ref (SProps ps addl) j) with
      (match j with JObj o => props3 (validate_body ref) ps addl o | _ => Some true end).
    destruct j; try discriminate.
    apply props3_defined.
    + intros k s Hin x. apply (IH s).
      * simpl. apply in_or_app. left. apply in_map_iff. exists (k, s). auto.
      * apply (proj1 (forallb_forall _ _) Hps (k, s) Hin).
    + intros a Ha x. subst addl. apply (IH a); [simpl; apply in_or_app; right; simpl; auto | exact Haddl].
  - (* SItems *)
    change (bounded_body refb (SItems prefix rest)) with
      (forallb (bounded_body refb) prefix &&
       match rest with Some a => bounded_body refb a | None => true end) in Hb.
    apply andb_true_iff in Hb. destruct Hb as [Hps Hrest].
    change (validate_body ref (SItems prefix rest) j) with
      (match j with JArr xs => items3 (validate_body ref) rest prefix xs | _ => Some true end).
    destruct j; try discriminate.
    apply items3_defined.
    + intros p Hin x. apply (IH p); [simpl; apply in_or_app; left; exact Hin |].
      apply (proj1 (forallb_forall _ _) Hps p Hin).
    + intros r Hr x. subst rest. apply (IH r); [simpl; apply in_or_app; right; simpl; auto | exact Hrest].
  - (* SAllOf *)
    change (bounded_body refb (SAllOf l)) with (forallb (bounded_body refb) l) in Hb.
    change (validate_body ref (SAllOf l) j) with (all3 (map (fun s => validate_body ref s j) l)).
    apply all3_defined. intros s Hin. apply (IH s Hin). apply (proj1 (forallb_forall _ _) Hb s Hin).
  - change (bounded_body refb (SAnyOf l)) with (forallb (bounded_body refb) l) in Hb.
    change (validate_body ref (SAnyOf l) j) with (any3 (map (fun s => validate_body ref s j) l)).
    apply any3_defined. intros s Hin. apply (IH s Hin). apply (proj1 (forallb_forall _ _) Hb s Hin).
  - change (bounded_body refb (SOneOf l)) with (forallb (bounded_body refb) l) in Hb.
    change (validate_body ref (SOneOf l) j) with (one3 (map (fun s => validate_body ref s j) l)).
    apply one3_defined. intros s Hin. apply (IH s Hin). apply (proj1 (forallb_forall _ _) Hb s Hin).
  - change (bounded_body refb (SNot s)) with (bounded_body refb s) in Hb.
    change (validate_body ref (SNot s) j) with (not3 (validate_body ref s j)).
    apply not3_defined. apply (IH s); [simpl; auto | exact Hb].
  - exact (Href t Hb j).
Qed.

Lemma ref_bounded_unfold : forall E n S,
  ref_bounded E n S =
  bounded_body (fun t =>
    match n with
    | O => false
    | Datatypes.S n' => match jassoc t E with Some S' => ref_bounded E n' S' | None => false end
    end) S.
Proof. intros E n S. destruct n; reflexivity. Qed.

Theorem bounded_defined : forall E n S,
  ref_bounded E n S = true -> forall j, validate E n S j <> None.
Proof.
  intros E n. induction n as [| n IH]; intros S Hb j; rewrite validate_unfold; rewrite ref_bounded_unfold in Hb.
  - eapply body_defined; [| exact Hb]. intros t Ht. discriminate.
  - eapply body_defined; [| exact Hb]. intros t Ht j'. simpl in Ht.
    destruct (jassoc t E) as [S' |]; [apply IH; exact Ht | discriminate].
Qed.

(* the two-valued decision: for schemas whose $ref chains end within the fuel *)
Theorem bounded_decides : forall E fuel S j,
  ref_bounded E fuel S = true ->
  (validate E fuel S j = Some true <-> Valid E S j) /\
  (validate E fuel S j = Some false <-> ~ Valid E S j).
Proof.
  intros E fuel S j Hb.
  destruct (validate E fuel S j) as [b |] eqn:Ev; [| exfalso; eapply bounded_defined; eauto].
  pose proof (validate_decides E fuel S j b Ev) as D.
  destruct b; split; split; intros H; try reflexivity; try discriminate.
  - apply D. reflexivity.
  - exfalso. apply H. apply D. reflexivity.
  - apply D in H. discriminate.
  - intros Hv. apply D in Hv. discriminate.
Qed.

(* and then "not conforming" is the positive judgement Invalid *)
Theorem bounded_invalid_iff_not_valid : forall E fuel S j,
  ref_bounded E fuel S = true -> (Invalid E S j <-> ~ Valid E S j).
Proof.
  intros E fuel S j Hb. split.
  - intros Hi Hv. eapply valid_invalid_exclusive; eauto.
  - intros Hn. destruct (validate E fuel S j) as [b |] eqn:Ev; [| exfalso; eapply bounded_defined; eauto].
    destruct b.
    + exfalso. apply Hn. apply (validate_decides E fuel S j true Ev). reflexivity.
    + apply (validate_refutes E fuel S j false Ev). reflexivity.
Qed.
