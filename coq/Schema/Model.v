(* Schema/Model.v — executable reference validator for JSON Schema (structural
   vocabulary, draft-07 and 2020-12), the compiler from schema documents to
   the schema algebra, and the model of /repo/json/validator.go (ValidateData)
   and of the processor facade.  NO proofs here (Schema/Theory.v). *)
From Coq Require Import ZArith QArith List String Ascii Bool NArith.
From GSP Require Import Base.Prelude Schema.Json Schema.JsonText Schema.Regex.
Import ListNotations.
Open Scope list_scope.
Open Scope string_scope.

(* ------------------------------------------------------------------ *)
(* 1. schema algebra: every keyword is a schema; a schema object is the
      conjunction (SAllOf) of its keywords.  Keywords that interact with
      siblings are bundled: properties+additionalProperties, and
      prefixItems+items (2020-12) / items[]+additionalItems (draft-07). *)

Inductive jtype := TNull | TBoolean | TObject | TArray | TNumber | TString | TInteger.

Inductive schema :=
| STrue
| SFalse
| SType (ts : list jtype)
| SEnum (vs : list json)
| SConst (v : json)
| SMin (q : Q)
| SMax (q : Q)
| SXMin (q : Q)
| SXMax (q : Q)
| SMultipleOf (q : Q)
| SMinLen (n : N)
| SMaxLen (n : N)
| SMinItems (n : N)
| SMaxItems (n : N)
| SPattern (p : pat)
| SRequired (ks : list string)
| SProps (ps : list (string * schema)) (addl : option schema)
| SItems (prefix : list schema) (rest : option schema)
| SAllOf (l : list schema)
| SAnyOf (l : list schema)
| SOneOf (l : list schema)
| SNot (s : schema)
| SRef (target : string).

(* environment of $ref targets: "#" and "#/definitions/x" / "#/$defs/x" *)
Definition env := list (string * schema).

(* ------------------------------------------------------------------ *)
(* 2. three-valued verdicts: None = the fuel for $ref ran out (or a $ref does
      not resolve); Kleene connectives, so a definite verdict never depends on
      an undefined one *)

Definition and3 (a b : option bool) : option bool :=
  match a, b with
  | Some false, _ => Some false
  | _, Some false => Some false
  | Some true, Some true => Some true
  | _, _ => None
  end.
Definition or3 (a b : option bool) : option bool :=
  match a, b with
  | Some true, _ => Some true
  | _, Some true => Some true
  | Some false, Some false => Some false
  | _, _ => None
  end.
Definition not3 (a : option bool) : option bool :=
  match a with Some b => Some (negb b) | None => None end.
Definition all3 (l : list (option bool)) : option bool := fold_right and3 (Some true) l.
Definition any3 (l : list (option bool)) : option bool := fold_right or3 (Some false) l.
(* exactly one true; "at least two true" is a definite false whatever else is undefined *)
Fixpoint one3 (l : list (option bool)) : option bool :=
  match l with
  | [] => Some false
  | Some true :: t => all3 (map not3 t)
  | Some false :: t => one3 t
  | None :: t =>
      match one3 t, any3 t with
      | Some false, Some true => Some false
      | _, _ => None
      end
  end.

Definition b3 (b : bool) : option bool := Some b.

(* ------------------------------------------------------------------ *)
(* 3. per-keyword checks on one instance *)

Definition has_typeb (j : json) (t : jtype) : bool :=
  match t, j with
  | TNull, JNull => true
  | TBoolean, JBool _ => true
  | TObject, JObj _ => true
  | TArray, JArr _ => true
  | TNumber, JNum _ => true
  | TString, JStr _ => true
  | TInteger, JNum q => q_is_int q
  | _, _ => false
  end.

Definition num_check (f : Q -> bool) (j : json) : bool :=
  match j with JNum x => f x | _ => true end.
Definition str_check (f : string -> bool) (j : json) : bool :=
  match j with JStr s => f s | _ => true end.
Definition arr_check (f : list json -> bool) (j : json) : bool :=
  match j with JArr l => f l | _ => true end.
Definition obj_check (f : list (string * json) -> bool) (j : json) : bool :=
  match j with JObj o => f o | _ => true end.

Definition len_N {A} (l : list A) : N := N.of_nat (List.length l).

(* ------------------------------------------------------------------ *)
(* 4. the validator: recursion on the schema; outer recursion on fuel for $ref *)

(* properties + additionalProperties on the members o of an object *)
Definition props3 (vs : schema -> json -> option bool) (ps : list (string * schema)) (addl : option schema)
           (o : list (string * json)) : option bool :=
  and3
    (all3 (map (fun ks => match jassoc (fst ks) o with
                          | Some v => vs (snd ks) v
                          | None => Some true
                          end) ps))
    (match addl with
     | None => Some true
     | Some a => all3 (map (fun kv => if jmem (fst kv) ps then Some true else vs a (snd kv)) o)
     end).

(* prefix schemas position by position, then `rest` for the remaining elements *)
Definition items3 (vs : schema -> json -> option bool) (rest : option schema) : list schema -> list json -> option bool :=
  fix go (ps : list schema) (xs : list json) {struct ps} : option bool :=
    match ps with
    | [] =>
        match rest with
        | None => Some true
        | Some r => all3 (map (vs r) xs)
        end
    | p :: ps' =>
        match xs with
        | [] => Some true
        | x :: xs' => and3 (vs p x) (go ps' xs')
        end
    end.

(* one pass over the schema; `ref t j` is the verdict of the target of "$ref": t on j *)
Definition validate_body (ref : string -> json -> option bool) : schema -> json -> option bool :=
  fix vs (S : schema) : json -> option bool :=
    fun j =>
    match S with
    | STrue => Some true
    | SFalse => Some false
    | SType ts => b3 (existsb (has_typeb j) ts)
    | SEnum vals => b3 (existsb (json_eqb j) vals)
    | SConst v => b3 (json_eqb j v)
    | SMin q => b3 (num_check (fun x => Qle_bool q x) j)
    | SMax q => b3 (num_check (fun x => Qle_bool x q) j)
    | SXMin q => b3 (num_check (fun x => Qlt_bool q x) j)
    | SXMax q => b3 (num_check (fun x => Qlt_bool x q) j)
    | SMultipleOf q => b3 (num_check (fun x => q_multiple_of x q) j)
    | SMinLen n => b3 (str_check (fun s => N.leb n (cp_length s)) j)
    | SMaxLen n => b3 (str_check (fun s => N.leb (cp_length s) n) j)
    | SMinItems n => b3 (arr_check (fun l => N.leb n (len_N l)) j)
    | SMaxItems n => b3 (arr_check (fun l => N.leb (len_N l) n) j)
    | SPattern p => b3 (str_check (fun s => pat_matchb p (code_points s)) j)
    | SRequired ks => b3 (obj_check (fun o => forallb (fun k => jmem k o) ks) j)
    | SProps ps addl =>
        match j with
        | JObj o => props3 vs ps addl o
        | _ => Some true
        end
    | SItems prefix rest =>
        match j with
        | JArr xs => items3 vs rest prefix xs
        | _ => Some true
        end
    | SAllOf l => all3 (map (fun s => vs s j) l)
    | SAnyOf l => any3 (map (fun s => vs s j) l)
    | SOneOf l => one3 (map (fun s => vs s j) l)
    | SNot s => not3 (vs s j)
    | SRef t => ref t j
    end.

(* following a $ref costs one unit of fuel; None = out of fuel or unresolved *)
Fixpoint validate (E : env) (fuel : nat) {struct fuel} : schema -> json -> option bool :=
  validate_body (fun t j =>
    match fuel with
    | O => None
    | Datatypes.S f =>
        match jassoc t E with
        | Some S' => validate E f S' j
        | None => None
        end
    end).

(* "the $ref chains of S end within n steps": a static, instance-independent check.
   Schemas that recurse through the instance (a list node referring to itself
   under "properties") are not bounded in this sense; for them the fuel needed
   depends on the depth of the instance. *)
Definition bounded_body (ref : string -> bool) : schema -> bool :=
  fix bs (S : schema) : bool :=
    match S with
    | SProps ps addl =>
        forallb (fun ks => bs (snd ks)) ps && match addl with Some a => bs a | None => true end
    | SItems p r => forallb bs p && match r with Some a => bs a | None => true end
    | SAllOf l | SAnyOf l | SOneOf l => forallb bs l
    | SNot s => bs s
    | SRef t => ref t
    | _ => true
    end.

Fixpoint ref_bounded (E : env) (n : nat) {struct n} : schema -> bool :=
  bounded_body (fun t =>
    match n with
    | O => false
    | Datatypes.S n' =>
        match jassoc t E with
        | Some S' => ref_bounded E n' S'
        | None => false
        end
    end).

(* ------------------------------------------------------------------ *)
(* 5. compiling a schema document (a JSON value) under a draft.
      Errors mirror the meta-schema of the draft for the modelled keywords. *)

Inductive draft := D7 | D2020.

Fixpoint seq_res {A} (l : list (res A)) : res (list A) :=
  match l with
  | [] => Ok []
  | r :: t =>
      match r with
      | Ok a => match seq_res t with Ok t' => Ok (a :: t') | Err e => Err e | Panic w => Panic w | Diverge => Diverge end
      | Err e => Err e
      | Panic w => Panic w
      | Diverge => Diverge
      end
  end.

(* compiled members before sibling-dependent keywords are bundled *)
Inductive ckw :=
| CSimple (s : schema)
| CProps (ps : list (string * schema))
| CAddProps (s : schema)
| CItemsS (s : schema)
| CItemsA (l : list schema)
| CAddItems (s : schema)
| CPrefix (l : list schema)
| CRef (t : string)
| CDefs (container : string) (ds : list (string * schema)).

Definition E_schema {A} : res A := Err "schema-compile".
Definition E_unsupported {A} : res A := Err "unsupported".

Definition type_of_name (s : string) : option jtype :=
  if String.eqb s "null" then Some TNull
  else if String.eqb s "boolean" then Some TBoolean
  else if String.eqb s "object" then Some TObject
  else if String.eqb s "array" then Some TArray
  else if String.eqb s "number" then Some TNumber
  else if String.eqb s "string" then Some TString
  else if String.eqb s "integer" then Some TInteger
  else None.

Fixpoint str_nodup (l : list string) : bool :=
  match l with
  | [] => true
  | h :: t => negb (existsb (String.eqb h) t) && str_nodup t
  end.
Definition jtype_eqb (a b : jtype) : bool :=
  match a, b with
  | TNull, TNull | TBoolean, TBoolean | TObject, TObject | TArray, TArray
  | TNumber, TNumber | TString, TString | TInteger, TInteger => true
  | _, _ => false
  end.
Fixpoint jtype_nodup (l : list jtype) : bool :=
  match l with
  | [] => true
  | h :: t => negb (existsb (jtype_eqb h) t) && jtype_nodup t
  end.

Fixpoint json_nodup (l : list json) : bool :=
  match l with
  | [] => true
  | h :: t => negb (existsb (json_eqb h) t) && json_nodup t
  end.

Fixpoint opt_all {A} (l : list (option A)) : option (list A) :=
  match l with
  | [] => Some []
  | Some a :: t => match opt_all t with Some t' => Some (a :: t') | None => None end
  | None :: _ => None
  end.

Definition as_string (j : json) : option string := match j with JStr s => Some s | _ => None end.

(* "type": a type name, or a non-empty array of distinct type names *)
Definition compile_type (v : json) : res schema :=
  match v with
  | JStr s => match type_of_name s with Some t => Ok (SType [t]) | None => E_schema end
  | JArr l =>
      match opt_all (map as_string l) with
      | Some names =>
          match opt_all (map type_of_name names) with
          | Some ts => if negb (Nat.eqb (List.length ts) 0) && jtype_nodup ts then Ok (SType ts) else E_schema
          | None => E_schema
          end
      | None => E_schema
      end
  | _ => E_schema
  end.

(* nonNegativeInteger (an integer-valued number >= 0; 2.0 is fine) *)
Definition as_count (v : json) : option N :=
  match v with
  | JNum q => if q_is_int q && Qle_bool 0 q then Some (Z.to_N (Qnum q / Zpos (Qden q))) else None
  | _ => None
  end.
Definition compile_count (mk : N -> schema) (v : json) : res (list ckw) :=
  match as_count v with Some n => Ok [CSimple (mk n)] | None => E_schema end.
Definition compile_num (mk : Q -> schema) (v : json) : res (list ckw) :=
  match v with JNum q => Ok [CSimple (mk q)] | _ => E_schema end.

(* "$ref": only same-document pointers to the root or to a root-level definition *)
Definition ref_prefix_defs : string := "#/definitions/".
Definition ref_prefix_defs2020 : string := "#/$defs/".
Fixpoint str_prefix (p s : string) : option string :=   (* Some rest when p is a prefix of s *)
  match p, s with
  | EmptyString, _ => Some s
  | String a p', String b s' => if Ascii.eqb a b then str_prefix p' s' else None
  | String _ _, EmptyString => None
  end.
Definition plain_name_char (c : ascii) : bool :=
  let n := nat_of_ascii c in
  (Nat.leb 48 n && Nat.leb n 57) || (Nat.leb 65 n && Nat.leb n 90) || (Nat.leb 97 n && Nat.leb n 122)
  || Nat.eqb n 95 || Nat.eqb n 45.
Definition plain_name (s : string) : bool :=
  negb (String.eqb s "") && forallb plain_name_char (str_to_list s).
(* the last path segment of a URL: "https://h/a/person.json" -> "person.json" *)
Fixpoint last_segment_aux (l : list ascii) (cur : list ascii) : list ascii :=
  match l with
  | [] => rev cur
  | c :: t => if Ascii.eqb c "/"%char then last_segment_aux t [] else last_segment_aux t (c :: cur)
  end.
Definition last_segment (s : string) : string := str_of_list (last_segment_aux (str_to_list s) []).

(* a reference to the document itself through its own "$id" (absolute, or relative to
   the "$id": its last path segment) is a local reference: strip that prefix *)
Definition localize_ref (rid : option string) (t : string) : string :=
  match rid with
  | None => t
  | Some id =>
      match str_prefix id t with
      | Some r => if String.eqb r "" then "#" else r
      | None =>
          let seg := last_segment id in
          if String.eqb seg "" then t
          else match str_prefix seg t with
               | Some r => if String.eqb r "" then "#" else r
               | None => t
               end
      end
  end.

Definition compile_ref (d : draft) (rid : option string) (v : json) : res (list ckw) :=
  match v with
  | JStr t0 =>
      let t := localize_ref rid t0 in
      if String.eqb t "#" then Ok [CRef "#"]
      else match str_prefix ref_prefix_defs t with
           | Some name => if plain_name name then Ok [CRef t] else E_unsupported
           | None =>
               match str_prefix ref_prefix_defs2020 t with
               | Some name =>
                   match d with
                   | D2020 => if plain_name name then Ok [CRef t] else E_unsupported
                   | D7 => E_unsupported     (* resolved by raw JSON pointer, contents unchecked: not modelled *)
                   end
               | None => E_unsupported
               end
           end
  | _ => E_schema
  end.

(* "$id" is accepted at the ROOT only (it names the document; every modelled $ref is
   document-local, so it has no influence), and only in a plain absolute form *)
Definition url_char (c : ascii) : bool :=
  let n := nat_of_ascii c in
  (Nat.leb 48 n && Nat.leb n 57) || (Nat.leb 65 n && Nat.leb n 90) || (Nat.leb 97 n && Nat.leb n 122)
  || Nat.eqb n 95 || Nat.eqb n 45 || Nat.eqb n 46 || Nat.eqb n 47 || Nat.eqb n 58.
Definition plain_url (s : string) : bool :=
  match str_prefix "https://" s with
  | Some r => negb (String.eqb r "") && forallb url_char (str_to_list r)
  | None =>
      match str_prefix "http://" s with
      | Some r => negb (String.eqb r "") && forallb url_char (str_to_list r)
      | None => false
      end
  end.

(* keywords of the drafts that are outside the modelled vocabulary: a schema
   using them is reported as "unsupported" rather than silently mis-validated *)
Definition unmodelled_keywords : list string :=
  ["$anchor"; "$dynamicRef"; "$dynamicAnchor"; "$recursiveRef"; "$recursiveAnchor";
   "$vocabulary"; "if"; "then"; "else"; "contains"; "minContains"; "maxContains";
   "patternProperties"; "propertyNames"; "dependencies"; "dependentSchemas"; "dependentRequired";
   "uniqueItems"; "minProperties"; "maxProperties"; "format"; "contentEncoding";
   "contentMediaType"; "contentSchema"; "unevaluatedItems"; "unevaluatedProperties";
   "default"; "examples"; "readOnly"; "writeOnly"; "deprecated"].

Definition modelled_keywords : list string :=
  ["$schema"; "$id"; "$ref"; "$comment"; "title"; "description"; "definitions"; "$defs"; "type"; "enum"; "const";
   "minimum"; "maximum"; "exclusiveMinimum"; "exclusiveMaximum"; "multipleOf";
   "minLength"; "maxLength"; "minItems"; "maxItems"; "pattern"; "required";
   "properties"; "additionalProperties"; "items"; "additionalItems"; "prefixItems";
   "allOf"; "anyOf"; "oneOf"; "not"].

Definition str_in (k : string) (l : list string) : bool := existsb (String.eqb k) l.

(* a member name no draft gives a meaning to, e.g. "$metadata" *)
Definition unknown_member (k : string) : bool :=
  negb (str_in k modelled_keywords) && negb (str_in k unmodelled_keywords).

Definition map_snd_res {A} (l : list (string * res A)) : res (list (string * A)) :=
  seq_res (map (fun kr => match snd kr with
                          | Ok a => Ok (fst kr, a)
                          | Err e => Err e | Panic w => Panic w | Diverge => Diverge
                          end) l).

(* bundle sibling-dependent keywords *)
Fixpoint find_ck {A} (f : ckw -> option A) (l : list ckw) : option A :=
  match l with
  | [] => None
  | c :: t => match f c with Some a => Some a | None => find_ck f t end
  end.
Definition get_props c := match c with CProps ps => Some ps | _ => None end.
Definition get_addprops c := match c with CAddProps s => Some s | _ => None end.
Definition get_items_s c := match c with CItemsS s => Some s | _ => None end.
Definition get_items_a c := match c with CItemsA l => Some l | _ => None end.
Definition get_additems c := match c with CAddItems s => Some s | _ => None end.
Definition get_prefix c := match c with CPrefix l => Some l | _ => None end.
Definition get_ref c := match c with CRef t => Some t | _ => None end.
Definition get_simple c := match c with CSimple s => Some [s] | _ => None end.

Definition simples (l : list ckw) : list schema :=
  flat_map (fun c => match c with CSimple s => [s] | _ => [] end) l.

Definition props_bundle (l : list ckw) : list schema :=
  match find_ck get_props l, find_ck get_addprops l with
  | None, None => []
  | Some ps, a => [SProps ps a]
  | None, Some a => [SProps [] (Some a)]
  end.

Definition items_bundle (d : draft) (l : list ckw) : list schema :=
  match d with
  | D2020 =>
      match find_ck get_prefix l, find_ck get_items_s l with
      | None, None => []
      | Some p, r => [SItems p r]
      | None, Some r => [SItems [] (Some r)]
      end
  | D7 =>
      match find_ck get_items_a l with
      | Some p => [SItems p (find_ck get_additems l)]
      | None =>
          match find_ck get_items_s l with
          | Some r => [SItems [] (Some r)]      (* additionalItems is ignored beside a schema-valued items *)
          | None => []                           (* additionalItems alone is ignored *)
          end
      end
  end.

Definition assemble (d : draft) (l : list ckw) : schema :=
  match find_ck get_ref l with
  | Some t =>
      match d with
      | D7 => SRef t                                    (* draft-07: siblings of $ref are ignored *)
      | D2020 => SAllOf (SRef t :: simples l ++ props_bundle l ++ items_bundle d l)
      end
  | None => SAllOf (simples l ++ props_bundle l ++ items_bundle d l)
  end.

Definition defs_of (l : list ckw) : env :=
  flat_map (fun c => match c with
                     | CDefs container ds => map (fun ns => (("#/" ++ container ++ "/" ++ fst ns)%string, snd ns)) ds
                     | _ => []
                     end) l.

Definition lift_schema (r : res schema) (f : schema -> ckw) : res (list ckw) :=
  match r with Ok s => Ok [f s] | Err e => Err e | Panic w => Panic w | Diverge => Diverge end.
Definition lift_list (r : res (list schema)) (f : list schema -> ckw) : res (list ckw) :=
  match r with Ok s => Ok [f s] | Err e => Err e | Panic w => Panic w | Diverge => Diverge end.

Definition res_map {A B} (f : A -> B) (r : res A) : res B :=
  match r with Ok a => Ok (f a) | Err e => Err e | Panic w => Panic w | Diverge => Diverge end.

(* one member (k, v) of a schema object; `rec` compiles a subschema *)
Definition compile_member (rec : json -> res schema) (d : draft) (rid : option string) (root : bool) (k : string) (v : json) : res (list ckw) :=
  let sub := rec in
  let sub_list (v : json) (nonempty : bool) : res (list schema) :=
    match v with
    | JArr l => if nonempty && Nat.eqb (List.length l) 0 then E_schema else seq_res (map rec l)
    | _ => E_schema
    end in
  let sub_map (v : json) : res (list (string * schema)) :=
    match v with
    | JObj o => seq_res (map (fun kv => res_map (fun s => (fst kv, s)) (rec (snd kv))) o)
    | _ => E_schema
    end in
          if String.eqb k "$ref" then compile_ref d rid v
  else if String.eqb k "$schema" then (match v with JStr _ => Ok [] | _ => E_schema end)
  else if String.eqb k "$id" then
    (match v with
     | JStr u => if root && plain_url u then Ok [] else E_unsupported
     | _ => E_schema
     end)
  else if String.eqb k "$comment" || String.eqb k "title" || String.eqb k "description" then
    (match v with JStr _ => Ok [] | _ => E_schema end)
  else if String.eqb k "definitions" then
    (match sub_map v with Ok ds => Ok [CDefs "definitions" ds] | Err e => Err e | Panic w => Panic w | Diverge => Diverge end)
  else if String.eqb k "$defs" then
    (match d with
     | D2020 => match sub_map v with Ok ds => Ok [CDefs "$defs" ds] | Err e => Err e | Panic w => Panic w | Diverge => Diverge end
     | D7 => Ok []
     end)
  else if String.eqb k "type" then lift_schema (compile_type v) CSimple
  else if String.eqb k "enum" then
    (match v with
     | JArr vals =>
         match d with
         | D7 => if Nat.eqb (List.length vals) 0 || negb (json_nodup vals) then E_schema
                 else Ok [CSimple (SEnum vals)]
         | D2020 => Ok [CSimple (SEnum vals)]
         end
     | _ => E_schema
     end)
  else if String.eqb k "const" then Ok [CSimple (SConst v)]
  else if String.eqb k "minimum" then compile_num SMin v
  else if String.eqb k "maximum" then compile_num SMax v
  else if String.eqb k "exclusiveMinimum" then compile_num SXMin v
  else if String.eqb k "exclusiveMaximum" then compile_num SXMax v
  else if String.eqb k "multipleOf" then
    (match v with JNum q => if Qlt_bool 0 q then Ok [CSimple (SMultipleOf q)] else E_schema | _ => E_schema end)
  else if String.eqb k "minLength" then compile_count SMinLen v
  else if String.eqb k "maxLength" then compile_count SMaxLen v
  else if String.eqb k "minItems" then compile_count SMinItems v
  else if String.eqb k "maxItems" then compile_count SMaxItems v
  else if String.eqb k "pattern" then
    (match v with
     | JStr p => match parse_pattern p with Some q => Ok [CSimple (SPattern q)] | None => E_unsupported end
     | _ => E_schema
     end)
  else if String.eqb k "required" then
    (match v with
     | JArr l => match opt_all (map as_string l) with
                 | Some ks => if str_nodup ks then Ok [CSimple (SRequired ks)] else E_schema
                 | None => E_schema
                 end
     | _ => E_schema
     end)
  else if String.eqb k "properties" then
    (match sub_map v with Ok ps => Ok [CProps ps] | Err e => Err e | Panic w => Panic w | Diverge => Diverge end)
  else if String.eqb k "additionalProperties" then lift_schema (sub v) CAddProps
  else if String.eqb k "items" then
    (match v with
     | JArr _ =>
         match d with
         | D7 => lift_list (sub_list v false) CItemsA
         | D2020 => E_schema
         end
     | _ => lift_schema (sub v) CItemsS
     end)
  else if String.eqb k "additionalItems" then
    (match d with D7 => lift_schema (sub v) CAddItems | D2020 => Ok [] end)
  else if String.eqb k "prefixItems" then
    (match d with D2020 => lift_list (sub_list v true) CPrefix | D7 => Ok [] end)
  else if String.eqb k "allOf" then lift_list (sub_list v true) (fun l => CSimple (SAllOf l))
  else if String.eqb k "anyOf" then lift_list (sub_list v true) (fun l => CSimple (SAnyOf l))
  else if String.eqb k "oneOf" then lift_list (sub_list v true) (fun l => CSimple (SOneOf l))
  else if String.eqb k "not" then lift_schema (sub v) (fun s => CSimple (SNot s))
  else if str_in k unmodelled_keywords then E_unsupported
  else Ok []                                   (* unknown member: ignored, its value is not inspected *)
.

(* compile one schema document node; returns the schema and the compiled members
   (the root needs them for its definitions) *)
Fixpoint compile_node (d : draft) (rid : option string) (root : bool) (j : json) {struct j} : res (schema * list ckw) :=
  match j with
  | JBool true => Ok (STrue, [])
  | JBool false => Ok (SFalse, [])
  | JObj o =>
      match seq_res (map (fun kv => compile_member (fun x => res_map fst (compile_node d rid false x)) d rid root (fst kv) (snd kv)) o) with
      | Ok cks => let l := List.concat cks in Ok (assemble d l, l)
      | Err e => Err e
      | Panic w => Panic w
      | Diverge => Diverge
      end
  | _ => E_schema
  end.

(* every $ref of a schema resolves in E *)
Fixpoint refs_resolve (E : env) (S : schema) {struct S} : bool :=
  match S with
  | SRef t => jmem t E
  | SProps ps addl =>
      forallb (fun ks => refs_resolve E (snd ks)) ps &&
      match addl with Some a => refs_resolve E a | None => true end
  | SItems prefix rest =>
      forallb (refs_resolve E) prefix &&
      match rest with Some r => refs_resolve E r | None => true end
  | SAllOf l | SAnyOf l | SOneOf l => forallb (refs_resolve E) l
  | SNot s => refs_resolve E s
  | _ => true
  end.

(* "$schema" detection (compiler default: the latest draft, 2020-12) *)
Definition strip_hash (s : string) : string :=
  match rev (str_to_list s) with
  | c :: r => if Ascii.eqb c "#"%char then str_of_list (rev r) else s
  | [] => s
  end.
Definition strip_scheme (s : string) : string :=
  match str_prefix "http://" s with
  | Some r => r
  | None => match str_prefix "https://" s with Some r => r | None => s end
  end.
Definition draft_of_url (u : string) : option draft :=
  let n := strip_scheme (strip_hash u) in
  if String.eqb n "json-schema.org/draft-07/schema" then Some D7
  else if String.eqb n "json-schema.org/draft/2020-12/schema" then Some D2020
  else if String.eqb n "json-schema.org/schema" then Some D2020        (* "latest" *)
  else None.

Definition detect_draft (root : json) : res draft :=
  match root with
  | JObj o =>
      match jassoc "$schema" o with
      | None => Ok D2020
      | Some (JStr u) => match draft_of_url u with Some d => Ok d | None => Err "schema-draft" end
      | Some _ => Err "schema-draft"
      end
  | _ => Ok D2020
  end.

(* the document's own "$id", when it is in the plain absolute form *)
Definition root_id (root : json) : option string :=
  match root with
  | JObj o => match jassoc "$id" o with
              | Some (JStr u) => if plain_url u then Some u else None
              | _ => None
              end
  | _ => None
  end.

Record compiled := { c_draft : draft; c_root : schema; c_env : env }.

(* The library compiles lazily: only the root and the definitions reachable from it
   through $ref.  Among those, every $ref must resolve, and there must be no cycle
   made of $ref and the in-place applicators allOf/anyOf/oneOf/not (such a cycle
   would re-apply a schema to the same instance forever: "infinite loop" error). *)
Fixpoint all_refs (S : schema) {struct S} : list string :=
  match S with
  | SRef t => [t]
  | SProps ps addl =>
      flat_map (fun ks => all_refs (snd ks)) ps ++ match addl with Some a => all_refs a | None => [] end
  | SItems p r => flat_map all_refs p ++ match r with Some a => all_refs a | None => [] end
  | SAllOf l | SAnyOf l | SOneOf l => flat_map all_refs l
  | SNot s => all_refs s
  | _ => []
  end.

Fixpoint inplace_refs (S : schema) {struct S} : list string :=
  match S with
  | SRef t => [t]
  | SAllOf l | SAnyOf l | SOneOf l => flat_map inplace_refs l
  | SNot s => inplace_refs s
  | _ => []
  end.

Definition add_new (acc ts : list string) : list string :=
  fold_left (fun a t => if str_in t a then a else (a ++ [t])%list) ts acc.

Fixpoint reach (E : env) (n : nat) (acc : list string) : list string :=
  match n with
  | O => acc
  | Datatypes.S n' =>
      reach E n' (add_new acc (flat_map (fun t => match jassoc t E with Some sc => all_refs sc | None => [] end) acc))
  end.

Fixpoint no_cycle (E : env) (n : nat) (stack : list string) (t : string) {struct n} : bool :=
  match n with
  | O => false
  | Datatypes.S n' =>
      if str_in t stack then false
      else match jassoc t E with
           | Some sc => forallb (no_cycle E n' (t :: stack)) (inplace_refs sc)
           | None => true
           end
  end.

(* self-check: R contains every $ref of the root and of every target in R, and all of them resolve *)
Definition refs_closed (E : env) (R : list string) (root : schema) : bool :=
  forallb (fun r => str_in r R) (all_refs root) &&
  forallb (fun t => match jassoc t E with
                    | Some s => forallb (fun r => str_in r R) (all_refs s)
                    | None => false
                    end) R.

Definition compile_root (root : json) : res compiled :=
  match detect_draft root with
  | Ok d =>
      match compile_node d (root_id root) true root with
      | Ok (sc, cks) =>
          let E := ("#", sc) :: defs_of cks in
          let R := reach E (List.length E) ["#"] in
          if negb (forallb (fun t => match jassoc t E with Some s => refs_resolve E s | None => false end) R)
          then Err "schema-ref"
          else if negb (forallb (no_cycle E (Datatypes.S (List.length E)) []) R)
          then Err "schema-loop"
          else if negb (refs_closed E R sc)
          then Err "model-internal"      (* self-check of `reach`; never observed *)
          else Ok {| c_draft := d; c_root := sc; c_env := E |}
      | Err e => Err e | Panic w => Panic w | Diverge => Diverge
      end
  | Err e => Err e | Panic w => Panic w | Diverge => Diverge
  end.

(* ------------------------------------------------------------------ *)
(* 6. /repo/json/validator.go: Validator.ValidateData(data, schema []byte).
      Byte-level JSON syntax is not modelled: `None` stands for text that is not
      one well-formed JSON document.  Order of the checks as in the source:
        json.Valid(schema); AddResource (decode schema); Unmarshal(data) into a
        map; nil-map check (JSON null); Compile; Validate. *)

Definition default_fuel : nat := 64.

(* nesting depth of an instance *)
Fixpoint jdepth (j : json) {struct j} : nat :=
  match j with
  | JArr l => Datatypes.S (fold_right (fun x acc => Nat.max (jdepth x) acc) O l)
  | JObj o => Datatypes.S (fold_right (fun kv acc => Nat.max (jdepth (snd kv)) acc) O o)
  | _ => O
  end.

(* fuel given to a run: between two descents into the instance at most one $ref per
   target can be followed (compile_root rejects in-place cycles), so
   (depth + 1) * (targets + 2) is enough: `schema-loop` below is unreachable after
   a successful compile_root (proved in Schema/Adequate.v) *)
Definition fuel_for (c : compiled) (j : json) : nat :=
  (jdepth j + 1) * (List.length (c_env c) + 2).

Definition validate_data_with (fuel_of : compiled -> json -> nat) (data schema : option json) : res unit :=
  match schema with
  | None => Err "schema-json"
  | Some sj =>
      match data with
      | None => Err "data-json"
      | Some (JObj o) =>
          match compile_root sj with
          | Ok c =>
              match validate (c_env c) (fuel_of c (JObj o)) (c_root c) (JObj o) with
              | Some true => Ok tt
              | Some false => Err "invalid"
              | None => Err "schema-loop"
              end
          | Err e => Err e | Panic w => Panic w | Diverge => Diverge
          end
      | Some JNull => Err "data-null"
      | Some _ => Err "data-type"
      end
  end.
Definition validate_data_fuel (fuel : nat) := validate_data_with (fun _ _ => fuel).
Definition validate_data := validate_data_with fuel_for.

(* A process makes many calls.  The wrapper keeps no state between calls (every call
   builds a fresh compiler), so the model of a history of calls is the list of the
   results of the individual calls. *)
Fixpoint run_history (calls : list (option json * option json)) : list (res unit) :=
  match calls with
  | [] => []
  | (data, schema) :: rest => validate_data data schema :: run_history rest
  end.

(* /repo/processor/processor.go: Processor.ValidateData delegates to the
   configured validator, or fails when none is configured *)
Definition processor_validate_data (has_validator : bool) (data schema : option json) : res unit :=
  if has_validator then validate_data data schema else Err "validator-not-defined".

(* ------------------------------------------------------------------ *)
(* 7. the wrapper on TEXT: both inputs pass the JSON well-formedness gate
      (json.Valid(schema); json.Unmarshal(data)) modelled by Schema/JsonText.v *)
Definition validate_text (data schema : string) : res unit :=
  validate_data (parse_json data) (parse_json schema).

(* the Processor facade over OPTIONAL components, for any representation of the inputs:
   the configured validator's verdict on the SAME data and schema, or the
   not-defined error *)
Definition processor_validate {D S : Type} (validator : option (D -> S -> res unit)) (data : D) (schema : S) : res unit :=
  match validator with
  | Some v => v data schema
  | None => Err "validator-not-defined"
  end.

Definition processor_validate_text (has_validator : bool) (data schema : string) : res unit :=
  processor_validate (if has_validator then Some validate_text else None) data schema.

(* seeded variants of the facade (refuted in Schema/TextGlue.v):
   re-encoding the schema before the call; answering Ok without a validator *)
Definition processor_reencoding {D S : Type} (reenc : S -> S) (validator : option (D -> S -> res unit)) (data : D) (schema : S) : res unit :=
  match validator with
  | Some v => v data (reenc schema)
  | None => Err "validator-not-defined"
  end.
Definition processor_lenient {D S : Type} (validator : option (D -> S -> res unit)) (data : D) (schema : S) : res unit :=
  match validator with
  | Some v => v data schema
  | None => Ok tt
  end.
