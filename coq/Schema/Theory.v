(* Schema/Theory.v — the executable validator decides the declarative semantics:
   a definite verdict of `validate` (Some true / Some false) is exactly
   Valid / Invalid, and the two judgements exclude each other. *)
From Coq Require Import ZArith QArith List String Ascii Bool NArith Lia.
From GSP Require Import Base.Prelude Schema.Json Schema.Regex Schema.Model Schema.Spec
  Schema.ThRegex Schema.ThJson.
Import ListNotations.
Open Scope list_scope.

(* ------------------------------------------------------------------ *)
(* three-valued connectives *)

Lemma and3_true : forall a b, and3 a b = Some true <-> a = Some true /\ b = Some true.
Proof. intros [[|]|] [[|]|]; simpl; split; intros H; try discriminate; try (destruct H; discriminate); auto. Qed.
Lemma and3_false : forall a b, and3 a b = Some false <-> a = Some false \/ b = Some false.
Proof. intros [[|]|] [[|]|]; simpl; split; intros H; try discriminate; auto; destruct H; discriminate. Qed.
Lemma or3_true : forall a b, or3 a b = Some true <-> a = Some true \/ b = Some true.
Proof. intros [[|]|] [[|]|]; simpl; split; intros H; try discriminate; auto; destruct H; discriminate. Qed.
Lemma or3_false : forall a b, or3 a b = Some false <-> a = Some false /\ b = Some false.
Proof. intros [[|]|] [[|]|]; simpl; split; intros H; try discriminate; try (destruct H; discriminate); auto. Qed.
Lemma not3_true : forall a, not3 a = Some true <-> a = Some false.
Proof. intros [[|]|]; simpl; split; intros H; try discriminate; auto. Qed.
Lemma not3_false : forall a, not3 a = Some false <-> a = Some true.
Proof. intros [[|]|]; simpl; split; intros H; try discriminate; auto. Qed.

Lemma all3_true : forall {A} (f : A -> option bool) l,
  all3 (map f l) = Some true <-> forall x, In x l -> f x = Some true.
Proof.
  intros A f l. induction l as [| h t IH]; simpl.
  - split; [intros _ x [] | reflexivity].
  - fold (all3 (map f t)). rewrite and3_true, IH. split.
    + intros [Hh Ht] x [<- | Hin]; auto.
    + intros H. split; [apply H; auto | intros x Hin; apply H; auto].
Qed.
Lemma all3_false : forall {A} (f : A -> option bool) l,
  all3 (map f l) = Some false <-> exists x, In x l /\ f x = Some false.
Proof.
  intros A f l. induction l as [| h t IH]; simpl.
  - split; [discriminate | intros [x [[] _]]].
  - fold (all3 (map f t)). rewrite and3_false, IH. split.
    + intros [Hh | [x [Hin Hx]]]; eauto.
    + intros [x [[<- | Hin] Hx]]; eauto.
Qed.
Lemma any3_true : forall {A} (f : A -> option bool) l,
  any3 (map f l) = Some true <-> exists x, In x l /\ f x = Some true.
Proof.
  intros A f l. induction l as [| h t IH]; simpl.
  - split; [discriminate | intros [x [[] _]]].
  - fold (any3 (map f t)). rewrite or3_true, IH. split.
    + intros [Hh | [x [Hin Hx]]]; eauto.
    + intros [x [[<- | Hin] Hx]]; eauto.
Qed.
Lemma any3_false : forall {A} (f : A -> option bool) l,
  any3 (map f l) = Some false <-> forall x, In x l -> f x = Some false.
Proof.
  intros A f l. induction l as [| h t IH]; simpl.
  - split; [intros _ x [] | reflexivity].
  - fold (any3 (map f t)). rewrite or3_false, IH. split.
    + intros [Hh Ht] x [<- | Hin]; auto.
    + intros H. split; [apply H; auto | intros x Hin; apply H; auto].
Qed.

(* exactly one: the index-based reading used by the specification *)
Lemma one3_true : forall {A} (f : A -> option bool) l,
  one3 (map f l) = Some true ->
  exists i x, nth_error l i = Some x /\ f x = Some true /\
              forall k y, nth_error l k = Some y -> k <> i -> f y = Some false.
Proof.
  intros A f l. induction l as [| h t IH]; simpl; [discriminate |].
  destruct (f h) as [[|]|] eqn:Eh.
  - intros H. exists 0%nat, h. split; [reflexivity | split; [exact Eh |]].
    intros k y Hk Hne. destruct k as [| k]; [congruence |]. simpl in Hk.
    rewrite map_map in H.
    assert (Hall : forall x, In x t -> not3 (f x) = Some true) by (apply all3_true; exact H).
    apply not3_true. apply Hall. eapply nth_error_In; eauto.
  - intros H. destruct (IH H) as (i & x & Hi & Hx & Hothers).
    exists (S i), x. split; [exact Hi | split; [exact Hx |]].
    intros k y Hk Hne. destruct k as [| k]; simpl in Hk.
    + inversion Hk; subst. exact Eh.
    + apply (Hothers k); [exact Hk | lia].
  - intros H. destruct (one3 (map f t)) as [[|]|]; try discriminate.
    destruct (any3 (map f t)) as [[|]|]; discriminate.
Qed.

Lemma one3_false : forall {A} (f : A -> option bool) l,
  one3 (map f l) = Some false ->
  (forall x, In x l -> f x = Some false) \/
  (exists i k x y, i <> k /\ nth_error l i = Some x /\ nth_error l k = Some y /\
                   f x = Some true /\ f y = Some true).
Proof.
  intros A f l. induction l as [| h t IH]; simpl.
  - intros _. left. intros x [].
  - destruct (f h) as [[|]|] eqn:Eh.
    + intros H. right. rewrite map_map in H.
      apply all3_false in H. destruct H as (y & Hin & Hy). apply not3_false in Hy.
      apply In_nth_error in Hin. destruct Hin as [k Hk].
      exists 0%nat, (S k), h, y. repeat split; auto.
    + intros H. destruct (IH H) as [Hall | (i & k & x & y & Hne & Hi & Hk & Hx & Hy)].
      * left. intros x [<- | Hin]; auto.
      * right. exists (S i), (S k), x, y. repeat split; auto.
    + intros H. destruct (one3 (map f t)) as [[|]|] eqn:Eo; try discriminate.
      destruct (any3 (map f t)) as [[|]|] eqn:Ea; try discriminate.
      destruct (IH eq_refl) as [Hall | (i & k & x & y & Hne & Hi & Hk & Hx & Hy)].
      * exfalso. apply any3_true in Ea. destruct Ea as (x & Hin & Hx).
        rewrite (Hall x Hin) in Hx. discriminate.
      * right. exists (S i), (S k), x, y. repeat split; auto.
Qed.

(* ------------------------------------------------------------------ *)
(* unfolding equations *)

Lemma validate_unfold : forall E f S j,
  validate E f S j =
  validate_body (fun t j =>
    match f with
    | O => None
    | Datatypes.S f' => match jassoc t E with Some S' => validate E f' S' j | None => None end
    end) S j.
Proof. intros E f S j. destruct f; reflexivity. Qed.

(* ------------------------------------------------------------------ *)
(* induction on schemas through their direct subschemas *)

Definition opt_list {A} (o : option A) : list A := match o with Some a => [a] | None => [] end.

Definition subs (S : schema) : list schema :=
  match S with
  | SProps ps addl => map snd ps ++ opt_list addl
  | SItems p r => p ++ opt_list r
  | SAllOf l | SAnyOf l | SOneOf l => l
  | SNot s => [s]
  | _ => []
  end.

Fixpoint ssize (S : schema) : nat :=
  match S with
  | SProps ps addl =>
      Datatypes.S (list_sum (map (fun ks => ssize (snd ks)) ps) + match addl with Some a => ssize a | None => 0 end)
  | SItems p r =>
      Datatypes.S (list_sum (map ssize p) + match r with Some a => ssize a | None => 0 end)
  | SAllOf l | SAnyOf l | SOneOf l => Datatypes.S (list_sum (map ssize l))
  | SNot s => Datatypes.S (ssize s)
  | _ => 1
  end.

Lemma subs_smaller : forall S c, In c (subs S) -> (ssize c < ssize S)%nat.
Proof.
  intros S c. destruct S; simpl; try contradiction.
  - intros H. apply in_app_or in H. destruct H as [H | H].
    + apply in_map_iff in H. destruct H as ([k s] & <- & Hin).
      pose proof (list_sum_in (fun ks => ssize (snd ks)) ps (k, s) Hin) as Hle. simpl in *. lia.
    + destruct addl; simpl in H; [destruct H as [<- | []]; lia | contradiction].
  - intros H. apply in_app_or in H. destruct H as [H | H].
    + pose proof (list_sum_in ssize prefix c H). lia.
    + destruct rest; simpl in H; [destruct H as [<- | []]; lia | contradiction].
  - intros H. pose proof (list_sum_in ssize l c H). lia.
  - intros H. pose proof (list_sum_in ssize l c H). lia.
  - intros H. pose proof (list_sum_in ssize l c H). lia.
  - intros [<- | []]. lia.
Qed.

Lemma schema_subs_ind : forall P : schema -> Prop,
  (forall S, (forall c, In c (subs S) -> P c) -> P S) -> forall S, P S.
Proof.
  intros P H.
  assert (Hn : forall n S, (ssize S <= n)%nat -> P S).
  { induction n as [| n IH]; intros S Hsz.
    - destruct S; simpl in Hsz; lia.
    - apply H. intros c Hin. apply IH. pose proof (subs_smaller S c Hin). lia. }
  intros S. apply (Hn (ssize S)). lia.
Qed.

(* ------------------------------------------------------------------ *)
(* leaf keywords *)

Lemma has_typeb_spec : forall j t, has_typeb j t = true <-> HasType t j.
Proof.
  intros j t. destruct t; destruct j; simpl; split; intros H;
    try discriminate; try constructor; try (inversion H; fail).
  - apply q_is_int_spec. exact H.
  - inversion H; subst. apply q_is_int_spec. assumption.
Qed.

Lemma existsb_false_forall : forall {A} (f : A -> bool) l,
  existsb f l = false <-> forall x, In x l -> f x = false.
Proof.
  intros A f l. induction l as [| h t IH]; simpl.
  - split; [intros _ x [] | reflexivity].
  - rewrite orb_false_iff, IH. split.
    + intros [Hh Ht] x [<- | Hin]; auto.
    + intros H. split; [apply H; auto | intros x Hin; apply H; auto].
Qed.

Lemma forallb_false_exists : forall {A} (f : A -> bool) l,
  forallb f l = false -> exists x, In x l /\ f x = false.
Proof.
  intros A f l. induction l as [| h t IH]; simpl; [discriminate |].
  intros H. apply andb_false_iff in H. destruct H as [H | H]; [eauto |].
  destruct (IH H) as (x & Hin & Hx). eauto.
Qed.

(* ------------------------------------------------------------------ *)
(* items3 / props3 *)

Lemma items3_true : forall (vs : schema -> json -> option bool) rest prefix xs,
  items3 vs rest prefix xs = Some true ->
  (forall i p x, nth_error prefix i = Some p -> nth_error xs i = Some x -> vs p x = Some true) /\
  (forall r i x, rest = Some r -> nth_error xs i = Some x -> (List.length prefix <= i)%nat -> vs r x = Some true).
Proof.
  intros vs rest prefix. induction prefix as [| p ps IH]; intros xs H; simpl in H.
  - split; [intros i p x Hp; destruct i; discriminate |].
    intros r i x Hr Hx _. subst rest.
    assert (Hall : forall y, In y xs -> vs r y = Some true) by (apply all3_true; exact H).
    apply Hall. eapply nth_error_In; eauto.
  - destruct xs as [| x xs].
    + split; intros; destruct i; discriminate.
    + apply and3_true in H. destruct H as [Hpx Hrest]. destruct (IH xs Hrest) as [IH1 IH2].
      split.
      * intros i p' x' Hp Hx. destruct i as [| i]; simpl in *.
        -- inversion Hp; inversion Hx; subst. exact Hpx.
        -- eapply IH1; eauto.
      * intros r i x' Hr Hx Hlen. destruct i as [| i]; simpl in *; [lia |].
        eapply IH2; eauto. lia.
Qed.

Lemma items3_false : forall (vs : schema -> json -> option bool) rest prefix xs,
  items3 vs rest prefix xs = Some false ->
  (exists i p x, nth_error prefix i = Some p /\ nth_error xs i = Some x /\ vs p x = Some false) \/
  (exists r i x, rest = Some r /\ nth_error xs i = Some x /\ (List.length prefix <= i)%nat /\ vs r x = Some false).
Proof.
  intros vs rest prefix. induction prefix as [| p ps IH]; intros xs H; simpl in H.
  - destruct rest as [r |]; [| discriminate].
    apply all3_false in H. destruct H as (x & Hin & Hx).
    apply In_nth_error in Hin. destruct Hin as [i Hi].
    right. exists r, i, x. repeat split; auto. simpl. lia.
  - destruct xs as [| x xs]; [discriminate |].
    apply and3_false in H. destruct H as [H | H].
    + left. exists 0%nat, p, x. auto.
    + destruct (IH xs H) as [(i & p' & x' & Hp & Hx & Hv) | (r & i & x' & Hr & Hx & Hlen & Hv)].
      * left. exists (S i), p', x'. auto.
      * right. exists r, (S i), x'. repeat split; auto. simpl. lia.
Qed.

Lemma props3_true : forall (vs : schema -> json -> option bool) ps addl o,
  props3 vs ps addl o = Some true ->
  (forall k s v, In (k, s) ps -> jassoc k o = Some v -> vs s v = Some true) /\
  (forall a k v, addl = Some a -> In (k, v) o -> jmem k ps = false -> vs a v = Some true).
Proof.
  intros vs ps addl o H. unfold props3 in H. apply and3_true in H. destruct H as [H1 H2]. split.
  - intros k s v Hin Hv.
    assert (Hall := proj1 (all3_true _ ps) H1 (k, s) Hin). simpl in Hall. rewrite Hv in Hall. exact Hall.
  - intros a k v Ha Hin Hm. subst addl.
    assert (Hall := proj1 (all3_true _ o) H2 (k, v) Hin). simpl in Hall. rewrite Hm in Hall. exact Hall.
Qed.

Lemma props3_false : forall (vs : schema -> json -> option bool) ps addl o,
  props3 vs ps addl o = Some false ->
  (exists k s v, In (k, s) ps /\ jassoc k o = Some v /\ vs s v = Some false) \/
  (exists a k v, addl = Some a /\ In (k, v) o /\ jmem k ps = false /\ vs a v = Some false).
Proof.
  intros vs ps addl o H. unfold props3 in H. apply and3_false in H. destruct H as [H | H].
  - apply all3_false in H. destruct H as ([k s] & Hin & Hx). simpl in Hx.
    destruct (jassoc k o) as [v |] eqn:Ev; [| discriminate]. left. exists k, s, v. auto.
  - destruct addl as [a |]; [| discriminate].
    apply all3_false in H. destruct H as ([k v] & Hin & Hx). simpl in Hx.
    destruct (jmem k ps) eqn:Em; [discriminate |]. right. exists a, k, v. auto.
Qed.

(* ------------------------------------------------------------------ *)
(* soundness of definite verdicts *)

Definition sound_ref (E : env) (ref : string -> json -> option bool) : Prop :=
  forall t j, (ref t j = Some true -> Valid E (SRef t) j) /\ (ref t j = Some false -> Invalid E (SRef t) j).

Definition sound_at (E : env) (ref : string -> json -> option bool) (S : schema) : Prop :=
  forall j, (validate_body ref S j = Some true -> Valid E S j) /\
            (validate_body ref S j = Some false -> Invalid E S j).

Lemma b3_true : forall b, b3 b = Some true <-> b = true.
Proof. intros []; unfold b3; split; congruence. Qed.
Lemma b3_false : forall b, b3 b = Some false <-> b = false.
Proof. intros []; unfold b3; split; congruence. Qed.

Lemma validate_body_sound : forall E ref, sound_ref E ref -> forall S, sound_at E ref S.
Proof.
  intros E ref Href.
  induction S as [S IH] using schema_subs_ind.
  intros j.
  destruct S as [ | | ts | vals | v | q | q | q | q | q | n | n | n | n | p | ks | ps addl | prefix rest
                | l | l | l | s | t].
  - (* STrue *) split; [intros _; constructor | discriminate].
  - split; [discriminate | intros _; constructor].
  - (* SType *) change (validate_body ref (SType ts) j) with (b3 (existsb (has_typeb j) ts)).
    rewrite b3_true, b3_false. split.
    + intros H. apply existsb_exists in H. destruct H as (t & Hin & Ht).
      apply has_typeb_spec in Ht. econstructor; eauto.
    + intros H. constructor. intros t Hin Ht. apply has_typeb_spec in Ht.
      rewrite (proj1 (existsb_false_forall _ _) H t Hin) in Ht. discriminate.
  - (* SEnum *) change (validate_body ref (SEnum vals) j) with (b3 (existsb (json_eqb j) vals)).
    rewrite b3_true, b3_false. split.
    + intros H. apply existsb_exists in H. destruct H as (v & Hin & Hv).
      apply json_eqb_spec in Hv. econstructor; eauto.
    + intros H. constructor. intros v Hin Hv. apply json_eqb_spec in Hv.
      rewrite (proj1 (existsb_false_forall _ _) H v Hin) in Hv. discriminate.
  - (* SConst *) change (validate_body ref (SConst v) j) with (b3 (json_eqb j v)).
    rewrite b3_true, b3_false, json_eqb_spec, json_eqb_false_iff.
    split; intros H; constructor; exact H.
  - (* SMin *) change (validate_body ref (SMin q) j) with (b3 (num_check (fun x => Qle_bool q x) j)).
    rewrite b3_true, b3_false. destruct j; simpl; split; intros H; try discriminate;
      try (constructor; intros x Hx; discriminate).
    + constructor. intros x Hx. inversion Hx; subst. apply Qle_bool_iff. exact H.
    + constructor. apply Qle_bool_false_iff. exact H.
  - (* SMax *) change (validate_body ref (SMax q) j) with (b3 (num_check (fun x => Qle_bool x q) j)).
    rewrite b3_true, b3_false. destruct j; simpl; split; intros H; try discriminate;
      try (constructor; intros x Hx; discriminate).
    + constructor. intros x Hx. inversion Hx; subst. apply Qle_bool_iff. exact H.
    + constructor. apply Qle_bool_false_iff. exact H.
  - (* SXMin *) change (validate_body ref (SXMin q) j) with (b3 (num_check (fun x => Qlt_bool q x) j)).
    rewrite b3_true, b3_false. destruct j; simpl; split; intros H; try discriminate;
      try (constructor; intros x Hx; discriminate).
    + constructor. intros x Hx. inversion Hx; subst. apply Qlt_bool_iff. exact H.
    + constructor. intros Hlt. apply Qlt_bool_iff in Hlt. congruence.
  - (* SXMax *) change (validate_body ref (SXMax q) j) with (b3 (num_check (fun x => Qlt_bool x q) j)).
    rewrite b3_true, b3_false. destruct j; simpl; split; intros H; try discriminate;
      try (constructor; intros x Hx; discriminate).
    + constructor. intros x Hx. inversion Hx; subst. apply Qlt_bool_iff. exact H.
    + constructor. intros Hlt. apply Qlt_bool_iff in Hlt. congruence.
  - (* SMultipleOf *) change (validate_body ref (SMultipleOf q) j) with (b3 (num_check (fun x => q_multiple_of x q) j)).
    rewrite b3_true, b3_false. destruct j; simpl; split; intros H; try discriminate;
      try (constructor; intros x Hx; discriminate).
    + constructor. intros x Hx. inversion Hx; subst. apply q_multiple_of_spec. exact H.
    + constructor. intros Hm. apply q_multiple_of_spec in Hm. congruence.
  - (* SMinLen *) change (validate_body ref (SMinLen n) j) with (b3 (str_check (fun s => N.leb n (cp_length s)) j)).
    rewrite b3_true, b3_false. destruct j; simpl; split; intros H; try discriminate;
      try (constructor; intros x Hx; discriminate).
    + constructor. intros x Hx. inversion Hx; subst. apply N.leb_le. exact H.
    + constructor. apply N.leb_nle. exact H.
  - (* SMaxLen *) change (validate_body ref (SMaxLen n) j) with (b3 (str_check (fun s => N.leb (cp_length s) n) j)).
    rewrite b3_true, b3_false. destruct j; simpl; split; intros H; try discriminate;
      try (constructor; intros x Hx; discriminate).
    + constructor. intros x Hx. inversion Hx; subst. apply N.leb_le. exact H.
    + constructor. apply N.leb_nle. exact H.
  - (* SMinItems *) change (validate_body ref (SMinItems n) j) with (b3 (arr_check (fun l => N.leb n (len_N l)) j)).
    rewrite b3_true, b3_false. destruct j; simpl; split; intros H; try discriminate;
      try (constructor; intros x Hx; discriminate).
    + constructor. intros x Hx. inversion Hx; subst. apply N.leb_le. exact H.
    + constructor. apply N.leb_nle. exact H.
  - (* SMaxItems *) change (validate_body ref (SMaxItems n) j) with (b3 (arr_check (fun l => N.leb (len_N l) n) j)).
    rewrite b3_true, b3_false. destruct j; simpl; split; intros H; try discriminate;
      try (constructor; intros x Hx; discriminate).
    + constructor. intros x Hx. inversion Hx; subst. apply N.leb_le. exact H.
    + constructor. apply N.leb_nle. exact H.
  - (* SPattern *) change (validate_body ref (SPattern p) j) with (b3 (str_check (fun s => pat_matchb p (code_points s)) j)).
    rewrite b3_true, b3_false. destruct j; simpl; split; intros H; try discriminate;
      try (constructor; intros x Hx; discriminate).
    + constructor. intros x Hx. inversion Hx; subst. apply pat_matchb_spec. exact H.
    + constructor. intros Hm. apply pat_matchb_spec in Hm. congruence.
  - (* SRequired *) change (validate_body ref (SRequired ks) j) with (b3 (obj_check (fun o => forallb (fun k => jmem k o) ks) j)).
    rewrite b3_true, b3_false. destruct j as [| | | | | o]; simpl; split; intros H; try discriminate;
      try (constructor; intros o' k Hx; discriminate).
    + constructor. intros o' k Hx Hin. inversion Hx; subst o'.
      apply jmem_true_iff. apply (proj1 (forallb_forall _ _) H). exact Hin.
    + apply forallb_false_exists in H. destruct H as (k & Hin & Hk).
      apply jmem_false_iff in Hk. econstructor; eauto.
  - (* SProps *)
    change (validate_body ref (SProps ps addl) j) with
      (match j with JObj o => props3 (validate_body ref) ps addl o | _ => Some true end). destruct j as [| | | | | o];
      try (split; [intros _; constructor; intros; discriminate | discriminate]).
    split.
    + intros H. apply props3_true in H. destruct H as [H1 H2]. constructor.
      * intros o' k s v Ho Hin Hv. inversion Ho; subst o'.
        apply (IH s); [simpl; apply in_or_app; left; apply in_map_iff; exists (k, s); auto |].
        eapply H1; eauto.
      * intros o' a k v Ho Ha Hin Hm. inversion Ho; subst o'.
        apply (IH a); [simpl; apply in_or_app; right; subst addl; simpl; auto |].
        eapply H2; eauto.
    + intros H. apply props3_false in H.
      destruct H as [(k & s & v & Hin & Hv & Hs) | (a & k & v & Ha & Hin & Hm & Hs)].
      * eapply I_props_p; eauto.
        apply (IH s); [simpl; apply in_or_app; left; apply in_map_iff; exists (k, s); auto | exact Hs].
      * subst addl. eapply I_props_a; eauto.
        apply (IH a); [simpl; apply in_or_app; right; simpl; auto | exact Hs].
  - (* SItems *)
    change (validate_body ref (SItems prefix rest) j) with
      (match j with JArr xs => items3 (validate_body ref) rest prefix xs | _ => Some true end). destruct j as [| | | | xs |];
      try (split; [intros _; constructor; intros; discriminate | discriminate]).
    split.
    + intros H. apply items3_true in H. destruct H as [H1 H2]. constructor.
      * intros xs' i p x Hx Hp Hxi. inversion Hx; subst xs'.
        apply (IH p); [simpl; apply in_or_app; left; eapply nth_error_In; eauto |].
        eapply H1; eauto.
      * intros xs' r i x Hx Hr Hxi Hlen. inversion Hx; subst xs'.
        apply (IH r); [simpl; apply in_or_app; right; subst rest; simpl; auto |].
        eapply H2; eauto.
    + intros H. apply items3_false in H.
      destruct H as [(i & p & x & Hp & Hx & Hv) | (r & i & x & Hr & Hx & Hlen & Hv)].
      * eapply I_items_p; eauto.
        apply (IH p); [simpl; apply in_or_app; left; eapply nth_error_In; eauto | exact Hv].
      * subst rest. eapply I_items_r; eauto.
        apply (IH r); [simpl; apply in_or_app; right; simpl; auto | exact Hv].
  - (* SAllOf *)
    change (validate_body ref (SAllOf l) j) with (all3 (map (fun s => validate_body ref s j) l)). split.
    + intros H. constructor. intros s Hin. apply (IH s Hin).
      apply (proj1 (all3_true (fun s => validate_body ref s j) l) H). exact Hin.
    + intros H. apply all3_false in H. destruct H as (s & Hin & Hs).
      eapply I_allOf; eauto. apply (IH s Hin). exact Hs.
  - (* SAnyOf *)
    change (validate_body ref (SAnyOf l) j) with (any3 (map (fun s => validate_body ref s j) l)). split.
    + intros H. apply any3_true in H. destruct H as (s & Hin & Hs).
      eapply V_anyOf; eauto. apply (IH s Hin). exact Hs.
    + intros H. constructor. intros s Hin. apply (IH s Hin).
      apply (proj1 (any3_false (fun s => validate_body ref s j) l) H). exact Hin.
  - (* SOneOf *)
    change (validate_body ref (SOneOf l) j) with (one3 (map (fun s => validate_body ref s j) l)). split.
    + intros H. apply one3_true in H. destruct H as (i & s & Hi & Hs & Hothers).
      eapply V_oneOf; eauto.
      * apply (IH s); [simpl; eapply nth_error_In; eauto | exact Hs].
      * intros k t Hk Hne. apply (IH t); [simpl; eapply nth_error_In; eauto |]. eapply Hothers; eauto.
    + intros H. apply one3_false in H.
      destruct H as [Hall | (i & k & x & y & Hne & Hi & Hk & Hx & Hy)].
      * apply I_oneOf_none. intros s Hin. apply (IH s Hin). apply Hall. exact Hin.
      * eapply I_oneOf_two; eauto.
        -- apply (IH x); [simpl; eapply nth_error_In; eauto | exact Hx].
        -- apply (IH y); [simpl; eapply nth_error_In; eauto | exact Hy].
  - (* SNot *)
    change (validate_body ref (SNot s) j) with (not3 (validate_body ref s j)). rewrite not3_true, not3_false. split; intros H; constructor;
      apply (IH s); simpl; auto.
  - (* SRef *) exact (Href t j).
Qed.

Theorem validate_sound : forall E f S j,
  (validate E f S j = Some true -> Valid E S j) /\ (validate E f S j = Some false -> Invalid E S j).
Proof.
  intros E f. induction f as [| f IHf]; intros S j; rewrite validate_unfold.
  - apply validate_body_sound. intros t j'. split; discriminate.
  - apply validate_body_sound. intros t j'.
    destruct (jassoc t E) as [S' |] eqn:Et; [| split; discriminate].
    split; intros H; [eapply V_ref | eapply I_ref]; eauto; apply (IHf S' j'); exact H.
Qed.
