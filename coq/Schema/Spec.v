(* Schema/Spec.v — declarative semantics of the structural vocabulary of JSON
   Schema: one rule per keyword.  `Valid E S j`: instance j conforms to schema S
   (with $ref targets E); `Invalid E S j`: it definitely does not.  The two are
   defined together (inductively, so every derivation follows finitely many
   $refs) because `not` / `oneOf` need the negative judgement.
   No executable code here; Schema/Theory.v relates this file to Schema/Model.v. *)
From Coq Require Import ZArith QArith List String Ascii Bool NArith.
From GSP Require Import Base.Prelude Schema.Json Schema.Regex Schema.Model.
Import ListNotations.
Open Scope list_scope.

(* ---- regular languages over code points ---- *)
Inductive Lang : re -> list N -> Prop :=
| L_eps : Lang REps []
| L_char s c : cs_mem c s = true -> Lang (RChar s) [c]
| L_cat a b u v : Lang a u -> Lang b v -> Lang (RCat a b) (u ++ v)
| L_alt_l a b w : Lang a w -> Lang (RAlt a b) w
| L_alt_r a b w : Lang b w -> Lang (RAlt a b) w
| L_star_nil a : Lang (RStar a) []
| L_star_app a u v : Lang a u -> Lang (RStar a) v -> Lang (RStar a) (u ++ v).

(* `pattern` is a SEARCH: some substring is in the language; ^ / $ pin the ends *)
Definition PatMatches (p : pat) (w : list N) : Prop :=
  exists pre mid post,
    w = pre ++ mid ++ post /\ Lang (p_re p) mid /\
    (p_left p = true -> pre = []) /\ (p_right p = true -> post = []).

(* ---- JSON equality: numbers by value, arrays pointwise, objects unordered ---- *)
Inductive JEq : json -> json -> Prop :=
| JE_null : JEq JNull JNull
| JE_bool b : JEq (JBool b) (JBool b)
| JE_num x y : x == y -> JEq (JNum x) (JNum y)
| JE_str s : JEq (JStr s) (JStr s)
| JE_arr xs ys :
    List.length xs = List.length ys ->
    (forall i x y, nth_error xs i = Some x -> nth_error ys i = Some y -> JEq x y) ->
    JEq (JArr xs) (JArr ys)
| JE_obj xo yo :
    (forall k v, In (k, v) xo -> exists w, jassoc k yo = Some w) ->
    (forall k v w, In (k, v) xo -> jassoc k yo = Some w -> JEq v w) ->
    (forall k w, In (k, w) yo -> exists v, jassoc k xo = Some v) ->
    JEq (JObj xo) (JObj yo).

(* ---- types ---- *)
Definition IsInt (q : Q) : Prop := exists z : Z, q == inject_Z z.

Inductive HasType : jtype -> json -> Prop :=
| HT_null : HasType TNull JNull
| HT_bool b : HasType TBoolean (JBool b)
| HT_obj o : HasType TObject (JObj o)
| HT_arr l : HasType TArray (JArr l)
| HT_num q : HasType TNumber (JNum q)
| HT_str s : HasType TString (JStr s)
| HT_int q : IsInt q -> HasType TInteger (JNum q).     (* 1.0 is an integer *)

Definition MultipleOf (x m : Q) : Prop := exists z : Z, x == inject_Z z * m.

(* ---- validity ---- *)
Section Validity.
  Variable E : env.

  Inductive Valid : schema -> json -> Prop :=
  | V_true j : Valid STrue j
  | V_type ts t j : In t ts -> HasType t j -> Valid (SType ts) j
  | V_enum vs v j : In v vs -> JEq j v -> Valid (SEnum vs) j
  | V_const v j : JEq j v -> Valid (SConst v) j
  | V_min q j : (forall x, j = JNum x -> q <= x) -> Valid (SMin q) j
  | V_max q j : (forall x, j = JNum x -> x <= q) -> Valid (SMax q) j
  | V_xmin q j : (forall x, j = JNum x -> q < x) -> Valid (SXMin q) j
  | V_xmax q j : (forall x, j = JNum x -> x < q) -> Valid (SXMax q) j
  | V_multipleOf q j : (forall x, j = JNum x -> MultipleOf x q) -> Valid (SMultipleOf q) j
  | V_minLen n j : (forall s, j = JStr s -> (n <= cp_length s)%N) -> Valid (SMinLen n) j
  | V_maxLen n j : (forall s, j = JStr s -> (cp_length s <= n)%N) -> Valid (SMaxLen n) j
  | V_minItems n j : (forall l, j = JArr l -> (n <= len_N l)%N) -> Valid (SMinItems n) j
  | V_maxItems n j : (forall l, j = JArr l -> (len_N l <= n)%N) -> Valid (SMaxItems n) j
  | V_pattern p j : (forall s, j = JStr s -> PatMatches p (code_points s)) -> Valid (SPattern p) j
  | V_required ks j :
      (forall o k, j = JObj o -> In k ks -> exists v, jassoc k o = Some v) -> Valid (SRequired ks) j
  | V_props ps addl j :
      (forall o k s v, j = JObj o -> In (k, s) ps -> jassoc k o = Some v -> Valid s v) ->
      (forall o a k v, j = JObj o -> addl = Some a -> In (k, v) o -> jmem k ps = false -> Valid a v) ->
      Valid (SProps ps addl) j
  | V_items prefix rest j :
      (forall xs i p x, j = JArr xs -> nth_error prefix i = Some p -> nth_error xs i = Some x -> Valid p x) ->
      (forall xs r i x, j = JArr xs -> rest = Some r -> nth_error xs i = Some x ->
                        (List.length prefix <= i)%nat -> Valid r x) ->
      Valid (SItems prefix rest) j
  | V_allOf l j : (forall s, In s l -> Valid s j) -> Valid (SAllOf l) j
  | V_anyOf l s j : In s l -> Valid s j -> Valid (SAnyOf l) j
  | V_oneOf l i s j :
      nth_error l i = Some s -> Valid s j ->
      (forall k t, nth_error l k = Some t -> k <> i -> Invalid t j) ->
      Valid (SOneOf l) j
  | V_not s j : Invalid s j -> Valid (SNot s) j
  | V_ref t S j : jassoc t E = Some S -> Valid S j -> Valid (SRef t) j

  with Invalid : schema -> json -> Prop :=
  | I_false j : Invalid SFalse j
  | I_type ts j : (forall t, In t ts -> ~ HasType t j) -> Invalid (SType ts) j
  | I_enum vs j : (forall v, In v vs -> ~ JEq j v) -> Invalid (SEnum vs) j
  | I_const v j : ~ JEq j v -> Invalid (SConst v) j
  | I_min q x : ~ q <= x -> Invalid (SMin q) (JNum x)
  | I_max q x : ~ x <= q -> Invalid (SMax q) (JNum x)
  | I_xmin q x : ~ q < x -> Invalid (SXMin q) (JNum x)
  | I_xmax q x : ~ x < q -> Invalid (SXMax q) (JNum x)
  | I_multipleOf q x : ~ MultipleOf x q -> Invalid (SMultipleOf q) (JNum x)
  | I_minLen n s : ~ (n <= cp_length s)%N -> Invalid (SMinLen n) (JStr s)
  | I_maxLen n s : ~ (cp_length s <= n)%N -> Invalid (SMaxLen n) (JStr s)
  | I_minItems n l : ~ (n <= len_N l)%N -> Invalid (SMinItems n) (JArr l)
  | I_maxItems n l : ~ (len_N l <= n)%N -> Invalid (SMaxItems n) (JArr l)
  | I_pattern p s : ~ PatMatches p (code_points s) -> Invalid (SPattern p) (JStr s)
  | I_required ks o k : In k ks -> jassoc k o = None -> Invalid (SRequired ks) (JObj o)
  | I_props_p ps addl o k s v :
      In (k, s) ps -> jassoc k o = Some v -> Invalid s v -> Invalid (SProps ps addl) (JObj o)
  | I_props_a ps a o k v :
      In (k, v) o -> jmem k ps = false -> Invalid a v -> Invalid (SProps ps (Some a)) (JObj o)
  | I_items_p prefix rest xs i p x :
      nth_error prefix i = Some p -> nth_error xs i = Some x -> Invalid p x ->
      Invalid (SItems prefix rest) (JArr xs)
  | I_items_r prefix r xs i x :
      nth_error xs i = Some x -> (List.length prefix <= i)%nat -> Invalid r x ->
      Invalid (SItems prefix (Some r)) (JArr xs)
  | I_allOf l s j : In s l -> Invalid s j -> Invalid (SAllOf l) j
  | I_anyOf l j : (forall s, In s l -> Invalid s j) -> Invalid (SAnyOf l) j
  | I_oneOf_none l j : (forall s, In s l -> Invalid s j) -> Invalid (SOneOf l) j
  | I_oneOf_two l i k s t j :
      i <> k -> nth_error l i = Some s -> nth_error l k = Some t -> Valid s j -> Valid t j ->
      Invalid (SOneOf l) j
  | I_not s j : Valid s j -> Invalid (SNot s) j
  | I_ref t S j : jassoc t E = Some S -> Invalid S j -> Invalid (SRef t) j.

  Scheme Valid_mut := Minimality for Valid Sort Prop
    with Invalid_mut := Minimality for Invalid Sort Prop.
  Combined Scheme Valid_Invalid_ind from Valid_mut, Invalid_mut.
End Validity.
