(* Schema/TextGlue.v — the well-formedness gate on both inputs and the Processor
   facade, for ALL inputs; seeded variants of the facade are refuted by witnesses. *)
From Coq Require Import ZArith QArith List String Ascii Bool NArith Lia.
From GSP Require Import Base.Prelude Schema.Json Schema.JsonText Schema.Regex Schema.Model Schema.Spec
  Schema.Theory Schema.Decide Schema.Total Schema.Adequate.
Import ListNotations.
Open Scope list_scope.

(* ---- the gate ---- *)
Theorem text_schema_malformed : forall data schema,
  parse_json schema = None -> validate_text data schema = Err "schema-json".
Proof. intros data schema H. unfold validate_text. rewrite H. reflexivity. Qed.

Theorem text_data_malformed : forall data schema sj,
  parse_json schema = Some sj -> parse_json data = None -> validate_text data schema = Err "data-json".
Proof. intros data schema sj Hs Hd. unfold validate_text. rewrite Hs, Hd. reflexivity. Qed.

Theorem malformed_rejected : forall data schema,
  parse_json schema = None \/ parse_json data = None ->
  exists t, validate_text data schema = Err t.
Proof.
  intros data schema [H | H].
  - exists "schema-json"%string. apply text_schema_malformed. exact H.
  - destruct (parse_json schema) as [sj |] eqn:Hs.
    + exists "data-json"%string. eapply text_data_malformed; eauto.
    + exists "schema-json"%string. apply text_schema_malformed. exact Hs.
Qed.

(* what "exactly one JSON value" means for the parser: a value, then only whitespace *)
Theorem parse_bytes_spec : forall l v,
  parse_bytes l = Some v <->
  exists rest, parse_value (S (S (2 * List.length l))) l = Some (v, rest) /\ all_ws rest = true.
Proof.
  intros l v. unfold parse_bytes. split.
  - destruct (parse_value _ l) as [[v' rest] |]; [| discriminate].
    destruct (all_ws rest) eqn:E; [| discriminate]. intros H. inversion H; subst. eauto.
  - intros (rest & Hp & Hw). rewrite Hp, Hw. reflexivity.
Qed.

(* trailing text: whatever follows the first value, if it is not all whitespace the text is rejected *)
Theorem trailing_text_rejected : forall l v rest,
  parse_value (S (S (2 * List.length l))) l = Some (v, rest) -> all_ws rest = false -> parse_bytes l = None.
Proof. intros l v rest Hp Hw. unfold parse_bytes. rewrite Hp, Hw. reflexivity. Qed.

Theorem text_total : forall data schema,
  validate_text data schema = Ok tt \/ exists t, validate_text data schema = Err t.
Proof. intros. unfold validate_text, validate_data. apply validate_data_total. Qed.

(* a well-formed object against a compilable schema: exactly Valid / not Valid *)
Theorem text_exact : forall data schema o sj c,
  parse_json data = Some (JObj o) -> parse_json schema = Some sj -> compile_root sj = Ok c ->
  (validate_text data schema = Ok tt <-> Valid (c_env c) (c_root c) (JObj o)) /\
  (validate_text data schema = Err "invalid" <-> ~ Valid (c_env c) (c_root c) (JObj o)).
Proof.
  intros data schema o sj c Hd Hs Hc. unfold validate_text. rewrite Hd, Hs.
  apply validate_data_exact. exact Hc.
Qed.

(* ---- the facade ---- *)
Theorem facade_is_validator : forall (D S : Type) (validator : option (D -> S -> res unit)) data schema,
  match validator with
  | Some v => processor_validate validator data schema = v data schema
  | None => processor_validate validator data schema = Err "validator-not-defined"
  end.
Proof. intros D S [v |] data schema; reflexivity. Qed.

Theorem facade_text : forall data schema,
  processor_validate_text true data schema = validate_text data schema /\
  processor_validate_text false data schema = Err "validator-not-defined".
Proof. intros; split; reflexivity. Qed.

(* seeded variant "re-encode the schema before the call" (strip "$metadata" through a
   float64 round trip): 2^64-1 becomes 18446744073709552000 and a value above the
   bound is accepted — not the validator's verdict on the same schema *)
Local Open Scope string_scope.
Definition big_max : string := "{""$metadata"":{},""properties"":{""n"":{""maximum"":18446744073709551615}}}".
Definition big_max_reencoded : string := "{""properties"":{""n"":{""maximum"":18446744073709552000}}}".
Definition reenc_witness (s : string) : string := if String.eqb s big_max then big_max_reencoded else s.
Definition big_data : string := "{""n"":18446744073709552000}".

Theorem facade_reencoding_refuted :
  exists (reenc : string -> string) data schema,
    processor_reencoding reenc (Some validate_text) data schema <>
    processor_validate (Some validate_text) data schema.
Proof.
  exists reenc_witness, big_data, big_max.
  assert (H1 : processor_reencoding reenc_witness (Some validate_text) big_data big_max = Ok tt)
    by (vm_compute; reflexivity).
  assert (H2 : processor_validate (Some validate_text) big_data big_max = Err "invalid")
    by (vm_compute; reflexivity).
  rewrite H1, H2. discriminate.
Qed.

(* seeded variant "no validator configured => accept" *)
Theorem facade_lenient_refuted :
  exists data schema,
    processor_lenient (@None (string -> string -> res unit)) data schema <>
    processor_validate (@None (string -> string -> res unit)) data schema.
Proof. exists "{}", "{}". simpl. discriminate. Qed.

(* non-vacuity of the gate: the trailing-text families are rejected, one value is accepted *)
Example gate_examples :
  parse_json "{} x" = None /\ parse_json "{}}" = None /\ parse_json "{}]" = None /\
  parse_json "{}," = None /\ parse_json "{} {}" = None /\ parse_json "{""a"":1} tru" = None /\
  parse_json "{""a"":01}" = None /\ parse_json "" = None /\
  parse_json " {""a"":[1,2.5e1,""x""]} " <> None.
Proof. repeat split; try (vm_compute; reflexivity). vm_compute. discriminate. Qed.
