(* Schema/ThRegex.v — the derivative matcher decides the regular language, and
   pat_matchb decides the search semantics of `pattern`. *)
From Coq Require Import ZArith List String Ascii Bool NArith Lia.
From GSP Require Import Base.Prelude Schema.Json Schema.Regex Schema.Model Schema.Spec.
Import ListNotations.
Open Scope list_scope.

Lemma lang_cat_inv : forall a b w, Lang (RCat a b) w ->
  exists u v, w = u ++ v /\ Lang a u /\ Lang b v.
Proof. intros a b w H. inversion H; subst. eauto. Qed.

Lemma lang_alt_inv : forall a b w, Lang (RAlt a b) w -> Lang a w \/ Lang b w.
Proof. intros a b w H. inversion H; subst; auto. Qed.

Lemma lang_empty_inv : forall w, ~ Lang REmpty w.
Proof. intros w H. inversion H. Qed.

Lemma lang_eps_inv : forall w, Lang REps w -> w = [].
Proof. intros w H. inversion H. reflexivity. Qed.

Lemma lang_char_inv : forall s w, Lang (RChar s) w -> exists c, w = [c] /\ cs_mem c s = true.
Proof. intros s w H. inversion H; subst. eauto. Qed.

Lemma nullable_spec : forall r, nullable r = true <-> Lang r [].
Proof.
  induction r as [| | s | a IHa b IHb | a IHa b IHb | a IHa]; simpl.
  - split; [discriminate | intros H; inversion H].
  - split; [constructor | reflexivity].
  - split; [discriminate | intros H; inversion H].
  - rewrite andb_true_iff, IHa, IHb. split.
    + intros [Ha Hb]. change (@nil N) with (@nil N ++ []). constructor; assumption.
    + intros H. apply lang_cat_inv in H. destruct H as (u & v & Huv & Hu & Hv).
      symmetry in Huv. apply app_eq_nil in Huv. destruct Huv; subst. auto.
  - rewrite orb_true_iff, IHa, IHb. split.
    + intros [H | H]; [apply L_alt_l | apply L_alt_r]; assumption.
    + apply lang_alt_inv.
  - split; [constructor | reflexivity].
Qed.

Lemma mk_cat_spec : forall a b w, Lang (mk_cat a b) w <-> Lang (RCat a b) w.
Proof.
  intros a b w. split.
  - intros H.
    destruct a; destruct b; simpl in H;
      try (exfalso; eapply lang_empty_inv; eassumption);
      try exact H;
      try (change w with ([] ++ w); constructor; [constructor | exact H]);
      try (rewrite <- (app_nil_r w); constructor; [exact H | constructor]).
  - intros H. apply lang_cat_inv in H. destruct H as (u & v & Hw & Hu & Hv). subst w.
    destruct a; destruct b; simpl;
      try (exfalso; eapply lang_empty_inv; eassumption);
      try (apply lang_eps_inv in Hu; subst u; simpl; exact Hv);
      try (apply lang_eps_inv in Hv; subst v; rewrite app_nil_r; exact Hu);
      try (constructor; assumption).
Qed.

Lemma mk_alt_spec : forall a b w, Lang (mk_alt a b) w <-> Lang (RAlt a b) w.
Proof.
  intros a b w. split.
  - intros H.
    destruct a; destruct b; simpl in H;
      try exact H;
      try (apply L_alt_r; exact H);
      try (apply L_alt_l; exact H).
  - intros H. apply lang_alt_inv in H.
    destruct a; destruct b; simpl; destruct H as [H | H];
      try (exfalso; eapply lang_empty_inv; eassumption);
      try exact H;
      try (apply L_alt_l; exact H);
      try (apply L_alt_r; exact H).
Qed.

(* a non-empty word of a star starts with a non-empty word of the body *)
Lemma lang_star_cons_inv_gen : forall r w0, Lang r w0 ->
  forall a c w, r = RStar a -> w0 = c :: w ->
  exists u v, w = u ++ v /\ Lang a (c :: u) /\ Lang (RStar a) v.
Proof.
  intros r w0 H.
  induction H as [ | s0 c0 Hm | a0 b0 u0 v0 Ha IHa Hb IHb | a0 b0 w1 Ha IHa | a0 b0 w1 Hb IHb
                 | a0 | a0 u0 v0 Hu IHu Hv IHv]; intros a c w Hr Hcw; try discriminate.
  inversion Hr; subst a0.
  destruct u0 as [| c' u'].
  - simpl in Hcw. eapply IHv; eauto.
  - simpl in Hcw. inversion Hcw; subst. exists u', v0. auto.
Qed.

Lemma lang_star_cons_inv : forall a c w, Lang (RStar a) (c :: w) ->
  exists u v, w = u ++ v /\ Lang a (c :: u) /\ Lang (RStar a) v.
Proof. intros a c w H. eapply lang_star_cons_inv_gen; eauto. Qed.

Lemma deriv_spec : forall r c w, Lang (deriv c r) w <-> Lang r (c :: w).
Proof.
  induction r as [| | s | a IHa b IHb | a IHa b IHb | a IHa]; intros c w; simpl.
  - split; intros H; inversion H.
  - split; intros H; inversion H.
  - destruct (cs_mem c s) eqn:Hm.
    + split.
      * intros H. apply lang_eps_inv in H. subst w. constructor. exact Hm.
      * intros H. apply lang_char_inv in H. destruct H as (c' & Hw & _). inversion Hw. constructor.
    + split.
      * intros H. inversion H.
      * intros H. apply lang_char_inv in H. destruct H as (c' & Hw & Hm'). inversion Hw; subst. congruence.
  - (* cat *)
    assert (Hcat : Lang (RCat (deriv c a) b) w <-> exists u v, w = u ++ v /\ Lang a (c :: u) /\ Lang b v).
    { split.
      - intros H. apply lang_cat_inv in H. destruct H as (u & v & Hw & Hu & Hv).
        exists u, v. rewrite <- IHa. auto.
      - intros (u & v & Hw & Hu & Hv). subst w. constructor; [apply IHa; exact Hu | exact Hv]. }
    destruct (nullable a) eqn:Hn.
    + rewrite mk_alt_spec. split.
      * intros H. apply lang_alt_inv in H. destruct H as [H | H].
        -- apply mk_cat_spec in H. apply Hcat in H. destruct H as (u & v & Hw & Hu & Hv). subst w.
           change (c :: u ++ v) with ((c :: u) ++ v). constructor; assumption.
        -- apply IHb in H. change (c :: w) with ([] ++ c :: w). constructor; [| exact H].
           apply nullable_spec. exact Hn.
      * intros H. apply lang_cat_inv in H. destruct H as (u & v & Hw & Hu & Hv).
        destruct u as [| c' u'].
        -- simpl in Hw. subst v. apply L_alt_r. apply IHb. exact Hv.
        -- simpl in Hw. inversion Hw; subst. apply L_alt_l. apply mk_cat_spec. apply Hcat. eauto.
    + rewrite mk_cat_spec. rewrite Hcat. split.
      * intros (u & v & Hw & Hu & Hv). subst w.
        change (c :: u ++ v) with ((c :: u) ++ v). constructor; assumption.
      * intros H. apply lang_cat_inv in H. destruct H as (u & v & Hw & Hu & Hv).
        destruct u as [| c' u'].
        -- apply nullable_spec in Hu. congruence.
        -- simpl in Hw. inversion Hw; subst. eauto.
  - rewrite mk_alt_spec. split.
    + intros H. apply lang_alt_inv in H. destruct H as [H | H].
      * apply L_alt_l. apply IHa. exact H.
      * apply L_alt_r. apply IHb. exact H.
    + intros H. apply lang_alt_inv in H. destruct H as [H | H].
      * apply L_alt_l. apply IHa. exact H.
      * apply L_alt_r. apply IHb. exact H.
  - rewrite mk_cat_spec. split.
    + intros H. apply lang_cat_inv in H. destruct H as (u & v & Hw & Hu & Hv). subst w.
      change (c :: u ++ v) with ((c :: u) ++ v). apply L_star_app; [apply IHa; exact Hu | exact Hv].
    + intros H. apply lang_star_cons_inv in H. destruct H as (u & v & Hw & Hu & Hv). subst w.
      constructor; [apply IHa; exact Hu | exact Hv].
Qed.

Theorem re_matchb_spec : forall w r, re_matchb r w = true <-> Lang r w.
Proof.
  induction w as [| c w IH]; intros r; simpl.
  - apply nullable_spec.
  - rewrite IH. apply deriv_spec.
Qed.

Lemma lang_anything : forall w, Lang re_anything w.
Proof.
  induction w as [| c w IH].
  - constructor.
  - change (c :: w) with ([c] ++ w). apply L_star_app; [| exact IH].
    constructor. reflexivity.
Qed.

Theorem pat_matchb_spec : forall p w, pat_matchb p w = true <-> PatMatches p w.
Proof.
  intros p w. unfold pat_matchb, pat_re, PatMatches. rewrite re_matchb_spec. split.
  - intros H. apply lang_cat_inv in H. destruct H as (pre & rest & Hw & Hpre & Hrest).
    apply lang_cat_inv in Hrest. destruct Hrest as (mid & post & Hr & Hmid & Hpost).
    exists pre, mid, post. subst. repeat split; auto.
    + intros Hl. rewrite Hl in Hpre. apply lang_eps_inv in Hpre. exact Hpre.
    + intros Hr. rewrite Hr in Hpost. apply lang_eps_inv in Hpost. exact Hpost.
  - intros (pre & mid & post & Hw & Hmid & Hl & Hr). subst w.
    constructor.
    + destruct (p_left p); [rewrite Hl by reflexivity; constructor | apply lang_anything].
    + constructor; [exact Hmid |].
      destruct (p_right p); [rewrite Hr by reflexivity; constructor | apply lang_anything].
Qed.
