(* Schema/Json.v — JSON values for the reference validator (C18).
   Numbers are exact rationals (Q), never floats.  Strings are byte strings
   (UTF-8); length and regular expressions work on the decoded code points.
   Executable definitions only; proofs are in Schema/Theory.v. *)
From Coq Require Import ZArith QArith List String Ascii Bool NArith.
From GSP Require Import Base.Prelude.
Import ListNotations.
Open Scope list_scope.

Inductive json :=
| JNull
| JBool (b : bool)
| JNum (q : Q)
| JStr (s : string)
| JArr (l : list json)
| JObj (l : list (string * json)).

(* first-match lookup in an object (member lists come from a decoder: no duplicate keys) *)
Fixpoint jassoc {V} (k : string) (l : list (string * V)) : option V :=
  match l with
  | [] => None
  | (a, b) :: t => if String.eqb a k then Some b else jassoc k t
  end.
Definition jmem {V} (k : string) (l : list (string * V)) : bool :=
  match jassoc k l with Some _ => true | None => false end.

(* ---- numbers ---- *)
Definition Qlt_bool (a b : Q) : bool := negb (Qle_bool b a).
Definition q_is_int (q : Q) : bool := Z.eqb (Qnum q mod Zpos (Qden q)) 0.
(* x is a multiple of m: x = z * m for an integer z *)
Definition q_multiple_of (x m : Q) : bool :=
  if Qeq_bool m 0 then Qeq_bool x 0 else q_is_int (x / m).

(* ---- JSON equality: numbers by value, arrays pointwise, objects as finite maps ---- *)
Fixpoint json_eqb (a b : json) {struct a} : bool :=
  match a, b with
  | JNull, JNull => true
  | JBool x, JBool y => Bool.eqb x y
  | JNum x, JNum y => Qeq_bool x y
  | JStr x, JStr y => String.eqb x y
  | JArr xs, JArr ys =>
      (fix go (xs : list json) (ys : list json) {struct xs} : bool :=
         match xs, ys with
         | [], [] => true
         | x :: xs', y :: ys' => json_eqb x y && go xs' ys'
         | _, _ => false
         end) xs ys
  | JObj xo, JObj yo =>
      (fix go (l : list (string * json)) {struct l} : bool :=
         match l with
         | [] => true
         | (k, v) :: l' =>
             match jassoc k yo with Some w => json_eqb v w | None => false end && go l'
         end) xo
      && forallb (fun kv => jmem (fst kv) xo) yo
  | _, _ => false
  end.

(* ---- UTF-8: code points of a byte string (Go: for _, r := range s) ----
   malformed bytes decode to U+FFFD one byte at a time, as in Go *)
Definition byte_n (c : ascii) : N := N_of_ascii c.
Definition is_cont (b : N) : bool := (N.leb 128 b && N.ltb b 192)%N.
Definition ufffd : N := 65533%N.

Fixpoint utf8_cps (l : list N) {struct l} : list N :=
  match l with
  | [] => []
  | b0 :: t0 =>
      if N.ltb b0 128 then b0 :: utf8_cps t0
      else if (N.leb 194 b0 && N.ltb b0 224)%bool then
        match t0 with
        | b1 :: t1 =>
            if is_cont b1 then ((b0 - 192) * 64 + (b1 - 128))%N :: utf8_cps t1
            else ufffd :: utf8_cps t0
        | [] => ufffd :: utf8_cps t0
        end
      else if (N.leb 224 b0 && N.ltb b0 240)%bool then
        match t0 with
        | b1 :: (b2 :: t2) =>
            let cp := ((b0 - 224) * 4096 + (b1 - 128) * 64 + (b2 - 128))%N in
            if (is_cont b1 && is_cont b2 && N.leb 2048 cp && negb (N.leb 55296 cp && N.leb cp 57343))%bool
            then cp :: utf8_cps t2
            else ufffd :: utf8_cps t0
        | _ => ufffd :: utf8_cps t0
        end
      else if (N.leb 240 b0 && N.ltb b0 245)%bool then
        match t0 with
        | b1 :: (b2 :: (b3 :: t3)) =>
            let cp := ((b0 - 240) * 262144 + (b1 - 128) * 4096 + (b2 - 128) * 64 + (b3 - 128))%N in
            if (is_cont b1 && is_cont b2 && is_cont b3 && N.leb 65536 cp && N.leb cp 1114111)%bool
            then cp :: utf8_cps t3
            else ufffd :: utf8_cps t0
        | _ => ufffd :: utf8_cps t0
        end
      else ufffd :: utf8_cps t0
  end.

Definition code_points (s : string) : list N := utf8_cps (map byte_n (str_to_list s)).
Definition cp_length (s : string) : N := N.of_nat (List.length (code_points s)).
