(* Schema/Run.v — evaluation of per-run case files for C18: the model of
   ValidateData (Schema/Model.v) is run under vm_compute on every
   (schema, data) pair and its outcome class is compared with the class the
   harness observed on /repo's implementation. *)
From Coq Require Import ZArith QArith List String Ascii Bool NArith Uint63.
From GSP Require Import Base.Prelude Base.Decode Schema.Json Schema.JsonText Schema.Regex Schema.Model.
Import ListNotations.
Open Scope list_scope.

(* ---- constructor functions used by case files (no nat numerals, no records) ---- *)
Definition jn : json := JNull.
Definition jb (b : bool) : json := JBool b.
Definition ji (i : int) : json := JNum (inject_Z (Uint63.to_Z i)).           (* small non-negative integer *)
Definition jni (i : int) : json := JNum (inject_Z (- Uint63.to_Z i)).        (* small negative integer *)
(* (+/-) m * 10^(+/-)e, m as limbs *)
Definition jd (neg : bool) (m : limbs) (eneg : bool) (e : int) : json :=
  let mz := z_of_limbs m in
  let mz := if neg then (- mz)%Z else mz in
  let p := Z.pow 10 (Uint63.to_Z e) in
  JNum (if eneg then Qmake mz (Z.to_pos p) else Qmake (mz * p) 1).
Definition js (s : string) : json := JStr s.
Definition ja (l : list json) : json := JArr l.
Definition jo (l : list (string * json)) : json := JObj l.

(* outcome classes (what the harness can observe without reading messages):
   0 valid, 1 invalid (a validation error), 3 data is not well-formed JSON,
   4 no validator configured, 5 data is not an object, 7 schema does not compile,
   8 other error (schema text is not one JSON document; data is JSON null),
   9 outside the model (always a disagreement) *)
Definition class_of_res (r : res unit) : Z :=
  match r with
  | Ok _ => 0
  | Err t =>
      if String.eqb t "invalid" then 1
      else if String.eqb t "data-json" then 3
      else if String.eqb t "validator-not-defined" then 4
      else if String.eqb t "data-type" then 5
      else if String.eqb t "schema-compile" || String.eqb t "schema-draft" || String.eqb t "schema-ref"
              || String.eqb t "schema-loop" then 7
      else if String.eqb t "schema-json" || String.eqb t "data-null" then 8
      else 9
  | Panic _ => 9
  | Diverge => 9
  end%Z.

(* mode: 0 = json.Validator.ValidateData, 1 = Processor with that validator,
   2 = Processor without a validator *)
Record scase := { sc_id : int; sc_mode : int; sc_schema : option json; sc_data : option json; sc_obs : int }.
Definition mkc (id mode : int) (schema data : option json) (obs : int) : scase :=
  {| sc_id := id; sc_mode := mode; sc_schema := schema; sc_data := data; sc_obs := obs |}.

Definition run_case (c : scase) : res unit :=
  let m := Uint63.to_Z (sc_mode c) in
  if Z.eqb m 0 then validate_data (sc_data c) (sc_schema c)
  else processor_validate_data (Z.eqb m 1) (sc_data c) (sc_schema c).

Definition smismatches (cs : list scase) : list int :=
  fold_right (fun c acc =>
      if Z.eqb (class_of_res (run_case c)) (Uint63.to_Z (sc_obs c)) then acc else sc_id c :: acc) [] cs.

(* ---- text cases: the model parses the very bytes the implementation received ---- *)
Record tcase := { tc_id : int; tc_mode : int; tc_schema : string; tc_data : string; tc_obs : int }.
Definition mkt (id mode : int) (schema data : string) (obs : int) : tcase :=
  {| tc_id := id; tc_mode := mode; tc_schema := schema; tc_data := data; tc_obs := obs |}.

Definition run_tcase (c : tcase) : res unit :=
  let m := Uint63.to_Z (tc_mode c) in
  if Z.eqb m 0 then validate_text (tc_data c) (tc_schema c)
  else processor_validate_text (Z.eqb m 1) (tc_data c) (tc_schema c).

Definition tmismatches (cs : list tcase) : list int :=
  fold_right (fun c acc =>
      if Z.eqb (class_of_res (run_tcase c)) (Uint63.to_Z (tc_obs c)) then acc else tc_id c :: acc) [] cs.

(* the harness's own decoding of a text (used for the term cases) against the Coq parser *)
Definition opt_json_eqb (a b : option json) : bool :=
  match a, b with
  | Some x, Some y => json_eqb x y && json_eqb y x
  | None, None => true
  | _, _ => false
  end.
Definition pmismatches (ps : list (int * string * option json)) : list int :=
  fold_right (fun p acc =>
      let '(id, text, term) := p in
      if opt_json_eqb (parse_json text) term then acc else id :: acc) [] ps.
