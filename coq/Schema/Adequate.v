(* Schema/Adequate.v — the fuel policy of the wrapper model suffices: for every
   schema document that `compile_root` accepts and EVERY instance, `validate`
   with `fuel_for` returns a definite verdict.  Hence the model of ValidateData
   never answers "schema-loop" after a successful compilation, and its verdict
   is exactly Valid / not Valid. *)
From Coq Require Import ZArith QArith List String Ascii Bool NArith Lia Wf_nat.
From GSP Require Import Base.Prelude Schema.Json Schema.Regex Schema.Model Schema.Spec
  Schema.ThRegex Schema.ThJson Schema.Theory Schema.Decide Schema.Fuel Schema.Complete.
Import ListNotations.
Open Scope list_scope.

(* ---- definedness of the bundles on the members actually visited ---- *)
Lemma props3_defined' : forall (vs : schema -> json -> option bool) ps addl o,
  (forall k s v, In (k, s) ps -> jassoc k o = Some v -> vs s v <> None) ->
  (forall a k v, addl = Some a -> In (k, v) o -> vs a v <> None) ->
  props3 vs ps addl o <> None.
Proof.
  intros vs ps addl o Hp Ha. unfold props3. apply and3_defined.
  - apply all3_defined. intros [k s] Hin. simpl.
    destruct (jassoc k o) as [v |] eqn:Ev; [eapply Hp; eauto | discriminate].
  - destruct addl as [a |]; [| discriminate]. apply all3_defined. intros [k v] Hin. simpl.
    destruct (jmem k ps); [discriminate | eapply Ha; eauto].
Qed.

Lemma items3_defined' : forall (vs : schema -> json -> option bool) rest prefix xs,
  (forall p x, In p prefix -> In x xs -> vs p x <> None) ->
  (forall r x, rest = Some r -> In x xs -> vs r x <> None) ->
  items3 vs rest prefix xs <> None.
Proof.
  intros vs rest prefix. induction prefix as [| p ps IH]; intros xs Hp Hr; simpl.
  - destruct rest as [r |]; [| discriminate]. apply all3_defined. intros x Hin. apply (Hr r x eq_refl Hin).
  - destruct xs as [| x xs]; [discriminate |].
    apply and3_defined; [apply Hp; left; reflexivity |].
    apply IH.
    + intros q y Hq Hy. apply Hp; right; assumption.
    + intros r y Hr' Hy. apply (Hr r y Hr'). right. exact Hy.
Qed.

(* ---- references of subschemas ---- *)
Lemma all_refs_sub : forall S c, In c (subs S) -> incl (all_refs c) (all_refs S).
Proof.
  intros S c Hin t Ht. destruct S; simpl in Hin; try contradiction.
  - (* SProps *) simpl. apply in_or_app. apply in_app_or in Hin. destruct Hin as [Hin | Hin].
    + left. apply in_map_iff in Hin. destruct Hin as ([k s] & <- & Hin). apply in_flat_map. exists (k, s). auto.
    + right. destruct addl; simpl in Hin; [destruct Hin as [<- | []]; exact Ht | contradiction].
  - (* SItems *) simpl. apply in_or_app. apply in_app_or in Hin. destruct Hin as [Hin | Hin].
    + left. apply in_flat_map. exists c. auto.
    + right. destruct rest; simpl in Hin; [destruct Hin as [<- | []]; exact Ht | contradiction].
  - simpl. apply in_flat_map. exists c. auto.
  - simpl. apply in_flat_map. exists c. auto.
  - simpl. apply in_flat_map. exists c. auto.
  - destruct Hin as [<- | []]. exact Ht.
Qed.

Lemma inplace_sub_all : forall S t, In t (inplace_refs S) -> In t (all_refs S).
Proof.
  induction S as [S IH] using schema_subs_ind. intros t Ht.
  destruct S; simpl in Ht |- *; try contradiction; try exact Ht.
  - apply in_flat_map in Ht. destruct Ht as (s & Hs & Ht). apply in_flat_map. exists s. split; [exact Hs |].
    apply IH; [simpl; exact Hs | exact Ht].
  - apply in_flat_map in Ht. destruct Ht as (s & Hs & Ht). apply in_flat_map. exists s. split; [exact Hs |].
    apply IH; [simpl; exact Hs | exact Ht].
  - apply in_flat_map in Ht. destruct Ht as (s & Hs & Ht). apply in_flat_map. exists s. split; [exact Hs |].
    apply IH; [simpl; exact Hs | exact Ht].
  - apply IH; [simpl; auto | exact Ht].
Qed.

(* ---- depth of sub-instances ---- *)
Lemma fold_max_ge : forall {A} (f : A -> nat) l x,
  In x l -> (f x <= fold_right (fun y acc => Nat.max (f y) acc) 0 l)%nat.
Proof.
  intros A f l x. induction l as [| h t IH]; simpl; intros Hin; [contradiction |].
  destruct Hin as [-> | Hin]; [lia |]. specialize (IH Hin). lia.
Qed.

Lemma jdepth_arr : forall l x, In x l -> (jdepth x < jdepth (JArr l))%nat.
Proof. intros l x Hin. simpl. pose proof (fold_max_ge jdepth l x Hin). lia. Qed.
Lemma jdepth_obj : forall o k v, In (k, v) o -> (jdepth v < jdepth (JObj o))%nat.
Proof.
  intros o k v Hin. simpl.
  pose proof (fold_max_ge (fun kv : string * json => jdepth (snd kv)) o (k, v) Hin) as H. simpl in H. lia.
Qed.

Section Adequacy.
  Variable E : env.
  Variable R : list string.

  (* every target in R resolves and mentions only targets in R *)
  Hypothesis R_closed : forall t, In t R -> exists s, jassoc t E = Some s /\ incl (all_refs s) R.

  Definition closedR (S : schema) : Prop := incl (all_refs S) R.

  (* "the in-place $ref chains from t end within n steps" (the check of compile_root, for some stack) *)
  Definition NC (n : nat) (t : string) : Prop := exists stack, no_cycle E n stack t = true.

  Lemma NC_step : forall n t s, NC n t -> jassoc t E = Some s ->
    exists n', n = Datatypes.S n' /\ forall t', In t' (inplace_refs s) -> NC n' t'.
  Proof.
    intros n t s [stack H] Hs. destruct n as [| n']; simpl in H; [discriminate |].
    exists n'. split; [reflexivity |].
    destruct (str_in t stack); [discriminate |]. rewrite Hs in H.
    intros t' Hin. exists (t :: stack). apply (proj1 (forallb_forall _ _) H t' Hin).
  Qed.

  Definition children_in (Q : json -> Prop) (j : json) : Prop :=
    match j with
    | JArr l => forall x, In x l -> Q x
    | JObj o => forall k v, In (k, v) o -> Q v
    | _ => True
    end.

  (* one instance level: sub-instances are handled by Hsub with fuel K; the in-place phase needs n more *)
  Lemma inplace_phase : forall (Q : json -> Prop) (K : nat),
    (forall S' j' f', Q j' -> closedR S' -> (K <= f')%nat -> validate E f' S' j' <> None) ->
    forall n S j f,
      children_in Q j -> closedR S -> (forall t, In t (inplace_refs S) -> NC n t) ->
      (n + K <= f)%nat -> validate E f S j <> None.
  Proof.
    intros Q K Hsub.
    induction n as [n IHn] using lt_wf_ind.
    induction S as [S IHS] using schema_subs_ind.
    intros j f Hch Hcl Hnc Hf.
    assert (Hchild_closed : forall c, In c (subs S) -> closedR c).
    { intros c Hc t Ht. apply Hcl. eapply all_refs_sub; eauto. }
    destruct S as [ | | ts | vals | v | q | q | q | q | q | m | m | m | m | p | ks | ps addl | prefix rest
                  | l | l | l | s | t];
      try (apply bounded_defined; apply leaf_bounded; reflexivity).
    - (* SProps *)
      rewrite v_props. destruct j as [| | | | | o]; try discriminate.
      apply props3_defined'.
      + intros k s v Hin Hv. apply Hsub; [| | lia].
        * apply (Hch k v). apply jassoc_in. exact Hv.
        * apply Hchild_closed. simpl. apply in_or_app. left. apply in_map_iff. exists (k, s). auto.
      + intros a k v Ha Hin. subst addl. apply Hsub; [| | lia].
        * apply (Hch k v Hin).
        * apply Hchild_closed. simpl. apply in_or_app. right. simpl. auto.
    - (* SItems *)
      rewrite v_items. destruct j as [| | | | xs |]; try discriminate.
      apply items3_defined'.
      + intros p x Hp Hx. apply Hsub; [| | lia].
        * apply (Hch x Hx).
        * apply Hchild_closed. simpl. apply in_or_app. left. exact Hp.
      + intros r x Hr Hx. subst rest. apply Hsub; [| | lia].
        * apply (Hch x Hx).
        * apply Hchild_closed. simpl. apply in_or_app. right. simpl. auto.
    - (* SAllOf *)
      rewrite v_allOf. apply all3_defined. intros s Hin.
      apply IHS; auto.
      intros t Ht. apply Hnc. simpl. apply in_flat_map. exists s. auto.
    - rewrite v_anyOf. apply any3_defined. intros s Hin.
      apply IHS; auto.
      intros t Ht. apply Hnc. simpl. apply in_flat_map. exists s. auto.
    - rewrite v_oneOf. apply one3_defined. intros s Hin.
      apply IHS; auto.
      intros t Ht. apply Hnc. simpl. apply in_flat_map. exists s. auto.
    - (* SNot *)
      rewrite v_not. apply not3_defined. apply IHS; simpl; auto.
    - (* SRef *)
      assert (HtR : In t R) by (apply Hcl; simpl; auto).
      destruct (R_closed t HtR) as (s & Hs & Hscl).
      destruct (NC_step n t s (Hnc t (or_introl eq_refl)) Hs) as (n' & -> & Hnc').
      destruct f as [| f']; [lia |].
      rewrite v_ref, Hs.
      apply (IHn n'); auto; lia.
  Qed.

  (* every target in R passes the cycle check with budget N *)
  Variable N : nat.
  Hypothesis R_acyclic : forall t, In t R -> NC N t.

  Theorem fuel_adequate : forall d S j f,
    (jdepth j <= d)%nat -> closedR S -> ((d + 1) * (N + 1) <= f)%nat -> validate E f S j <> None.
  Proof.
    induction d as [| d IH]; intros S j f Hd Hcl Hf.
    - apply (inplace_phase (fun _ => False) 0 (fun S' j' f' HF => False_ind _ HF) N S j f).
      + destruct j; simpl in Hd |- *; try exact I; lia.
      + exact Hcl.
      + intros t Ht. apply R_acyclic. apply Hcl. apply inplace_sub_all. exact Ht.
      + lia.
    - apply (inplace_phase (fun j' => (jdepth j' <= d)%nat) ((d + 1) * (N + 1))
               (fun S' j' f' Hq Hc Hle => IH S' j' f' Hq Hc Hle) N S j f).
      + destruct j; simpl; try exact I.
        * intros x Hx. pose proof (jdepth_arr l x Hx). lia.
        * intros k v Hkv. pose proof (jdepth_obj l k v Hkv). lia.
      + exact Hcl.
      + intros t Ht. apply R_acyclic. apply Hcl. apply inplace_sub_all. exact Ht.
      + lia.
  Qed.
End Adequacy.

(* ---- compile_root establishes the hypotheses ---- *)
Lemma str_in_In : forall k l, str_in k l = true -> In k l.
Proof.
  intros k l H. unfold str_in in H. apply existsb_exists in H. destruct H as (x & Hin & Hx).
  apply String.eqb_eq in Hx. subst. exact Hin.
Qed.

Theorem compiled_defined : forall sj c j,
  compile_root sj = Ok c -> validate (c_env c) (fuel_for c j) (c_root c) j <> None.
Proof.
  intros sj c j Hc. unfold compile_root in Hc.
  destruct (detect_draft sj) as [d | | |]; try discriminate.
  destruct (compile_node d (root_id sj) true sj) as [[sc cks] | | |]; try discriminate.
  cbv zeta in Hc.
  set (E := ("#"%string, sc) :: defs_of cks) in *.
  set (R := reach E (List.length E) ["#"%string]) in *.
  destruct (negb (forallb (fun t => match jassoc t E with Some s => refs_resolve E s | None => false end) R));
    [discriminate |].
  destruct (negb (forallb (no_cycle E (Datatypes.S (List.length E)) []) R)) eqn:Hcyc; [discriminate |].
  destruct (negb (refs_closed E R sc)) eqn:Hclo; [discriminate |].
  inversion Hc; subst c. clear Hc. simpl c_env. simpl c_root.
  apply negb_false_iff in Hcyc. apply negb_false_iff in Hclo.
  unfold refs_closed in Hclo. apply andb_true_iff in Hclo. destruct Hclo as [Hroot Htargets].
  apply (fuel_adequate E R) with (N := Datatypes.S (List.length E)) (d := jdepth j).
  - intros t Ht. pose proof (proj1 (forallb_forall _ _) Htargets t Ht) as H. cbv beta in H.
    destruct (jassoc t E) as [s |]; [| discriminate].
    exists s. split; [reflexivity |]. intros r Hr. apply str_in_In.
    apply (proj1 (forallb_forall _ _) H r Hr).
  - intros t Ht. exists []. apply (proj1 (forallb_forall _ _) Hcyc t Ht).
  - lia.
  - intros r Hr. apply str_in_In. apply (proj1 (forallb_forall _ _) Hroot r Hr).
  - unfold fuel_for. simpl c_env. fold E. lia.
Qed.

(* the wrapper model, unconditionally: once the schema compiles, the answer for an
   object instance is Ok exactly when it conforms and Err "invalid" exactly when it does not *)
Theorem validate_data_exact : forall o sj c,
  compile_root sj = Ok c ->
  (validate_data (Some (JObj o)) (Some sj) = Ok tt <-> Valid (c_env c) (c_root c) (JObj o)) /\
  (validate_data (Some (JObj o)) (Some sj) = Err "invalid" <-> ~ Valid (c_env c) (c_root c) (JObj o)).
Proof.
  intros o sj c Hc.
  pose proof (compiled_defined sj c (JObj o) Hc) as Hdef.
  destruct (glue_verdict fuel_for o sj c Hc Hdef) as [Hv Hi].
  split; [exact Hv |].
  split.
  - intros H Hval. apply Hi in H. eapply valid_invalid_exclusive; eauto.
  - intros Hn. apply Hi.
    destruct (validate (c_env c) (fuel_for c (JObj o)) (c_root c) (JObj o)) as [b |] eqn:Ev; [| congruence].
    destruct b.
    + exfalso. apply Hn. apply (validate_decides _ _ _ _ _ Ev). reflexivity.
    + apply (validate_refutes _ _ _ _ _ Ev). reflexivity.
Qed.
