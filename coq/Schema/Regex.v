(* Schema/Regex.v — portable regular-expression subset for the `pattern` keyword,
   decided by Brzozowski derivatives over code points (N).
   Subset: literals, `.`, classes [a-z0-9_] / [^...], \d \w and escaped
   metacharacters, groups ( ), alternation |, quantifiers * + ? {n} {n,} {n,m},
   `^` only as the first and `$` only as the last character of the pattern.
   `pattern` has SEARCH semantics: an unanchored pattern matches when some
   substring matches.  Executable definitions only; proofs in Schema/Theory.v. *)
From Coq Require Import ZArith List String Ascii Bool NArith.
From GSP Require Import Base.Prelude Schema.Json.
Import ListNotations.
Open Scope list_scope.

(* character set: (negated?, list of inclusive ranges) *)
Record cset := CS { cs_neg : bool; cs_ranges : list (N * N) }.

Definition in_ranges (c : N) (rs : list (N * N)) : bool :=
  existsb (fun r => N.leb (fst r) c && N.leb c (snd r)) rs.
Definition cs_mem (c : N) (s : cset) : bool :=
  if cs_neg s then negb (in_ranges c (cs_ranges s)) else in_ranges c (cs_ranges s).

Inductive re :=
| REmpty                      (* no word *)
| REps                        (* the empty word *)
| RChar (s : cset)
| RCat (a b : re)
| RAlt (a b : re)
| RStar (a : re).

Fixpoint nullable (r : re) : bool :=
  match r with
  | REmpty => false
  | REps => true
  | RChar _ => false
  | RCat a b => nullable a && nullable b
  | RAlt a b => nullable a || nullable b
  | RStar _ => true
  end.

(* smart constructors keep derivatives small *)
Definition mk_cat (a b : re) : re :=
  match a, b with
  | REmpty, _ => REmpty
  | _, REmpty => REmpty
  | REps, _ => b
  | _, REps => a
  | _, _ => RCat a b
  end.
Definition mk_alt (a b : re) : re :=
  match a, b with
  | REmpty, _ => b
  | _, REmpty => a
  | _, _ => RAlt a b
  end.

Fixpoint deriv (c : N) (r : re) : re :=
  match r with
  | REmpty => REmpty
  | REps => REmpty
  | RChar s => if cs_mem c s then REps else REmpty
  | RCat a b =>
      if nullable a then mk_alt (mk_cat (deriv c a) b) (deriv c b)
      else mk_cat (deriv c a) b
  | RAlt a b => mk_alt (deriv c a) (deriv c b)
  | RStar a => mk_cat (deriv c a) (RStar a)
  end.

Fixpoint re_matchb (r : re) (w : list N) : bool :=
  match w with
  | [] => nullable r
  | c :: w' => re_matchb (deriv c r) w'
  end.

(* a parsed pattern: anchored at the left / right end or not *)
Record pat := Pat { p_left : bool; p_re : re; p_right : bool }.

Definition cs_any : cset := CS true [].
Definition re_anything : re := RStar (RChar cs_any).

(* search semantics: (anything)? r (anything)? matched against the whole word *)
Definition pat_re (p : pat) : re :=
  RCat (if p_left p then REps else re_anything)
       (RCat (p_re p) (if p_right p then REps else re_anything)).
Definition pat_matchb (p : pat) (w : list N) : bool := re_matchb (pat_re p) w.

(* ------------------------------------------------------------------ *)
(* parser: pattern text (code points) -> pat; None = outside the subset *)

Definition cN (s : string) : N :=
  match s with String c _ => N_of_ascii c | EmptyString => 0%N end.

Definition cs_dot : cset := CS true [(10, 10)]%N.           (* Go: . excludes \n *)
Definition r_digit : list (N * N) := [(48, 57)]%N.
Definition r_word : list (N * N) := [(48, 57); (65, 90); (95, 95); (97, 122)]%N.

Definition is_meta (c : N) : bool :=
  existsb (N.eqb c)
    [cN "\"; cN "^"; cN "$"; cN "."; cN "|"; cN "?"; cN "*"; cN "+"; cN "(";
     cN ")"; cN "["; cN "]"; cN "{"; cN "}"].

(* punctuation that may be escaped to stand for itself *)
Definition is_punct (c : N) : bool :=
  (N.leb 33 c && N.leb c 47) || (N.leb 58 c && N.leb c 64) ||
  (N.leb 91 c && N.leb c 96) || (N.leb 123 c && N.leb c 126).

(* escape outside/inside a class: the set of characters it denotes *)
Definition esc_ranges (c : N) : option (list (N * N)) :=
  if N.eqb c (cN "d") then Some r_digit
  else if N.eqb c (cN "w") then Some r_word
  else if is_punct c then Some [(c, c)]
  else None.

(* class body after '[' (and after an optional '^'): returns ranges and the rest after ']' *)
Fixpoint parse_class (fuel : nat) (inp : list N) (acc : list (N * N)) (first : bool)
  : option (list (N * N) * list N) :=
  match fuel with
  | O => None
  | S f =>
      match inp with
      | [] => None
      | c :: t =>
          if N.eqb c (cN "]") then
            (if first then None else Some (rev acc, t))
          else if N.eqb c (cN "[") then None              (* no nested / posix classes *)
          else if N.eqb c (cN "\") then
            match t with
            | e :: t' =>
                match esc_ranges e with
                | Some rs => parse_class f t' (rev rs ++ acc) false
                | None => None
                end
            | [] => None
            end
          else if N.eqb c (cN "-") then None              (* '-' must be escaped or part of a range *)
          else
            match t with
            | d :: (hi :: t') =>
                if N.eqb d (cN "-") then
                  (if N.eqb hi (cN "]") || N.eqb hi (cN "\") || N.eqb hi (cN "[") || N.eqb hi (cN "-") then None
                   else if N.leb c hi then parse_class f t' ((c, hi) :: acc) false
                   else None)
                else parse_class f t ((c, c) :: acc) false
            | _ => parse_class f t ((c, c) :: acc) false
            end
      end
  end.

(* decimal number prefix *)
Fixpoint parse_num (fuel : nat) (inp : list N) (acc : N) (seen : bool) : option (N * list N) :=
  match fuel with
  | O => None
  | S f =>
      match inp with
      | c :: t =>
          if N.leb 48 c && N.leb c 57 then parse_num f t (acc * 10 + (c - 48))%N true
          else if seen then Some (acc, inp) else None
      | [] => if seen then Some (acc, inp) else None
      end
  end.

Fixpoint re_pow (r : re) (n : nat) : re :=
  match n with O => REps | S k => RCat r (re_pow r k) end.
Definition re_opt (r : re) : re := RAlt r REps.
Definition re_plus (r : re) : re := RCat r (RStar r).
(* r{n,m} *)
Definition re_rep (r : re) (n : nat) (m : option nat) : re :=
  match m with
  | None => RCat (re_pow r n) (RStar r)
  | Some m' => RCat (re_pow r n) (re_pow (re_opt r) (m' - n))
  end.

(* one nesting level under construction: finished alternatives, current concatenation (reversed) *)
Record frame := Fr { fr_alts : list re; fr_cat : list re }.
Definition fr0 : frame := Fr [] [].
Definition cat_of (rs : list re) : re := fold_left (fun acc r => RCat r acc) rs REps.   (* rs is reversed *)
Definition close_frame (f : frame) : re :=
  fold_left (fun acc r => RAlt r acc) (fr_alts f) (cat_of (fr_cat f)).
Definition push_atom (f : frame) (r : re) : frame := Fr (fr_alts f) (r :: fr_cat f).

Definition max_repeat : N := 64%N.

(* quantifier following an atom: returns the quantified atom and the rest; lazy/possessive
   suffixes (a second ? or +) are outside the subset *)
Definition parse_quant (fuel : nat) (a : re) (inp : list N) : option (re * list N) :=
  let no_suffix (r : re) (t : list N) : option (re * list N) :=
    match t with
    | c :: _ => if N.eqb c (cN "?") || N.eqb c (cN "+") || N.eqb c (cN "*") || N.eqb c (cN "{") then None else Some (r, t)
    | [] => Some (r, t)
    end in
  match inp with
  | c :: t =>
      if N.eqb c (cN "*") then no_suffix (RStar a) t
      else if N.eqb c (cN "+") then no_suffix (re_plus a) t
      else if N.eqb c (cN "?") then no_suffix (re_opt a) t
      else if N.eqb c (cN "{") then
        match parse_num fuel t 0%N false with
        | Some (n, t1) =>
            if N.ltb max_repeat n then None else
            match t1 with
            | c1 :: t2 =>
                if N.eqb c1 (cN "}") then no_suffix (re_rep a (N.to_nat n) (Some (N.to_nat n))) t2
                else if N.eqb c1 (cN ",") then
                  match t2 with
                  | c2 :: t3 =>
                      if N.eqb c2 (cN "}") then no_suffix (re_rep a (N.to_nat n) None) t3
                      else
                        match parse_num fuel t2 0%N false with
                        | Some (m, t4) =>
                            if N.ltb max_repeat m || N.ltb m n then None else
                            match t4 with
                            | c4 :: t5 => if N.eqb c4 (cN "}") then no_suffix (re_rep a (N.to_nat n) (Some (N.to_nat m))) t5 else None
                            | [] => None
                            end
                        | None => None
                        end
                  | [] => None
                  end
                else None
            | [] => None
            end
        | None => None
        end
      else Some (a, inp)
  | [] => Some (a, inp)
  end.

(* main loop; `fuel` bounds the number of steps (every step consumes input) *)
Fixpoint parse_loop (anch : bool) (fuel : nat) (inp : list N) (stk : list frame) (cur : frame) : option re :=
  match fuel with
  | O => None
  | S f =>
      let atom (a : re) (rest : list N) : option re :=
        match parse_quant f a rest with
        | Some (qa, rest') => parse_loop anch f rest' stk (push_atom cur qa)
        | None => None
        end in
      match inp with
      | [] =>
          match stk with
          | [] =>
              (* ^a|b$ means (^a)|(b$): anchors combined with a top-level alternation are outside the subset *)
              match fr_alts cur with
              | [] => Some (close_frame cur)
              | _ => if anch then None else Some (close_frame cur)
              end
          | _ => None
          end
      | c :: t =>
          if N.eqb c (cN "(") then
            match t with
            | q :: _ => if N.eqb q (cN "?") then None else parse_loop anch f t (cur :: stk) fr0
            | [] => None
            end
          else if N.eqb c (cN ")") then
            match stk with
            | parent :: stk' =>
                match parse_quant f (close_frame cur) t with
                | Some (qa, rest') => parse_loop anch f rest' stk' (push_atom parent qa)
                | None => None
                end
            | [] => None
            end
          else if N.eqb c (cN "|") then
            parse_loop anch f t stk (Fr (cat_of (fr_cat cur) :: fr_alts cur) [])
          else if N.eqb c (cN ".") then atom (RChar cs_dot) t
          else if N.eqb c (cN "[") then
            match t with
            | n :: t' =>
                let neg := N.eqb n (cN "^") in
                match parse_class f (if neg then t' else t) [] true with
                | Some (rs, rest) => atom (RChar (CS neg rs)) rest
                | None => None
                end
            | [] => None
            end
          else if N.eqb c (cN "\") then
            match t with
            | e :: t' =>
                match esc_ranges e with
                | Some rs => atom (RChar (CS false rs)) t'
                | None => None
                end
            | [] => None
            end
          else if is_meta c then None          (* ^ $ inside, stray quantifier, ] { } *)
          else atom (RChar (CS false [(c, c)])) t
      end
  end.

Definition strip_last_dollar (l : list N) : bool * list N :=
  match rev l with
  | c :: r =>
      if N.eqb c (cN "$") then
        (* an escaped dollar \$ is a literal *)
        match r with
        | b :: _ => if N.eqb b (cN "\") then (false, l) else (true, rev r)
        | [] => (true, [])
        end
      else (false, l)
  | [] => (false, l)
  end.

Definition parse_pattern (s : string) : option pat :=
  let cps := code_points s in
  let '(lft, body0) :=
    match cps with
    | c :: t => if N.eqb c (cN "^") then (true, t) else (false, cps)
    | [] => (false, cps)
    end in
  let '(rgt, body) := strip_last_dollar body0 in
  match parse_loop (lft || rgt) (S (S (List.length body))) body [] fr0 with
  | Some r => Some (Pat lft r rgt)
  | None => None
  end.

(* smoke tests (executable only) *)
Definition test_match (p s : string) : option bool :=
  match parse_pattern p with Some q => Some (pat_matchb q (code_points s)) | None => None end.
