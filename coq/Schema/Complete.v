(* Schema/Complete.v — completeness of the validator with respect to the
   declarative semantics: every derivation of Valid (Invalid) is found by
   `validate` with enough fuel, and with any larger amount.  Together with
   Schema/Theory.v:  Valid E S j  <->  exists fuel, validate E fuel S j = Some true. *)
From Coq Require Import ZArith QArith List String Ascii Bool NArith Lia.
From GSP Require Import Base.Prelude Schema.Json Schema.Regex Schema.Model Schema.Spec
  Schema.ThRegex Schema.ThJson Schema.Theory Schema.Decide Schema.Fuel.
Import ListNotations.
Open Scope list_scope.

(* ---- unfolding equations at the level of validate ---- *)
Lemma v_props : forall E f ps addl j,
  validate E f (SProps ps addl) j =
  match j with JObj o => props3 (validate E f) ps addl o | _ => Some true end.
Proof. intros E f ps addl j. destruct f; reflexivity. Qed.
Lemma v_items : forall E f p r j,
  validate E f (SItems p r) j =
  match j with JArr xs => items3 (validate E f) r p xs | _ => Some true end.
Proof. intros E f p r j. destruct f; reflexivity. Qed.
Lemma v_allOf : forall E f l j, validate E f (SAllOf l) j = all3 (map (fun s => validate E f s j) l).
Proof. intros E f l j. destruct f; reflexivity. Qed.
Lemma v_anyOf : forall E f l j, validate E f (SAnyOf l) j = any3 (map (fun s => validate E f s j) l).
Proof. intros E f l j. destruct f; reflexivity. Qed.
Lemma v_oneOf : forall E f l j, validate E f (SOneOf l) j = one3 (map (fun s => validate E f s j) l).
Proof. intros E f l j. destruct f; reflexivity. Qed.
Lemma v_not : forall E f s j, validate E f (SNot s) j = not3 (validate E f s j).
Proof. intros E f s j. destruct f; reflexivity. Qed.
Lemma v_ref : forall E f t j,
  validate E (S f) (SRef t) j = match jassoc t E with Some S' => validate E f S' j | None => None end.
Proof. reflexivity. Qed.

(* ---- converses of the three-valued lemmas ---- *)
Lemma one3_true_conv : forall {A} (f : A -> option bool) l i x,
  nth_error l i = Some x -> f x = Some true ->
  (forall k y, nth_error l k = Some y -> k <> i -> f y = Some false) ->
  one3 (map f l) = Some true.
Proof.
  intros A f l. induction l as [| h t IH]; intros i x Hi Hx Hoth.
  - destruct i; discriminate.
  - simpl. destruct i as [| i]; simpl in Hi.
    + inversion Hi; subst h. rewrite Hx. rewrite map_map. apply all3_true.
      intros y Hin. apply not3_true. apply In_nth_error in Hin. destruct Hin as [k Hk].
      apply (Hoth (S k) y); [exact Hk | discriminate].
    + rewrite (Hoth 0%nat h eq_refl) by discriminate.
      apply (IH i x Hi Hx). intros k y Hk Hne. apply (Hoth (S k) y Hk). lia.
Qed.

Lemma one3_false_conv_all : forall {A} (f : A -> option bool) l,
  (forall x, In x l -> f x = Some false) -> one3 (map f l) = Some false.
Proof.
  intros A f l. induction l as [| h t IH]; intros H; simpl; [reflexivity |].
  rewrite (H h) by (left; reflexivity). apply IH. intros x Hin. apply H. right. exact Hin.
Qed.

Lemma any3_true_in : forall {A} (f : A -> option bool) l x, In x l -> f x = Some true -> any3 (map f l) = Some true.
Proof. intros A f l x Hin Hx. apply any3_true. eauto. Qed.

Lemma one3_false_conv_two : forall {A} (f : A -> option bool) l i k x y,
  (i < k)%nat -> nth_error l i = Some x -> nth_error l k = Some y ->
  f x = Some true -> f y = Some true -> one3 (map f l) = Some false.
Proof.
  intros A f l. induction l as [| h t IH]; intros i k x y Hlt Hi Hk Hx Hy.
  - destruct i; discriminate.
  - simpl. destruct k as [| k]; [lia |]. simpl in Hk.
    destruct i as [| i]; simpl in Hi.
    + inversion Hi; subst h. rewrite Hx. rewrite map_map. apply all3_false.
      exists y. split; [eapply nth_error_In; eauto | rewrite Hy; reflexivity].
    + assert (Hrec : one3 (map f t) = Some false) by (apply (IH i k x y); auto; lia).
      destruct (f h) as [[|]|].
      * rewrite map_map. apply all3_false. exists y. split; [eapply nth_error_In; eauto | rewrite Hy; reflexivity].
      * exact Hrec.
      * rewrite Hrec. rewrite (any3_true_in f t y); [reflexivity | eapply nth_error_In; eauto | exact Hy].
Qed.

Lemma items3_true_conv : forall (vs : schema -> json -> option bool) rest prefix xs,
  (forall i p x, nth_error prefix i = Some p -> nth_error xs i = Some x -> vs p x = Some true) ->
  (forall r i x, rest = Some r -> nth_error xs i = Some x -> (List.length prefix <= i)%nat -> vs r x = Some true) ->
  items3 vs rest prefix xs = Some true.
Proof.
  intros vs rest prefix. induction prefix as [| p ps IH]; intros xs H1 H2; simpl.
  - destruct rest as [r |]; [| reflexivity]. apply all3_true. intros x Hin.
    apply In_nth_error in Hin. destruct Hin as [i Hi]. apply (H2 r i x eq_refl Hi). simpl. lia.
  - destruct xs as [| x xs]; [reflexivity |]. apply and3_true. split.
    + apply (H1 0%nat p x); reflexivity.
    + apply IH.
      * intros i p' x' Hp Hx. apply (H1 (S i) p' x'); assumption.
      * intros r i x' Hr Hx Hlen. apply (H2 r (S i) x' Hr Hx). simpl. lia.
Qed.

Lemma items3_false_conv_p : forall (vs : schema -> json -> option bool) rest prefix xs i p x,
  nth_error prefix i = Some p -> nth_error xs i = Some x -> vs p x = Some false ->
  items3 vs rest prefix xs = Some false.
Proof.
  intros vs rest prefix. induction prefix as [| q ps IH]; intros xs i p x Hp Hx Hv.
  - destruct i; discriminate.
  - destruct xs as [| y xs]; [destruct i; discriminate |]. simpl. apply and3_false.
    destruct i as [| i]; simpl in *.
    + inversion Hp; inversion Hx; subst. left. exact Hv.
    + right. eapply IH; eauto.
Qed.

Lemma items3_false_conv_r : forall (vs : schema -> json -> option bool) r prefix xs i x,
  nth_error xs i = Some x -> (List.length prefix <= i)%nat -> vs r x = Some false ->
  items3 vs (Some r) prefix xs = Some false.
Proof.
  intros vs r prefix. induction prefix as [| q ps IH]; intros xs i x Hx Hlen Hv; simpl.
  - apply all3_false. exists x. split; [eapply nth_error_In; eauto | exact Hv].
  - destruct xs as [| y xs]; [destruct i; discriminate |].
    destruct i as [| i]; simpl in *; [lia |].
    apply and3_false. right. apply (IH xs i x Hx); [lia | exact Hv].
Qed.

(* ---- finitely many fuel bounds have a common bound ---- *)
Lemma list_bound : forall {A} (Q : nat -> A -> Prop) (l : list A),
  (forall x, In x l -> exists f, forall f', (f <= f')%nat -> Q f' x) ->
  exists F, forall f', (F <= f')%nat -> forall x, In x l -> Q f' x.
Proof.
  intros A Q l. induction l as [| h t IH]; intros H.
  - exists 0%nat. intros f' _ x [].
  - destruct (H h (or_introl eq_refl)) as [fh Hh].
    destruct (IH (fun x Hin => H x (or_intror Hin))) as [ft Ht].
    exists (Nat.max fh ft). intros f' Hf x [<- | Hin].
    + apply Hh. lia.
    + apply Ht; [lia | exact Hin].
Qed.

Definition EvT (E : env) (S : schema) (j : json) : Prop :=
  exists f, forall f', (f <= f')%nat -> validate E f' S j = Some true.
Definition EvF (E : env) (S : schema) (j : json) : Prop :=
  exists f, forall f', (f <= f')%nat -> validate E f' S j = Some false.

(* leaves: no subschema, no $ref -> defined at every fuel, and then decided *)
Definition is_leaf (S : schema) : bool :=
  match S with
  | SProps _ _ | SItems _ _ | SAllOf _ | SAnyOf _ | SOneOf _ | SNot _ | SRef _ => false
  | _ => true
  end.

Lemma leaf_bounded : forall E f S, is_leaf S = true -> ref_bounded E f S = true.
Proof. intros E f S H. destruct S; try discriminate; destruct f; reflexivity. Qed.

Lemma leaf_valid : forall E S j, is_leaf S = true -> Valid E S j -> EvT E S j.
Proof.
  intros E S j Hl Hv. exists 0%nat. intros f' _.
  destruct (validate E f' S j) as [b |] eqn:Ev.
  - destruct b; [reflexivity |].
    exfalso. apply (proj2 (validate_decides E f' S j false Ev)) in Hv. discriminate.
  - exfalso. eapply bounded_defined; [apply leaf_bounded; exact Hl | exact Ev].
Qed.

Lemma leaf_invalid : forall E S j, is_leaf S = true -> Invalid E S j -> EvF E S j.
Proof.
  intros E S j Hl Hi. exists 0%nat. intros f' _.
  destruct (validate E f' S j) as [b |] eqn:Ev.
  - destruct b; [| reflexivity].
    exfalso. apply (proj2 (validate_refutes E f' S j true Ev)) in Hi. discriminate.
  - exfalso. eapply bounded_defined; [apply leaf_bounded; exact Hl | exact Ev].
Qed.

Theorem complete_both : forall E,
  (forall S j, Valid E S j -> EvT E S j) /\ (forall S j, Invalid E S j -> EvF E S j).
Proof.
  intros E.
  apply (Valid_Invalid_ind E (fun S j => EvT E S j) (fun S j => EvF E S j)).
  (* ---------------- Valid ---------------- *)
  - intros j. apply leaf_valid; [reflexivity | constructor].
  - intros ts t j Hin Ht. apply leaf_valid; [reflexivity | econstructor; eauto].
  - intros vs v j Hin Hv. apply leaf_valid; [reflexivity | econstructor; eauto].
  - intros v j Hv. apply leaf_valid; [reflexivity | constructor; assumption].
  - intros q j H. apply leaf_valid; [reflexivity | constructor; assumption].
  - intros q j H. apply leaf_valid; [reflexivity | constructor; assumption].
  - intros q j H. apply leaf_valid; [reflexivity | constructor; assumption].
  - intros q j H. apply leaf_valid; [reflexivity | constructor; assumption].
  - intros q j H. apply leaf_valid; [reflexivity | constructor; assumption].
  - intros n j H. apply leaf_valid; [reflexivity | constructor; assumption].
  - intros n j H. apply leaf_valid; [reflexivity | constructor; assumption].
  - intros n j H. apply leaf_valid; [reflexivity | constructor; assumption].
  - intros n j H. apply leaf_valid; [reflexivity | constructor; assumption].
  - intros p j H. apply leaf_valid; [reflexivity | constructor; assumption].
  - intros ks j H. apply leaf_valid; [reflexivity | constructor; assumption].
  - (* V_props *)
    intros ps addl j _ IH1 _ IH2.
    destruct j as [| | | | | o]; try (exists 0%nat; intros f' _; rewrite v_props; reflexivity).
    destruct (list_bound (fun f' (ks : string * schema) =>
                forall v, jassoc (fst ks) o = Some v -> validate E f' (snd ks) v = Some true) ps) as [F1 HF1].
    { intros [k s] Hin. simpl. destruct (jassoc k o) as [v |] eqn:Ev.
      - destruct (IH1 o k s v eq_refl Hin Ev) as [f Hf]. exists f. intros f' Hle v' Hv'. inversion Hv'; subst. auto.
      - exists 0%nat. intros f' _ v' Hv'. discriminate. }
    destruct (list_bound (fun f' (kv : string * json) =>
                forall a, addl = Some a -> jmem (fst kv) ps = false -> validate E f' a (snd kv) = Some true) o) as [F2 HF2].
    { intros [k v] Hin. simpl. destruct addl as [a |].
      - destruct (jmem k ps) eqn:Em.
        + exists 0%nat. intros f' _ a' _ Hm. discriminate.
        + destruct (IH2 o a k v eq_refl eq_refl Hin Em) as [f Hf]. exists f. intros f' Hle a' Ha' _. inversion Ha'; subst. auto.
      - exists 0%nat. intros f' _ a' Ha'. discriminate. }
    exists (Nat.max F1 F2). intros f' Hle. rewrite v_props. unfold props3. apply and3_true. split.
    + apply all3_true. intros [k s] Hin. simpl. destruct (jassoc k o) as [v |] eqn:Ev; [| reflexivity].
      apply (HF1 f' ltac:(lia) (k, s) Hin v Ev).
    + destruct addl as [a |]; [| reflexivity]. apply all3_true. intros [k v] Hin. simpl.
      destruct (jmem k ps) eqn:Em; [reflexivity |].
      apply (HF2 f' ltac:(lia) (k, v) Hin a eq_refl Em).
  - (* V_items *)
    intros prefix rest j _ IH1 _ IH2.
    destruct j as [| | | | xs |]; try (exists 0%nat; intros f' _; rewrite v_items; reflexivity).
    destruct (list_bound (fun f' (i : nat) =>
                forall p x, nth_error prefix i = Some p -> nth_error xs i = Some x -> validate E f' p x = Some true)
                (seq 0 (List.length xs))) as [F1 HF1].
    { intros i _. destruct (nth_error prefix i) as [p |] eqn:Ep; destruct (nth_error xs i) as [x |] eqn:Ex;
        try (exists 0%nat; intros f' _ p' x' Hp' Hx'; discriminate).
      destruct (IH1 xs i p x eq_refl Ep Ex) as [f Hf]. exists f. intros f' Hle p' x' Hp' Hx'.
      inversion Hp'; inversion Hx'; subst. auto. }
    destruct (list_bound (fun f' (i : nat) =>
                forall r x, rest = Some r -> nth_error xs i = Some x -> (List.length prefix <= i)%nat ->
                            validate E f' r x = Some true)
                (seq 0 (List.length xs))) as [F2 HF2].
    { intros i _. destruct rest as [r |]; [| exists 0%nat; intros f' _ r' x' Hr'; discriminate].
      destruct (nth_error xs i) as [x |] eqn:Ex; [| exists 0%nat; intros f' _ r' x' _ Hx'; discriminate].
      destruct (le_lt_dec (List.length prefix) i) as [Hle | Hgt].
      - destruct (IH2 xs r i x eq_refl eq_refl Ex Hle) as [f Hf]. exists f. intros f' Hf' r' x' Hr' Hx' _.
        inversion Hr'; inversion Hx'; subst. auto.
      - exists 0%nat. intros f' _ r' x' _ _ Hl. lia. }
    exists (Nat.max F1 F2). intros f' Hle. rewrite v_items. apply items3_true_conv.
    + intros i p x Hp Hx. apply (HF1 f' ltac:(lia) i); auto.
      apply in_seq. split; [lia |]. simpl. apply nth_error_Some. congruence.
    + intros r i x Hr Hx Hlen. apply (HF2 f' ltac:(lia) i); auto.
      apply in_seq. split; [lia |]. simpl. apply nth_error_Some. congruence.
  - (* V_allOf *)
    intros l j _ IH.
    destruct (list_bound (fun f' s => validate E f' s j = Some true) l IH) as [F HF].
    exists F. intros f' Hle. rewrite v_allOf. apply all3_true. intros s Hin. apply HF; assumption.
  - (* V_anyOf *)
    intros l s j Hin _ [f Hf]. exists f. intros f' Hle. rewrite v_anyOf. apply any3_true. exists s. auto.
  - (* V_oneOf *)
    intros l i s j Hi _ [f Hf] _ IHoth.
    destruct (list_bound (fun f' (k : nat) =>
                forall t, nth_error l k = Some t -> k <> i -> validate E f' t j = Some false)
                (seq 0 (List.length l))) as [F HF].
    { intros k _. destruct (nth_error l k) as [t |] eqn:Ek; [| exists 0%nat; intros f' _ t' Ht'; discriminate].
      destruct (Nat.eq_dec k i) as [-> | Hne]; [exists 0%nat; intros f' _ t' _ Hn; congruence |].
      destruct (IHoth k t Ek Hne) as [f0 Hf0]. exists f0. intros f' Hle t' Ht' _. inversion Ht'; subst. auto. }
    exists (Nat.max f F). intros f' Hle. rewrite v_oneOf.
    apply (one3_true_conv (fun s => validate E f' s j) l i s Hi); [apply Hf; lia |].
    intros k y Hk Hne. apply (HF f' ltac:(lia) k); auto.
    apply in_seq. split; [lia |]. simpl. apply nth_error_Some. congruence.
  - (* V_not *)
    intros s j _ [f Hf]. exists f. intros f' Hle. rewrite v_not. apply not3_true. auto.
  - (* V_ref *)
    intros t S j Ht _ [f Hf]. exists (Datatypes.S f). intros f' Hle.
    destruct f' as [| f']; [lia |]. rewrite v_ref, Ht. apply Hf. lia.
  (* ---------------- Invalid ---------------- *)
  - intros j. apply leaf_invalid; [reflexivity | constructor].
  - intros ts j H. apply leaf_invalid; [reflexivity | constructor; assumption].
  - intros vs j H. apply leaf_invalid; [reflexivity | constructor; assumption].
  - intros v j H. apply leaf_invalid; [reflexivity | constructor; assumption].
  - intros q x H. apply leaf_invalid; [reflexivity | constructor; assumption].
  - intros q x H. apply leaf_invalid; [reflexivity | constructor; assumption].
  - intros q x H. apply leaf_invalid; [reflexivity | constructor; assumption].
  - intros q x H. apply leaf_invalid; [reflexivity | constructor; assumption].
  - intros q x H. apply leaf_invalid; [reflexivity | constructor; assumption].
  - intros n s H. apply leaf_invalid; [reflexivity | constructor; assumption].
  - intros n s H. apply leaf_invalid; [reflexivity | constructor; assumption].
  - intros n l H. apply leaf_invalid; [reflexivity | constructor; assumption].
  - intros n l H. apply leaf_invalid; [reflexivity | constructor; assumption].
  - intros p s H. apply leaf_invalid; [reflexivity | constructor; assumption].
  - intros ks o k Hin Hn. apply leaf_invalid; [reflexivity | econstructor; eauto].
  - (* I_props_p *)
    intros ps addl o k s v Hin Hv _ [f Hf]. exists f. intros f' Hle. rewrite v_props. unfold props3.
    apply and3_false. left. apply all3_false. exists (k, s). split; [exact Hin |]. simpl. rewrite Hv. auto.
  - (* I_props_a *)
    intros ps a o k v Hin Hm _ [f Hf]. exists f. intros f' Hle. rewrite v_props. unfold props3.
    apply and3_false. right. apply all3_false. exists (k, v). split; [exact Hin |]. simpl. rewrite Hm. auto.
  - (* I_items_p *)
    intros prefix rest xs i p x Hp Hx _ [f Hf]. exists f. intros f' Hle. rewrite v_items.
    eapply items3_false_conv_p; eauto.
  - (* I_items_r *)
    intros prefix r xs i x Hx Hlen _ [f Hf]. exists f. intros f' Hle. rewrite v_items.
    eapply items3_false_conv_r; eauto.
  - (* I_allOf *)
    intros l s j Hin _ [f Hf]. exists f. intros f' Hle. rewrite v_allOf. apply all3_false. exists s. auto.
  - (* I_anyOf *)
    intros l j _ IH.
    destruct (list_bound (fun f' s => validate E f' s j = Some false) l IH) as [F HF].
    exists F. intros f' Hle. rewrite v_anyOf. apply any3_false. intros s Hin. apply HF; assumption.
  - (* I_oneOf_none *)
    intros l j _ IH.
    destruct (list_bound (fun f' s => validate E f' s j = Some false) l IH) as [F HF].
    exists F. intros f' Hle. rewrite v_oneOf. apply one3_false_conv_all. intros s Hin. apply HF; assumption.
  - (* I_oneOf_two *)
    intros l i k s t j Hne Hi Hk _ [f1 Hf1] _ [f2 Hf2].
    exists (Nat.max f1 f2). intros f' Hle. rewrite v_oneOf.
    destruct (lt_eq_lt_dec i k) as [[Hlt | Heq] | Hgt]; [| contradiction |].
    + apply (one3_false_conv_two (fun s => validate E f' s j) l i k s t Hlt Hi Hk); [apply Hf1 | apply Hf2]; lia.
    + apply (one3_false_conv_two (fun s => validate E f' s j) l k i t s Hgt Hk Hi); [apply Hf2 | apply Hf1]; lia.
  - (* I_not *)
    intros s j _ [f Hf]. exists f. intros f' Hle. rewrite v_not. apply not3_false. auto.
  - (* I_ref *)
    intros t S j Ht _ [f Hf]. exists (Datatypes.S f). intros f' Hle.
    destruct f' as [| f']; [lia |]. rewrite v_ref, Ht. apply Hf. lia.
Qed.

(* the specification is exactly "validate says so with enough fuel" *)
Theorem valid_iff_validate : forall E S j,
  Valid E S j <-> exists fuel, validate E fuel S j = Some true.
Proof.
  intros E S j. split.
  - intros H. destruct (proj1 (complete_both E) S j H) as [f Hf]. exists f. apply Hf. lia.
  - intros [f Hf]. apply (proj1 (validate_sound E f S j)). exact Hf.
Qed.

Theorem invalid_iff_validate : forall E S j,
  Invalid E S j <-> exists fuel, validate E fuel S j = Some false.
Proof.
  intros E S j. split.
  - intros H. destruct (proj2 (complete_both E) S j H) as [f Hf]. exists f. apply Hf. lia.
  - intros [f Hf]. apply (proj2 (validate_sound E f S j)). exact Hf.
Qed.

(* more fuel never changes a definite verdict *)
Theorem validate_monotone : forall E f S j b,
  validate E f S j = Some b -> exists F, forall f', (F <= f')%nat -> validate E f' S j = Some b.
Proof.
  intros E f S j b H. destruct b.
  - apply (proj1 (complete_both E)). apply (proj1 (validate_sound E f S j)). exact H.
  - apply (proj2 (complete_both E)). apply (proj2 (validate_sound E f S j)). exact H.
Qed.
