(* Schema/JsonText.v — JSON text (RFC 8259) -> JSON value, executable.
   `parse_json s = Some v` iff the byte string s is exactly ONE JSON value
   (surrounded by optional whitespace); anything else — truncated text, a second
   value, trailing '}' / ']' / ',' / letters, leading zeros, bare words, control
   characters in strings, bad escapes — is None.  This is the well-formedness gate
   of /repo/json/validator.go (json.Valid(schema), json.Unmarshal(data)).
   Numbers become exact rationals.  No proofs here. *)
From Coq Require Import ZArith QArith List String Ascii Bool NArith.
From GSP Require Import Base.Prelude Schema.Json.
Import ListNotations.
Local Open Scope list_scope.
Local Open Scope N_scope.

Definition is_ws (c : N) : bool := N.eqb c 32 || N.eqb c 9 || N.eqb c 10 || N.eqb c 13.
Fixpoint skip_ws (l : list N) : list N :=
  match l with
  | c :: t => if is_ws c then skip_ws t else l
  | [] => []
  end.
Definition all_ws (l : list N) : bool := forallb is_ws l.

Definition is_dig (c : N) : bool := N.leb 48 c && N.leb c 57.

(* leading digits of l and the rest *)
Fixpoint take_digits (l : list N) : list N * list N :=
  match l with
  | c :: t => if is_dig c then let '(d, r) := take_digits t in (c :: d, r) else ([], l)
  | [] => ([], [])
  end.
Definition digits_val (d : list N) : Z := fold_left (fun acc c => (acc * 10 + Z.of_N (c - 48))%Z) d 0%Z.

(* number = [-] int [frac] [exp]; int = 0 or a non-zero digit followed by digits;
   frac = . digits (at least one); exp = e/E [+/-] digits (at least one) *)
Definition parse_number (l : list N) : option (Q * list N) :=
  let '(neg, l1) := match l with c :: t => if N.eqb c 45 then (true, t) else (false, l) | [] => (false, l) end in
  let '(ip, l2) := take_digits l1 in
  match ip with
  | [] => None
  | d0 :: more =>
      if N.eqb d0 48 && negb (match more with [] => true | _ => false end) then None   (* leading zero *)
      else
        let frac_res :=
          match l2 with
          | c :: t =>
              if N.eqb c 46 then
                let '(fp, l3) := take_digits t in
                match fp with [] => None | _ => Some (fp, l3) end
              else Some ([], l2)
          | [] => Some ([], l2)
          end in
        match frac_res with
        | None => None
        | Some (fp, l3) =>
            let exp_res :=
              match l3 with
              | c :: t =>
                  if N.eqb c 101 || N.eqb c 69 then
                    let '(eneg, t1) :=
                      match t with
                      | s :: t' => if N.eqb s 45 then (true, t') else if N.eqb s 43 then (false, t') else (false, t)
                      | [] => (false, t)
                      end in
                    let '(ep, l4) := take_digits t1 in
                    match ep with
                    | [] => None
                    | _ => Some ((if eneg then - digits_val ep else digits_val ep)%Z, l4)
                    end
                  else Some (0%Z, l3)
              | [] => Some (0%Z, l3)
              end in
            match exp_res with
            | None => None
            | Some (e, l4) =>
                let m := digits_val (ip ++ fp) in
                let m := if neg then (- m)%Z else m in
                let e10 := (e - Z.of_nat (List.length fp))%Z in
                let q := if (0 <=? e10)%Z then Qmake (m * Z.pow 10 e10) 1
                         else Qmake m (Z.to_pos (Z.pow 10 (- e10))) in
                Some (q, l4)
            end
        end
  end.

Definition hex_val (c : N) : option N :=
  if is_dig c then Some (c - 48)
  else if N.leb 97 c && N.leb c 102 then Some (c - 87)
  else if N.leb 65 c && N.leb c 70 then Some (c - 55)
  else None.
Definition hex4 (a b c d : N) : option N :=
  match hex_val a, hex_val b, hex_val c, hex_val d with
  | Some x, Some y, Some z, Some w => Some (x * 4096 + y * 256 + z * 16 + w)
  | _, _, _, _ => None
  end.

Definition utf8_enc (cp : N) : list N :=
  if N.ltb cp 128 then [cp]
  else if N.ltb cp 2048 then [192 + cp / 64; 128 + cp mod 64]
  else if N.ltb cp 65536 then [224 + cp / 4096; 128 + (cp / 64) mod 64; 128 + cp mod 64]
  else [240 + cp / 262144; 128 + (cp / 4096) mod 64; 128 + (cp / 64) mod 64; 128 + cp mod 64].

Definition is_hi_surr (cp : N) : bool := N.leb 55296 cp && N.leb cp 56319.
Definition is_lo_surr (cp : N) : bool := N.leb 56320 cp && N.leb cp 57343.

(* after the opening quote: bytes of the string (UTF-8) and the rest after the closing quote *)
Fixpoint parse_string (fuel : nat) (l : list N) (acc : list N) : option (list N * list N) :=
  match fuel with
  | O => None
  | S f =>
      match l with
      | [] => None
      | c :: t =>
          if N.eqb c 34 then Some (rev acc, t)
          else if N.ltb c 32 then None
          else if N.eqb c 92 then
            match t with
            | e :: t1 =>
                if N.eqb e 34 then parse_string f t1 (34 :: acc)
                else if N.eqb e 92 then parse_string f t1 (92 :: acc)
                else if N.eqb e 47 then parse_string f t1 (47 :: acc)
                else if N.eqb e 98 then parse_string f t1 (8 :: acc)
                else if N.eqb e 102 then parse_string f t1 (12 :: acc)
                else if N.eqb e 110 then parse_string f t1 (10 :: acc)
                else if N.eqb e 114 then parse_string f t1 (13 :: acc)
                else if N.eqb e 116 then parse_string f t1 (9 :: acc)
                else if N.eqb e 117 then
                  match t1 with
                  | a :: b :: c2 :: d :: t2 =>
                      match hex4 a b c2 d with
                      | None => None
                      | Some cp =>
                          if is_hi_surr cp then
                            match t2 with
                            | b1 :: u1 :: a' :: b' :: c' :: d' :: t3 =>
                                match (if N.eqb b1 92 && N.eqb u1 117 then hex4 a' b' c' d' else None) with
                                | Some lo =>
                                    if is_lo_surr lo
                                    then parse_string f t3 (rev (utf8_enc (65536 + (cp - 55296) * 1024 + (lo - 56320))) ++ acc)
                                    else parse_string f t2 (rev (utf8_enc ufffd) ++ acc)
                                | None => parse_string f t2 (rev (utf8_enc ufffd) ++ acc)
                                end
                            | _ => parse_string f t2 (rev (utf8_enc ufffd) ++ acc)
                            end
                          else if is_lo_surr cp then parse_string f t2 (rev (utf8_enc ufffd) ++ acc)
                          else parse_string f t2 (rev (utf8_enc cp) ++ acc)
                      end
                  | _ => None
                  end
                else None
            | [] => None
            end
          else parse_string f t (c :: acc)
      end
  end.

Definition bytes_to_string (l : list N) : string := str_of_list (map ascii_of_N l).

Definition lit_true : list N := [116; 114; 117; 101].
Definition lit_false : list N := [102; 97; 108; 115; 101].
Definition lit_null : list N := [110; 117; 108; 108].
Fixpoint strip_prefix (p l : list N) : option (list N) :=
  match p, l with
  | [], _ => Some l
  | a :: p', b :: l' => if N.eqb a b then strip_prefix p' l' else None
  | _ :: _, [] => None
  end.

(* value / array elements / object members; every call consumes input, fuel bounds the calls *)
Fixpoint parse_value (fuel : nat) (l : list N) {struct fuel} : option (json * list N) :=
  match fuel with
  | O => None
  | S f =>
      match skip_ws l with
      | [] => None
      | c :: t =>
          if N.eqb c 123 then                                   (* { *)
            match skip_ws t with
            | c1 :: t1 => if N.eqb c1 125 then Some (JObj [], t1) else parse_members f (c1 :: t1) []
            | [] => None
            end
          else if N.eqb c 91 then                               (* [ *)
            match skip_ws t with
            | c1 :: t1 => if N.eqb c1 93 then Some (JArr [], t1) else parse_elems f (c1 :: t1) []
            | [] => None
            end
          else if N.eqb c 34 then
            match parse_string (S (List.length t)) t [] with
            | Some (s, r) => Some (JStr (bytes_to_string s), r)
            | None => None
            end
          else if N.eqb c 116 then match strip_prefix lit_true (c :: t) with Some r => Some (JBool true, r) | None => None end
          else if N.eqb c 102 then match strip_prefix lit_false (c :: t) with Some r => Some (JBool false, r) | None => None end
          else if N.eqb c 110 then match strip_prefix lit_null (c :: t) with Some r => Some (JNull, r) | None => None end
          else match parse_number (c :: t) with Some (q, r) => Some (JNum q, r) | None => None end
      end
  end
with parse_elems (fuel : nat) (l : list N) (acc : list json) {struct fuel} : option (json * list N) :=
  match fuel with
  | O => None
  | S f =>
      match parse_value f l with
      | Some (v, r) =>
          match skip_ws r with
          | c :: t =>
              if N.eqb c 44 then parse_elems f t (v :: acc)
              else if N.eqb c 93 then Some (JArr (rev (v :: acc)), t)
              else None
          | [] => None
          end
      | None => None
      end
  end
with parse_members (fuel : nat) (l : list N) (acc : list (string * json)) {struct fuel} : option (json * list N) :=
  match fuel with
  | O => None
  | S f =>
      match skip_ws l with
      | c :: t =>
          if N.eqb c 34 then
            match parse_string (S (List.length t)) t [] with
            | Some (k, r) =>
                match skip_ws r with
                | c1 :: t1 =>
                    if N.eqb c1 58 then
                      match parse_value f t1 with
                      | Some (v, r2) =>
                          match skip_ws r2 with
                          | c2 :: t2 =>
                              if N.eqb c2 44 then parse_members f t2 ((bytes_to_string k, v) :: acc)
                              else if N.eqb c2 125 then Some (JObj (rev ((bytes_to_string k, v) :: acc)), t2)
                              else None
                          | [] => None
                          end
                      | None => None
                      end
                    else None
                | [] => None
                end
            | None => None
            end
          else None
      | [] => None
      end
  end.

Definition string_bytes (s : string) : list N := map byte_n (str_to_list s).

(* exactly one JSON value *)
Definition parse_bytes (l : list N) : option json :=
  match parse_value (S (S (2 * List.length l))) l with
  | Some (v, rest) => if all_ws rest then Some v else None
  | None => None
  end.
Definition parse_json (s : string) : option json := parse_bytes (string_bytes s).
