(* Schema/Total.v — the model of ValidateData is total: for every input it answers
   Ok or a classified error, never Panic / Diverge (so "reported as an error" in
   the glue theorems is never vacuous). *)
From Coq Require Import ZArith QArith List String Ascii Bool NArith Lia.
From GSP Require Import Base.Prelude Schema.Json Schema.Regex Schema.Model Schema.Spec
  Schema.ThJson.
Import ListNotations.
Open Scope list_scope.

Definition np {A} (r : res A) : Prop :=
  match r with Panic _ => False | Diverge => False | _ => True end.

Lemma np_E_schema : forall A, np (@E_schema A).
Proof. intros; exact I. Qed.
Lemma np_E_unsupported : forall A, np (@E_unsupported A).
Proof. intros; exact I. Qed.
#[local] Hint Resolve np_E_schema np_E_unsupported : core.

Lemma seq_res_np : forall {A} (l : list (res A)), (forall r, In r l -> np r) -> np (seq_res l).
Proof.
  intros A l. induction l as [| r t IH]; intros H; simpl; [exact I |].
  assert (Hr : np r) by (apply H; left; reflexivity).
  assert (Ht : np (seq_res t)) by (apply IH; intros r' Hin; apply H; right; exact Hin).
  destruct r; simpl in *; try contradiction; auto.
  destruct (seq_res t); simpl in *; auto.
Qed.

Lemma res_map_np : forall {A B} (f : A -> B) r, np r -> np (res_map f r).
Proof. intros A B f r H. destruct r; simpl in *; auto. Qed.

Lemma map_np : forall {A B} (f : A -> res B) l, (forall x, In x l -> np (f x)) -> np (seq_res (map f l)).
Proof.
  intros A B f l H. apply seq_res_np. intros r Hin. apply in_map_iff in Hin.
  destruct Hin as (x & <- & Hx). apply H. exact Hx.
Qed.

Lemma lift_schema_np : forall r f, np r -> np (lift_schema r f).
Proof. intros r f H. destruct r; simpl in *; auto. Qed.
Lemma lift_list_np : forall r f, np r -> np (lift_list r f).
Proof. intros r f H. destruct r; simpl in *; auto. Qed.

Ltac npd := first [exact I | apply np_E_schema | apply np_E_unsupported | assumption].

Lemma compile_type_np : forall v, np (compile_type v).
Proof.
  intros v. unfold compile_type. destruct v; try npd.
  - destruct (type_of_name s); npd.
  - destruct (opt_all (map as_string l)) as [names |]; try npd.
    destruct (opt_all (map type_of_name names)) as [ts |]; try npd.
    destruct (negb (Nat.eqb (List.length ts) 0) && jtype_nodup ts); npd.
Qed.

Lemma compile_count_np : forall mk v, np (compile_count mk v).
Proof. intros mk v. unfold compile_count. destruct (as_count v); npd. Qed.
Lemma compile_num_np : forall mk v, np (compile_num mk v).
Proof. intros mk v. unfold compile_num. destruct v; npd. Qed.
Lemma compile_ref_np : forall d rid v, np (compile_ref d rid v).
Proof.
  intros d rid v. unfold compile_ref. destruct v as [| | | s0 | |]; try npd.
  cbv zeta. generalize (localize_ref rid s0). intros s.
  destruct (String.eqb s "#"); try npd.
  destruct (str_prefix ref_prefix_defs s) as [name |].
  - destruct (plain_name name); npd.
  - destruct (str_prefix ref_prefix_defs2020 s) as [name |]; try npd.
    destruct d; try npd. destruct (plain_name name); npd.
Qed.

(* the values `rec` is applied to while compiling member value v *)
Definition sub_of (v x : json) : Prop :=
  x = v \/ (exists l, v = JArr l /\ In x l) \/ (exists o k, v = JObj o /\ In (k, x) o).

Ltac np_match :=
  repeat match goal with
         | |- np (match ?r with Ok _ => _ | Err _ => _ | Panic _ => _ | Diverge => _ end) =>
             let H := fresh "Hnp" in
             assert (H : np r); [| destruct r; simpl in H |- *; try contradiction; auto]
         end.

Lemma compile_member_np : forall rec d rid root k v,
  (forall x, sub_of v x -> np (rec x)) -> np (compile_member rec d rid root k v).
Proof.
  intros rec d rid root k v Hrec.
  assert (Hsub : np (rec v)) by (apply Hrec; left; reflexivity).
  assert (Hlist : forall ne,
            np (match v with
                | JArr l => if ne && Nat.eqb (List.length l) 0 then E_schema else seq_res (map rec l)
                | _ => E_schema
                end)).
  { intros ne. destruct v; simpl; auto.
    destruct (ne && Nat.eqb (List.length l) 0); simpl; auto.
    apply map_np. intros x Hin. apply Hrec. right. left. eauto. }
  assert (Hmap : np (match v with
                     | JObj o => seq_res (map (fun kv => res_map (fun s => (fst kv, s)) (rec (snd kv))) o)
                     | _ => E_schema
                     end)).
  { destruct v; simpl; auto. apply map_np. intros [k' x] Hin. apply res_map_np. apply Hrec.
    right. right. simpl. eauto. }
  unfold compile_member.
  repeat match goal with
         | |- np (if ?b then _ else _) => destruct b
         end;
    try apply compile_ref_np; try apply compile_count_np; try apply compile_num_np;
    try (apply lift_schema_np; first [apply compile_type_np | exact Hsub]);
    try (apply lift_list_np; apply Hlist);
    try (simpl; exact I);
    try (np_match; first [exact Hmap | exact I]);
    try (destruct d; np_match; first [exact Hmap | exact I | simpl; exact I]);
    try (destruct v; simpl; auto; fail).
  all: try (destruct v; simpl; auto;
            repeat match goal with
                   | |- np (match ?x with _ => _ end) => destruct x; simpl; auto
                   | |- np (if ?b then _ else _) => destruct b; simpl; auto
                   end; fail).
  all: try (destruct d; simpl; auto;
            first [apply lift_schema_np; exact Hsub | apply lift_list_np; apply Hlist]).
  all: try (destruct v; simpl; auto;
            first [ destruct d; simpl; auto; apply lift_list_np; apply (Hlist false)
                  | apply lift_schema_np; exact Hsub ]).
Qed.

Lemma sub_of_size : forall v x, sub_of v x -> (jsize x <= jsize v)%nat.
Proof.
  intros v x [-> | [(l & -> & Hin) | (o & k & -> & Hin)]].
  - lia.
  - simpl. pose proof (list_sum_in jsize l x Hin). lia.
  - simpl. pose proof (list_sum_in (fun kv => jsize (snd kv)) o (k, x) Hin) as H. simpl in H. lia.
Qed.

Lemma compile_node_np : forall d rid root j, np (compile_node d rid root j).
Proof.
  intros d rid.
  assert (H : forall n root j, (jsize j <= n)%nat -> np (compile_node d rid root j)).
  { induction n as [| n IH]; intros root j Hsz.
    - destruct j; simpl in Hsz; lia.
    - destruct j as [| b | q | s | l | o]; try exact I.
      + destruct b; exact I.
      + change (compile_node d rid root (JObj o)) with
          (match seq_res (map (fun kv => compile_member (fun x => res_map fst (compile_node d rid false x)) d rid root (fst kv) (snd kv)) o) with
           | Ok cks => let l := List.concat cks in Ok (assemble d l, l)
           | Err e => Err e
           | Panic w => Panic w
           | Diverge => Diverge
           end).
        assert (Hs : np (seq_res (map (fun kv => compile_member (fun x => res_map fst (compile_node d rid false x)) d rid root (fst kv) (snd kv)) o))).
        { apply map_np. intros [k v] Hin. simpl. apply compile_member_np.
          intros x Hx. apply res_map_np. apply IH.
          pose proof (sub_of_size v x Hx) as H1.
          pose proof (list_sum_in (fun kv => jsize (snd kv)) o (k, v) Hin) as H2. simpl in H2, Hsz. lia. }
        destruct (seq_res _); simpl in Hs |- *; auto. }
  intros root j. apply (H (jsize j)). lia.
Qed.

Lemma detect_draft_np : forall j, np (detect_draft j).
Proof.
  intros j. unfold detect_draft. destruct j; try exact I.
  destruct (jassoc "$schema" l) as [[| | | u | |] |]; try exact I.
  destruct (draft_of_url u); exact I.
Qed.

Lemma compile_root_np : forall j, np (compile_root j).
Proof.
  intros j. unfold compile_root.
  pose proof (detect_draft_np j) as Hd. destruct (detect_draft j) as [d | | |]; simpl in Hd; try contradiction; try exact I.
  pose proof (compile_node_np d (root_id j) true j) as Hc. destruct (compile_node d (root_id j) true j) as [[sc cks] | | |]; simpl in Hc; try contradiction; try exact I.
  cbv zeta.
  repeat match goal with |- np (if ?b then _ else _) => destruct b; [exact I |] end.
  exact I.
Qed.

(* ValidateData (model): always Ok or a classified error *)
Theorem validate_data_total : forall fuel_of data schema,
  validate_data_with fuel_of data schema = Ok tt \/ exists t, validate_data_with fuel_of data schema = Err t.
Proof.
  intros fuel_of data schema. unfold validate_data_with.
  destruct schema as [sj |]; [| right; eexists; reflexivity].
  destruct data as [j |]; [| right; eexists; reflexivity].
  destruct j; try (right; eexists; reflexivity).
  pose proof (compile_root_np sj) as Hc.
  destruct (compile_root sj) as [c | e | |]; simpl in Hc; try contradiction.
  - destruct (validate (c_env c) (fuel_of c (JObj l)) (c_root c) (JObj l)) as [[|] |];
      [left; reflexivity | right; eexists; reflexivity | right; eexists; reflexivity].
  - right; eexists; reflexivity.
Qed.
