(* Schema/ThJson.v — the executable number tests and JSON equality decide their
   declarative counterparts. *)
From Coq Require Import ZArith QArith List String Ascii Bool NArith Lia.
From GSP Require Import Base.Prelude Schema.Json Schema.Regex Schema.Model Schema.Spec.
Import ListNotations.
Open Scope list_scope.

(* ---- numbers ---- *)
Lemma Qlt_bool_iff : forall a b, Qlt_bool a b = true <-> a < b.
Proof.
  intros a b. unfold Qlt_bool. rewrite negb_true_iff. split.
  - intros H. apply Qnot_le_lt. intros Hle. apply Qle_bool_iff in Hle. congruence.
  - intros H. destruct (Qle_bool b a) eqn:E; [| reflexivity].
    apply Qle_bool_iff in E. exfalso. eapply Qlt_not_le; eauto.
Qed.

Lemma Qle_bool_false_iff : forall a b, Qle_bool a b = false <-> ~ a <= b.
Proof.
  intros a b. split.
  - intros H Hle. apply Qle_bool_iff in Hle. congruence.
  - intros H. destruct (Qle_bool a b) eqn:E; [| reflexivity].
    apply Qle_bool_iff in E. contradiction.
Qed.

Lemma q_is_int_spec : forall q, q_is_int q = true <-> IsInt q.
Proof.
  intros [n d]. unfold q_is_int, IsInt, Qeq, inject_Z. simpl. rewrite Z.eqb_eq. split.
  - intros H. exists (n / Zpos d)%Z.
    rewrite Z.mul_1_r.
    pose proof (Z.div_mod n (Zpos d)) as Hdm. rewrite H in Hdm. lia.
  - intros [z Hz]. rewrite Z.mul_1_r in Hz. subst n. apply Z.mod_mul. discriminate.
Qed.

Lemma q_multiple_of_spec : forall x m, q_multiple_of x m = true <-> MultipleOf x m.
Proof.
  intros x m. unfold q_multiple_of, MultipleOf.
  destruct (Qeq_bool m 0) eqn:Em.
  - apply Qeq_bool_iff in Em. rewrite Qeq_bool_iff. split.
    + intros Hx. exists 0%Z. rewrite Hx, Em. reflexivity.
    + intros [z Hz]. rewrite Hz, Em. apply Qmult_0_r.
  - assert (Hm : ~ m == 0).
    { intros H. apply Qeq_bool_iff in H. congruence. }
    rewrite q_is_int_spec. unfold IsInt. split.
    + intros [z Hz]. exists z. rewrite <- Hz. rewrite Qmult_comm. symmetry. apply Qmult_div_r. exact Hm.
    + intros [z Hz]. exists z. rewrite Hz. apply Qdiv_mult_l. exact Hm.
Qed.

(* ---- induction on JSON values (nested lists) ---- *)
Fixpoint jsize (j : json) : nat :=
  match j with
  | JArr l => S (list_sum (map jsize l))
  | JObj o => S (list_sum (map (fun kv => jsize (snd kv)) o))
  | _ => 1
  end.

Lemma list_sum_in : forall {A} (f : A -> nat) l x, In x l -> (f x <= list_sum (map f l))%nat.
Proof.
  intros A f l x. induction l as [| h t IH]; simpl; intros Hin; [contradiction |].
  destruct Hin as [-> | Hin]; [lia |]. specialize (IH Hin). lia.
Qed.

Lemma json_ind' : forall P : json -> Prop,
  P JNull -> (forall b, P (JBool b)) -> (forall q, P (JNum q)) -> (forall s, P (JStr s)) ->
  (forall l, (forall x, In x l -> P x) -> P (JArr l)) ->
  (forall o, (forall k v, In (k, v) o -> P v) -> P (JObj o)) ->
  forall j, P j.
Proof.
  intros P Hn Hb Hq Hs Ha Ho.
  assert (H : forall n j, (jsize j <= n)%nat -> P j).
  { induction n as [| n IH]; intros j Hsz.
    - destruct j; simpl in Hsz; lia.
    - destruct j as [| b | q | s | l | o]; auto.
      + apply Ha. intros x Hin. apply IH. simpl in Hsz.
        pose proof (list_sum_in jsize l x Hin). lia.
      + apply Ho. intros k v Hin. apply IH. simpl in Hsz.
        pose proof (list_sum_in (fun kv => jsize (snd kv)) o (k, v) Hin). simpl in H. lia. }
  intros j. apply (H (jsize j)). lia.
Qed.

(* ---- lookups ---- *)
Lemma jassoc_in : forall {V} k (l : list (string * V)) v, jassoc k l = Some v -> In (k, v) l.
Proof.
  intros V k l. induction l as [| [a b] t IH]; simpl; intros v H; [discriminate |].
  destruct (String.eqb a k) eqn:E.
  - apply String.eqb_eq in E. inversion H; subst. auto.
  - auto.
Qed.

Lemma in_jassoc_some : forall {V} k (l : list (string * V)) v, In (k, v) l -> exists w, jassoc k l = Some w.
Proof.
  intros V k l. induction l as [| [a b] t IH]; simpl; intros v H; [contradiction |].
  destruct (String.eqb a k) eqn:E; [eauto |].
  destruct H as [H | H].
  - inversion H; subst. rewrite String.eqb_refl in E. discriminate.
  - eauto.
Qed.

Lemma jmem_true_iff : forall {V} k (l : list (string * V)), jmem k l = true <-> exists v, jassoc k l = Some v.
Proof.
  intros V k l. unfold jmem. destruct (jassoc k l); split; eauto; try discriminate.
  intros [v H]. discriminate.
Qed.

Lemma jmem_false_iff : forall {V} k (l : list (string * V)), jmem k l = false <-> jassoc k l = None.
Proof.
  intros V k l. unfold jmem. destruct (jassoc k l); split; auto; discriminate.
Qed.

(* ---- JSON equality ---- *)
Definition arr_eqb (eqb : json -> json -> bool) : list json -> list json -> bool :=
  fix go (xs ys : list json) {struct xs} : bool :=
    match xs, ys with
    | [], [] => true
    | x :: xs', y :: ys' => eqb x y && go xs' ys'
    | _, _ => false
    end.

Definition obj_sub (eqb : json -> json -> bool) (yo : list (string * json)) : list (string * json) -> bool :=
  fix go (l : list (string * json)) {struct l} : bool :=
    match l with
    | [] => true
    | (k, v) :: l' => match jassoc k yo with Some w => eqb v w | None => false end && go l'
    end.

Lemma json_eqb_arr : forall xs ys, json_eqb (JArr xs) (JArr ys) = arr_eqb json_eqb xs ys.
Proof. reflexivity. Qed.
Lemma json_eqb_obj : forall xo yo,
  json_eqb (JObj xo) (JObj yo) = obj_sub json_eqb yo xo && forallb (fun kv => jmem (fst kv) xo) yo.
Proof. reflexivity. Qed.

Lemma arr_eqb_spec : forall (eqb : json -> json -> bool) (R : json -> json -> Prop) xs,
  (forall x, In x xs -> forall y, eqb x y = true <-> R x y) ->
  forall ys, arr_eqb eqb xs ys = true <->
    (List.length xs = List.length ys /\
     forall i x y, nth_error xs i = Some x -> nth_error ys i = Some y -> R x y).
Proof.
  intros eqb R xs. induction xs as [| x xs IH]; intros Hx ys; destruct ys as [| y ys]; simpl.
  - split; [intros _; split; [reflexivity |] | reflexivity].
    intros i x y H. destruct i; discriminate.
  - split; [discriminate | intros [H _]; discriminate].
  - split; [discriminate | intros [H _]; discriminate].
  - rewrite andb_true_iff. rewrite (Hx x (or_introl eq_refl)).
    rewrite IH by (intros x' Hin; apply Hx; right; exact Hin).
    split.
    + intros [Hxy [Hlen Hnth]]. split; [congruence |].
      intros i a b Ha Hb. destruct i as [| i]; simpl in *.
      * inversion Ha; inversion Hb; subst. exact Hxy.
      * eapply Hnth; eauto.
    + intros [Hlen Hnth]. split; [apply (Hnth 0%nat); reflexivity |].
      split; [congruence |]. intros i a b Ha Hb. apply (Hnth (S i)); assumption.
Qed.

Lemma obj_sub_spec : forall (eqb : json -> json -> bool) (R : json -> json -> Prop) yo xo,
  (forall k v, In (k, v) xo -> forall w, eqb v w = true <-> R v w) ->
  obj_sub eqb yo xo = true <->
    ((forall k v, In (k, v) xo -> exists w, jassoc k yo = Some w) /\
     (forall k v w, In (k, v) xo -> jassoc k yo = Some w -> R v w)).
Proof.
  intros eqb R yo xo. induction xo as [| [k v] xo IH]; intros Hx; simpl.
  - split; [intros _; split; intros; contradiction | reflexivity].
  - rewrite andb_true_iff. rewrite IH by (intros k' v' Hin; apply (Hx k' v'); right; exact Hin).
    split.
    + intros [Hkv [Hex Hall]]. destruct (jassoc k yo) as [w |] eqn:Ek; [| discriminate].
      apply (Hx k v (or_introl eq_refl)) in Hkv.
      split.
      * intros k' v' [Heq | Hin]; [inversion Heq; subst; eauto | eauto].
      * intros k' v' w' [Heq | Hin] Hw; [inversion Heq; subst; rewrite Ek in Hw; inversion Hw; subst; exact Hkv | eauto].
    + intros [Hex Hall]. split.
      * destruct (Hex k v (or_introl eq_refl)) as [w Hw]. rewrite Hw.
        apply (Hx k v (or_introl eq_refl)). apply (Hall k v w); auto.
      * split; intros; eauto.
Qed.

Theorem json_eqb_spec : forall a b, json_eqb a b = true <-> JEq a b.
Proof.
  intros a. induction a as [| x | x | x | xs IH | xo IH] using json_ind'; intros b.
  - destruct b; simpl; split; intros H; try discriminate; try constructor; inversion H.
  - destruct b as [| y | | | |]; simpl; split; intros H; try discriminate; try (inversion H; fail).
    + apply Bool.eqb_prop in H. subst. constructor.
    + inversion H; subst. apply Bool.eqb_reflx.
  - destruct b as [| | y | | |]; simpl; split; intros H; try discriminate; try (inversion H; fail).
    + constructor. apply Qeq_bool_iff. exact H.
    + inversion H; subst. apply Qeq_bool_iff. assumption.
  - destruct b as [| | | y | |]; simpl; split; intros H; try discriminate; try (inversion H; fail).
    + apply String.eqb_eq in H. subst. constructor.
    + inversion H; subst. apply String.eqb_refl.
  - destruct b as [| | | | ys |]; try (simpl; split; intros H; [discriminate | inversion H]).
    rewrite json_eqb_arr. rewrite (arr_eqb_spec json_eqb JEq xs IH). split.
    + intros [Hl Hn]. constructor; assumption.
    + intros H. inversion H; subst. auto.
  - destruct b as [| | | | | yo]; try (simpl; split; intros H; [discriminate | inversion H]).
    rewrite json_eqb_obj, andb_true_iff.
    rewrite (obj_sub_spec json_eqb JEq yo xo) by (intros k v Hin w; apply (IH k v Hin)).
    rewrite forallb_forall. split.
    + intros [[Hex Hall] Hback]. constructor; auto.
      intros k w Hin. apply jmem_true_iff. apply (Hback (k, w)). exact Hin.
    + intros H. inversion H; subst. split; [split; assumption |].
      intros [k w] Hin. simpl. apply jmem_true_iff. eauto.
Qed.

Lemma json_eqb_false_iff : forall a b, json_eqb a b = false <-> ~ JEq a b.
Proof.
  intros a b. rewrite <- json_eqb_spec. destruct (json_eqb a b); split; congruence.
Qed.
