(* Schema/Examples.v — non-vacuity: concrete schemas and instances on which the
   hypotheses of the theorems hold and the verdicts are the expected ones. *)
From Coq Require Import ZArith QArith List String Ascii Bool NArith.
From GSP Require Import Base.Prelude Schema.Json Schema.Regex Schema.Model Schema.Spec
  Schema.ThRegex Schema.ThJson Schema.Theory Schema.Decide.
Import ListNotations.
Open Scope list_scope.
Open Scope string_scope.

Definition qz (z : Z) : json := JNum (inject_Z z).

(* {"$schema": draft-07, "$metadata": {...}, "type":"object",
    "properties": {"age": {"$ref":"#/definitions/age","minimum":1000},
                   "name": {"type":"string","pattern":"^[a-z]+$","maxLength":5},
                   "next": {"$ref":"#"}},
    "required":["age"], "additionalProperties": false,
    "definitions": {"age": {"type":"integer","minimum":0,"maximum":150}}} *)
Definition ex_schema (schema_url : string) : json :=
  JObj [("$schema", JStr schema_url);
        ("$metadata", JObj [("type", qz 5)]);
        ("type", JStr "object");
        ("properties", JObj [
           ("age", JObj [("$ref", JStr "#/definitions/age"); ("minimum", qz 1000)]);
           ("name", JObj [("type", JStr "string"); ("pattern", JStr "^[a-z]+$"); ("maxLength", qz 5)]);
           ("next", JObj [("$ref", JStr "#")])]);
        ("required", JArr [JStr "age"]);
        ("additionalProperties", JBool false);
        ("definitions", JObj [("age", JObj [("type", JStr "integer"); ("minimum", qz 0); ("maximum", qz 150)])])].

Definition d7_url := "http://json-schema.org/draft-07/schema#".
Definition d2020_url := "https://json-schema.org/draft/2020-12/schema".

Definition inst_ok : json := JObj [("age", qz 42); ("name", JStr "bob"); ("next", JObj [("age", JNum (3 # 1))])].
Definition inst_bad_deep : json := JObj [("age", qz 42); ("next", JObj [("age", JNum (7 # 2))])].

Definition run (url : string) (data : json) : res unit := validate_data (Some data) (Some (ex_schema url)).

(* draft-07 ignores the sibling "minimum": 1000 of $ref; 2020-12 applies it *)
Example ex_d7_valid : run d7_url inst_ok = Ok tt.
Proof. vm_compute. reflexivity. Qed.
Example ex_d2020_invalid : run d2020_url inst_ok = Err "invalid".
Proof. vm_compute. reflexivity. Qed.
Example ex_d7_deep_violation : run d7_url inst_bad_deep = Err "invalid".
Proof. vm_compute. reflexivity. Qed.
Example ex_non_object : run d7_url (JArr []) = Err "data-type".
Proof. vm_compute. reflexivity. Qed.
Example ex_null : run d7_url JNull = Err "data-null".
Proof. vm_compute. reflexivity. Qed.
Example ex_bad_schema :
  validate_data (Some inst_ok) (Some (JObj [("type", JStr "objekt")])) = Err "schema-compile".
Proof. vm_compute. reflexivity. Qed.
Example ex_ref_loop :
  validate_data (Some inst_ok) (Some (JObj [("$ref", JStr "#")])) = Err "schema-loop".
Proof. vm_compute. reflexivity. Qed.

(* the hypotheses of the decision theorem are satisfiable: the compiled example has a
   definite verdict, hence (by validate_decides) a derivation of Valid *)
Example ex_valid_derivation :
  exists c, compile_root (ex_schema d7_url) = Ok c /\ Valid (c_env c) (c_root c) inst_ok.
Proof.
  destruct (compile_root (ex_schema d7_url)) as [c | | |] eqn:Ec; try (vm_compute in Ec; discriminate).
  exists c. split; [reflexivity |].
  apply (validate_decides (c_env c) default_fuel (c_root c) inst_ok true); [| reflexivity].
  revert Ec. vm_compute. intros Ec. inversion Ec. subst c. vm_compute. reflexivity.
Qed.

Example ex_invalid_derivation :
  exists c, compile_root (ex_schema d7_url) = Ok c /\ Invalid (c_env c) (c_root c) inst_bad_deep.
Proof.
  destruct (compile_root (ex_schema d7_url)) as [c | | |] eqn:Ec; try (vm_compute in Ec; discriminate).
  exists c. split; [reflexivity |].
  apply (validate_refutes (c_env c) default_fuel (c_root c) inst_bad_deep false); [| reflexivity].
  revert Ec. vm_compute. intros Ec. inversion Ec. subst c. vm_compute. reflexivity.
Qed.

(* removing "$metadata" changes nothing (instance of unknown_member_irrelevant) *)
Example ex_metadata_ignored :
  compile_root (ex_schema d7_url) =
  compile_root (JObj (("$schema", JStr d7_url) :: List.tl (List.tl (match ex_schema d7_url with JObj o => o | _ => [] end)))).
Proof.
  exact (unknown_member_irrelevant [("$schema", JStr d7_url)] _ "$metadata" (JObj [("type", qz 5)]) eq_refl).
Qed.

(* search semantics of pattern *)
Example ex_pattern_search :
  match parse_pattern "b+c" with
  | Some p => PatMatches p (code_points "aabbcd") /\ ~ PatMatches p (code_points "acb")
  | None => False
  end.
Proof.
  destruct (parse_pattern "b+c") as [p |] eqn:Ep; [| vm_compute in Ep; discriminate].
  split.
  - apply pat_matchb_spec. revert Ep. vm_compute. intros Ep. inversion Ep. reflexivity.
  - intros H. apply pat_matchb_spec in H. revert Ep H. vm_compute. intros Ep. inversion Ep. discriminate.
Qed.

(* JSON equality: 1.0 = 1, member order is irrelevant, array order is not *)
Example ex_jeq :
  JEq (JObj [("a", JNum (2 # 2)); ("b", JArr [JNull])]) (JObj [("b", JArr [JNull]); ("a", qz 1)]) /\
  ~ JEq (JArr [qz 1; qz 2]) (JArr [qz 2; qz 1]).
Proof.
  split.
  - apply json_eqb_spec. vm_compute. reflexivity.
  - intros H. apply json_eqb_spec in H. vm_compute in H. discriminate.
Qed.
