(* Schema/Examples.v — non-vacuity: concrete schemas and instances on which the
   hypotheses of the theorems hold and the verdicts are the expected ones. *)
From Coq Require Import ZArith QArith List String Ascii Bool NArith.
From GSP Require Import Base.Prelude Schema.Json Schema.Regex Schema.Model Schema.Spec
  Schema.ThRegex Schema.ThJson Schema.Theory Schema.Decide Schema.Fuel Schema.Complete.
Import ListNotations.
Open Scope list_scope.
Open Scope string_scope.

Definition qz (z : Z) : json := JNum (inject_Z z).

(* {"$schema": draft-07, "$metadata": {...}, "type":"object",
    "properties": {"age": {"$ref":"#/definitions/age","minimum":1000},
                   "name": {"type":"string","pattern":"^[a-z]+$","maxLength":5},
                   "next": {"$ref":"#"}},
    "required":["age"], "additionalProperties": false,
    "definitions": {"age": {"type":"integer","minimum":0,"maximum":150}}} *)
Definition ex_schema (schema_url : string) : json :=
  JObj [("$schema", JStr schema_url);
        ("$metadata", JObj [("type", qz 5)]);
        ("type", JStr "object");
        ("properties", JObj [
           ("age", JObj [("$ref", JStr "#/definitions/age"); ("minimum", qz 1000)]);
           ("name", JObj [("type", JStr "string"); ("pattern", JStr "^[a-z]+$"); ("maxLength", qz 5)]);
           ("next", JObj [("$ref", JStr "#")])]);
        ("required", JArr [JStr "age"]);
        ("additionalProperties", JBool false);
        ("definitions", JObj [("age", JObj [("type", JStr "integer"); ("minimum", qz 0); ("maximum", qz 150)])])].

Definition d7_url := "http://json-schema.org/draft-07/schema#".
Definition d2020_url := "https://json-schema.org/draft/2020-12/schema".

Definition inst_ok : json := JObj [("age", qz 42); ("name", JStr "bob"); ("next", JObj [("age", JNum (3 # 1))])].
Definition inst_bad_deep : json := JObj [("age", qz 42); ("next", JObj [("age", JNum (7 # 2))])].

Definition run (url : string) (data : json) : res unit := validate_data (Some data) (Some (ex_schema url)).

(* draft-07 ignores the sibling "minimum": 1000 of $ref; 2020-12 applies it *)
Example ex_d7_valid : run d7_url inst_ok = Ok tt.
Proof. vm_compute. reflexivity. Qed.
Example ex_d2020_invalid : run d2020_url inst_ok = Err "invalid".
Proof. vm_compute. reflexivity. Qed.
Example ex_d7_deep_violation : run d7_url inst_bad_deep = Err "invalid".
Proof. vm_compute. reflexivity. Qed.
Example ex_non_object : run d7_url (JArr []) = Err "data-type".
Proof. vm_compute. reflexivity. Qed.
Example ex_null : run d7_url JNull = Err "data-null".
Proof. vm_compute. reflexivity. Qed.
Example ex_bad_schema :
  validate_data (Some inst_ok) (Some (JObj [("type", JStr "objekt")])) = Err "schema-compile".
Proof. vm_compute. reflexivity. Qed.
Example ex_ref_loop :
  validate_data (Some inst_ok) (Some (JObj [("$ref", JStr "#")])) = Err "schema-loop".
Proof. vm_compute. reflexivity. Qed.

(* the hypotheses of the decision theorem are satisfiable: the compiled example has a
   definite verdict, hence (by validate_decides) a derivation of Valid *)
Definition ex_compiled : compiled :=
  match compile_root (ex_schema d7_url) with
  | Ok c => c
  | _ => {| c_draft := D7; c_root := SFalse; c_env := [] |}
  end.

Example ex_compiles : compile_root (ex_schema d7_url) = Ok ex_compiled.
Proof. vm_compute. reflexivity. Qed.

Example ex_valid_derivation : Valid (c_env ex_compiled) (c_root ex_compiled) inst_ok.
Proof.
  apply (validate_decides (c_env ex_compiled) default_fuel (c_root ex_compiled) inst_ok true); [| reflexivity].
  vm_compute. reflexivity.
Qed.

Example ex_invalid_derivation : Invalid (c_env ex_compiled) (c_root ex_compiled) inst_bad_deep.
Proof.
  apply (validate_refutes (c_env ex_compiled) default_fuel (c_root ex_compiled) inst_bad_deep false); [| reflexivity].
  vm_compute. reflexivity.
Qed.

(* too little fuel gives no verdict (the instance nests one $ref "#" inside another) *)
Example ex_fuel_too_small :
  validate (c_env ex_compiled) 1 (c_root ex_compiled) inst_ok = None /\
  validate (c_env ex_compiled) 2 (c_root ex_compiled) inst_ok = Some true.
Proof. split; vm_compute; reflexivity. Qed.

(* a schema with a chain of two $refs is bounded by fuel 2 (not by 1), so validate is
   a total two-valued decision on it; the recursive example above is not bounded *)
Definition ex_chain : json :=
  JObj [("properties", JObj [("a", JObj [("$ref", JStr "#/$defs/x")])]);
        ("$defs", JObj [("x", JObj [("$ref", JStr "#/$defs/y")]);
                        ("y", JObj [("type", JStr "integer"); ("multipleOf", JNum (3 # 2))])])].
Definition ex_chain_c : compiled :=
  match compile_root ex_chain with Ok c => c | _ => {| c_draft := D7; c_root := SFalse; c_env := [] |} end.
Example ex_chain_compiles : compile_root ex_chain = Ok ex_chain_c.
Proof. vm_compute. reflexivity. Qed.
Example ex_chain_bounded :
  ref_bounded (c_env ex_chain_c) 2 (c_root ex_chain_c) = true /\
  ref_bounded (c_env ex_chain_c) 1 (c_root ex_chain_c) = false /\
  ref_bounded (c_env ex_compiled) default_fuel (c_root ex_compiled) = false.
Proof. repeat split; vm_compute; reflexivity. Qed.
Example ex_chain_decided :
  Valid (c_env ex_chain_c) (c_root ex_chain_c) (JObj [("a", qz 3)]) /\
  ~ Valid (c_env ex_chain_c) (c_root ex_chain_c) (JObj [("a", qz 4)]).
Proof.
  split.
  - apply (proj1 (bounded_decides _ 2 _ _ (proj1 ex_chain_bounded))). vm_compute. reflexivity.
  - apply (proj2 (bounded_decides _ 2 _ _ (proj1 ex_chain_bounded))). vm_compute. reflexivity.
Qed.

(* removing "$metadata" changes nothing (instance of unknown_member_irrelevant) *)
Example ex_metadata_ignored :
  compile_root (ex_schema d7_url) =
  compile_root (JObj (("$schema", JStr d7_url) :: List.tl (List.tl (match ex_schema d7_url with JObj o => o | _ => [] end)))).
Proof.
  exact (unknown_member_irrelevant [("$schema", JStr d7_url)] _ "$metadata" (JObj [("type", qz 5)]) eq_refl).
Qed.

(* search semantics of pattern *)
Definition ex_pat : pat :=
  match parse_pattern "b+c" with Some p => p | None => Pat false REmpty false end.
Example ex_pattern_parses : parse_pattern "b+c" = Some ex_pat.
Proof. vm_compute. reflexivity. Qed.
Example ex_pattern_search :
  PatMatches ex_pat (code_points "aabbcd") /\ ~ PatMatches ex_pat (code_points "acb").
Proof.
  split.
  - apply pat_matchb_spec. vm_compute. reflexivity.
  - intros H. apply pat_matchb_spec in H. vm_compute in H. discriminate.
Qed.

(* JSON equality: 1.0 = 1, member order is irrelevant, array order is not *)
Example ex_jeq :
  JEq (JObj [("a", JNum (2 # 2)); ("b", JArr [JNull])]) (JObj [("b", JArr [JNull]); ("a", qz 1)]) /\
  ~ JEq (JArr [qz 1; qz 2]) (JArr [qz 2; qz 1]).
Proof.
  split.
  - apply json_eqb_spec. vm_compute. reflexivity.
  - intros H. apply json_eqb_spec in H. vm_compute in H. discriminate.
Qed.
