(* Schema/Decide.v — Valid and Invalid exclude each other; `validate` decides
   them whenever it returns a definite verdict; algebraic sanity laws; the
   wrapper model (ValidateData) and the irrelevance of unknown members. *)
From Coq Require Import ZArith QArith List String Ascii Bool NArith Lia.
From GSP Require Import Base.Prelude Schema.Json Schema.Regex Schema.Model Schema.Spec
  Schema.ThRegex Schema.ThJson Schema.Theory.
Import ListNotations.
Open Scope list_scope.

(* ------------------------------------------------------------------ *)
(* consistency *)

Ltac inv H := inversion H; subst; clear H.

Ltac same_ref :=
  match goal with
  | H1 : jassoc ?t ?E = Some _, H2 : jassoc ?t ?E = Some _ |- _ => rewrite H1 in H2; inv H2
  end.

Lemma valid_invalid_exclusive_both : forall E,
  (forall S j, Valid E S j -> Invalid E S j -> False) /\
  (forall S j, Invalid E S j -> Valid E S j -> False).
Proof.
  intros E.
  apply (Valid_Invalid_ind E
           (fun S j => Invalid E S j -> False)
           (fun S j => Valid E S j -> False)); intros;
    match goal with
    | H : ?J |- False =>
        match J with
        | Invalid _ _ _ => inv H
        | Valid _ _ _ => inv H
        end
    end; unfold not in *;
    try solve [eauto 8 using nth_error_In | same_ref; eauto].
  all: try solve [match goal with
         | Hk : forall o k, JObj _ = JObj o -> In k _ -> exists v, _, Hin : In _ _ |- _ =>
             destruct (Hk _ _ eq_refl Hin) as [? ?]; congruence
         end].
  all: try solve [match goal with
         | Hoth : forall k t, nth_error ?l k = Some t -> (k = ?i -> False) -> _,
           H1 : nth_error ?l ?a = Some _, H2 : nth_error ?l ?b = Some _, Hne : ?a = ?b -> False |- _ =>
             destruct (Nat.eq_dec a i) as [Heq | Hneq];
             [ subst a;
               first [ eapply (Hoth b); eauto; intro; subst; auto
                     | match goal with IH : Invalid _ _ _ -> False |- _ =>
                         apply IH; eapply (Hoth b); eauto; intro; subst; auto end ]
             | first [ eapply (Hoth a); eauto
                     | match goal with IH : Invalid _ _ _ -> False |- _ =>
                         apply IH; eapply (Hoth a); eauto end ] ]
         end].
  (* two valid members against "exactly the i0-th is valid": one of them is not the i0-th *)
  match goal with
  | Hne : ?i = ?k -> False, Hi : nth_error ?l ?i = Some ?s, Hk : nth_error ?l ?k = Some ?t,
    IHs : Invalid _ ?s _ -> False, IHt : Invalid _ ?t _ -> False,
    Hoth : forall k0 t0, nth_error ?l k0 = Some t0 -> (k0 = ?i0 -> False) -> Invalid _ t0 _ |- False =>
      destruct (Nat.eq_dec i i0) as [Heq | Hneq];
      [ subst i; apply IHt; apply (Hoth k t); [assumption |]; intros Hx; apply Hne; symmetry; exact Hx
      | apply IHs; apply (Hoth i s); assumption ]
  end.
Qed.

Theorem valid_invalid_exclusive : forall E S j, Valid E S j -> Invalid E S j -> False.
Proof. intros E. exact (proj1 (valid_invalid_exclusive_both E)). Qed.

(* ------------------------------------------------------------------ *)
(* validate decides Valid / Invalid whenever its fuel suffices *)

Theorem validate_decides : forall E fuel S j b,
  validate E fuel S j = Some b -> (b = true <-> Valid E S j).
Proof.
  intros E fuel S j b H. destruct (validate_sound E fuel S j) as [Ht Hf].
  destruct b.
  - split; [intros _; apply Ht; exact H | reflexivity].
  - split; [discriminate |].
    intros Hv. exfalso. apply (valid_invalid_exclusive E S j Hv). apply Hf. exact H.
Qed.

Theorem validate_refutes : forall E fuel S j b,
  validate E fuel S j = Some b -> (b = false <-> Invalid E S j).
Proof.
  intros E fuel S j b H. destruct (validate_sound E fuel S j) as [Ht Hf].
  destruct b.
  - split; [discriminate |].
    intros Hi. exfalso. apply (valid_invalid_exclusive E S j); [apply Ht; exact H | exact Hi].
  - split; [intros _; apply Hf; exact H | reflexivity].
Qed.

(* a definite verdict does not depend on the amount of fuel *)
Theorem validate_fuel_irrelevant : forall E f1 f2 S j b1 b2,
  validate E f1 S j = Some b1 -> validate E f2 S j = Some b2 -> b1 = b2.
Proof.
  intros E f1 f2 S j b1 b2 H1 H2.
  pose proof (validate_decides E f1 S j b1 H1) as D1.
  pose proof (validate_decides E f2 S j b2 H2) as D2.
  destruct b1, b2; auto.
  - assert (false = true) by (apply D2; apply D1; reflexivity). discriminate.
  - assert (false = true) by (apply D1; apply D2; reflexivity). discriminate.
Qed.

(* ------------------------------------------------------------------ *)
(* sanity laws *)

Lemma law_true : forall E j, Valid E STrue j.
Proof. intros. constructor. Qed.
Lemma law_false : forall E j, Invalid E SFalse j.
Proof. intros. constructor. Qed.
Lemma law_allOf_nil : forall E j, Valid E (SAllOf []) j.
Proof. intros. constructor. intros s []. Qed.
Lemma law_anyOf_nil : forall E j, Invalid E (SAnyOf []) j.
Proof. intros. constructor. intros s []. Qed.
Lemma law_oneOf_nil : forall E j, Invalid E (SOneOf []) j.
Proof. intros. apply I_oneOf_none. intros s []. Qed.
Lemma law_enum_nil : forall E j, Invalid E (SEnum []) j.
Proof. intros. constructor. intros v []. Qed.

Lemma law_not_not : forall E S j, Valid E (SNot (SNot S)) j <-> Valid E S j.
Proof.
  intros E S j. split.
  - intros H. inversion H; subst. inversion H1; subst. assumption.
  - intros H. constructor. constructor. exact H.
Qed.
Lemma law_not_not_inv : forall E S j, Invalid E (SNot (SNot S)) j <-> Invalid E S j.
Proof.
  intros E S j. split.
  - intros H. inversion H; subst. inversion H1; subst. assumption.
  - intros H. constructor. constructor. exact H.
Qed.

Lemma law_allOf_single : forall E S j, Valid E (SAllOf [S]) j <-> Valid E S j.
Proof.
  intros E S j. split.
  - intros H. inversion H; subst. apply H1. left. reflexivity.
  - intros H. constructor. intros s [<- | []]. exact H.
Qed.
Lemma law_anyOf_single : forall E S j, Valid E (SAnyOf [S]) j <-> Valid E S j.
Proof.
  intros E S j. split.
  - intros H. inversion H; subst. destruct H1 as [<- | []]. assumption.
  - intros H. econstructor; [left; reflexivity | exact H].
Qed.
Lemma law_oneOf_single : forall E S j, Valid E (SOneOf [S]) j <-> Valid E S j.
Proof.
  intros E S j. split.
  - intros H. inversion H; subst. destruct i as [| i]; simpl in H1.
    + inversion H1; subst. assumption.
    + destruct i; discriminate.
  - intros H. apply (V_oneOf E [S] 0%nat S j); [reflexivity | exact H |].
    intros k t Hk Hne. destruct k as [| k]; [congruence |]. destruct k; discriminate.
Qed.
Lemma law_allOf_app : forall E l1 l2 j,
  Valid E (SAllOf (l1 ++ l2)) j <-> Valid E (SAllOf l1) j /\ Valid E (SAllOf l2) j.
Proof.
  intros E l1 l2 j. split.
  - intros H. inversion H; subst. split; constructor; intros s Hin; apply H1; apply in_or_app; auto.
  - intros [H1 H2]. inversion H1; subst. inversion H2; subst. constructor.
    intros s Hin. apply in_app_or in Hin. destruct Hin; auto.
Qed.
Lemma law_anyOf_false : forall E l j, Valid E (SAnyOf (SFalse :: l)) j <-> Valid E (SAnyOf l) j.
Proof.
  intros E l j. split.
  - intros H. inversion H as [| | | | | | | | | | | | | | | | | | l0 s j0 Hin Hs | | |]; subst.
    destruct Hin as [<- | Hin].
    + inversion Hs.
    + econstructor; eauto.
  - intros H. inversion H as [| | | | | | | | | | | | | | | | | | l0 s j0 Hin Hs | | |]; subst.
    econstructor; [right; eassumption | assumption].
Qed.
(* draft-07: `{"$ref": r, ...siblings}` is `r` alone; 2020-12: the conjunction *)
Lemma law_ref_unfold : forall E t S j, jassoc t E = Some S -> (Valid E (SRef t) j <-> Valid E S j).
Proof.
  intros E t S j Ht. split.
  - intros H. inversion H; subst. rewrite Ht in H1. inversion H1; subst. assumption.
  - intros H. econstructor; eauto.
Qed.

(* ------------------------------------------------------------------ *)
(* the wrapper: /repo/json/validator.go and the processor facade *)

Theorem glue_schema_malformed : forall fuel_of data, validate_data_with fuel_of data None = Err "schema-json".
Proof. reflexivity. Qed.

Theorem glue_data_malformed : forall fuel_of sj, validate_data_with fuel_of None (Some sj) = Err "data-json".
Proof. reflexivity. Qed.

Theorem glue_data_not_object : forall fuel_of j sj,
  (forall o, j <> JObj o) ->
  validate_data_with fuel_of (Some j) (Some sj) = Err "data-null" \/
  validate_data_with fuel_of (Some j) (Some sj) = Err "data-type".
Proof.
  intros fuel_of j sj Hno. destruct j; simpl; auto. exfalso. eapply Hno; reflexivity.
Qed.

Theorem glue_schema_uncompilable : forall fuel_of o sj t,
  compile_root sj = Err t -> validate_data_with fuel_of (Some (JObj o)) (Some sj) = Err t.
Proof. intros fuel_of o sj t H. simpl. rewrite H. reflexivity. Qed.

Theorem glue_verdict : forall fuel_of o sj c,
  compile_root sj = Ok c ->
  validate (c_env c) (fuel_of c (JObj o)) (c_root c) (JObj o) <> None ->
  (validate_data_with fuel_of (Some (JObj o)) (Some sj) = Ok tt <-> Valid (c_env c) (c_root c) (JObj o)) /\
  (validate_data_with fuel_of (Some (JObj o)) (Some sj) = Err "invalid" <-> Invalid (c_env c) (c_root c) (JObj o)).
Proof.
  intros fuel_of o sj c Hc Hdef. simpl. rewrite Hc.
  destruct (validate (c_env c) (fuel_of c (JObj o)) (c_root c) (JObj o)) as [b |] eqn:Ev; [| congruence].
  pose proof (validate_decides _ _ _ _ _ Ev) as D. pose proof (validate_refutes _ _ _ _ _ Ev) as R.
  destruct b.
  - split; split; intros H.
    + apply D. reflexivity.
    + reflexivity.
    + discriminate.
    + exfalso. apply R in H. discriminate.
  - split; split; intros H.
    + discriminate.
    + apply D in H. discriminate.
    + apply R. reflexivity.
    + reflexivity.
Qed.

Theorem glue_processor : forall data schema,
  processor_validate_data false data schema = Err "validator-not-defined" /\
  processor_validate_data true data schema = validate_data data schema.
Proof. intros. split; reflexivity. Qed.

(* ------------------------------------------------------------------ *)
(* members no draft gives a meaning to (e.g. "$metadata") are ignored by the
   compiler, wherever they occur in a schema object and whatever their value *)

Lemma compile_member_unknown : forall rec d rid root k v,
  unknown_member k = true -> compile_member rec d rid root k v = Ok [].
Proof.
  intros rec d rid root k v H. unfold unknown_member in H. apply andb_true_iff in H. destruct H as [Hm Hu].
  apply negb_true_iff in Hm. apply negb_true_iff in Hu.
  unfold str_in, modelled_keywords in Hm. simpl in Hm.
  repeat match goal with
         | H : (_ || _)%bool = false |- _ => apply orb_false_elim in H; destruct H
         end.
  unfold compile_member.
  repeat match goal with
         | H : String.eqb k _ = false |- _ => rewrite H; clear H
         end.
  cbv beta iota zeta delta [orb]. rewrite Hu. reflexivity.
Qed.

Definition member_fn (d : draft) (rid : option string) (root : bool) : string * json -> res (list ckw) :=
  fun kv => compile_member (fun x => res_map fst (compile_node d rid false x)) d rid root (fst kv) (snd kv).

Lemma compile_node_obj : forall d rid root o,
  compile_node d rid root (JObj o) =
  match res_map (@List.concat ckw) (seq_res (map (member_fn d rid root) o)) with
  | Ok l => Ok (assemble d l, l)
  | Err e => Err e
  | Panic w => Panic w
  | Diverge => Diverge
  end.
Proof.
  intros d rid root o.
  change (compile_node d rid root (JObj o)) with
    (match seq_res (map (member_fn d rid root) o) with
     | Ok cks => let l := List.concat cks in Ok (assemble d l, l)
     | Err e => Err e
     | Panic w => Panic w
     | Diverge => Diverge
     end).
  destruct (seq_res (map (member_fn d rid root) o)); reflexivity.
Qed.

Lemma seq_res_insert_nil : forall (l1 l2 : list (res (list ckw))),
  res_map (@List.concat ckw) (seq_res (l1 ++ Ok [] :: l2)) = res_map (@List.concat ckw) (seq_res (l1 ++ l2)).
Proof.
  induction l1 as [| a l1 IH]; intros l2; simpl.
  - destruct (seq_res l2); reflexivity.
  - destruct a as [x | e | w |]; try reflexivity.
    specialize (IH l2).
    destruct (seq_res (l1 ++ Ok [] :: l2)); destruct (seq_res (l1 ++ l2)); simpl in *;
      try discriminate; try (inversion IH; subst; reflexivity).
Qed.

Lemma jassoc_insert_other : forall {V} k' k (v : V) o1 o2,
  String.eqb k k' = false -> jassoc k' (o1 ++ (k, v) :: o2) = jassoc k' (o1 ++ o2).
Proof.
  intros V k' k v o1 o2 Hne. induction o1 as [| [a b] o1 IH]; simpl.
  - rewrite Hne. reflexivity.
  - destruct (String.eqb a k'); [reflexivity | exact IH].
Qed.

Theorem unknown_member_irrelevant : forall o1 o2 k v,
  unknown_member k = true ->
  compile_root (JObj (o1 ++ (k, v) :: o2)) = compile_root (JObj (o1 ++ o2)).
Proof.
  intros o1 o2 k v Hk.
  assert (Hs : String.eqb k "$schema" = false).
  { unfold unknown_member in Hk. apply andb_true_iff in Hk. destruct Hk as [Hm _].
    apply negb_true_iff in Hm. unfold str_in, modelled_keywords in Hm. simpl in Hm.
    apply orb_false_elim in Hm. destruct Hm as [Hm _]. exact Hm. }
  assert (Hi : String.eqb k "$id" = false).
  { unfold unknown_member in Hk. apply andb_true_iff in Hk. destruct Hk as [Hm _].
    apply negb_true_iff in Hm. unfold str_in, modelled_keywords in Hm. simpl in Hm.
    apply orb_false_elim in Hm. destruct Hm as [_ Hm].
    apply orb_false_elim in Hm. destruct Hm as [Hm _]. exact Hm. }
  assert (Hrid : root_id (JObj (o1 ++ (k, v) :: o2)) = root_id (JObj (o1 ++ o2))).
  { unfold root_id. rewrite (jassoc_insert_other "$id" k v o1 o2 Hi). reflexivity. }
  unfold compile_root, detect_draft. rewrite Hrid.
  rewrite (jassoc_insert_other "$schema" k v o1 o2 Hs).
  destruct (jassoc "$schema" (o1 ++ o2)) as [[| | | u | |] |]; try reflexivity.
  - destruct (draft_of_url u) as [d |]; [| reflexivity].
    rewrite !compile_node_obj. rewrite map_app. simpl map.
    unfold member_fn at 2. simpl fst. simpl snd. rewrite (compile_member_unknown _ d _ true k v Hk).
    rewrite seq_res_insert_nil. rewrite <- map_app. reflexivity.
  - rewrite !compile_node_obj. rewrite map_app. simpl map.
    unfold member_fn at 2. simpl fst. simpl snd. rewrite (compile_member_unknown _ D2020 _ true k v Hk).
    rewrite seq_res_insert_nil. rewrite <- map_app. reflexivity.
Qed.

(* in particular the verdict of the wrapper does not depend on such members *)
Corollary unknown_member_verdict : forall fuel_of data o1 o2 k v,
  unknown_member k = true ->
  validate_data_with fuel_of data (Some (JObj (o1 ++ (k, v) :: o2))) =
  validate_data_with fuel_of data (Some (JObj (o1 ++ o2))).
Proof.
  intros fuel_of data o1 o2 k v Hk. unfold validate_data_with.
  rewrite (unknown_member_irrelevant o1 o2 k v Hk). reflexivity.
Qed.

Example metadata_is_unknown : unknown_member "$metadata" = true.
Proof. reflexivity. Qed.

(* ------------------------------------------------------------------ *)
(* $ref and its siblings in the two drafts *)

Theorem draft7_ref_siblings_ignored : forall cks t,
  find_ck get_ref cks = Some t -> assemble D7 cks = SRef t.
Proof. intros cks t H. unfold assemble. rewrite H. reflexivity. Qed.

Theorem draft2020_ref_siblings_apply : forall E cks t j,
  find_ck get_ref cks = Some t ->
  (Valid E (assemble D2020 cks) j <->
   Valid E (SRef t) j /\
   Valid E (SAllOf (simples cks ++ props_bundle cks ++ items_bundle D2020 cks)) j).
Proof.
  intros E cks t j H. unfold assemble. rewrite H. split.
  - intros Hv. inversion Hv; subst. split.
    + match goal with Hall : forall s, In s _ -> Valid E s j |- _ => apply Hall; left; reflexivity end.
    + constructor. intros s Hin.
      match goal with Hall : forall s, In s _ -> Valid E s j |- _ => apply Hall; right; exact Hin end.
  - intros [Hr Hrest]. inversion Hrest; subst. constructor. intros s [<- | Hin]; auto.
Qed.

(* ------------------------------------------------------------------ *)
(* history independence: in every sequence of calls the i-th result is the result of
   a fresh call with the same (data, schema): nothing is remembered between calls
   (in particular nothing keyed by "$id") *)
Theorem history_independent : forall calls i data schema,
  nth_error calls i = Some (data, schema) ->
  nth_error (run_history calls) i = Some (validate_data data schema).
Proof.
  induction calls as [| [d s] rest IH]; intros i data schema H.
  - destruct i; discriminate.
  - destruct i as [| i]; simpl in *.
    + inversion H; subst. reflexivity.
    + apply IH. exact H.
Qed.

Corollary history_prefix_irrelevant : forall pre1 pre2 data schema post1 post2,
  nth_error (run_history (pre1 ++ (data, schema) :: post1)) (List.length pre1) =
  nth_error (run_history (pre2 ++ (data, schema) :: post2)) (List.length pre2).
Proof.
  intros pre1 pre2 data schema post1 post2.
  rewrite (history_independent (pre1 ++ (data, schema) :: post1) (List.length pre1) data schema).
  - rewrite (history_independent (pre2 ++ (data, schema) :: post2) (List.length pre2) data schema).
    + reflexivity.
    + rewrite nth_error_app2 by auto. rewrite Nat.sub_diag. reflexivity.
  - rewrite nth_error_app2 by auto. rewrite Nat.sub_diag. reflexivity.
Qed.
