(* Value/Run.v — evaluation of per-run case files for the value model (C04, and
   reused by C10/C16).  Tables recorded by the harness become oracle functions;
   a table miss is reported as a disagreement, never papered over. *)
From Coq Require Import ZArith List String Ascii Bool Uint63.
From GSP Require Import Base.Prelude Base.Decode Value.Time Value.Model.
Import ListNotations.
Open Scope list_scope.

Fixpoint zlist_eqb (a b : list Z) : bool :=
  match a, b with
  | [], [] => true
  | x :: a', y :: b' => Z.eqb x y && zlist_eqb a' b'
  | _, _ => false
  end.

Fixpoint lookup_zl (k : list Z) (t : list (list Z * ores)) : ores :=
  match t with
  | [] => OM
  | (a, b) :: r => if zlist_eqb a k then b else lookup_zl k r
  end.
Fixpoint lookup_s {V} (k : string) (t : list (string * V)) : option V :=
  match t with
  | [] => None
  | (a, b) :: r => if String.eqb a k then Some b else lookup_s k r
  end.
Fixpoint lookup_z {V} (k : Z) (t : list (Z * V)) : option V :=
  match t with
  | [] => None
  | (a, b) :: r => if Z.eqb a k then Some b else lookup_z k r
  end.

(* raw (limb-encoded) tables as written by the harness *)
Record raw_hasher := {
  rh_prime : limbs;
  rh_hash  : list (list limbs * option limbs);     (* None = the primitive returned an error *)
  rh_bytes : list (string * option limbs)
}.
Definition ores_of (o : option limbs) : ores :=
  match o with Some l => OV (z_of_limbs l) | None => OE end.

Definition mk_hasher (r : raw_hasher) : hasher :=
  let ht := map (fun kv => (map z_of_limbs (fst kv), ores_of (snd kv))) (rh_hash r) in
  let bt := map (fun kv => (fst kv, ores_of (snd kv))) (rh_bytes r) in
  {| h_prime := z_of_limbs (rh_prime r);
     h_hash := fun k => lookup_zl k ht;
     h_bytes := fun s => match lookup_s s bt with Some o => o | None => OM end |}.

Record raw_floats := {
  rf_parse : list (string * option limbs);   (* ParseFloat: None = error, Some bits *)
  rf_canon : list (limbs * string);          (* bits -> canonical double *)
  rf_of_int : list (snum * limbs)            (* integer -> bits of float64(v) *)
}.
Definition mk_floats (r : raw_floats) : floats :=
  let ct := map (fun kv => (z_of_limbs (fst kv), snd kv)) (rf_canon r) in
  let it := map (fun kv => (z_of_snum (fst kv), z_of_limbs (snd kv))) (rf_of_int r) in
  {| f_parse := fun s => match lookup_s s (rf_parse r) with
                         | Some (Some b) => Some (Some (z_of_limbs b))
                         | Some None => Some None
                         | None => None end;
     f_canon := fun b => lookup_z b ct;
     f_of_int := fun v => lookup_z v it |}.

(* inputs as written in case files *)
Inductive raw_goval :=
| RGStr (s : string) | RGInt (z : snum) | RGUint (z : snum) | RGBool (b : bool)
| RGFloat (bits : limbs) | RGOther.
Definition goval_of (r : raw_goval) : goval :=
  match r with
  | RGStr s => GStr s | RGInt z => GInt (z_of_snum z) | RGUint z => GUint (z_of_snum z)
  | RGBool b => GBool b | RGFloat b => GFloat (z_of_limbs b) | RGOther => GOther
  end.
Inductive raw_xval :=
| RXBool (b : bool) | RXBig (z : snum) | RXInt64 (z : snum) | RXTime (u n : snum) | RXStr (s : string).
Definition xval_of (r : raw_xval) : xval :=
  match r with
  | RXBool b => XBool b | RXBig z => XBig (z_of_snum z) | RXInt64 z => XInt64 (z_of_snum z)
  | RXTime u n => XTime (z_of_snum u) (z_of_snum n) | RXStr s => XStr s
  end.

Inductive vinput :=
| IHashValue (dt : string) (v : raw_goval)   (* merklize.HashValueWithHasher(h, dt, v) *)
| IMkValue (x : raw_xval).                   (* NewValue(h,x).MtEntry() == NewRDFEntry(p,x).ValueMtEntry() *)

(* what the implementation did *)
Inductive vobs := VOk (z : limbs) | VErr | VPanic.

(* ids and hasher indices are primitive ints: nat numerals are slow to parse *)
Record vcase := { v_id : int; v_hasher : int; v_in : vinput; v_obs : vobs }.
Definition mkc (id h : int) (i : vinput) (o : vobs) : vcase :=
  {| v_id := id; v_hasher := h; v_in := i; v_obs := o |}.
Definition nat_of_int (i : int) : nat := Z.to_nat (Uint63.to_Z i).

Definition run_vinput (H : hasher) (F : floats) (i : vinput) : res Z :=
  match i with
  | IHashValue dt v => value_to_hash H F dt (goval_of v)
  | IMkValue x => mk_value_entry H (xval_of x)
  end.

Definition agree (r : res Z) (o : vobs) : bool :=
  match r, o with
  | Ok z, VOk l => Z.eqb z (z_of_limbs l)
  | Err _, VErr => true
  | _, _ => false          (* includes every Panic (oracle miss) and Diverge *)
  end.

Definition dummy_hasher : hasher :=
  {| h_prime := 0; h_hash := fun _ => OM; h_bytes := fun _ => OM |}.

Definition vmismatches (hs : list raw_hasher) (rf : raw_floats) (cs : list vcase) : list int :=
  let Hs := map mk_hasher hs in
  let F := mk_floats rf in
  fold_right (fun c acc =>
      let H := nth (nat_of_int (v_hasher c)) Hs dummy_hasher in
      if agree (run_vinput H F (v_in c)) (v_obs c) then acc else v_id c :: acc) [] cs.
