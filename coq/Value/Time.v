(* Value/Time.v — model of the two time.Parse calls made by
   convertStringToXSDValue (merklize.go:1326-1332):
     dateRE ^\d{4}-\d{2}-\d{2}$  -> time.ParseInLocation("2006-01-02", v, UTC)
     otherwise                   -> time.Parse(time.RFC3339Nano, v)
   following Go's general layout parser (time/format.go, go1.23): 4-digit year,
   2-digit month/day, literal 'T', 1-or-2-digit hour (<24), 2-digit minute and
   second (<60), optional [.,]digits+ fraction truncated to 9 digits, zone 'Z' or
   [+-]hh:mm with hh<=24, mm<=60, no trailing text, day validated against the
   month length.  Result: (Unix seconds, nanosecond).  No proofs here. *)
From Coq Require Import ZArith List String Ascii Bool.
From GSP Require Import Base.Prelude.
Import ListNotations.
Open Scope list_scope.
Open Scope Z_scope.

Definition is_leap (y : Z) : bool :=
  (y mod 4 =? 0) && (negb (y mod 100 =? 0) || (y mod 400 =? 0)).

Definition days_in (m y : Z) : Z :=
  if m =? 2 then (if is_leap y then 29 else 28)
  else if (m =? 4) || (m =? 6) || (m =? 9) || (m =? 11) then 30 else 31.

(* days since 1970-01-01 of a proleptic Gregorian civil date *)
Definition days_from_civil (y m d : Z) : Z :=
  let y' := if m <=? 2 then y - 1 else y in
  let era := y' / 400 in
  let yoe := y' - era * 400 in
  let mp := if m >? 2 then m - 3 else m + 9 in
  let doy := (153 * mp + 2) / 5 + d - 1 in
  let doe := yoe * 365 + yoe / 4 - yoe / 100 + doy in
  era * 146097 + doe - 719468.

(* exactly n digits *)
Fixpoint fixed_digits (n : nat) (l : list ascii) (acc : Z) : option (Z * list ascii) :=
  match n with
  | O => Some (acc, l)
  | S k => match l with
           | c :: t => if is_digit c then fixed_digits k t (acc * 10 + digit_val c) else None
           | [] => None
           end
  end.

Definition expect (ch : ascii) (l : list ascii) : option (list ascii) :=
  match l with c :: t => if Ascii.eqb c ch then Some t else None | [] => None end.

(* getnum(value, false): two digits if the second char is a digit, else one *)
Definition loose_num (l : list ascii) : option (Z * list ascii) :=
  match l with
  | a :: b :: t => if is_digit a then
                     (if is_digit b then Some (digit_val a * 10 + digit_val b, t)
                      else Some (digit_val a, b :: t))
                   else None
  | [a] => if is_digit a then Some (digit_val a, []) else None
  | [] => None
  end.

(* fraction digits: all following digits are consumed, the first 9 count *)
Fixpoint frac_digits (l : list ascii) (taken : nat) (acc : Z) : Z * nat * list ascii :=
  match l with
  | c :: t => if is_digit c
              then (if Nat.ltb taken 9 then frac_digits t (S taken) (acc * 10 + digit_val c)
                    else frac_digits t taken acc)
              else (acc, taken, l)
  | [] => (acc, taken, [])
  end.

Definition parse_frac (l : list ascii) : Z * list ascii :=
  match l with
  | c :: d :: t =>
    if (Ascii.eqb c "." || Ascii.eqb c ",") && is_digit d then
      let '(v, n, r) := frac_digits (d :: t) O 0 in
      (v * 10 ^ (Z.of_nat (9 - n)), r)
    else (0, l)
  | _ => (0, l)
  end.

(* zone: Some offset-seconds and the rest *)
Definition parse_zone (l : list ascii) : option (Z * list ascii) :=
  match l with
  | "Z"%char :: t => Some (0, t)
  | s :: t =>
    match fixed_digits 2 t 0 with
    | Some (hh, t1) =>
      match expect ":" t1 with
      | Some t2 =>
        match fixed_digits 2 t2 0 with
        | Some (mm, t3) =>
          if (hh >? 24) || (mm >? 60) then None else
          let off := (hh * 60 + mm) * 60 in
          if Ascii.eqb s "+" then Some (off, t3)
          else if Ascii.eqb s "-" then Some (- off, t3)
          else None
        | None => None
        end
      | None => None
      end
    | None => None
    end
  | [] => None
  end.

Definition parse_ymd (l : list ascii) : option (Z * Z * Z * list ascii) :=
  match fixed_digits 4 l 0 with
  | Some (y, l1) =>
    match expect "-" l1 with
    | Some l2 =>
      match fixed_digits 2 l2 0 with
      | Some (m, l3) =>
        if (m <? 1) || (m >? 12) then None else
        match expect "-" l3 with
        | Some l4 =>
          match fixed_digits 2 l4 0 with
          | Some (d, l5) => Some (y, m, d, l5)
          | None => None
          end
        | None => None
        end
      | None => None
      end
    | None => None
    end
  | None => None
  end.

Definition day_ok (y m d : Z) : bool := (1 <=? d) && (d <=? days_in m y).

Definition parse_rfc3339 (l : list ascii) : option (Z * Z) :=
  match parse_ymd l with
  | Some (y, m, d, l1) =>
    match expect "T" l1 with
    | Some l2 =>
      match loose_num l2 with
      | Some (hh, l3) =>
        if hh >=? 24 then None else
        match expect ":" l3 with
        | Some l4 =>
          match fixed_digits 2 l4 0 with
          | Some (mi, l5) =>
            if mi >=? 60 then None else
            match expect ":" l5 with
            | Some l6 =>
              match fixed_digits 2 l6 0 with
              | Some (ss, l7) =>
                if ss >=? 60 then None else
                let '(ns, l8) := parse_frac l7 in
                match parse_zone l8 with
                | Some (off, []) =>
                  if day_ok y m d then
                    Some (days_from_civil y m d * 86400 + hh * 3600 + mi * 60 + ss - off, ns)
                  else None
                | _ => None
                end
              | None => None
              end
            | None => None
            end
          | None => None
          end
        | None => None
        end
      | None => None
      end
    | None => None
    end
  | None => None
  end.

(* dateRE = ^\d{4}-\d{2}-\d{2}$ *)
Definition is_bare_date (l : list ascii) : bool :=
  match l with
  | [a; b; c; d; h1; e; f; h2; g; h] =>
    is_digit a && is_digit b && is_digit c && is_digit d && Ascii.eqb h1 "-" &&
    is_digit e && is_digit f && Ascii.eqb h2 "-" && is_digit g && is_digit h
  | _ => false
  end.

Definition parse_datetime (s : string) : option (Z * Z) :=
  let l := str_to_list s in
  if is_bare_date l then
    match parse_ymd l with
    | Some (y, m, d, []) => if day_ok y m d then Some (days_from_civil y m d * 86400, 0) else None
    | _ => None
    end
  else parse_rfc3339 l.
