(* Value/Leaf.v — executable model of the two code paths compared by property C10.

   standalone side (merklize.go:1120-1139): HashValueWithHasher(h, dt, RawValue(path))
       = value_to_hash H F dt (raw v)            (Value/Model.v)
   leaf side: json-gold's native-value -> RDF literal conversion
       (ld/node.go objectToRDF, value-object branch, lines 235-300), then
       EntriesFromRDFWithHasher's convertStringToXSDValue (merklize.go:1069) and
       RDFEntry.ValueMtEntry = mkValueMtEntry (rdfentry.go:36)
       = to_rdf_lex ; convert ; mk_value_entry
   proof side (merklize.go:1739-1766): Proof returns NewValue(mz.hasher, entry.value)
       whose MtEntry is mkValueMtEntry again, and whose Is* methods test the Go kind.

   Floats stay abstract (IEEE bit patterns, Value/Model.v `floats`).  json-gold's
   integer test
       isInteger := floatVal == float64(int64(floatVal))
   is Value.Model.float_int64 (integer arithmetic on the bit pattern; the same test
   convertAnyToString makes since fix 7821fd0); the harness records the real
   outcome of that test for every float used (`floats_ext`) and LeafRun.v checks
   that float_int64 reproduces it.
   No proofs in this file. *)
From Coq Require Import ZArith List String Ascii Bool.
From GSP Require Import Base.Prelude Value.Time Value.Model.
Import ListNotations.
Open Scope string_scope.
Open Scope list_scope.
Open Scope Z_scope.

(* the JSON value found in a value object / returned by Merklizer.RawValue after
   encoding/json decoding: bool, float64, string; anything else (array, map, nil) *)
Inductive jval :=
| JBool (b : bool)
| JNum (bits : Z)
| JStr (s : string)
| JOther.

(* recorded outcome of ld/node.go:264 on the real floats (cross-check of float_int64 only):
     None            the call was not recorded
     Some None       floatVal <> float64(int64(floatVal))   (not "integer")
     Some (Some z)   floatVal == float64(int64(floatVal)) and int64(floatVal) = z *)
Record floats_ext := { f_int64 : Z -> option (option Z) }.

(* the Go value handed to HashValue: RawValue returns the decoded JSON value as is *)
Definition raw (v : jval) : goval :=
  match v with
  | JBool b => GBool b
  | JNum bits => GFloat bits
  | JStr s => GStr s
  | JOther => GOther
  end.

(* objectToRDF on a value object {"@value": v, "@type": declared?} without @language:
   lexical form and datatype of the literal.  `declared = None` is an untyped
   native value (or plain string). *)
Definition to_rdf_lex (F : floats) (declared : option string) (v : jval)
  : res (string * string) :=
  let dt_or (d : string) := match declared with Some t => t | None => d end in
  match v with
  | JBool b => Ok (if b then "true" else "false", dt_or xsd_boolean)
  | JNum bits =>
    let declared_double :=
      match declared with Some t => String.eqb t xsd_double | None => false end in
    match float_int64 bits, declared_double with
    | Some z, false => Ok (z_to_string z, dt_or xsd_integer)          (* fmt "%d" int64(f) *)
    | _, _ =>
      match f_canon F bits with
      | Some c => Ok (c, dt_or xsd_double)                            (* GetCanonicalDouble *)
      | None => Panic miss_tag
      end
    end
  | JStr s => Ok (s, dt_or xsd_string)
  | JOther => Err "not-a-value"
  end.

(* the entry's Go value and the leaf stored in the tree *)
Definition leaf_entry (F : floats) (dt lex : string) (p : Z) : res xval := convert F dt lex p.
Definition leaf_value (H : hasher) (F : floats) (dt lex : string) : res Z :=
  x <- leaf_entry F dt lex (h_prime H) ;;
  mk_value_entry H x.

(* Go kind of a Value (IsBool / IsBigInt / IsInt64 / IsTime / IsString) *)
Inductive vkind := VKBool | VKBig | VKInt64 | VKTime | VKStr.
Definition kind_of (x : xval) : vkind :=
  match x with
  | XBool _ => VKBool | XBig _ => VKBig | XInt64 _ => VKInt64 | XTime _ _ => VKTime | XStr _ => VKStr
  end.
(* the kind the property text attaches to a datatype *)
Definition kind_implied (d : dkind) : vkind :=
  match d with
  | DBool => VKBool | DInt _ => VKBig | DDateTime => VKTime | DDouble => VKStr | DOther => VKStr
  end.

(* Proof(path): NewValue(mz.hasher, entry.value) accepts every xval kind; MtEntry *)
Definition proof_value_entry (H : hasher) (x : xval) : res Z := mk_value_entry H x.

(* IEEE-754 bit patterns of +0.0 and 1.0 *)
Definition bits_zero : Z := 0.
Definition bits_one : Z := 4607182418800017408.
