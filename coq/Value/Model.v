(* Value/Model.v — executable model of the value-encoding code of
   merklize/merklize.go: intFromStr (1244-1256), minMaxByXSDType (1259-1278),
   convertStringToXSDValue (1280-1347), convertAnyToString (1135-1242),
   mkValueMtEntry & friends (1765-1841), minMaxFromPrime (1891-1897),
   valueToHash (1122-1132).  No proofs in this file. *)
From Coq Require Import ZArith List String Ascii Bool.
From GSP Require Import Base.Prelude Value.Time.
Import ListNotations.
Open Scope string_scope.
Open Scope list_scope.
Open Scope Z_scope.

(* ---------- external primitives as oracles ---------- *)
(* answer of a recorded primitive call: value, error, or "not recorded" *)
Inductive ores := OV (z : Z) | OE | OM.

Record hasher := {
  h_prime : Z;                        (* Hasher.Prime() *)
  h_hash  : list Z -> ores;           (* Hasher.Hash *)
  h_bytes : string -> ores            (* Hasher.HashBytes *)
}.

Definition miss_tag := "oracle-miss".
Definition of_ores (o : ores) (tag : string) : res Z :=
  match o with OV z => Ok z | OE => Err tag | OM => Panic miss_tag end.

(* floats are abstract: identified by their IEEE bit pattern (a Z); the
   model never computes with them.  Recorded primitives of strconv/json-gold: *)
Record floats := {
  f_parse : string -> option (option Z);   (* strconv.ParseFloat: None = not recorded;
                                              Some None = error; Some (Some bits) *)
  f_canon : Z -> option string;            (* ld.GetCanonicalDouble *)
  f_of_int : Z -> option Z                 (* float64(v) for an integer v *)
}.

(* ---------- datatypes ---------- *)
Definition xsd := "http://www.w3.org/2001/XMLSchema#".
Definition xsd_boolean := (xsd ++ "boolean")%string.
Definition xsd_integer := (xsd ++ "integer")%string.
Definition xsd_positive := (xsd ++ "positiveInteger")%string.
Definition xsd_nonnegative := (xsd ++ "nonNegativeInteger")%string.
Definition xsd_negative := (xsd ++ "negativeInteger")%string.
Definition xsd_nonpositive := (xsd ++ "nonPositiveInteger")%string.
Definition xsd_datetime := (xsd ++ "dateTime")%string.
Definition xsd_double := (xsd ++ "double")%string.
Definition xsd_string := (xsd ++ "string")%string.

Inductive ikind := KInteger | KPositive | KNonNegative | KNegative | KNonPositive.
Inductive dkind := DBool | DInt (k : ikind) | DDateTime | DDouble | DOther.

Definition classify (dt : string) : dkind :=
  if String.eqb dt xsd_boolean then DBool
  else if String.eqb dt xsd_positive then DInt KPositive
  else if String.eqb dt xsd_nonnegative then DInt KNonNegative
  else if String.eqb dt xsd_integer then DInt KInteger
  else if String.eqb dt xsd_negative then DInt KNegative
  else if String.eqb dt xsd_nonpositive then DInt KNonPositive
  else if String.eqb dt xsd_datetime then DDateTime
  else if String.eqb dt xsd_double then DDouble
  else DOther.

(* ---------- big.Rat.SetString, decimal grammar ----------
   [sign] digits* [ "." digits* ] [ ("e"|"E") [sign] digits+ ]   (>= 1 mantissa digit)
   [sign] digits+ "/" digits+                                     (fraction form)
   Forms with base prefixes / underscores / "p" exponents are outside the
   modelled grammar (DESIGN.md O6) and are not generated. *)
Fixpoint take_digits (l : list ascii) (acc : Z) (n : nat) : Z * nat * list ascii :=
  match l with
  | c :: t => if is_digit c then take_digits t (acc * 10 + digit_val c) (S n) else (acc, n, l)
  | [] => (acc, n, [])
  end.

Definition take_sign (l : list ascii) : bool * list ascii :=
  match l with
  | "-"%char :: t => (true, t)
  | "+"%char :: t => (false, t)
  | _ => (false, l)
  end.

Definition exp_cap : Z := 1000000.

(* result: numerator and denominator exponent, as (mantissa, e10) meaning mantissa * 10^e10 *)
Definition parse_decimal (l : list ascii) : option (Z * Z) :=
  let '(neg, l1) := take_sign l in
  let '(ip, ni, l2) := take_digits l1 0 O in
  let '(mant, nf, l3) :=
    match l2 with
    | "."%char :: t => let '(m, n, r) := take_digits t ip O in (m, n, r)
    | _ => (ip, O, l2)
    end in
  if Nat.eqb (ni + nf) 0 then None else
  let oexp :=
    match l3 with
    | [] => Some 0
    | c :: t =>
      if Ascii.eqb c "e" || Ascii.eqb c "E" then
        let '(eneg, t1) := take_sign t in
        let '(e, ne, t2) := take_digits t1 0 O in
        if Nat.eqb ne 0 then None else
        match t2 with [] => Some (if eneg then - e else e) | _ => None end
      else None
    end in
  match oexp with
  | None => None
  | Some e =>
    let m := if neg then - mant else mant in
    if m =? 0 then Some (0, 0) else
    let e10 := e - Z.of_nat nf in
    if (Z.abs e10 >? exp_cap) then None else Some (m, e10)
  end.

Fixpoint split_slash (l : list ascii) (acc : list ascii) : option (list ascii * list ascii) :=
  match l with
  | [] => None
  | c :: t => if Ascii.eqb c "/" then Some (rev acc, t) else split_slash t (c :: acc)
  end.

Definition parse_fraction (a b : list ascii) : option (Z * Z) :=
  let '(neg, a1) := take_sign a in
  let '(n, nn, ra) := take_digits a1 0 O in
  let '(d, nd, rb) := take_digits b 0 O in
  match ra, rb with
  | [], [] =>
    if Nat.eqb nn 0 || Nat.eqb nd 0 then None else
    if d =? 0 then None else Some (if neg then - n else n, d)
  | _, _ => None
  end.

(* intFromStr: Some z iff the string parses and denotes an integer *)
Definition int_from_str (s : string) : option Z :=
  let l := str_to_list s in
  match split_slash l [] with
  | Some (a, b) =>
    match parse_fraction a b with
    | Some (n, d) => if Z.rem n d =? 0 then Some (Z.quot n d) else None
    | None => None
    end
  | None =>
    match parse_decimal l with
    | Some (m, e10) =>
      if 0 <=? e10 then Some (m * 10 ^ e10)
      else let d := 10 ^ (- e10) in
           if Z.rem m d =? 0 then Some (Z.quot m d) else None
    | None => None
    end
  end.

(* ---------- ranges ---------- *)
Definition min_max_from_prime (p : Z) : Z * Z :=
  let mx := p / 2 in (mx - p + 1, mx).

Definition min_max_by_kind (k : ikind) (p : Z) : Z * Z :=
  match k with
  | KPositive => (1, p - 1)
  | KNonNegative => (0, p - 1)
  | KInteger => min_max_from_prime p
  | KNegative => (fst (min_max_from_prime p), -1)
  | KNonPositive => (fst (min_max_from_prime p), 0)
  end.

(* ---------- Go values held in an entry / returned by conversion ---------- *)
Inductive xval :=
| XBool (b : bool)
| XBig (z : Z)                 (* *big.Int *)
| XInt64 (z : Z)               (* int64 (only from NewRDFEntry / gob) *)
| XTime (unix nanos : Z)       (* time.Time as (Unix(), Nanosecond()) *)
| XStr (s : string).

(* convertStringToXSDValue *)
Definition convert (F : floats) (dt value : string) (p : Z) : res xval :=
  match classify dt with
  | DBool =>
    if String.eqb value "false" || String.eqb value "0" || String.eqb value "0.0E0" then Ok (XBool false)
    else if String.eqb value "true" || String.eqb value "1" || String.eqb value "1.0E0" then Ok (XBool true)
    else Err "bool"
  | DInt k =>
    match int_from_str value with
    | None => Err "int-parse"
    | Some i =>
      let '(mn, mx) := min_max_by_kind k p in
      if i >? mx then Err "int-max"
      else if i <? mn then Err "int-min"
      else Ok (XBig i)
    end
  | DDateTime =>
    match parse_datetime value with
    | Some (u, n) => Ok (XTime u n)
    | None => Err "time"
    end
  | DDouble =>
    match f_parse F value with
    | None => Panic miss_tag
    | Some None => Err "float"
    | Some (Some bits) =>
      match f_canon F bits with
      | Some s => Ok (XStr s)
      | None => Panic miss_tag
      end
    end
  | DOther => Ok (XStr value)
  end.

(* ---------- mkValueMtEntry ---------- *)
Definition mk_value_int (H : hasher) (v : Z) : res Z :=
  if 0 <=? v then Ok v else Ok (h_prime H + v).

Definition mk_value_bool (H : hasher) (b : bool) : res Z :=
  of_ores (h_hash H [if b then 1 else 0]) "hash".

Definition mk_value_string (H : hasher) (s : string) : res Z :=
  of_ores (h_bytes H s) "hashbytes".

Definition mk_value_time (H : hasher) (u n : Z) : res Z :=
  Ok ((u * 1000000000 + n) mod h_prime H).

Definition mk_value_bigint (H : hasher) (v : Z) : res Z :=
  if v >=? h_prime H then Err "big-too-big"
  else if v <? 0 then
    if v <? fst (min_max_from_prime (h_prime H)) then Err "big-too-small"
    else Ok (v + h_prime H)
  else Ok v.

Definition mk_value_entry (H : hasher) (v : xval) : res Z :=
  match v with
  | XInt64 z => mk_value_int H z
  | XBool b => mk_value_bool H b
  | XStr s => mk_value_string H s
  | XTime u n => mk_value_time H u n
  | XBig z => mk_value_bigint H z
  end.

(* ---------- convertAnyToString ---------- *)
(* Go-typed inputs of HashValue.  Signed / unsigned integer kinds all print
   the same way with %v, so only the signedness matters (for the xsd:double
   precision guard). *)
Inductive goval :=
| GStr (s : string)
| GInt (z : Z)          (* int, int8..int64 *)
| GUint (z : Z)         (* uint, uint8..uint64 *)
| GBool (b : bool)
| GFloat (bits : Z)     (* float64 / float32 widened *)
| GOther.               (* anything else: nil, slices, maps, ... *)

(* decimal rendering of an integer: fmt "%v" *)
Fixpoint pos_digits (fuel : nat) (z : Z) (acc : list ascii) : list ascii :=
  match fuel with
  | O => acc
  | S f =>
    let d := ascii_of_nat (Z.to_nat (z mod 10) + 48) in
    if z <? 10 then d :: acc else pos_digits f (z / 10) (d :: acc)
  end.
Definition z_to_string (z : Z) : string :=
  let a := Z.abs z in
  let ds := pos_digits (S (Z.to_nat (Z.log2 (a + 1)))) a [] in
  str_of_list (if z <? 0 then "-"%char :: ds else ds).

(* intToXSDDoubleStr / uintToXSDDoubleStr *)
Definition int_to_double_str (F : floats) (v : Z) : res string :=
  match f_of_int F v with
  | None => Panic miss_tag
  | Some bits =>
    match f_canon F bits with
    | None => Panic miss_tag
    | Some out =>
      match parse_decimal (str_to_list out) with
      | None => Err "assert-rat"
      | Some (m, e10) =>
        if e10 <? 0 then
          (* Denom() must be 1 after normalisation *)
          let d := 10 ^ (- e10) in
          if Z.rem m d =? 0 then
            (if Z.quot m d =? v then Ok out else Err "too-big")
          else Err "too-big"
        else if m * 10 ^ e10 =? v then Ok out else Err "too-big"
      end
    end
  end.

(* `v == float64(int64(v))` and the value of int64(v), decided on the IEEE-754 bit
   pattern by integer arithmetic (no float operation is involved): Some z iff the
   float is integral and -2^63 <= z < 2^63.  NaN, infinities and out-of-range values
   give None (on amd64 int64(v) is then MinInt64, whose float64 differs from v). *)
Definition float_int64 (bits : Z) : option Z :=
  let sgn := Z.testbit bits 63 in
  let e := Z.land (Z.shiftr bits 52) 2047 in
  let m := Z.land bits (2 ^ 52 - 1) in
  if e =? 2047 then None else
  let mant := if e =? 0 then m else m + 2 ^ 52 in
  let ex := if e =? 0 then -1074 else e - 1075 in
  let mag := if 0 <=? ex then Some (mant * 2 ^ ex)
             else let d := 2 ^ (- ex) in if mant mod d =? 0 then Some (mant / d) else None in
  match mag with
  | None => None
  | Some a => let v := if sgn then - a else a in
              if (- 2 ^ 63 <=? v) && (v <? 2 ^ 63) then Some v else None
  end.

Definition any_to_string (F : floats) (v : goval) (dt : string) : res string :=
  let generic :=
    match v with
    | GFloat bits =>
      (* fix 7821fd0: an integral float64 of a non-double datatype is written as an integer *)
      match (if String.eqb dt xsd_double then None else float_int64 bits) with
      | Some z => Ok (z_to_string z)
      | None => match f_canon F bits with Some s => Ok s | None => Panic miss_tag end
      end
    | GStr s => Ok s
    | GInt z => Ok (z_to_string z)
    | GBool b => Ok (if b then "true" else "false")
    | GUint _ => Err "unsupported"      (* uints are not in the generic switch *)
    | GOther => Err "unsupported"
    end in
  if String.eqb dt xsd_double then
    match v with
    | GStr s =>
      match f_parse F s with
      | None => Panic miss_tag
      | Some None => Err "float"
      | Some (Some bits) => match f_canon F bits with Some c => Ok c | None => Panic miss_tag end
      end
    | GInt z => int_to_double_str F z
    | GUint z => int_to_double_str F z
    | _ => generic
    end
  else generic.

(* valueToHash *)
Definition value_to_hash (H : hasher) (F : floats) (dt : string) (v : goval) : res Z :=
  s <- any_to_string F v dt ;;
  x <- convert F dt s (h_prime H) ;;
  mk_value_entry H x.
