(* Value/LeafRun.v — evaluation of per-run case files of property C10.

   One case = one sibling group of literals of a merklized document (a single
   literal, or the literal values of one multi-valued property):
     g_docs  the document's value objects in DOCUMENT order (declared @type?, JSON value)
     g_obs   what the implementation stored for the group's entries (any order):
             JSONLDType, leaf value (RDFEntry.ValueMtEntry, verified against the tree
             by the harness), MtEntry of the Value returned by Proof, Go kind of it
     g_hvs   for every entry path: reported datatype, RawValue(path), and the result of
             HashValueWithHasher(h, datatype, RawValue(path))
   The model must reproduce (a) every HashValue outcome, (b) the SET of
   (datatype, leaf, proof value, kind) tuples from the document values alone
   (RDF is a set: repeated values collapse), and (c) the float-formatting
   hypothesis of LeafTheory.v (a canonical double re-parses to a float with the
   same canonical form) must hold for every float that occurs, and float_int64
   must reproduce the recorded int64 round trip of every float.
   `g_pair = false` (the implementation-side oracle already reported that the
   path does not lead to the document value of this leaf) skips (b). *)
From Coq Require Import ZArith List String Ascii Bool Uint63.
From GSP Require Import Base.Prelude Base.Decode Value.Time Value.Model Value.Run Value.Leaf.
Import ListNotations.
Open Scope list_scope.

Inductive raw_jval := RJBool (b : bool) | RJNum (bits : limbs) | RJStr (s : string) | RJOther.
Definition jval_of (r : raw_jval) : jval :=
  match r with
  | RJBool b => JBool b | RJNum b => JNum (z_of_limbs b) | RJStr s => JStr s | RJOther => JOther
  end.

(* recorded int64 round trip: bits -> None (not integer) | Some int64(f) *)
Definition raw_floats_ext := list (limbs * option snum).
Definition mk_floats_ext (r : raw_floats_ext) : floats_ext :=
  let t := map (fun kv => (z_of_limbs (fst kv),
                           match snd kv with Some s => Some (z_of_snum s) | None => None end)) r in
  {| f_int64 := fun b => lookup_z b t |}.

Inductive hvobs := HOk (z : limbs) | HErr | HPanic.

Definition kind_code (k : vkind) : int :=
  match k with VKBool => 0 | VKBig => 1 | VKInt64 => 2 | VKTime => 3 | VKStr => 4 end%uint63.

Definition docelem := (option string * raw_jval)%type.
Definition obstuple := (string * limbs * limbs * int)%type.     (* dt, leaf, proof value, kind *)
Definition hvcase := (string * raw_jval * hvobs)%type.

Record gcase := {
  g_id : int; g_hasher : int; g_pair : bool;
  g_docs : list docelem; g_obs : list obstuple; g_hvs : list hvcase }.
Definition mkg (id h : int) (pair : bool) (d : list docelem) (o : list obstuple) (hv : list hvcase) : gcase :=
  {| g_id := id; g_hasher := h; g_pair := pair; g_docs := d; g_obs := o; g_hvs := hv |}.

Definition tuple := (string * Z * Z * int)%type.
Definition tuple_eqb (a b : tuple) : bool :=
  let '(d1, l1, p1, k1) := a in
  let '(d2, l2, p2, k2) := b in
  String.eqb d1 d2 && Z.eqb l1 l2 && Z.eqb p1 p2 && Uint63.eqb k1 k2.

Definition mem_t (t : tuple) (l : list tuple) : bool := existsb (tuple_eqb t) l.
Definition subset_t (a b : list tuple) : bool := forallb (fun t => mem_t t b) a.
Definition seteq_t (a b : list tuple) : bool := subset_t a b && subset_t b a.

(* model of the leaf side for one document value *)
Definition model_tuple (H : hasher) (F : floats) (X : floats_ext) (e : docelem) : option tuple :=
  match to_rdf_lex F (fst e) (jval_of (snd e)) with
  | Ok (lex, dt) =>
    match leaf_entry F dt lex (h_prime H) with
    | Ok x =>
      match mk_value_entry H x, proof_value_entry H x with
      | Ok leaf, Ok pv => Some (dt, leaf, pv, kind_code (kind_of x))
      | _, _ => None
      end
    | _ => None
    end
  | _ => None
  end.

Fixpoint all_some {A} (l : list (option A)) : option (list A) :=
  match l with
  | [] => Some []
  | Some a :: t => match all_some t with Some r => Some (a :: r) | None => None end
  | None :: _ => None
  end.

Definition hv_agree (r : res Z) (o : hvobs) : bool :=
  match r, o with
  | Ok z, HOk l => Z.eqb z (z_of_limbs l)
  | Err _, HErr => true
  | _, _ => false
  end.

(* ---- instances of the float-formatting hypotheses (LeafTheory.v) ---- *)
Definition canon_idem_at (F : floats) (b : Z) : bool :=
  match f_canon F b with
  | None => false                                   (* every float used must be recorded *)
  | Some c =>
    match f_parse F c with
    | Some (Some b') => match f_canon F b' with Some c' => String.eqb c c' | None => false end
    | _ => false
    end
  end.

(* Value.Model.float_int64 reproduces the recorded outcome of the real test
   `f == float64(int64(f))` / value of int64(f) *)
Definition int64_at (X : floats_ext) (b : Z) : bool :=
  match f_int64 X b, float_int64 b with
  | Some None, None => true
  | Some (Some z), Some z' => Z.eqb z z'
  | _, _ => false
  end.

Definition float_hyps_val (F : floats) (X : floats_ext) (dt : option string) (v : jval) : bool :=
  match v with
  | JNum b => canon_idem_at F b && int64_at X b
  | JStr s =>
    match dt with
    | Some d =>
      if String.eqb d xsd_double then
        match f_parse F s with
        | Some (Some b) => canon_idem_at F b
        | Some None => true
        | None => false
        end
      else true
    | None => true
    end
  | _ => true
  end.

Definition gcase_ok (H : hasher) (F : floats) (X : floats_ext) (c : gcase) : bool :=
  let hv_ok :=
    forallb (fun h : hvcase =>
      let '(dt, v, o) := h in
      hv_agree (value_to_hash H F dt (raw (jval_of v))) o
      && float_hyps_val F X (Some dt) (jval_of v)) (g_hvs c) in
  let hyp_ok :=
    forallb (fun e : docelem => float_hyps_val F X (fst e) (jval_of (snd e))) (g_docs c) in
  let leaf_ok :=
    if g_pair c then
      match all_some (map (model_tuple H F X) (g_docs c)) with
      | Some ms =>
        seteq_t ms (map (fun o : obstuple =>
                           let '(dt, l, p, k) := o in (dt, z_of_limbs l, z_of_limbs p, k)) (g_obs c))
      | None => false
      end
    else true in
  hv_ok && hyp_ok && leaf_ok.

Definition gmismatches (hs : list raw_hasher) (rf : raw_floats) (rx : raw_floats_ext)
           (cs : list gcase) : list int :=
  let Hs := map mk_hasher hs in
  let F := mk_floats rf in
  let X := mk_floats_ext rx in
  fold_right (fun c acc =>
      let H := nth (nat_of_int (g_hasher c)) Hs dummy_hasher in
      if gcase_ok H F X c then acc else g_id c :: acc) [] cs.
