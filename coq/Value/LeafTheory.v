(* Value/LeafTheory.v — theorems of property C10 about the model Value/Leaf.v.

   agree (C10_agree): for every hasher, every datatype and every JSON value that can
   sit in a value object (boolean, number, string), hashing the raw value standalone
   gives exactly the outcome of the leaf path (same value, or the same failure).
   Since fix 7821fd0 (HashValue prints an integral float64 of a non-double datatype
   with all its digits, like the JSON-LD processor) this needs no restriction on the
   magnitude of integers and no special case for -0.
   kind_and_proof_value (C10_kind): the entry value built for a literal has the Go
   kind implied by its datatype, and the Value handed out with a proof hashes to the
   leaf.
   int_from_str_z_to_string (C10_int_roundtrip): fmt %d followed by
   big.Rat.SetString / IsInt / Num is the identity on integers, so the common
   lexical form of an integral number denotes that integer on both paths.

   The only assumed fact about strconv / json-gold is the Section hypothesis
   `canon_idem` (a canonical double re-parses to a float with the same canonical
   form), needed for numeric STRINGS under xsd:double. *)
From Coq Require Import ZArith List String Ascii Bool Lia.
From GSP Require Import Base.Prelude Value.Time Value.Model Value.Leaf.
Import ListNotations.
Open Scope Z_scope.

(* ------------------------------------------------------------------ *)
(* fmt "%d" then intFromStr is the identity                             *)
(* ------------------------------------------------------------------ *)
Definition dstep (a : Z) (c : ascii) : Z := a * 10 + digit_val c.
Definition all_digits (l : list ascii) : Prop := Forall (fun c => is_digit c = true) l.

Lemma take_digits_all : forall l acc n, all_digits l ->
  take_digits l acc n = (fold_left dstep l acc, (n + List.length l)%nat, []).
Proof.
  induction l as [|c t IH]; intros acc n Hall; simpl.
  - replace (n + 0)%nat with n by lia. reflexivity.
  - inversion Hall as [|c' t' Hc Ht]; subst. rewrite Hc. rewrite (IH _ _ Ht).
    unfold dstep at 2. replace (S n + List.length t)%nat with (n + S (List.length t))%nat by lia. reflexivity.
Qed.

Lemma digit_char_ok d :
  0 <= d < 10 ->
  is_digit (ascii_of_nat (Z.to_nat d + 48)) = true /\ digit_val (ascii_of_nat (Z.to_nat d + 48)) = d.
Proof.
  intros Hd.
  assert (Hc : d = 0 \/ d = 1 \/ d = 2 \/ d = 3 \/ d = 4 \/ d = 5 \/ d = 6 \/ d = 7 \/ d = 8 \/ d = 9) by lia.
  repeat (destruct Hc as [Hc | Hc]; [subst d; split; reflexivity|]). subst d; split; reflexivity.
Qed.

Lemma pos_digits_spec : forall fuel z acc,
  (0 < fuel)%nat -> 0 <= z < 10 ^ Z.of_nat fuel ->
  exists ds, pos_digits fuel z acc = ds ++ acc /\ all_digits ds /\ ds <> [] /\
             forall a0, fold_left dstep ds a0 = a0 * 10 ^ Z.of_nat (List.length ds) + z.
Proof.
  induction fuel as [|f IH]; intros z acc Hf Hz; [lia|].
  cbn [pos_digits].
  assert (Hm : 0 <= z mod 10 < 10) by (apply Z.mod_pos_bound; lia).
  destruct (digit_char_ok (z mod 10) Hm) as [Hd1 Hd2].
  set (d := ascii_of_nat (Z.to_nat (z mod 10) + 48)) in *.
  destruct (z <? 10) eqn:Hlt.
  - exists [d]. apply Z.ltb_lt in Hlt.
    assert (Hzz : z mod 10 = z) by (apply Z.mod_small; lia).
    repeat split.
    + constructor; [exact Hd1 | constructor].
    + discriminate.
    + intros a0. cbn [fold_left List.length]. unfold dstep. rewrite Hd2, Hzz.
      change (Z.of_nat 1) with 1. rewrite Z.pow_1_r. reflexivity.
  - apply Z.ltb_ge in Hlt.
    assert (Hf0 : (0 < f)%nat).
    { destruct f; [|lia]. change (Z.of_nat 1) with 1 in Hz. rewrite Z.pow_1_r in Hz. lia. }
    assert (Hpow : 10 ^ Z.of_nat (S f) = 10 * 10 ^ Z.of_nat f).
    { rewrite Nat2Z.inj_succ, Z.pow_succ_r by lia. reflexivity. }
    assert (Hq : 0 <= z / 10 < 10 ^ Z.of_nat f).
    { split; [apply Z.div_pos; lia|]. apply Z.div_lt_upper_bound; lia. }
    destruct (IH (z / 10) (d :: acc) Hf0 Hq) as (ds & Heq & Hall & Hne & Hval).
    exists (ds ++ [d]). repeat split.
    + rewrite Heq, <- app_assoc. reflexivity.
    + apply Forall_app. split; [exact Hall | constructor; [exact Hd1 | constructor]].
    + intros Habs. apply app_eq_nil in Habs. destruct Habs as [_ Habs]. discriminate.
    + intros a0. rewrite fold_left_app. cbn [fold_left]. unfold dstep at 1. rewrite Hval, Hd2.
      rewrite app_length. cbn [List.length]. rewrite Nat2Z.inj_add. change (Z.of_nat 1) with 1.
      rewrite Z.pow_add_r by lia. rewrite Z.pow_1_r.
      pose proof (Z.div_mod z 10 ltac:(lia)) as Hdm. lia.
Qed.

Lemma fuel_enough a : 0 <= a -> a < 10 ^ Z.of_nat (S (Z.to_nat (Z.log2 (a + 1)))).
Proof.
  intros Ha.
  pose proof (Z.log2_nonneg (a + 1)) as HL.
  destruct (Z.log2_spec (a + 1) ltac:(lia)) as [_ Hup].
  rewrite Nat2Z.inj_succ, Z2Nat.id by lia.
  assert (Hle : 2 ^ Z.succ (Z.log2 (a + 1)) <= 10 ^ Z.succ (Z.log2 (a + 1))).
  { apply Z.pow_le_mono_l. lia. }
  lia.
Qed.

Lemma str_to_list_of_list l : str_to_list (str_of_list l) = l.
Proof. induction l as [|c t IH]; simpl; [reflexivity | rewrite IH; reflexivity]. Qed.

Lemma split_slash_none : forall l acc,
  Forall (fun c => Ascii.eqb c "/" = false) l -> split_slash l acc = None.
Proof.
  induction l as [|c t IH]; intros acc Hall; simpl; [reflexivity|].
  inversion Hall as [|c' t' Hc Ht]; subst. rewrite Hc. apply IH. exact Ht.
Qed.

Lemma digit_not_slash c : is_digit c = true -> Ascii.eqb c "/" = false.
Proof.
  intros Hd. destruct (Ascii.eqb_spec c "/") as [->|]; [vm_compute in Hd; discriminate | reflexivity].
Qed.

Lemma take_sign_digit c t : is_digit c = true -> take_sign (c :: t) = (false, c :: t).
Proof.
  intros Hd. destruct c as [[] [] [] [] [] [] [] []]; try reflexivity; vm_compute in Hd; discriminate.
Qed.

Lemma parse_decimal_digits (neg : bool) ds a :
  all_digits ds -> ds <> [] -> (forall a0, fold_left dstep ds a0 = a0 * 10 ^ Z.of_nat (List.length ds) + a) ->
  parse_decimal (if neg then "-"%char :: ds else ds) =
  Some (if (if neg then - a else a) =? 0 then (0, 0) else ((if neg then - a else a), 0)).
Proof.
  intros Hall Hne Hval.
  assert (Hsign : take_sign (if neg then "-"%char :: ds else ds) = (neg, ds)).
  { destruct neg; [reflexivity|]. destruct ds as [|c t]; [congruence|].
    inversion Hall; subst. apply take_sign_digit. assumption. }
  unfold parse_decimal. rewrite Hsign. rewrite (take_digits_all ds 0 0%nat Hall).
  rewrite Hval. cbn [Z.mul Z.add Nat.add].
  destruct ds as [|c t]; [congruence|]. cbn [List.length Nat.add Nat.eqb].
  destruct ((if neg then - a else a) =? 0); reflexivity.
Qed.

Theorem int_from_str_z_to_string z : int_from_str (z_to_string z) = Some z.
Proof.
  unfold z_to_string, int_from_str. rewrite str_to_list_of_list.
  set (a := Z.abs z).
  assert (Ha : 0 <= a) by (unfold a; lia).
  destruct (pos_digits_spec (S (Z.to_nat (Z.log2 (a + 1)))) a [] ltac:(lia)
              (conj Ha (fuel_enough a Ha))) as (ds & Heq & Hall & Hne & Hval).
  rewrite Heq, app_nil_r.
  assert (Hns : Forall (fun c => Ascii.eqb c "/" = false) (if z <? 0 then "-"%char :: ds else ds)).
  { assert (Hd : Forall (fun c => Ascii.eqb c "/" = false) ds).
    { eapply Forall_impl; [|exact Hall]. intros c Hc. apply digit_not_slash. exact Hc. }
    destruct (z <? 0); [constructor; [reflexivity | exact Hd] | exact Hd]. }
  rewrite (split_slash_none _ [] Hns).
  rewrite (parse_decimal_digits (z <? 0) ds a Hall Hne Hval).
  destruct (z <? 0) eqn:Hz.
  - apply Z.ltb_lt in Hz. destruct (- a =? 0) eqn:Hm.
    + apply Z.eqb_eq in Hm. unfold a in Hm. lia.
    + cbn [Z.leb]. replace (0 <=? 0) with true by reflexivity. f_equal. unfold a. lia.
  - apply Z.ltb_ge in Hz. destruct (a =? 0) eqn:Hm.
    + apply Z.eqb_eq in Hm. replace (0 <=? 0) with true by reflexivity. f_equal. unfold a in Hm. lia.
    + replace (0 <=? 0) with true by reflexivity. f_equal. unfold a. lia.
Qed.

(* ------------------------------------------------------------------ *)
(* datatype bookkeeping                                                 *)
(* ------------------------------------------------------------------ *)
Lemma eqb_double_classify dt : String.eqb dt xsd_double = true -> classify dt = DDouble.
Proof. intros H. apply String.eqb_eq in H. subst dt. reflexivity. Qed.

Lemma classify_double_eqb dt : classify dt = DDouble -> String.eqb dt xsd_double = true.
Proof.
  unfold classify.
  repeat (match goal with |- context [String.eqb dt ?s] => destruct (String.eqb dt s) eqn:? end;
          try discriminate); auto.
Qed.

(* ------------------------------------------------------------------ *)
(* agreement of the two paths                                           *)
(* ------------------------------------------------------------------ *)
Section Agree.
  Variable F : floats.

  (* assumed of strconv.ParseFloat / ld.GetCanonicalDouble: a canonical double
     re-parses to a float with the same canonical form; every instance is
     re-validated on every float of every run (LeafRun.canon_idem_at) *)
  Hypothesis canon_idem : forall b c,
    f_canon F b = Some c -> exists b', f_parse F c = Some (Some b') /\ f_canon F b' = Some c.

  Lemma agree_str H dt s :
    value_to_hash H F dt (GStr s) = leaf_value H F dt s.
  Proof.
    unfold value_to_hash, leaf_value, leaf_entry, any_to_string.
    destruct (String.eqb dt xsd_double) eqn:Hd; [|reflexivity].
    pose proof (eqb_double_classify dt Hd) as Hc.
    unfold convert. rewrite Hc.
    destruct (f_parse F s) as [[b|]|] eqn:Hp; cbn [bind]; try reflexivity.
    destruct (f_canon F b) as [c|] eqn:Hcn; cbn [bind]; [|reflexivity].
    destruct (canon_idem b c Hcn) as (b' & Hp' & Hc').
    rewrite Hp', Hc'. reflexivity.
  Qed.

  Lemma agree_same_lexical H dt v s :
    any_to_string F v dt = Ok s -> value_to_hash H F dt v = leaf_value H F dt s.
  Proof. intros Hs. unfold value_to_hash, leaf_value, leaf_entry. rewrite Hs. reflexivity. Qed.

  (* a JSON number: both sides print the same lexical form (integral and not
     xsd:double: all digits of int64(f); otherwise the canonical double) *)
  Lemma number_same_lexical declared bits lex dt :
    to_rdf_lex F declared (JNum bits) = Ok (lex, dt) ->
    any_to_string F (GFloat bits) dt = Ok lex.
  Proof.
    cbn [to_rdf_lex]. intros Hlex.
    set (dd := match declared with Some t => String.eqb t xsd_double | None => false end) in *.
    unfold any_to_string.
    destruct (float_int64 bits) as [z|] eqn:Hi; destruct dd eqn:Hdd.
    - (* integral, declared xsd:double *)
      destruct (f_canon F bits) as [c|] eqn:Hc; [|discriminate].
      inversion Hlex; subst lex dt. unfold dd in Hdd.
      destruct declared as [t|]; [|discriminate]. rewrite Hdd. reflexivity.
    - (* integral, any other datatype *)
      inversion Hlex; subst lex dt.
      assert (Hnd : String.eqb (match declared with Some t => t | None => xsd_integer end) xsd_double = false).
      { unfold dd in Hdd. destruct declared as [t|]; [exact Hdd | reflexivity]. }
      rewrite Hnd. reflexivity.
    - destruct (f_canon F bits) as [c|] eqn:Hc; [|discriminate].
      inversion Hlex; subst lex dt.
      destruct (String.eqb (match declared with Some t => t | None => xsd_double end) xsd_double); reflexivity.
    - destruct (f_canon F bits) as [c|] eqn:Hc; [|discriminate].
      inversion Hlex; subst lex dt.
      destruct (String.eqb (match declared with Some t => t | None => xsd_double end) xsd_double); reflexivity.
  Qed.

  Theorem agree H declared v lex dt :
    to_rdf_lex F declared v = Ok (lex, dt) ->
    value_to_hash H F dt (raw v) = leaf_value H F dt lex.
  Proof.
    intros Hlex. destruct v as [b | bits | s |]; cbn [raw].
    - (* bool: strconv.FormatBool on one side, fmt %v on the other *)
      cbn [to_rdf_lex] in Hlex. inversion Hlex; subst. apply agree_same_lexical.
      unfold any_to_string. destruct (String.eqb _ xsd_double); destruct b; reflexivity.
    - apply agree_same_lexical. eapply number_same_lexical. exact Hlex.
    - cbn [to_rdf_lex] in Hlex. inversion Hlex; subst. apply agree_str.
    - discriminate.
  Qed.
End Agree.

(* ------------------------------------------------------------------ *)
(* kinds and the proof value                                            *)
(* ------------------------------------------------------------------ *)
Theorem kind_and_proof_value H F dt lex x :
  leaf_entry F dt lex (h_prime H) = Ok x ->
  kind_of x = kind_implied (classify dt) /\
  proof_value_entry H x = leaf_value H F dt lex.
Proof.
  intros Hx. split.
  - unfold leaf_entry, convert in Hx. destruct (classify dt) as [ | k | | | ].
    + destruct (_ || _); [inversion Hx; reflexivity|]. destruct (_ || _); [inversion Hx; reflexivity | discriminate].
    + destruct (int_from_str lex) as [i|]; [|discriminate].
      destruct (min_max_by_kind k (h_prime H)) as [mn mx].
      destruct (i >? mx); [discriminate|]. destruct (i <? mn); [discriminate|]. inversion Hx; reflexivity.
    + destruct (parse_datetime lex) as [[u n]|]; [inversion Hx; reflexivity | discriminate].
    + destruct (f_parse F lex) as [[b|]|]; try discriminate.
      destruct (f_canon F b); [inversion Hx; reflexivity | discriminate].
    + inversion Hx; reflexivity.
  - unfold leaf_value, proof_value_entry. rewrite Hx. reflexivity.
Qed.

(* ------------------------------------------------------------------ *)
(* non-vacuity                                                          *)
(* ------------------------------------------------------------------ *)
Definition toyF : floats :=
  {| f_parse := fun s => if String.eqb s "0.0E0" then Some (Some bits_zero)
                         else if String.eqb s "1.0E0" then Some (Some bits_one)
                         else if String.eqb s "1.5E0" then Some (Some 4609434218613702656)
                         else Some None;
     f_canon := fun b => if b =? bits_zero then Some "0.0E0"%string
                         else if b =? bits_one then Some "1.0E0"%string
                         else if b =? 4609434218613702656 then Some "1.5E0"%string
                         else None;
     f_of_int := fun _ => None |}.
Definition toyH : hasher :=
  {| h_prime := 21888242871839275222246405745257275088548364400416034343698204186575808495617;
     h_hash := fun l => match l with [x] => OV (x + 1000) | _ => OM end;
     h_bytes := fun s => OV (Z.of_nat (String.length s) + 7) |}.

Example toy_hypothesis :
  forall b c, f_canon toyF b = Some c -> exists b', f_parse toyF c = Some (Some b') /\ f_canon toyF b' = Some c.
Proof.
  intros b c. unfold toyF; cbn [f_canon f_parse].
  destruct (b =? bits_zero) eqn:E0; [intros Hc; inversion Hc; subst; exists bits_zero; split; reflexivity|].
  destruct (b =? bits_one) eqn:E1; [intros Hc; inversion Hc; subst; exists bits_one; split; reflexivity|].
  destruct (b =? 4609434218613702656) eqn:E2; [intros Hc; inversion Hc; subst; exists 4609434218613702656; split; reflexivity|].
  discriminate.
Qed.

(* IEEE-754 bit patterns: 42.0, 2^60, -0.0, 1.5 *)
Example float_int64_values :
  float_int64 4631107791820423168 = Some 42 /\ float_int64 4877398396442247168 = Some (2 ^ 60) /\
  float_int64 9223372036854775808 = Some 0 /\ float_int64 4609434218613702656 = None /\
  float_int64 bits_one = Some 1.
Proof. vm_compute. repeat split. Qed.

(* the number 42 under xsd:integer, 2^60 (19 significant digits) under xsd:integer,
   the numbers 1 and -0 under xsd:boolean, 1.5 untyped, a numeric string, a
   dateTime string: both sides computed *)
Example toy_agree_values :
  value_to_hash toyH toyF xsd_integer (raw (JNum 4631107791820423168)) = Ok 42 /\
  to_rdf_lex toyF (Some xsd_integer) (JNum 4631107791820423168) = Ok ("42"%string, xsd_integer) /\
  leaf_value toyH toyF xsd_integer "42" = Ok 42 /\
  value_to_hash toyH toyF xsd_integer (raw (JNum 4877398396442247168)) = Ok 1152921504606846976 /\
  to_rdf_lex toyF None (JNum 4877398396442247168) = Ok ("1152921504606846976"%string, xsd_integer) /\
  value_to_hash toyH toyF xsd_boolean (raw (JNum bits_one)) = Ok 1001 /\
  to_rdf_lex toyF (Some xsd_boolean) (JNum bits_one) = Ok ("1"%string, xsd_boolean) /\
  leaf_value toyH toyF xsd_boolean "1" = Ok 1001 /\
  value_to_hash toyH toyF xsd_boolean (raw (JNum 9223372036854775808)) = Ok 1000 /\
  to_rdf_lex toyF None (JNum 4609434218613702656) = Ok ("1.5E0"%string, xsd_double) /\
  value_to_hash toyH toyF xsd_double (raw (JNum 4609434218613702656)) = leaf_value toyH toyF xsd_double "1.5E0" /\
  leaf_value toyH toyF xsd_double "1.5E0" = Ok 12 /\
  value_to_hash toyH toyF xsd_integer (raw (JStr "-3.3E1")) = Ok (h_prime toyH - 33) /\
  value_to_hash toyH toyF xsd_datetime (raw (JStr "2020-06-01T12:00:00+02:00")) = Ok 1591005600000000000.
Proof. vm_compute. repeat split. Qed.

(* C10_kind is not vacuous: entry values of every kind *)
Example toy_kinds :
  leaf_entry toyF xsd_integer "42" (h_prime toyH) = Ok (XBig 42) /\
  leaf_entry toyF xsd_boolean "1" (h_prime toyH) = Ok (XBool true) /\
  leaf_entry toyF xsd_datetime "2020-06-01T10:00:00Z" (h_prime toyH) = Ok (XTime 1591005600 0) /\
  leaf_entry toyF xsd_double "1.5E0" (h_prime toyH) = Ok (XStr "1.5E0") /\
  leaf_entry toyF xsd_string "x" (h_prime toyH) = Ok (XStr "x").
Proof. vm_compute. repeat split. Qed.
