(* Value/Theory.v — theorems about the value-encoding model (property C04).
   All statements are for every hasher record (arbitrary functions), every
   lexical form, and every odd modulus p >= 3. *)
From Coq Require Import ZArith List String Ascii Bool Lia.
From GSP Require Import Base.Prelude Value.Time Value.Model.
Import ListNotations.
Open Scope Z_scope.

(* ---- the statement's ranges, written independently of the code ---- *)
Definition lo (k : ikind) (p : Z) : Z :=
  match k with
  | KInteger | KNegative | KNonPositive => - ((p - 1) / 2)
  | KPositive => 1
  | KNonNegative => 0
  end.
Definition hi (k : ikind) (p : Z) : Z :=
  match k with
  | KInteger => (p - 1) / 2
  | KPositive | KNonNegative => p - 1
  | KNegative => -1
  | KNonPositive => 0
  end.

(* the encoding demanded by the property: v for v >= 0, p + v for v < 0 *)
Definition enc (p z : Z) : Z := if z <? 0 then p + z else z.

Definition odd_modulus (p : Z) : Prop := 3 <= p /\ Z.odd p = true.

Lemma odd_half p : Z.odd p = true -> p / 2 = (p - 1) / 2 /\ p = 2 * ((p - 1) / 2) + 1.
Proof.
  intros Ho. rewrite Z.odd_spec in Ho. destruct Ho as [m Hm]. subst p.
  replace (2 * m + 1 - 1) with (m * 2) by lia.
  rewrite Z.div_mul by lia.
  replace (2 * m + 1) with (1 + m * 2) by lia.
  rewrite Z.div_add by lia. cbn. lia.
Qed.

Lemma min_max_from_prime_odd p :
  odd_modulus p -> min_max_from_prime p = (- ((p - 1) / 2), (p - 1) / 2).
Proof.
  intros [Hp Ho]. unfold min_max_from_prime.
  destruct (odd_half p Ho) as [H1 H2]. rewrite H1. f_equal. lia.
Qed.

Lemma min_max_by_kind_spec k p :
  odd_modulus p -> min_max_by_kind k p = (lo k p, hi k p).
Proof.
  intros Hp. unfold min_max_by_kind. rewrite (min_max_from_prime_odd p Hp).
  destruct k; reflexivity.
Qed.

(* ---- integers: acceptance, value, range safety ---- *)
Theorem convert_int_accept F dt lex p k z :
  odd_modulus p -> classify dt = DInt k ->
  (convert F dt lex p = Ok (XBig z) <->
   int_from_str lex = Some z /\ lo k p <= z <= hi k p).
Proof.
  intros Hp Hc. unfold convert. rewrite Hc.
  destruct (int_from_str lex) as [i|] eqn:Hi.
  - rewrite (min_max_by_kind_spec k p Hp).
    destruct (i >? hi k p) eqn:H1.
    + split; [discriminate|]. intros [Heq Hr]. inversion Heq; subst. lia.
    + destruct (i <? lo k p) eqn:H2.
      * split; [discriminate|]. intros [Heq Hr]. inversion Heq; subst. lia.
      * split.
        -- intros Heq. inversion Heq; subst. split; [reflexivity|lia].
        -- intros [Heq _]. inversion Heq; subst. reflexivity.
  - split; [discriminate|]. intros [Heq _]. discriminate.
Qed.

Theorem convert_int_shape F dt lex p k x :
  classify dt = DInt k -> convert F dt lex p = Ok x -> exists z, x = XBig z.
Proof.
  intros Hc. unfold convert. rewrite Hc.
  destruct (int_from_str lex) as [i|]; [|discriminate].
  destruct (min_max_by_kind k p) as [mn mx].
  destruct (i >? mx); [discriminate|]. destruct (i <? mn); [discriminate|].
  intros H. inversion H. eauto.
Qed.

Lemma range_within_field k p z :
  odd_modulus p -> lo k p <= z <= hi k p -> - ((p - 1) / 2) <= z < p.
Proof.
  intros [Hp Ho] Hr. destruct (odd_half p Ho) as [_ H2].
  destruct k; cbn [lo hi] in Hr; lia.
Qed.

Lemma mk_value_bigint_in_range H z :
  odd_modulus (h_prime H) -> - ((h_prime H - 1) / 2) <= z < h_prime H ->
  mk_value_bigint H z = Ok (enc (h_prime H) z).
Proof.
  intros Hp Hr. unfold mk_value_bigint, enc.
  rewrite (min_max_from_prime_odd _ Hp). cbn [fst].
  destruct (z >=? h_prime H) eqn:H1; [lia|].
  destruct (z <? 0) eqn:H2.
  - destruct (z <? - ((h_prime H - 1) / 2)) eqn:H3; [lia|]. f_equal. lia.
  - reflexivity.
Qed.

(* full pipeline on a lexical form: accepted exactly in range, encoded as enc,
   never reduced modulo p *)
Theorem hash_int_lexical H F dt lex k e :
  odd_modulus (h_prime H) -> classify dt = DInt k -> String.eqb dt xsd_double = false ->
  (value_to_hash H F dt (GStr lex) = Ok e <->
   exists z, int_from_str lex = Some z /\ lo k (h_prime H) <= z <= hi k (h_prime H) /\
             e = enc (h_prime H) z).
Proof.
  intros Hp Hc Hd. unfold value_to_hash, any_to_string. rewrite Hd. cbn [bind].
  split.
  - destruct (convert F dt lex (h_prime H)) as [x| | |] eqn:Hcv; cbn [bind]; try discriminate.
    destruct (convert_int_shape _ _ _ _ _ _ Hc Hcv) as [z ->].
    apply (convert_int_accept F dt lex _ k z Hp Hc) in Hcv. destruct Hcv as [Hi Hr].
    cbn [mk_value_entry].
    rewrite (mk_value_bigint_in_range H z Hp (range_within_field k _ z Hp Hr)).
    intros Heq. inversion Heq. exists z. auto.
  - intros (z & Hi & Hr & ->).
    assert (Hcv : convert F dt lex (h_prime H) = Ok (XBig z))
      by (apply (convert_int_accept F dt lex _ k z Hp Hc); auto).
    rewrite Hcv. cbn [bind mk_value_entry].
    apply (mk_value_bigint_in_range H z Hp (range_within_field k _ z Hp Hr)).
Qed.

Theorem enc_in_field k p z :
  odd_modulus p -> lo k p <= z <= hi k p -> 0 <= enc p z < p.
Proof.
  intros Hp Hr. pose proof (range_within_field k p z Hp Hr) as Hf.
  destruct Hp as [Hp Ho]. destruct (odd_half p Ho) as [_ H2].
  unfold enc. destruct (z <? 0) eqn:Hz; lia.
Qed.

(* distinct in-range integers of one type never share an encoding *)
Theorem enc_injective k p z1 z2 :
  odd_modulus p -> lo k p <= z1 <= hi k p -> lo k p <= z2 <= hi k p ->
  enc p z1 = enc p z2 -> z1 = z2.
Proof.
  intros [Hp Ho] H1 H2. destruct (odd_half p Ho) as [_ Hh].
  unfold enc. destruct (z1 <? 0) eqn:E1, (z2 <? 0) eqn:E2; intros He;
    destruct k; cbn [lo hi] in H1, H2; lia.
Qed.

(* spelling independence: the encoding depends only on the denoted integer *)
Theorem hash_int_spelling H F dt k lex1 lex2 z :
  odd_modulus (h_prime H) -> classify dt = DInt k -> String.eqb dt xsd_double = false ->
  int_from_str lex1 = Some z -> int_from_str lex2 = Some z ->
  value_to_hash H F dt (GStr lex1) = value_to_hash H F dt (GStr lex2).
Proof.
  intros Hp Hc Hd H1 H2. unfold value_to_hash, any_to_string. rewrite Hd. cbn [bind].
  unfold convert. rewrite Hc, H1, H2. reflexivity.
Qed.

(* out of range or ill-formed => error (never Ok, never a reduced value) *)
Theorem hash_int_rejects H F dt lex k :
  odd_modulus (h_prime H) -> classify dt = DInt k -> String.eqb dt xsd_double = false ->
  (int_from_str lex = None \/
   exists z, int_from_str lex = Some z /\ ~ (lo k (h_prime H) <= z <= hi k (h_prime H))) ->
  exists t, value_to_hash H F dt (GStr lex) = Err t.
Proof.
  intros Hp Hc Hd Hbad. unfold value_to_hash, any_to_string. rewrite Hd. cbn [bind].
  unfold convert. rewrite Hc. destruct Hbad as [Hn | (z & Hz & Hr)].
  - rewrite Hn. cbn. eauto.
  - rewrite Hz, (min_max_by_kind_spec k _ Hp).
    destruct (z >? hi k (h_prime H)) eqn:E1; [cbn; eauto|].
    destruct (z <? lo k (h_prime H)) eqn:E2; [cbn; eauto|]. lia.
Qed.

(* ---- booleans ---- *)
Definition bool_lex (s : string) : option bool :=
  if String.eqb s "false" || String.eqb s "0" || String.eqb s "0.0E0" then Some false
  else if String.eqb s "true" || String.eqb s "1" || String.eqb s "1.0E0" then Some true
  else None.

Theorem hash_bool H F lex :
  value_to_hash H F xsd_boolean (GStr lex) =
  match bool_lex lex with
  | Some b => of_ores (h_hash H [if b then 1 else 0]) "hash"
  | None => Err "bool"
  end.
Proof.
  unfold value_to_hash, any_to_string, bool_lex.
  replace (String.eqb xsd_boolean xsd_double) with false by reflexivity. cbn [bind].
  unfold convert. replace (classify xsd_boolean) with DBool by reflexivity.
  destruct (String.eqb lex "false" || String.eqb lex "0" || String.eqb lex "0.0E0"); [reflexivity|].
  destruct (String.eqb lex "true" || String.eqb lex "1" || String.eqb lex "1.0E0"); reflexivity.
Qed.

Theorem hash_bool_distinct H F l1 l2 e :
  bool_lex l1 = Some true -> bool_lex l2 = Some false ->
  value_to_hash H F xsd_boolean (GStr l1) = Ok e ->
  value_to_hash H F xsd_boolean (GStr l2) = Ok e ->
  h_hash H [1] = h_hash H [0].   (* only by a collision of the hash function *)
Proof.
  intros H1 H2. rewrite !hash_bool, H1, H2.
  destruct (h_hash H [1]) eqn:A, (h_hash H [0]) eqn:B; cbn; intros E1 E2; try discriminate.
  inversion E1; inversion E2; subst; reflexivity.
Qed.

(* ---- dateTime ---- *)
Theorem hash_time H F lex :
  value_to_hash H F xsd_datetime (GStr lex) =
  match parse_datetime lex with
  | Some (u, n) => Ok ((u * 1000000000 + n) mod h_prime H)
  | None => Err "time"
  end.
Proof.
  unfold value_to_hash, any_to_string.
  replace (String.eqb xsd_datetime xsd_double) with false by reflexivity. cbn [bind].
  unfold convert. replace (classify xsd_datetime) with DDateTime by reflexivity.
  destruct (parse_datetime lex) as [[u n]|]; reflexivity.
Qed.

(* the encoding depends only on the instant, and for a modulus above 2^70
   distinct nanosecond instants of years 0..9999 have distinct encodings *)
Definition instant_ns (u n : Z) : Z := u * 1000000000 + n.
Definition instant_in_range (x : Z) : Prop := - 2 ^ 69 < x < 2 ^ 69.

Theorem time_injective p x1 x2 :
  2 ^ 70 <= p -> instant_in_range x1 -> instant_in_range x2 ->
  x1 mod p = x2 mod p -> x1 = x2.
Proof.
  unfold instant_in_range. intros Hp H1 H2 He.
  assert (Hp0 : 0 < p) by (pose proof (Z.pow_pos_nonneg 2 70); lia).
  assert (Hd : (x1 - x2) mod p = 0).
  { rewrite Zminus_mod, He, Z.sub_diag. apply Z.mod_0_l. lia. }
  apply Z.mod_divide in Hd; [|lia]. destruct Hd as [q Hq].
  assert (Hpow : 2 ^ 70 = 2 * 2 ^ 69) by (change 70 with (Z.succ 69); rewrite Z.pow_succ_r; lia).
  assert (q = 0) by nia. subst q. lia.
Qed.

(* ---- other datatypes: hash of the string itself ---- *)
Theorem hash_other H F dt s :
  classify dt = DOther -> String.eqb dt xsd_double = false ->
  value_to_hash H F dt (GStr s) = of_ores (h_bytes H s) "hashbytes".
Proof.
  intros Hc Hd. unfold value_to_hash, any_to_string. rewrite Hd. cbn [bind].
  unfold convert. rewrite Hc. reflexivity.
Qed.

(* ---- non-vacuity and concrete instances ---- *)
Example odd_modulus_bn254 :
  odd_modulus 21888242871839275222246405745257275088548364400416034343698204186575808495617.
Proof. split; [lia | reflexivity]. Qed.

Example bn254_above_2_70 :
  2 ^ 70 <= 21888242871839275222246405745257275088548364400416034343698204186575808495617.
Proof. vm_compute. discriminate. Qed.

Example spellings_of_33 :
  map int_from_str ["33"; "3.3E1"; "033"; "33.0"; "+33"; "330e-1"; "66/2"; "33."]%string
  = repeat (Some 33) 8.
Proof. vm_compute. reflexivity. Qed.

Example ill_formed_ints :
  map int_from_str [""; "abc"; "1e"; "--1"; "1.2.3"; "."; "1/0"; "3.5"; "35e-1"; "1/3"; "1e1000001"]%string
  = repeat None 11.
Proof. vm_compute. reflexivity. Qed.

Example offsets_same_instant :
  parse_datetime "2020-06-01T12:00:00+02:00" = parse_datetime "2020-06-01T10:00:00Z" /\
  parse_datetime "2020-06-01T10:00:00Z" = Some (1591005600, 0) /\
  parse_datetime "1969-12-31" = Some (-86400, 0) /\
  parse_datetime "2021-02-29T00:00:00Z" = None.
Proof. vm_compute. repeat split. Qed.

(* small field enumerated completely: p = 13, all five types, z in [-15, 15] *)
Definition small_grid (p : Z) : list (ikind * Z) :=
  flat_map (fun k => map (fun i => (k, Z.of_nat i - p - 2)) (seq 0 (Z.to_nat (2 * p + 5))))
           [KInteger; KPositive; KNonNegative; KNegative; KNonPositive].
Definition kind_dt (k : ikind) : string :=
  match k with
  | KInteger => xsd_integer | KPositive => xsd_positive | KNonNegative => xsd_nonnegative
  | KNegative => xsd_negative | KNonPositive => xsd_nonpositive
  end.
Definition small_ok (p : Z) (kz : ikind * Z) : bool :=
  let '(k, z) := kz in
  let H := {| h_prime := p; h_hash := fun _ => OM; h_bytes := fun _ => OM |} in
  let F := {| f_parse := fun _ => None; f_canon := fun _ => None; f_of_int := fun _ => None |} in
  match value_to_hash H F (kind_dt k) (GStr (z_to_string z)) with
  | Ok e => (lo k p <=? z) && (z <=? hi k p) && (e =? enc p z)
  | Err _ => negb ((lo k p <=? z) && (z <=? hi k p))
  | _ => false
  end.
Example small_field_13 : forallb (small_ok 13) (small_grid 13) = true.
Proof. vm_compute. reflexivity. Qed.
Example small_field_3 : forallb (small_ok 3) (small_grid 3) = true.
Proof. vm_compute. reflexivity. Qed.
