(* Value/LeafPinned.v — property C10, "for every hasher" in time: a merklizer built
   WITHOUT WithHasher pins the package default hasher of the moment it was built
   (merklize.go: `if mz.hasher == nil { mz.hasher = defaultHasher }`, entries from
   EntriesFromRDFWithHasher(ds, mz.hasher)).  A later merklize.SetHasher must not
   change anything a caller computes through that merklizer: the Value returned
   with a proof, mz.Hasher(), paths from mz.Options().

   Model: Merklizer/Model.v, Merklizer/Script.v (`D i` = value of the package
   variable defaultHasher while call number i runs; call 0 is MerklizeJSONLD).
   Theorems only (the models live elsewhere). *)
From Coq Require Import ZArith List String Bool.
From GSP Require Import Base.Prelude Value.Time Value.Model Value.Leaf RDF.Model SMT.Model
  Merklizer.Model Merklizer.Script Merklizer.Theory.
Import ListNotations.
Open Scope Z_scope.

(* whole scripts: whatever the package default hasher is changed to AFTER
   merklization (D and D' agree only on call 0), every observation made through the
   merklizer's own options is the same *)
Theorem pinned_script T F (D D' : nat -> hasher) ds ss :
  D O = D' O ->
  forallb via_options ss = true ->
  run T F D None ds ss = run T F D' None ds ss.
Proof.
  intros H0 Hv. unfold run. rewrite H0.
  destruct (merklize_ds T (D' O) F None None ds) as [m| | |] eqn:Hm; cbn [bind]; try reflexivity.
  f_equal. apply run_steps_indep; [|exact Hv].
  destruct (merklize_ds_wf _ _ _ _ _ _ Hm) as (Hwf & _).
  intros k e Hin. destruct (wf_member _ _ Hwf _ _ Hin) as (Hu & _). exact Hu.
Qed.

(* the C10 observation points after a SetHasher: for a merklizer built under default
   Hd and any LATER default Hd', a member path built through mz.Options() still hashes
   to the member key, Proof returns an existence proof whose Value hashes — under the
   hasher pinned at creation, Hd — to the entry's leaf value, the proof verifies
   against the root, and mz.Hasher() is still Hd *)
Theorem pinned_member T F Hd ds m :
  merklize_ds T Hd F None None ds = Ok m ->
  mz_hasher m = Hd /\
  forall Hd' k e, In (k, e) (mz_entries m) ->
    let p := mz_new_path Hd' m (p_parts (re_key e)) in
    path_mt_entry Hd' p = Ok k /\
    exists pr v vh,
      mz_proof T Hd' m p = Ok (pr, Some v) /\ ex pr = true /\
      v_val v = re_val e /\ v_hasher v = Some Hd /\
      value_mt_entry v = Ok vh /\
      mk_value_entry Hd (re_val e) = Ok vh /\           (* = the leaf: hashed with the pinned hasher *)
      entry_val_mt Hd' e = Ok vh /\                      (* RDFEntry.ValueMtEntry after the switch *)
      verify_proof (tp_hl T) (tp_hm T) (mz_root T m) pr (hash_of_z k) (hash_of_z vh) = true.
Proof.
  intros Hm. destruct (merklize_ds_wf _ _ _ _ _ _ Hm) as (Hwf & Hh). cbn [hasher_or] in Hh.
  split; [exact Hh|]. intros Hd' k e Hin p.
  destruct (wf_member _ _ Hwf _ _ Hin) as ((Heh & Hph) & Hk & _ & vh0 & Hv0 & _).
  assert (Hp : path_mt_entry Hd' p = Ok k).
  { unfold p, mz_new_path, opt_new_path, path_mt_entry, mz_options, opt_hasher. cbn [p_hasher p_parts hasher_or].
    exact Hk. }
  split; [exact Hp|].
  destruct (proof_of_member T m (mz_wf_in _ _ Hwf) Hd' p k e Hp Hin) as (pr & vh & A & B & C & D & _).
  cbv zeta in A, C.
  exists pr, (mkvalue (re_val e) (Some (mz_hasher m))), vh.
  assert (Hvh : mk_value_entry Hd (re_val e) = Ok vh).
  { unfold value_mt_entry in C. cbn [v_hasher v_val] in C. rewrite Hh in C. exact C. }
  repeat split; auto.
  - cbn [v_hasher]. rewrite Hh. reflexivity.
  - unfold entry_val_mt. rewrite Heh, Hh. cbn [hasher_or]. exact Hvh.
Qed.

(* ------------------------------------------------------------------ *)
(* the Value handed out by Proof is hashed with the MERKLIZER's hasher  *)
(* ------------------------------------------------------------------ *)
(* for EVERY merklizer value, default hasher and path (whatever hasher the path carries:
   mz.Options() paths, package-level NewPath / NewPathFromContext paths pinned to the package
   default, a zero Path) *)
Theorem proof_value_hasher T Hd m p pr v :
  mz_proof T Hd m p = Ok (pr, Some v) ->
  v_hasher v = Some (mz_hasher m) /\
  value_mt_entry v = mk_value_entry (mz_hasher m) (v_val v) /\
  exists k e, path_mt_entry Hd p = Ok k /\ assoc Z.eqb k (mz_entries m) = Some e /\ v_val v = re_val e.
Proof.
  unfold mz_proof. intros H.
  destruct (path_mt_entry Hd p) as [k| | |] eqn:Hk; cbn [bind] in H; try discriminate.
  destruct (t_gen T (mz_tree m) k) as [pv| | |]; cbn [bind] in H; try discriminate.
  destruct (ex (fst pv)); [|inversion H].
  destruct (assoc Z.eqb k (mz_entries m)) as [e|] eqn:Ha; [|discriminate].
  unfold new_value in H. cbn [bind] in H. inversion H; subst. cbn [v_hasher v_val value_mt_entry].
  split; [reflexivity|]. split; [reflexivity|]. exists k, e. auto.
Qed.

(* the path enters Proof only through its key: two paths with the same key — e.g. the same
   parts under hashers that hash alike but report different primes — get the same answer *)
Theorem proof_path_hasher_independent T Hd Hd' m p p' :
  path_mt_entry Hd p = path_mt_entry Hd' p' ->
  mz_proof T Hd m p = mz_proof T Hd' m p'.
Proof. intros H. unfold mz_proof. rewrite H. reflexivity. Qed.

(* seeded variant C10-j: Proof hashes the Value with the hasher of the caller's path *)
Definition mz_proof_variant_j (T : tparams) (Hd : hasher) (m : mz) (p : path)
  : res (proof * option value) :=
  k <- path_mt_entry Hd p ;;
  pv <- t_gen T (mz_tree m) k ;;
  let pr := fst pv in
  if ex pr then
    match assoc Z.eqb k (mz_entries m) with
    | None => Err "assert-no-entry"%string
    | Some e =>
        v <- new_value (Some (hasher_or Hd (p_hasher p))) (re_val e) ;;
        Ok (pr, Some v)
    end
  else Ok (pr, None).

Definition hashA : hasher :=
  {| h_prime := 101; h_hash := fun l => OV (fold_left Z.add l 7); h_bytes := fun s => OV (Z.of_nat (String.length s)) |}.
Definition hashB : hasher :=                 (* hashes exactly like hashA, another Prime() *)
  {| h_prime := 103; h_hash := h_hash hashA; h_bytes := h_bytes hashA |}.
Definition toyT : tparams := mktp (fun k v => k + v + 1) (fun l r => l + r + 2) 40 1000.
Definition toyM : mz :=
  mkmz [(8, mkentry (mkpath [PStr "a"%string] (Some hashA)) (XInt64 (-5)) ""%string (Some hashA))]
       (L 8 96) hashA.

(* a member path carrying the OTHER hasher still addresses the leaf; the real Proof gives a
   Value hashing to the leaf 96 = 101 - 5, the variant's Value hashes to 98 = 103 - 5 *)
Theorem variant_j_refuted :
  exists pr v vj,
    mz_proof toyT hashA toyM (mkpath [PStr "a"%string] (Some hashB)) = Ok (pr, Some v) /\
    mz_proof_variant_j toyT hashA toyM (mkpath [PStr "a"%string] (Some hashB)) = Ok (pr, Some vj) /\
    value_mt_entry v = Ok 96 /\ value_mt_entry vj = Ok 98.
Proof. eexists. eexists. eexists. vm_compute. repeat split. Qed.
