(* RDF/OrdTree.v — C03, parts (a)+(b)+(d): from the normalised dataset to the root.

   Model of the rest of MerklizeJSONLD (merklize.go:1575-1610) after json-gold's
   Normalize: EntriesFromRDFWithHasher, the loop that fills mz.entries (KeyMtEntry of
   every entry), AddEntriesToMerkleTree (1387-1404: KeyValueMtEntries, then mt.Add, per
   entry, first error wins), on the tree given by WithMerkleTree or a fresh empty one.
   Path.MtEntry (464-487) and mkValueMtEntry (Value/Model.v) use the configured hasher,
   whose primitives are the recorded oracle `H` (no hypothesis about them);
   MerkleTree.Add is SMT.Model.mt_add (field checks + NewHashFromBigInt + addLeaf).

   Theorems (all inputs, any hasher, any maxlev, any field bound q):
     add_entries_perm      the tree (hence the root) depends only on the entry SET
     merklize_graph_order  determinism: every permutation of ds.Graphs gives the same tree
     merklize_empty_tree   WithMerkleTree(empty) = default; non-empty: root of the union
     entry_value_binding   one value replaced by one with a different encoding:
                           different root, or an explicit hash Collision *)
From Coq Require Import ZArith List String Ascii Bool Arith Lia Permutation.
From GSP Require Import Base.Prelude Value.Time Value.Model Value.Theory
                        RDF.Model RDF.OrdSort RDF.Order SMT.Model SMT.Theory SMT.Sound.
Import ListNotations.
Open Scope string_scope.
Open Scope list_scope.
Open Scope Z_scope.

Fixpoint map_res {A B} (f : A -> res B) (l : list A) : res (list B) :=
  match l with
  | [] => Ok []
  | a :: t => b <- f a ;; r <- map_res f t ;; Ok (b :: r)
  end.

Section Pipeline.
Variable H : hasher.       (* the configured merklize.Hasher: Prime, Hash, HashBytes as recorded oracle *)
Variable maxlev : nat.     (* maxLevels of the tree (40 in MerklizeJSONLD's default) *)
Variable q : Z.            (* constants.Q of go-merkletree-sql's argument checks *)

(* Path.MtEntry *)
Definition part_key (p : part) : res Z :=
  match p with
  | PStr s => of_ores (h_bytes H s) "hashbytes"
  | PInt z => Ok z
  end.
Definition path_key (k : list part) : res Z :=
  ps <- map_res part_key k ;; of_ores (h_hash H ps) "hash".

(* RDFEntry.KeyValueMtEntries *)
Definition entry_kv (e : entry) : res (Z * Z) :=
  k <- path_key (e_key e) ;; v <- mk_value_entry H (e_val e) ;; Ok (k, v).

(* AddEntriesToMerkleTree *)
Fixpoint add_entries (t : tree) (es : list entry) : res tree :=
  match es with
  | [] => Ok t
  | e :: r =>
    kv <- entry_kv e ;;
    t' <- mt_add maxlev q t (fst kv) (snd kv) ;;
    add_entries t' r
  end.

(* MerklizeJSONLD from the dataset on; mt = the tree given with WithMerkleTree, if any *)
Definition merklize_tree (F : floats) (mt : option tree) (ds : dataset) : res tree :=
  es <- entries_from_rdf F (h_prime H) ds ;;
  _ <- map_res (fun e => path_key (e_key e)) es ;;
  add_entries (match mt with Some t => t | None => E end) es.

(* ------------------------------------------------------------------ *)
(* mt_add = argument checks + add                                       *)
(* ------------------------------------------------------------------ *)
Definition norm (kv : Z * Z) : Z * Z := (hash_of_z (fst kv), hash_of_z (snd kv)).
Definition okkv (kv : Z * Z) : Prop :=
  fst kv < q /\ snd kv < q /\ hash_of_z (fst kv) < q /\ hash_of_z (snd kv) < q.

Lemma mt_add_ok_iff : forall t k v t',
  mt_add maxlev q t k v = Ok t' <->
  okkv (k, v) /\ add maxlev t 0 (hash_of_z k) (hash_of_z v) = Ok t'.
Proof.
  intros t k v t'. unfold mt_add, okkv. cbn [fst snd].
  destruct (q <=? k) eqn:Hk; [split; [discriminate|intros ((A & _) & _); lia]|].
  destruct (q <=? v) eqn:Hv; [split; [discriminate|intros ((_ & A & _) & _); lia]|].
  apply Z.leb_gt in Hk. apply Z.leb_gt in Hv.
  destruct (add maxlev t 0 (hash_of_z k) (hash_of_z v)) as [t1| | |] eqn:Ha; cbn [bind];
    try (split; [discriminate|intros (_ & A); discriminate]).
  destruct (q <=? hash_of_z k) eqn:Hk'; cbn [orb].
  - split; [discriminate|intros ((_ & _ & A & _) & _); lia].
  - destruct (q <=? hash_of_z v) eqn:Hv'.
    + split; [discriminate|intros ((_ & _ & _ & A) & _); lia].
    + apply Z.leb_gt in Hk'. apply Z.leb_gt in Hv'.
      split; [intros Heq; inversion Heq; subst; auto|intros (_ & Heq); exact Heq].
Qed.

(* MerkleTree.Add never panics / diverges in the model *)
Lemma mt_add_cases : forall t k v,
  (exists t', mt_add maxlev q t k v = Ok t') \/ (exists e, mt_add maxlev q t k v = Err e).
Proof.
  intros t k v. unfold mt_add.
  destruct (q <=? k); [right; eauto|]. destruct (q <=? v); [right; eauto|].
  destruct (add_cases maxlev t 0 (hash_of_z k) (hash_of_z v)) as [(t' & Ha)|[Ha|Ha]];
    rewrite Ha; cbn [bind]; eauto.
  destruct ((q <=? hash_of_z k) || (q <=? hash_of_z v))%bool; eauto.
Qed.

(* ------------------------------------------------------------------ *)
(* map_res                                                              *)
(* ------------------------------------------------------------------ *)
Lemma map_res_cons_ok {A B} (f : A -> res B) a l r :
  map_res f (a :: l) = Ok r <-> exists b r0, f a = Ok b /\ map_res f l = Ok r0 /\ r = b :: r0.
Proof.
  simpl. split.
  - destruct (f a) as [b| | |]; cbn [bind]; try discriminate.
    destruct (map_res f l) as [r0| | |]; cbn [bind]; try discriminate.
    intros Heq. inversion Heq. eauto.
  - intros (b & r0 & -> & -> & ->). reflexivity.
Qed.

Lemma map_res_app_ok {A B} (f : A -> res B) : forall l1 l2 r,
  map_res f (l1 ++ l2) = Ok r <->
  exists r1 r2, map_res f l1 = Ok r1 /\ map_res f l2 = Ok r2 /\ r = r1 ++ r2.
Proof.
  induction l1 as [|a l1 IH]; intros l2 r.
  - simpl. split.
    + intros Hr. exists [], r. auto.
    + intros (r1 & r2 & H1 & H2 & ->). inversion H1. exact H2.
  - rewrite <- app_comm_cons, map_res_cons_ok. split.
    + intros (b & r0 & Hb & Hr0 & ->). apply IH in Hr0.
      destruct Hr0 as (r1 & r2 & H1 & H2 & ->).
      exists (b :: r1), r2. split; [|auto]. apply map_res_cons_ok. eauto.
    + intros (r1 & r2 & H1 & H2 & ->). apply map_res_cons_ok in H1.
      destruct H1 as (b & r0 & Hb & Hr0 & ->).
      exists b, (r0 ++ r2). split; [assumption|]. split; [|reflexivity].
      apply IH. eauto.
Qed.

Lemma map_res_perm {A B} (f : A -> res B) : forall l l',
  Permutation l l' -> forall r, map_res f l = Ok r ->
  exists r', map_res f l' = Ok r' /\ Permutation r r'.
Proof.
  induction 1 as [|x l l' HP IH|x y l|l1 l2 l3 HP1 IH1 HP2 IH2]; intros r Hr.
  - exists r. split; [assumption|reflexivity].
  - apply map_res_cons_ok in Hr. destruct Hr as (b & r0 & Hb & Hr0 & ->).
    destruct (IH _ Hr0) as (r0' & H' & HP').
    exists (b :: r0'). split; [apply map_res_cons_ok; eauto|now constructor].
  - apply map_res_cons_ok in Hr. destruct Hr as (b & r0 & Hb & Hr0 & ->).
    apply map_res_cons_ok in Hr0. destruct Hr0 as (c & r1 & Hc & Hr1 & ->).
    exists (c :: b :: r1). split; [|apply perm_swap].
    apply map_res_cons_ok. exists c, (b :: r1). split; [assumption|]. split; [|reflexivity].
    apply map_res_cons_ok. eauto.
  - destruct (IH1 _ Hr) as (r2 & H2 & P2). destruct (IH2 _ H2) as (r3 & H3 & P3).
    exists r3. split; [assumption|]. now transitivity r2.
Qed.

(* ------------------------------------------------------------------ *)
(* AddEntriesToMerkleTree = hash every entry, check, insert the list    *)
(* ------------------------------------------------------------------ *)
Lemma add_entries_ok_iff : forall es t t',
  add_entries t es = Ok t' <->
  exists kvs, map_res entry_kv es = Ok kvs /\ Forall okkv kvs /\
              add_list maxlev t (map norm kvs) = Ok t'.
Proof.
  induction es as [|e es IH]; intros t t'.
  - simpl. split.
    + intros Heq. exists []. repeat split; auto.
    + intros (kvs & Hm & _ & Ha). inversion Hm; subst. exact Ha.
  - cbn [add_entries]. split.
    + destruct (entry_kv e) as [(k, v)| | |] eqn:Hkv; cbn [bind]; try discriminate.
      cbn [fst snd].
      destruct (mt_add maxlev q t k v) as [t1| | |] eqn:Hadd; cbn [bind]; try discriminate.
      intros Hrest. apply IH in Hrest. destruct Hrest as (kvs & Hm & Hok & Ha).
      apply mt_add_ok_iff in Hadd. destruct Hadd as (Hokkv & Hadd).
      exists ((k, v) :: kvs). split; [|split].
      * apply map_res_cons_ok. eauto.
      * constructor; assumption.
      * cbn [map norm fst snd add_list]. rewrite Hadd. cbn [bind]. exact Ha.
    + intros (kvs & Hm & Hok & Ha).
      apply map_res_cons_ok in Hm. destruct Hm as ((k, v) & kvs0 & Hkv & Hm0 & ->).
      rewrite Hkv. cbn [bind fst snd].
      inversion Hok as [|x xs Hx Hxs]; subst.
      cbn [map norm fst snd add_list] in Ha.
      destruct (add maxlev t 0 (hash_of_z k) (hash_of_z v)) as [t1| | |] eqn:Hadd;
        cbn [bind] in Ha; try discriminate.
      assert (Hmt : mt_add maxlev q t k v = Ok t1) by (apply mt_add_ok_iff; auto).
      rewrite Hmt. cbn [bind]. apply IH. eauto.
Qed.

(* insertion into a NON-EMPTY well-formed tree is order independent as well *)
Lemma add_list_perm_ok : forall t0 l l' t,
  wf maxlev t0 -> Permutation l l' ->
  add_list maxlev t0 l = Ok t -> add_list maxlev t0 l' = Ok t.
Proof.
  intros t0 l l' t Hwf HP Ha.
  assert (Hex : exists t', add_list maxlev t0 l' = Ok t').
  { apply (add_list_ok_iff maxlev l' t0 Hwf).
    assert (Hex0 : exists t', add_list maxlev t0 l = Ok t') by eauto.
    apply (add_list_ok_iff maxlev l t0 Hwf) in Hex0. destruct Hex0 as (A & B & C).
    split; [|split].
    - destruct A as [->|A]; [|now right]. left. now apply Permutation_nil.
    - eapply pairwise_perm; eassumption.
    - intros a k' Hin. apply C. apply (Permutation_in _ (Permutation_sym HP)). exact Hin. }
  destruct Hex as (t' & Ha'). rewrite Ha'. f_equal.
  destruct (add_list_ok_wf _ _ _ _ Hwf Ha) as (W1 & P1).
  destruct (add_list_ok_wf _ _ _ _ Hwf Ha') as (W2 & P2).
  apply (canonical maxlev); auto.
  rewrite P2, P1. apply Permutation_app_tail. now symmetry.
Qed.

Lemma Forall_perm {A} (P : A -> Prop) l l' : Permutation l l' -> Forall P l -> Forall P l'.
Proof. intros HP HF. eapply Permutation_Forall; eassumption. Qed.

(* C03 insertion order: any reordering of the entries handed to AddEntriesToMerkleTree
   gives THE SAME TREE (so the same root), into the default tree or any caller's tree *)
Theorem add_entries_perm_ok : forall t0 es es' t,
  wf maxlev t0 -> Permutation es es' ->
  add_entries t0 es = Ok t -> add_entries t0 es' = Ok t.
Proof.
  intros t0 es es' t Hwf HP Ha.
  apply add_entries_ok_iff in Ha. destruct Ha as (kvs & Hm & Hok & Ha).
  destruct (map_res_perm entry_kv es es' HP kvs Hm) as (kvs' & Hm' & HPk).
  apply add_entries_ok_iff. exists kvs'. split; [assumption|]. split.
  - eapply Forall_perm; eassumption.
  - eapply add_list_perm_ok; [exact Hwf| |exact Ha]. now apply Permutation_map.
Qed.

Theorem add_entries_perm : forall t0 es es',
  wf maxlev t0 -> Permutation es es' ->
  match add_entries t0 es with
  | Ok t => add_entries t0 es' = Ok t
  | _ => is_ok (add_entries t0 es') = false
  end.
Proof.
  intros t0 es es' Hwf HP.
  destruct (add_entries t0 es) as [t| | |] eqn:Ha.
  - eapply add_entries_perm_ok; eassumption.
  - destruct (add_entries t0 es') as [t'| | |] eqn:Ha'; auto.
    apply (add_entries_perm_ok t0 es' es t' Hwf (Permutation_sym HP)) in Ha'. congruence.
  - destruct (add_entries t0 es') as [t'| | |] eqn:Ha'; auto.
    apply (add_entries_perm_ok t0 es' es t' Hwf (Permutation_sym HP)) in Ha'. congruence.
  - destruct (add_entries t0 es') as [t'| | |] eqn:Ha'; auto.
    apply (add_entries_perm_ok t0 es' es t' Hwf (Permutation_sym HP)) in Ha'. congruence.
Qed.

(* the tree built from the entries is the canonical tree of the SET of (key, value) pairs *)
Theorem add_entries_set : forall t0 es t,
  wf maxlev t0 -> add_entries t0 es = Ok t ->
  exists kvs, map_res entry_kv es = Ok kvs /\
              add_all maxlev (map norm kvs ++ leaves t0) = Ok t.
Proof.
  intros t0 es t Hwf Ha.
  apply add_entries_ok_iff in Ha. destruct Ha as (kvs & Hm & _ & Ha).
  exists kvs. split; [assumption|].
  destruct (add_list_ok_wf _ _ _ _ Hwf Ha) as (W & P).
  apply (add_all_perm_ok maxlev (leaves t)); [exact P|]. now apply wf_reachable.
Qed.

(* ------------------------------------------------------------------ *)
(* determinism of the whole pipeline w.r.t. the only map Go ranges over *)
(* ------------------------------------------------------------------ *)
Theorem merklize_graph_order : forall F mt gs gs',
  NoDup (map fst gs) -> Permutation gs gs' ->
  match merklize_tree F mt gs with
  | Ok t => merklize_tree F mt gs' = Ok t
  | Err _ => exists e', merklize_tree F mt gs' = Err e'
  | Panic w => merklize_tree F mt gs' = Panic w
  | Diverge => merklize_tree F mt gs' = Diverge
  end.
Proof.
  intros F mt gs gs' Hnd HP. unfold merklize_tree.
  destruct (graph_order_precise F (h_prime H) gs gs' Hnd HP) as [Heq|(t & t' & _ & _ & A & A')].
  - rewrite <- Heq.
    destruct (entries_from_rdf F (h_prime H) gs) as [es| | |]; cbn [bind]; eauto.
    destruct (map_res (fun e => path_key (e_key e)) es); cbn [bind]; eauto.
    destruct (add_entries _ es); eauto.
  - rewrite A, A'. cbn [bind]. eauto.
Qed.

(* WithMerkleTree(empty tree) = no option *)
Theorem merklize_empty_tree : forall F ds,
  merklize_tree F (Some E) ds = merklize_tree F None ds.
Proof. reflexivity. Qed.

(* a caller-provided tree that already holds leaves: the result is the canonical tree
   of the union (so an EMPTY provided tree contributes nothing: leaves E = []) *)
Theorem merklize_given_tree : forall F t0 ds t,
  wf maxlev t0 -> merklize_tree F (Some t0) ds = Ok t ->
  exists es kvs, entries_from_rdf F (h_prime H) ds = Ok es /\ map_res entry_kv es = Ok kvs /\
                 add_all maxlev (map norm kvs ++ leaves t0) = Ok t.
Proof.
  intros F t0 ds t Hwf Hm. unfold merklize_tree in Hm.
  destruct (entries_from_rdf F (h_prime H) ds) as [es| | |]; cbn [bind] in Hm; try discriminate.
  destruct (map_res (fun e => path_key (e_key e)) es); cbn [bind] in Hm; try discriminate.
  destruct (add_entries_set t0 es t Hwf Hm) as (kvs & A & B). eauto.
Qed.

(* ------------------------------------------------------------------ *)
(* (b) converse: a changed value changes the root, or a Collision       *)
(* ------------------------------------------------------------------ *)
Section Binding.
Variables hl hm : Z -> Z -> Z.
(* uses SMT/Sound.v's theorem `binding` (no hypothesis on hl hm: Collision is a disjunct) *)

Lemma nodup_fst_functional {A B} : forall (l : list (A * B)) k a b,
  NoDup (map fst l) -> In (k, a) l -> In (k, b) l -> a = b.
Proof.
  induction l as [|(k0, v0) l IH]; intros k a b Hnd Ha Hb; [contradiction|].
  simpl in Hnd. inversion Hnd as [|x xs Hnotin Hnd']; subst.
  destruct Ha as [Ha|Ha]; destruct Hb as [Hb|Hb].
  - congruence.
  - inversion Ha; subst. exfalso. apply Hnotin. change k with (fst (k, b)). now apply in_map.
  - inversion Hb; subst. exfalso. apply Hnotin. change k with (fst (k, a)). now apply in_map.
  - eapply IH; eassumption.
Qed.

Lemma add_entries_leaf : forall t0 pre e post t k v,
  wf maxlev t0 -> add_entries t0 (pre ++ e :: post) = Ok t -> entry_kv e = Ok (k, v) ->
  wf maxlev t /\ In (hash_of_z k, hash_of_z v) (leaves t).
Proof.
  intros t0 pre e post t k v Hwf Ha Hkv.
  apply add_entries_ok_iff in Ha. destruct Ha as (kvs & Hm & _ & Ha).
  apply map_res_app_ok in Hm. destruct Hm as (r1 & r2 & H1 & H2 & ->).
  apply map_res_cons_ok in H2. destruct H2 as (b & r0 & Hb & _ & ->).
  rewrite Hkv in Hb. inversion Hb; subst b.
  destruct (add_list_ok_wf _ _ _ _ Hwf Ha) as (W & P). split; [exact W|].
  apply (Permutation_in _ (Permutation_sym P)). apply in_or_app. left.
  rewrite map_app. apply in_or_app. right. left. reflexivity.
Qed.

Theorem entry_value_binding : forall t0 pre post e1 e2 t1 t2 v1 v2,
  wf maxlev t0 ->
  e_key e1 = e_key e2 ->
  mk_value_entry H (e_val e1) = Ok v1 -> mk_value_entry H (e_val e2) = Ok v2 ->
  hash_of_z v1 <> hash_of_z v2 ->
  add_entries t0 (pre ++ e1 :: post) = Ok t1 ->
  add_entries t0 (pre ++ e2 :: post) = Ok t2 ->
  root hl hm t1 <> root hl hm t2 \/ Collision hl hm.
Proof.
  intros t0 pre post e1 e2 t1 t2 v1 v2 Hwf Hkey Hv1 Hv2 Hne Ha1 Ha2.
  assert (Hk1 : exists k, entry_kv e1 = Ok (k, v1) /\ entry_kv e2 = Ok (k, v2)).
  { unfold entry_kv. rewrite <- Hkey, Hv1, Hv2.
    destruct (path_key (e_key e1)) as [k| | |] eqn:Hpk; cbn [bind]; eauto;
      exfalso; apply add_entries_ok_iff in Ha1; destruct Ha1 as (kvs & Hm & _);
      apply map_res_app_ok in Hm; destruct Hm as (r1 & r2 & _ & Hm2 & _);
      apply map_res_cons_ok in Hm2; destruct Hm2 as (b & r0 & Hb & _);
      unfold entry_kv in Hb; rewrite Hpk in Hb; discriminate. }
  destruct Hk1 as (k & Hkv1 & Hkv2).
  destruct (add_entries_leaf _ _ _ _ _ _ _ Hwf Ha1 Hkv1) as (W1 & L1).
  destruct (add_entries_leaf _ _ _ _ _ _ _ Hwf Ha2 Hkv2) as (W2 & L2).
  destruct (Z.eq_dec (root hl hm t1) (root hl hm t2)) as [Heq|Hneq]; [|now left].
  destruct (binding hl hm maxlev t1 t2 W1 W2 Heq) as [Ht|Hc]; [|now right].
  exfalso. subst t2. apply Hne.
  eapply (nodup_fst_functional (leaves t1)); [|exact L1|exact L2].
  exact (wf_nodup_keys maxlev t1 0%nat W1).
Qed.

(* in-field encodings (every value EntriesFromRDF produces under a field-sized hasher) *)
Corollary entry_value_binding_infield : forall t0 pre post e1 e2 t1 t2 v1 v2,
  wf maxlev t0 ->
  e_key e1 = e_key e2 ->
  mk_value_entry H (e_val e1) = Ok v1 -> mk_value_entry H (e_val e2) = Ok v2 ->
  0 <= v1 < 2 ^ 256 -> 0 <= v2 < 2 ^ 256 -> v1 <> v2 ->
  add_entries t0 (pre ++ e1 :: post) = Ok t1 ->
  add_entries t0 (pre ++ e2 :: post) = Ok t2 ->
  root hl hm t1 <> root hl hm t2 \/ Collision hl hm.
Proof.
  intros t0 pre post e1 e2 t1 t2 v1 v2 Hwf Hkey Hv1 Hv2 R1 R2 Hne.
  apply (entry_value_binding t0 pre post e1 e2 t1 t2 v1 v2); auto.
  now rewrite !hash_of_z_id.
Qed.

(* with C04: two DIFFERENT in-range integers of one integer datatype *)
Corollary entry_value_binding_int : forall t0 pre post e1 e2 t1 t2 kd z1 z2,
  wf maxlev t0 -> odd_modulus (h_prime H) -> h_prime H <= 2 ^ 256 ->
  e_key e1 = e_key e2 ->
  e_val e1 = XBig z1 -> e_val e2 = XBig z2 ->
  lo kd (h_prime H) <= z1 <= hi kd (h_prime H) ->
  lo kd (h_prime H) <= z2 <= hi kd (h_prime H) -> z1 <> z2 ->
  add_entries t0 (pre ++ e1 :: post) = Ok t1 ->
  add_entries t0 (pre ++ e2 :: post) = Ok t2 ->
  root hl hm t1 <> root hl hm t2 \/ Collision hl hm.
Proof.
  intros t0 pre post e1 e2 t1 t2 kd z1 z2 Hwf Hp Hq Hkey E1 E2 R1 R2 Hne.
  pose proof (enc_in_field kd _ z1 Hp R1) as F1.
  pose proof (enc_in_field kd _ z2 Hp R2) as F2.
  apply (entry_value_binding_infield t0 pre post e1 e2 t1 t2
           (enc (h_prime H) z1) (enc (h_prime H) z2)); auto; try lia.
  - rewrite E1. cbn [mk_value_entry].
    apply mk_value_bigint_in_range; [exact Hp|]. eapply range_within_field; eassumption.
  - rewrite E2. cbn [mk_value_entry].
    apply mk_value_bigint_in_range; [exact Hp|]. eapply range_within_field; eassumption.
  - intros Heq. apply Hne. eapply enc_injective; eassumption.
Qed.
End Binding.
End Pipeline.

(* ------------------------------------------------------------------ *)
(* non-vacuity: a hasher with small injective-looking primitives         *)
(* ------------------------------------------------------------------ *)
Definition toy_hasher : hasher :=
  {| h_prime := 1000003;
     h_hash := fun l => OV (fold_left (fun a z => (a * 31 + z + 7) mod 1000003) l 1);
     h_bytes := fun s => OV (Z.of_nat (String.length s) * 1009 + 13) |}.

Definition toy_entries : list entry :=
  [ {| e_key := [PStr "a"]; e_val := XBig 5; e_dt := xsd_integer |};
    {| e_key := [PStr "bb"; PInt 0]; e_val := XStr "x"; e_dt := xsd_string |};
    {| e_key := [PStr "bb"; PInt 1]; e_val := XBool true; e_dt := xsd_boolean |} ].

Example toy_insertion_order :
  exists t, add_entries toy_hasher 40 (2 ^ 254) E toy_entries = Ok t /\
            add_entries toy_hasher 40 (2 ^ 254) E (rev toy_entries) = Ok t /\
            List.length (leaves t) = 3%nat.
Proof. eexists. split; [vm_compute; reflexivity|]. split; vm_compute; reflexivity. Qed.

Example toy_merklize :
  exists t, merklize_tree toy_hasher 40 (2 ^ 254) no_floats None ex_ds = Ok t /\
            merklize_tree toy_hasher 40 (2 ^ 254) no_floats (Some E) (rev ex_ds) = Ok t /\
            List.length (leaves t) = 2%nat.
Proof. eexists. split; [vm_compute; reflexivity|]. split; vm_compute; reflexivity. Qed.

(* ------------------------------------------------------------------ *)
(* the depth (maxLevels) of a caller-provided tree only decides WHETHER  *)
(* insertion succeeds, never WHAT is built                                *)
(* ------------------------------------------------------------------ *)
Lemma push_depth_indep : forall f1 f2 lvl nk nv ok ov a b,
  push f1 lvl nk nv ok ov = Ok a -> push f2 lvl nk nv ok ov = Ok b -> a = b.
Proof.
  induction f1 as [|f1 IH]; intros f2 lvl nk nv ok ov a b; simpl; [discriminate|].
  destruct f2 as [|f2]; simpl; [discriminate|].
  destruct (Bool.eqb (bit nk lvl) (bit ok lvl)).
  - destruct (push f1 (S lvl) nk nv ok ov) as [t1| | |] eqn:E1; cbn [bind]; try discriminate.
    destruct (push f2 (S lvl) nk nv ok ov) as [t2| | |] eqn:E2; cbn [bind]; try discriminate.
    intros H1 H2. inversion H1; inversion H2; subst.
    now rewrite (IH _ _ _ _ _ _ _ _ E1 E2).
  - intros H1 H2. congruence.
Qed.

Lemma add_depth_indep : forall m1 m2 t lvl k v a b,
  add m1 t lvl k v = Ok a -> add m2 t lvl k v = Ok b -> a = b.
Proof.
  intros m1 m2. induction t as [|k0 v0|l IHl r IHr]; intros lvl k v a b; simpl;
    destruct (Nat.leb m1 lvl); try discriminate; destruct (Nat.leb m2 lvl); try discriminate.
  - congruence.
  - destruct (k =? k0); [discriminate|]. apply push_depth_indep.
  - destruct (bit k lvl).
    + destruct (add m1 r (S lvl) k v) as [r1| | |] eqn:E1; cbn [bind]; try discriminate.
      destruct (add m2 r (S lvl) k v) as [r2| | |] eqn:E2; cbn [bind]; try discriminate.
      intros H1 H2. inversion H1; inversion H2; subst. now rewrite (IHr _ _ _ _ _ E1 E2).
    + destruct (add m1 l (S lvl) k v) as [l1| | |] eqn:E1; cbn [bind]; try discriminate.
      destruct (add m2 l (S lvl) k v) as [l2| | |] eqn:E2; cbn [bind]; try discriminate.
      intros H1 H2. inversion H1; inversion H2; subst. now rewrite (IHl _ _ _ _ _ E1 E2).
Qed.

Lemma mt_add_depth_indep : forall m1 m2 q t k v a b,
  mt_add m1 q t k v = Ok a -> mt_add m2 q t k v = Ok b -> a = b.
Proof.
  intros m1 m2 q t k v a b H1 H2.
  apply mt_add_ok_iff in H1. apply mt_add_ok_iff in H2.
  destruct H1 as (_ & H1). destruct H2 as (_ & H2). eapply add_depth_indep; eassumption.
Qed.

Lemma add_entries_depth_indep : forall H m1 m2 q es t a b,
  add_entries H m1 q t es = Ok a -> add_entries H m2 q t es = Ok b -> a = b.
Proof.
  intros H m1 m2 q. induction es as [|e es IH]; intros t a b; cbn [add_entries].
  - congruence.
  - destruct (entry_kv H e) as [kv| | |]; cbn [bind]; try discriminate.
    destruct (mt_add m1 q t (fst kv) (snd kv)) as [t1| | |] eqn:E1; cbn [bind]; try discriminate.
    destruct (mt_add m2 q t (fst kv) (snd kv)) as [t2| | |] eqn:E2; cbn [bind]; try discriminate.
    rewrite (mt_add_depth_indep _ _ _ _ _ _ _ _ E1 E2). apply IH.
Qed.

Theorem merklize_depth_indep : forall H m1 m2 q F mt ds t1 t2,
  merklize_tree H m1 q F mt ds = Ok t1 -> merklize_tree H m2 q F mt ds = Ok t2 -> t1 = t2.
Proof.
  intros H m1 m2 q F mt ds t1 t2. unfold merklize_tree.
  destruct (entries_from_rdf F (h_prime H) ds) as [es| | |]; cbn [bind]; try discriminate.
  destruct (map_res (fun e => path_key H (e_key e)) es); cbn [bind]; try discriminate.
  apply add_entries_depth_indep.
Qed.
