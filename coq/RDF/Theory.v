(* RDF/Theory.v — the theorems of property C01 about the model of
   EntriesFromRDFWithHasher (RDF/Model.v) against the specification RDF/Spec.v,
   for ALL datasets (any number of graphs and quads, any graph order), with
   Examples showing that the hypotheses are satisfiable.  Proof parts:
   ThBase (generic), ThTotal (termination), ThRel (relationship maps = spec),
   ThPath (path walk = anc_path), ThEntries (emission loop), ThIndex (numbering). *)
From Coq Require Import ZArith List String Ascii Bool Arith Lia Permutation.
From GSP Require Import Base.Prelude Value.Time Value.Model RDF.Model RDF.Spec
  RDF.ThBase RDF.ThTotal RDF.ThRel RDF.ThPath RDF.ThEntries RDF.ThIndex.
Import ListNotations.
Open Scope string_scope.
Open Scope list_scope.

(* ---- entries = value quads ---- *)
Theorem entries_exact_fact : forall F prime ds es,
  is_map ds -> entries_from_rdf F prime ds = Ok es ->
  Forall2 (fact F prime ds) es (value_quads ds).
Proof. intros F prime ds es Hm H. exact (proj1 (entries_exact F prime ds es Hm H)). Qed.

Lemma Forall2_len : forall {A B} (R : A -> B -> Prop) l1 l2, Forall2 R l1 l2 -> List.length l1 = List.length l2.
Proof. intros A B R l1 l2 H. induction H; simpl; congruence. Qed.

Theorem entries_count : forall F prime ds es,
  is_map ds -> entries_from_rdf F prime ds = Ok es ->
  List.length es = List.length (value_quads ds).
Proof. intros F prime ds es Hm H. eapply Forall2_len. eapply entries_exact_fact; eauto. Qed.

(* an entry is determined by the quad it states: unique path, unique value *)
Theorem fact_functional : forall F prime ds e e' iq,
  fact F prime ds e iq -> fact F prime ds e' iq -> e = e'.
Proof.
  intros F prime ds [k v d] [k' v' d'] iq (pi & p & Ha & Hp & Hk & Hv) (pi' & p' & Ha' & Hp' & Hk' & Hv').
  simpl in *. assert (pi' = pi) by (eapply anc_path_unique; eauto). subst pi'.
  assert (p' = p) by congruence. subst p'.
  rewrite Hk, Hk'. clear Hk Hk'.
  unfold value_of in *. destruct (qo (snd iq)).
  - destruct Hv as (E1 & E2), Hv' as (E1' & E2'). subst. reflexivity.
  - contradiction.
  - destruct Hv as (Hc & E2), Hv' as (Hc' & E2'). rewrite Hc in Hc'. inversion Hc'; subst. reflexivity.
Qed.

Lemma Forall2_imp : forall {A B} (R S : A -> B -> Prop) l1 l2,
  (forall a b, R a b -> S a b) -> Forall2 R l1 l2 -> Forall2 S l1 l2.
Proof. intros A B R S l1 l2 H H2. induction H2; constructor; auto. Qed.

Lemma Forall2_in_r : forall {A B} (R : A -> B -> Prop) l1 l2 b,
  Forall2 R l1 l2 -> In b l2 -> exists a, In a l1 /\ R a b.
Proof.
  intros A B R l1 l2 b H. induction H as [|x y l1 l2 Hxy H IH]; intros Hin; simpl in *; [contradiction|].
  destruct Hin as [<-|Hin]; [eauto|]. destruct (IH Hin) as (a & Ha & Hr). eauto.
Qed.

(* ---- indices ---- *)
(* the integer that ends an entry's key is the value index of its quad *)
Theorem entries_value_index : forall F prime ds es,
  is_map ds -> entries_from_rdf F prime ds = Ok es ->
  Forall2 (fun e iq => last_index (e_key e) = option_map Z.of_nat (value_index ds (fst iq)))
          es (value_quads ds).
Proof.
  intros F prime ds es Hm H. eapply Forall2_imp; [|eapply entries_exact_fact; eauto].
  intros e iq (pi & p & _ & _ & Hk & _). rewrite Hk. apply last_index_key.
Qed.

(* every step of an ancestor path that carries a child index refers to a numbered child *)
Theorem anc_path_children : forall ds i pi, anc_path ds i pi ->
  forall j, reaches ds i j -> forall j' qj sj kj',
  parent ds j = Some j' -> quad_at ds j = Some qj -> get_ref (qs qj) = Some sj ->
  key_at ds j' = Some kj' -> In sj (child_nodes ds kj').
Proof. intros. eapply child_member; eauto. Qed.

(* ---- rejection ---- *)
Lemma entries_err_of_rel : forall F prime ds t,
  new_relationship ds = Err t -> exists t', entries_from_rdf F prime ds = Err t'.
Proof.
  intros F prime ds t H. unfold entries_from_rdf.
  destruct (assert_consistency_total ds) as (C1 & C2).
  destruct (assert_consistency ds) eqn:E; simpl; [|eauto|exfalso; eapply C2; eauto|congruence].
  destruct (lookup_graph ds default_graph); [|eauto].
  rewrite H. simpl. eauto.
Qed.

Theorem shared_rejected : forall F prime ds i q,
  is_map ds -> quad_at ds i = Some q -> ~ unshared_at ds i ->
  exists t, entries_from_rdf F prime ds = Err t.
Proof.
  intros F prime ds i q Hm Hq Hsh.
  destruct (assert_consistency_total ds) as (C1 & C2).
  destruct (assert_consistency ds) as [[]|t|w|] eqn:Ec.
  - destruct (shared_rejected_rel ds i q Hm (assert_consistency_wf ds Ec) Hq Hsh) as (t & Ht).
    eapply entries_err_of_rel; eauto.
  - unfold entries_from_rdf. rewrite Ec. simpl. eauto.
  - exfalso. eapply C2; eauto.
  - congruence.
Qed.

(* two different referrers inside the graph *)
Theorem shared_in_graph : forall ds i q s j1 q1 j2 q2,
  quad_at ds i = Some q -> get_ref (qs q) = Some s ->
  quad_at ds j1 = Some q1 -> quad_at ds j2 = Some q2 ->
  fst j1 = fst i -> fst j2 = fst i -> j1 <> j2 ->
  get_ref (qo q1) = Some s -> get_ref (qo q2) = Some s ->
  ~ unshared_at ds i.
Proof.
  intros ds i q s j1 q1 j2 q2 Hq Hs H1 H2 G1 G2 N12 R1 R2 Hun.
  destruct (Hun q s Hq Hs) as (Hlen & _).
  assert (In j1 (referrers ds (fst i) s)) by (apply referrers_iff; eauto 6).
  assert (In j2 (referrers ds (fst i) s)) by (apply referrers_iff; eauto 6).
  pose proof (two_in_length _ _ _ H H0 N12). lia.
Qed.

(* two different references to the blank node of a named graph *)
Theorem shared_graph_node : forall ds i q s g j1 q1 j2 q2,
  is_map ds ->
  quad_at ds i = Some q -> get_ref (qs q) = Some s -> qg q = Some (NBlank g) ->
  referrers ds (fst i) s = [] ->
  quad_at ds j1 = Some q1 -> quad_at ds j2 = Some q2 ->
  j1 <> i -> j2 <> i -> j1 <> j2 ->
  get_ref (qo q1) = Some (RBlank g) -> get_ref (qo q2) = Some (RBlank g) ->
  ~ unshared_at ds i.
Proof.
  intros ds i q s g j1 q1 j2 q2 Hm Hq Hs Hg Hnil H1 H2 N1 N2 N12 R1 R2 Hun.
  destruct (Hun q s Hq Hs) as (_ & Hlen). specialize (Hlen Hnil g Hg).
  assert (In j1 (all_referrers ds i (RBlank g))) by (apply all_referrers_iff; eauto).
  assert (In j2 (all_referrers ds i (RBlank g))) by (apply all_referrers_iff; eauto).
  pose proof (two_in_length _ _ _ H H0 N12). lia.
Qed.

(* the two theorems above, end to end *)
Theorem shared_two_referrers_rejected : forall F prime ds i q s j1 q1 j2 q2,
  is_map ds ->
  quad_at ds i = Some q -> get_ref (qs q) = Some s ->
  quad_at ds j1 = Some q1 -> quad_at ds j2 = Some q2 ->
  fst j1 = fst i -> fst j2 = fst i -> j1 <> j2 ->
  get_ref (qo q1) = Some s -> get_ref (qo q2) = Some s ->
  exists t, entries_from_rdf F prime ds = Err t.
Proof.
  intros F prime ds i q s j1 q1 j2 q2 Hm Hq Hs H1 H2 G1 G2 N12 R1 R2.
  apply (shared_rejected F prime ds i q Hm Hq).
  exact (shared_in_graph ds i q s j1 q1 j2 q2 Hq Hs H1 H2 G1 G2 N12 R1 R2).
Qed.

Theorem shared_graph_node_rejected : forall F prime ds i q s g j1 q1 j2 q2,
  is_map ds ->
  quad_at ds i = Some q -> get_ref (qs q) = Some s -> qg q = Some (NBlank g) ->
  referrers ds (fst i) s = [] ->
  quad_at ds j1 = Some q1 -> quad_at ds j2 = Some q2 ->
  j1 <> i -> j2 <> i -> j1 <> j2 ->
  get_ref (qo q1) = Some (RBlank g) -> get_ref (qo q2) = Some (RBlank g) ->
  exists t, entries_from_rdf F prime ds = Err t.
Proof.
  intros F prime ds i q s g j1 q1 j2 q2 Hm Hq Hs Hg Hnil H1 H2 N1 N2 N12 R1 R2.
  apply (shared_rejected F prime ds i q Hm Hq).
  exact (shared_graph_node ds i q s g j1 q1 j2 q2 Hm Hq Hs Hg Hnil H1 H2 N1 N2 N12 R1 R2).
Qed.

(* conversely: in an accepted dataset every node has at most one referrer *)
Theorem accepted_unshared : forall F prime ds es i q,
  is_map ds -> entries_from_rdf F prime ds = Ok es -> quad_at ds i = Some q -> unshared_at ds i.
Proof.
  intros F prime ds es i q Hm E Hq.
  destruct (entries_exact F prime ds es Hm E) as (_ & _ & Hall & _).
  rewrite Forall_forall in Hall. apply positions_in in Hq.
  destruct (Hall _ Hq) as (_ & Hun & _). exact Hun.
Qed.

(* a blank-node object that is not a registered parent (e.g. an empty node as the
   only object of its key) is never merklized *)
Theorem blank_leaf_rejected : forall F prime ds i q b k,
  is_map ds -> quad_at ds i = Some q -> qo q = NBlank b ->
  key_at ds i = Some k -> child_nodes ds k = [] ->
  forall es, entries_from_rdf F prime ds <> Ok es.
Proof.
  intros F prime ds i q b k Hm Hq Hb Hk Hnil es E.
  destruct (entries_exact F prime ds es Hm E) as (_ & Hbl & _ & _).
  apply positions_in in Hq.
  destruct (Hbl (i, q) Hq) as (k' & Hk' & Hne).
  - unfold is_value. simpl. now rewrite Hb.
  - simpl in Hk'. unfold key_at in Hk. apply positions_in in Hq. rewrite Hq in Hk. congruence.
Qed.

(* a value quad below a reference cycle has no path: the dataset is never merklized *)
Theorem cycle_rejected : forall F prime ds i q j,
  is_map ds -> In (i, q) (value_quads ds) -> reaches ds i j -> on_cycle ds j ->
  forall es, entries_from_rdf F prime ds <> Ok es.
Proof.
  intros F prime ds i q j Hm Hin Hr Hc es E.
  pose proof (entries_exact_fact F prime ds es Hm E) as Hfa.
  destruct (Forall2_in_r _ _ _ _ Hfa Hin) as (e & _ & (pi & p & Hanc & _)).
  simpl in Hanc. exact (anc_path_acyclic ds i pi Hanc j Hr Hc).
Qed.

(* with a float oracle that answers every call (no recorded-table miss) "never Ok" is "an error" *)
Theorem not_ok_is_error : forall F prime ds,
  (forall dt v w, convert F dt v prime <> Panic w) ->
  (forall es, entries_from_rdf F prime ds <> Ok es) ->
  exists t, entries_from_rdf F prime ds = Err t.
Proof.
  intros F prime ds HF Hno. destruct (entries_total F prime ds) as (T1 & T2).
  destruct (entries_from_rdf F prime ds) as [es|t|w|] eqn:E.
  - exfalso. eapply Hno; eauto.
  - eauto.
  - exfalso. destruct (T2 w eq_refl) as (dt & v & Hc). eapply HF; eauto.
  - congruence.
Qed.

Theorem cycle_is_error : forall F prime ds i q j,
  is_map ds -> (forall dt v w, convert F dt v prime <> Panic w) ->
  In (i, q) (value_quads ds) -> reaches ds i j -> on_cycle ds j ->
  exists t, entries_from_rdf F prime ds = Err t.
Proof.
  intros F prime ds i q j Hm HF Hin Hr Hc. apply not_ok_is_error; [exact HF|].
  eapply cycle_rejected; eauto.
Qed.

(* ================= Examples (non-vacuity) ================= *)
Definition F0 : floats := {| f_parse := fun _ => None; f_canon := fun _ => None; f_of_int := fun _ => None |}.
Definition xs := "http://www.w3.org/2001/XMLSchema#string".
Definition Q (s : node) (p : string) (o : node) (g : option node) : quad :=
  {| qs := s; qp := NIri p; qo := o; qg := g |}.

(* two literals of one property, two blank children of one property, a named graph *)
Definition ds_ex : dataset := [
  ("_:g1", [Q (NIri "urn:v") "q" (NLit "c" xs) (Some (NBlank "_:g1"))]);
  ("@default", [
     Q (NIri "urn:a") "name" (NLit "i" xs) None; Q (NIri "urn:a") "name" (NLit "j" xs) None;
     Q (NIri "urn:a") "p" (NBlank "_:b0") None; Q (NIri "urn:a") "p" (NBlank "_:b1") None;
     Q (NIri "urn:a") "vc" (NBlank "_:g1") None;
     Q (NBlank "_:b0") "q" (NLit "x" xs) None; Q (NBlank "_:b1") "q" (NIri "urn:y") None])].

Example ds_ex_is_map : is_map ds_ex.
Proof. unfold is_map. simpl. repeat constructor; simpl; intuition discriminate. Qed.

Example ds_ex_entries :
  entries_from_rdf F0 97 ds_ex = Ok [
    {| e_key := [PStr "name"; PInt 0]; e_val := XStr "i"; e_dt := xs |};
    {| e_key := [PStr "name"; PInt 1]; e_val := XStr "j"; e_dt := xs |};
    {| e_key := [PStr "p"; PInt 0; PStr "q"]; e_val := XStr "x"; e_dt := xs |};
    {| e_key := [PStr "p"; PInt 1; PStr "q"]; e_val := XStr "urn:y"; e_dt := "" |};
    {| e_key := [PStr "vc"; PStr "q"]; e_val := XStr "c"; e_dt := xs |}].
Proof. vm_compute. reflexivity. Qed.

Example ds_ex_value_quads : List.length (value_quads ds_ex) = 5%nat.
Proof. vm_compute. reflexivity. Qed.

(* a node with two referrers *)
Definition ds_shared : dataset := [
  ("@default", [
     Q (NIri "urn:a") "p" (NIri "urn:b") None; Q (NIri "urn:a") "q" (NIri "urn:b") None;
     Q (NIri "urn:b") "name" (NLit "x" xs) None])].

Example ds_shared_not_unshared : ~ unshared_at ds_shared ("@default", 2%nat).
Proof.
  eapply (shared_in_graph ds_shared ("@default", 2%nat) _ (RIri "urn:b")
            ("@default", 0%nat) _ ("@default", 1%nat) _); try reflexivity; discriminate.
Qed.

Example ds_shared_err : is_err (entries_from_rdf F0 97 ds_shared) = true.
Proof. vm_compute. reflexivity. Qed.

(* a reference cycle of length two, with a literal below it *)
Definition ds_cycle : dataset := [
  ("@default", [
     Q (NIri "urn:a") "p" (NIri "urn:b") None; Q (NIri "urn:b") "q" (NIri "urn:a") None])].

Example ds_cycle_on_cycle : on_cycle ds_cycle ("@default", 0%nat).
Proof.
  exists ("@default", 1%nat). split; [vm_compute; reflexivity|].
  eapply reach_step; [vm_compute; reflexivity|constructor].
Qed.

Example ds_cycle_err : is_err (entries_from_rdf F0 97 ds_cycle) = true.
Proof. vm_compute. reflexivity. Qed.

(* an empty blank node as the only object of its property *)
Definition ds_blank_leaf : dataset := [
  ("@default", [Q (NIri "urn:a") "p" (NBlank "_:b0") None])].
Example ds_blank_leaf_err : is_err (entries_from_rdf F0 97 ds_blank_leaf) = true.
Proof. vm_compute. reflexivity. Qed.

(* ================= self-reference =================
   Before fix b73a54e the code skipped the asking quad when looking for a parent,
   so the self-loop quad of a root node had no parent, its siblings took it as
   theirs, and {"@id":"urn:c0","name":"n0","next":{"@id":"urn:c0"}} was accepted
   with `name` filed under [next; name] (finding D25, witness kept below as a
   regression Example).  Now the quad is its own parent: every statement of a
   node that refers to itself sits below a cycle and the dataset is rejected. *)
Theorem self_reference_rejected : forall F prime ds i q s i' q',
  is_map ds ->
  quad_at ds i = Some q -> get_ref (qs q) = Some s -> get_ref (qo q) = Some s ->
  In (i', q') (value_quads ds) -> fst i' = fst i -> get_ref (qs q') = Some s ->
  forall es, entries_from_rdf F prime ds <> Ok es.
Proof.
  intros F prime ds i q s i' q' Hm Hq Hs Ho Hin Hg Hs' es E.
  assert (Hq' : quad_at ds i' = Some q').
  { unfold value_quads in Hin. apply filter_In in Hin. destruct Hin as (Hin & _).
    now apply positions_in. }
  assert (Hi : In i (referrers ds (fst i) s)) by (apply referrers_iff; eauto).
  (* both i and i' have the single referrer i *)
  assert (Hpar : forall x qx, quad_at ds x = Some qx -> fst x = fst i -> get_ref (qs qx) = Some s ->
                 parent ds x = Some i).
  { intros x qx Hqx Hgx Hsx.
    destruct (accepted_unshared F prime ds es x qx Hm E Hqx qx s Hqx Hsx) as (Hlen & _).
    unfold parent. rewrite Hqx, Hsx, Hgx.
    rewrite Hgx in Hlen.
    destruct (referrers ds (fst i) s) as [|j [|j2 rs]]; simpl in *.
    - contradiction.
    - destruct Hi as [->|[]]. reflexivity.
    - lia. }
  assert (P1 : parent ds i' = Some i) by (eapply Hpar; eauto).
  assert (P2 : parent ds i = Some i) by (eapply Hpar; eauto).
  apply (cycle_rejected F prime ds i' q' i Hm Hin) with (es := es); [| |exact E].
  - eapply reach_step; [exact P1|constructor].
  - exists i. split; [exact P2|constructor].
Qed.

Definition ds_selfref : dataset := [
  ("@default", [
     Q (NIri "urn:c0") "name" (NLit "n0" xs) None; Q (NIri "urn:c0") "next" (NIri "urn:c0") None])].

Example ds_selfref_err : is_err (entries_from_rdf F0 97 ds_selfref) = true.
Proof. vm_compute. reflexivity. Qed.

(* ================= literals are stored verbatim ================= *)
Lemma convert_other : forall F dt v p, classify dt = DOther -> convert F dt v p = Ok (XStr v).
Proof. intros F dt v p H. unfold convert. now rewrite H. Qed.

(* the stored value and datatype of an entry depend on the quad's object only ... *)
Theorem value_function_of_object : forall F prime ds e e' iq iq',
  fact F prime ds e iq -> fact F prime ds e' iq' -> qo (snd iq) = qo (snd iq') ->
  e_val e = e_val e' /\ e_dt e = e_dt e'.
Proof.
  intros F prime ds e e' iq iq' (_ & _ & _ & _ & _ & Hv) (_ & _ & _ & _ & _ & Hv') Ho.
  unfold value_of in *. rewrite Ho in Hv. destruct (qo (snd iq')).
  - destruct Hv as (-> & ->), Hv' as (-> & ->). auto.
  - contradiction.
  - destruct Hv as (Hc & ->), Hv' as (Hc' & ->). rewrite Hc in Hc'. inversion Hc'; auto.
Qed.

(* ... and for every datatype other than boolean / the five integer types / dateTime /
   double (xsd:string, rdf:langString, custom types) the value is the lexical form itself,
   character for character: no trimming, no case folding, no normalisation; an IRI object
   is stored as the IRI *)
Theorem literals_verbatim : forall F prime ds es,
  is_map ds -> entries_from_rdf F prime ds = Ok es ->
  Forall2 (fun e iq =>
             (forall lex d, qo (snd iq) = NLit lex d -> classify d = DOther ->
                            e_val e = XStr lex /\ e_dt e = d) /\
             (forall s, qo (snd iq) = NIri s -> e_val e = XStr s /\ e_dt e = ""))
          es (value_quads ds).
Proof.
  intros F prime ds es Hm H. eapply Forall2_imp; [|eapply entries_exact_fact; eauto].
  intros e iq (_ & _ & _ & _ & _ & Hv). unfold value_of in Hv. split.
  - intros lex d Ho Hc. rewrite Ho in Hv. destruct Hv as (Hconv & Hd).
    rewrite (convert_other F d lex prime Hc) in Hconv. inversion Hconv; subst. auto.
  - intros s Ho. rewrite Ho in Hv. exact Hv.
Qed.

Example verbatim_datatypes :
  classify xsd_string = DOther /\
  classify "http://www.w3.org/1999/02/22-rdf-syntax-ns#langString" = DOther /\
  classify "http://ex.org/v#customType" = DOther.
Proof. repeat split; vm_compute; reflexivity. Qed.

Definition ds_ws : dataset := [
  ("@default", [
     Q (NIri "urn:a") "arr" (NLit "x" xs) None; Q (NIri "urn:a") "arr" (NLit " x" xs) None;
     Q (NIri "urn:a") "arr" (NLit "x " xs) None])].
Example ds_ws_entries :
  match entries_from_rdf F0 97 ds_ws with
  | Ok es => map e_val es = [XStr "x"; XStr " x"; XStr "x "]
  | _ => False
  end.
Proof. vm_compute. reflexivity. Qed.

(* ================= success accounts for every quad ================= *)
(* when entries are returned, every quad of the dataset contributed: a literal/IRI quad is
   stated by one of the entries, a blank-object quad is a registered parent (its key has
   numbered child nodes).  So a dataset with an ill-typed literal, an empty node or a
   shared node is never merklized with that quad left out. *)
Theorem every_quad_accounted : forall F prime ds es i q,
  is_map ds -> entries_from_rdf F prime ds = Ok es -> quad_at ds i = Some q ->
  (is_value q = true -> exists e, In e es /\ fact F prime ds e (i, q)) /\
  (is_value q = false -> exists k, key_at ds i = Some k /\ child_nodes ds k <> []).
Proof.
  intros F prime ds es i q Hm E Hq.
  destruct (entries_exact F prime ds es Hm E) as (Hfa & Hbl & _ & _).
  assert (Hpos : In (i, q) (positions ds)) by now apply positions_in.
  split; intros Hv.
  - apply (Forall2_in_r _ _ _ _ Hfa). unfold value_quads. apply filter_In. auto.
  - destruct (Hbl (i, q) Hpos Hv) as (k & Hk & Hne). exists k. split; [|exact Hne].
    unfold key_at. rewrite Hq. exact Hk.
Qed.

(* an ill-typed literal (its lexical form does not convert under its datatype) *)
Theorem ill_typed_rejected : forall F prime ds i q lex d,
  is_map ds -> quad_at ds i = Some q -> qo q = NLit lex d ->
  (forall x, convert F d lex prime <> Ok x) ->
  forall es, entries_from_rdf F prime ds <> Ok es.
Proof.
  intros F prime ds i q lex d Hm Hq Ho Hbad es E.
  destruct (every_quad_accounted F prime ds es i q Hm E Hq) as (Hval & _).
  destruct Hval as (e & _ & (_ & _ & _ & _ & _ & Hv)); [unfold is_value; now rewrite Ho|].
  unfold value_of in Hv. simpl in Hv. rewrite Ho in Hv. destruct Hv as (Hc & _).
  exact (Hbad _ Hc).
Qed.

(* in particular a lexical form that is not an integer under one of the integer datatypes
   ("1.5", "7/2", "1e-1", "abc") *)
Theorem non_integer_rejected : forall F prime ds i q lex d k,
  is_map ds -> quad_at ds i = Some q -> qo q = NLit lex d ->
  classify d = DInt k -> int_from_str lex = None ->
  forall es, entries_from_rdf F prime ds <> Ok es.
Proof.
  intros F prime ds i q lex d k Hm Hq Ho Hc Hn.
  eapply ill_typed_rejected; eauto. intros x Hx. unfold convert in Hx. rewrite Hc, Hn in Hx. discriminate.
Qed.

Example fractional_forms_not_integers :
  int_from_str "1.5" = None /\ int_from_str "7/2" = None /\ int_from_str "1e-1" = None /\
  int_from_str "-0.25" = None /\ int_from_str "1.5E0" = None.
Proof. repeat split; vm_compute; reflexivity. Qed.

(* integer lexical forms are read in base ten: leading zeros are not octal *)
Example decimal_reading :
  int_from_str "010" = Some 10%Z /\ int_from_str "-0012" = Some (-12)%Z /\
  int_from_str "0777" = Some 777%Z /\ int_from_str "+5" = Some 5%Z /\
  int_from_str "00" = Some 0%Z /\ int_from_str "1e1" = Some 10%Z /\ int_from_str "010.0" = Some 10%Z.
Proof. repeat split; vm_compute; reflexivity. Qed.

Definition ds_frac : dataset := [
  ("@default", [Q (NIri "urn:a") "count" (NLit "1.5" xsd_integer) None;
                Q (NIri "urn:a") "name" (NLit "n" xs) None])].
Example ds_frac_err : is_err (entries_from_rdf F0 97 ds_frac) = true.
Proof. vm_compute. reflexivity. Qed.
