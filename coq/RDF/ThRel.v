(* RDF/ThRel.v — the relationship maps built by newRelationship are exactly the
   spec's parent function and child numbering (invariants 1 and 2 of DESIGN.md
   Appendix A), and a dataset with a shared node is rejected. *)
From Coq Require Import ZArith List String Ascii Bool Arith Lia Permutation.
From GSP Require Import Base.Prelude Value.Time Value.Model RDF.Model RDF.Spec RDF.ThBase RDF.ThTotal.
Import ListNotations.
Open Scope string_scope.
Open Scope list_scope.

(* ---- scan = the list of referrers ---- *)
Definition refs_from (g : string) (n : nat) (l : list quad) (self : didx) (key : ref) : list didx :=
  map fst (filter (is_other_referrer self key) (graph_positions_from g n l)).
Definition refs_in_from (g : string) (n : nat) (l : list quad) (key : ref) : list didx :=
  map fst (filter (is_referrer key) (graph_positions_from g n l)).

Definition merge_found (acc : found) (rs : list didx) : res found :=
  match rs with
  | [] => Ok acc
  | j :: rs' =>
    match acc with
    | FOne _ => Err "multiple-parents"
    | FNone => match rs' with [] => Ok (FOne j) | _ => Err "multiple-parents" end
    end
  end.

Lemma scan_spec : forall l g n key self acc,
  scan g l n key self acc = merge_found acc (refs_from g n l self key).
Proof.
  induction l as [|q t IH]; intros g n key self acc; simpl; [reflexivity|].
  unfold refs_from, graph_positions_from in *. simpl.
  unfold is_other_referrer at 1. simpl.
  destruct (didx_eqb self (g, n)) eqn:Hself; simpl; [apply IH|].
  unfold refers_to at 1.
  destruct (get_ref (qo q)) as [r|]; [|apply IH].
  destruct (ref_eqb r key); [|apply IH].
  simpl. destruct acc as [|p]; [|reflexivity].
  rewrite IH. simpl.
  destruct (map fst (filter (is_other_referrer self key)
    (map (fun iq : nat * quad => (g, fst iq, snd iq)) (index_from (S n) t)))); reflexivity.
Qed.

Lemma scan_in_spec : forall l g n key acc,
  scan_in g l n key acc = merge_found acc (refs_in_from g n l key).
Proof.
  induction l as [|q t IH]; intros g n key acc; simpl; [reflexivity|].
  unfold refs_in_from, graph_positions_from in *. simpl.
  unfold is_referrer at 1. simpl. unfold refers_to at 1.
  destruct (get_ref (qo q)) as [r|]; [|apply IH].
  destruct (ref_eqb r key); [|apply IH].
  simpl. destruct acc as [|p]; [|reflexivity].
  rewrite IH. simpl.
  destruct (map fst (filter (is_referrer key)
    (map (fun iq : nat * quad => (g, fst iq, snd iq)) (index_from (S n) t)))); reflexivity.
Qed.

Lemma merge_found_app : forall a b acc,
  merge_found acc (a ++ b) = (f <- merge_found acc a ;; merge_found f b).
Proof.
  intros [|j [|j2 a]] b acc; simpl; try reflexivity; destruct acc; try reflexivity.
Qed.

Lemma scan_all_spec : forall gs key self acc,
  scan_all gs key self acc =
  merge_found acc (flat_map (fun gl => other_referrers_in (fst gl) (snd gl) self key) gs).
Proof.
  induction gs as [|(g, l) t IH]; intros key self acc; simpl; [reflexivity|].
  rewrite merge_found_app, scan_spec. unfold other_referrers_in, graph_positions, refs_from.
  destruct (merge_found acc (map fst (filter (is_other_referrer self key) (graph_positions_from g 0 l))));
    simpl; auto. apply IH.
Qed.

(* ---- find_parent = parent, and it fails on shared nodes ---- *)
Definition found_of (o : option didx) : found :=
  match o with Some p => FOne p | None => FNone end.

Lemma unshared_at_iff : forall ds i q s,
  quad_at ds i = Some q -> get_ref (qs q) = Some s ->
  (unshared_at ds i <->
   (List.length (referrers ds (fst i) s) <= 1)%nat /\
   (referrers ds (fst i) s = [] -> forall g, qg q = Some (NBlank g) ->
    (List.length (all_referrers ds i (RBlank g)) <= 1)%nat)).
Proof.
  intros ds i q s Hq Hs. unfold unshared_at. split.
  - intros H. apply H; assumption.
  - intros H q0 s0 Hq0 Hs0. rewrite Hq in Hq0. inversion Hq0; subst q0.
    rewrite Hs in Hs0. inversion Hs0; subst s0. exact H.
Qed.

Lemma find_parent_ok : forall ds i q f,
  ds_wf ds -> quad_at ds i = Some q -> find_parent ds i q = Ok f ->
  (exists s, get_ref (qs q) = Some s) /\ unshared_at ds i /\ f = found_of (parent ds i).
Proof.
  intros ds i q f Hwf Hq H.
  destruct (Hwf i q Hq) as (Hg & (p & Hp) & Hqg).
  unfold find_parent, find_parent_inside_graph in H. rewrite Hg in H. simpl in H.
  assert (Hq' := Hq). unfold quad_at in Hq'.
  destruct (lookup_graph ds (fst i)) as [l|] eqn:El; [|discriminate].
  destruct (get_ref (qs q)) as [s|] eqn:Hs; [|discriminate].
  split; [eauto|].
  rewrite scan_in_spec in H.
  assert (Hrefs : referrers ds (fst i) s = refs_in_from (fst i) 0 l s).
  { unfold referrers. now rewrite El. }
  rewrite (unshared_at_iff ds i q s Hq Hs).
  unfold parent. rewrite Hq, Hs, Hrefs.
  destruct (refs_in_from (fst i) 0 l s) as [|j [|j2 rs]] eqn:Er; simpl in H.
  - (* no referrer inside the graph *)
    unfold find_graph_parent in H.
    destruct Hqg as [Hqg|Hqg]; rewrite Hqg in H |- *.
    + inversion H; subst. split; [|reflexivity]. split; [simpl; lia|].
      intros _ g0 Hg0. discriminate.
    + simpl in H. rewrite scan_all_spec in H. fold (all_referrers ds i (RBlank (fst i))) in H.
      destruct (all_referrers ds i (RBlank (fst i))) as [|j [|j2 rs]] eqn:Ea; simpl in H;
        try discriminate; inversion H; subst; (split; [|reflexivity]); (split; [simpl; lia|]);
        intros _ g0 Hg0; inversion Hg0; subst g0; rewrite Ea; simpl; lia.
  - inversion H; subst. split; [|reflexivity]. split; [simpl; lia|].
    intros Hnil. discriminate.
  - discriminate.
Qed.

Lemma found_in_positions : forall (f : didx * quad -> bool) g n l j,
  In j (map fst (filter f (graph_positions_from g n l))) ->
  fst j = g /\ exists q, nth_error l (snd j - n) = Some q /\ (n <= snd j)%nat.
Proof.
  intros f g n l j H. apply in_map_iff in H.
  destruct H as ((j', q) & Hj & Hin). simpl in Hj. subst j'.
  apply filter_In in Hin. destruct Hin as (Hin & _).
  apply graph_positions_from_in in Hin. destruct Hin as (A & B & C). split; [assumption|eauto].
Qed.

Lemma referrers_valid : forall ds g key j,
  In j (referrers ds g key) -> exists q, quad_at ds j = Some q.
Proof.
  intros ds g key j H. unfold referrers in H.
  destruct (lookup_graph ds g) as [l|] eqn:El; [|contradiction].
  apply found_in_positions in H. destruct H as (Hg & q & Hq & _).
  exists q. unfold quad_at. rewrite Hg, El. now rewrite Nat.sub_0_r in Hq.
Qed.

Lemma all_referrers_valid : forall ds self key j,
  is_map ds -> In j (all_referrers ds self key) -> exists q, quad_at ds j = Some q.
Proof.
  intros ds self key j Hm H. unfold all_referrers in H. apply in_flat_map in H.
  destruct H as ((g, l) & Hin & Hj). simpl in Hj.
  apply found_in_positions in Hj. destruct Hj as (Hg & q & Hq & _).
  exists q. unfold quad_at. rewrite Hg, (lookup_graph_unique _ _ _ Hm Hin).
  now rewrite Nat.sub_0_r in Hq.
Qed.

Lemma parent_valid : forall ds i p, is_map ds -> parent ds i = Some p -> exists q, quad_at ds p = Some q.
Proof.
  intros ds i p Hm H. unfold parent in H.
  destruct (quad_at ds i) as [q|]; [|discriminate].
  destruct (get_ref (qs q)) as [s|]; [|discriminate].
  destruct (referrers ds (fst i) s) as [|j rs] eqn:Er.
  - destruct (qg q) as [[|g|]|]; try discriminate.
    destruct (all_referrers ds i (RBlank g)) as [|j rs] eqn:Ea; [discriminate|].
    simpl in H. inversion H; subst. eapply all_referrers_valid; eauto. rewrite Ea. now left.
  - inversion H; subst. eapply referrers_valid. rewrite Er. now left.
Qed.

(* ---- newRelationship as one fold over the positions ---- *)
Definition step_pos (ds : dataset) (acc : res rel) (iq : didx * quad) : res rel :=
  step_rel ds (fst (fst iq)) acc (snd (fst iq), snd iq).

Lemma new_relationship_flat : forall ds,
  new_relationship ds = fold_left (step_pos ds) (positions ds) (Ok empty_rel).
Proof.
  intros ds. unfold new_relationship, positions. rewrite fold_left_flat_map.
  apply fold_left_ext_in. intros a g _.
  destruct (lookup_graph ds g) as [l|]; [|reflexivity].
  unfold graph_positions, graph_positions_from. rewrite fold_left_map.
  apply fold_left_ext_in. intros a' (n, q) _. reflexivity.
Qed.

Lemma step_pos_not_ok : forall ds x acc r, step_pos ds acc x = Ok r -> exists r0, acc = Ok r0.
Proof.
  intros ds x acc r H. unfold step_pos, step_rel in H.
  destruct acc; simpl in H; try discriminate. eauto.
Qed.

Lemma fold_step_pos_ok : forall ds l acc r,
  fold_left (step_pos ds) l acc = Ok r -> exists r0, acc = Ok r0.
Proof.
  intros ds l. induction l as [|x l IH]; intros acc r H; simpl in H; [eauto|].
  apply IH in H. destruct H as (r1 & H). eapply step_pos_not_ok; eauto.
Qed.

(* ---- numbering ---- *)
Definition numbered (cs : list ref) : list (ref * nat) := combine cs (seq 0 (List.length cs)).

Lemma combine_app_eq : forall {A B} (a b : list A) (c d : list B),
  List.length a = List.length c -> combine (a ++ b) (c ++ d) = combine a c ++ combine b d.
Proof.
  induction a as [|x a IH]; intros b [|y c] d H; simpl in *; try discriminate; [reflexivity|].
  f_equal. apply IH. lia.
Qed.

Lemma numbered_snoc : forall cs s, numbered (cs ++ [s]) = numbered cs ++ [(s, List.length cs)].
Proof.
  intros cs s. unfold numbered. rewrite app_length. simpl.
  replace (List.length cs + 1)%nat with (S (List.length cs)) by lia.
  rewrite seq_S. simpl. rewrite combine_app_eq by (now rewrite seq_length). reflexivity.
Qed.

Lemma numbered_length : forall cs, List.length (numbered cs) = List.length cs.
Proof. intros cs. unfold numbered. rewrite combine_length, seq_length. lia. Qed.

Lemma assoc_combine_index : forall cs s n,
  assoc ref_eqb s (combine cs (seq n (List.length cs))) =
  option_map (fun i => (n + i)%nat) (index_of s cs).
Proof.
  induction cs as [|c cs IH]; intros s n; simpl; [reflexivity|].
  destruct (ref_eqb c s); simpl; [f_equal; lia|].
  rewrite IH. destruct (index_of s cs); simpl; [f_equal; lia|reflexivity].
Qed.

Lemma assoc_numbered : forall cs s, assoc ref_eqb s (numbered cs) = index_of s cs.
Proof.
  intros cs s. unfold numbered. rewrite assoc_combine_index.
  destruct (index_of s cs); reflexivity.
Qed.

Lemma index_of_existsb : forall cs s,
  existsb (fun c => ref_eqb c s) cs = match index_of s cs with Some _ => true | None => false end.
Proof.
  induction cs as [|c cs IH]; intros s; simpl; [reflexivity|].
  destruct (ref_eqb c s); simpl; [reflexivity|]. rewrite IH.
  destruct (index_of s cs); reflexivity.
Qed.

(* ---- the invariant of the fold ---- *)
Definition children_spec (cs : list ref) : option (list (ref * nat)) :=
  match cs with [] => None | _ => Some (numbered cs) end.

Definition rel_inv (ds : dataset) (visited : list (didx * quad)) (r : rel) : Prop :=
  (forall i, assoc didx_eqb i (parents r) =
             if existsb (fun x => didx_eqb x i) (map fst visited) then parent ds i else None) /\
  (forall k, assoc qkey_eqb k (children r) = children_spec (kids ds k visited)).

Definition pos_ok (ds : dataset) (x : didx * quad) : Prop :=
  (exists s, get_ref (qs (snd x)) = Some s) /\ unshared_at ds (fst x) /\
  (forall p, parent ds (fst x) = Some p -> exists k, key_at ds p = Some k).

Lemma kids_snoc : forall ds k visited x,
  kids ds k (visited ++ [x]) =
  if is_child_of ds k x then
    match get_ref (qs (snd x)) with
    | Some s => add_new (kids ds k visited) s
    | None => kids ds k visited
    end
  else kids ds k visited.
Proof.
  intros ds k visited x. unfold kids. rewrite filter_app. simpl.
  destruct (is_child_of ds k x).
  - unfold subj_refs. rewrite flat_map_app, fold_left_app. simpl.
    destruct (get_ref (qs (snd x))); simpl; reflexivity.
  - now rewrite app_nil_r.
Qed.

Lemma add_new_nonempty : forall acc s, add_new acc s <> [].
Proof.
  intros acc s. unfold add_new.
  destruct (existsb (fun c => ref_eqb c s) acc) eqn:E.
  - destruct acc; [discriminate|discriminate].
  - destruct acc; discriminate.
Qed.

Lemma step_pos_inv : forall ds visited r x r',
  is_map ds -> ds_wf ds -> In x (positions ds) -> rel_inv ds visited r ->
  step_pos ds (Ok r) x = Ok r' ->
  rel_inv ds (visited ++ [x]) r' /\ pos_ok ds x.
Proof.
  intros ds visited r ((g, n), q) r' Hm Hwf Hin (Hpar & Hch) H.
  apply positions_in in Hin.
  unfold step_pos, step_rel in H. simpl in H.
  apply bind_ok in H. destruct H as (f & Hf & H).
  destruct (find_parent_ok _ _ _ _ Hwf Hin Hf) as ((s & Hs) & Hun & Hfo).
  destruct (parent ds (g, n)) as [p|] eqn:Hp; simpl in Hfo; subst f.
  - (* has a parent *)
    apply bind_ok in H. destruct H as (pq & Hpq & H).
    apply bind_ok in H. destruct H as (k0 & Hk0 & H).
    rewrite Hs in H. inversion H; subst r'; clear H.
    apply get_quad_quad_at in Hpq.
    assert (Hkey : key_of (fst p) pq = Some k0).
    { unfold mk_qkey in Hk0. destruct (Hwf p pq Hpq) as (Hg & (pp & Hpp) & _).
      rewrite Hg in Hk0. simpl in Hk0. unfold key_of.
      destruct (get_ref (qs pq)); [|discriminate]. rewrite Hpp in *.
      inversion Hk0; subst. reflexivity. }
    assert (Hkat : key_at ds p = Some k0) by (unfold key_at; now rewrite Hpq).
    split; [split|].
    + (* parents *)
      intros i'. simpl. rewrite (assoc_upsert didx_eqb didx_eqb_spec).
      rewrite map_app, existsb_app. simpl. rewrite orb_false_r.
      destruct (didx_eqb (g, n) i') eqn:Ei.
      * apply didx_eqb_spec in Ei. subst i'. rewrite orb_true_r. now rewrite Hp.
      * rewrite orb_false_r. apply Hpar.
    + (* children *)
      intros k. simpl. rewrite (assoc_upsert qkey_eqb qkey_eqb_spec).
      rewrite kids_snoc. unfold is_child_of. simpl. rewrite Hp, Hkat, Hs.
      destruct (qkey_eqb k0 k) eqn:Ek.
      * apply qkey_eqb_spec in Ek. subst k.
        rewrite Hch. unfold add_new. rewrite index_of_existsb.
        set (cs := kids ds k0 visited).
        assert (Hcm : match children_spec cs with Some m => m | None => [] end = numbered cs).
        { unfold children_spec. destruct cs; reflexivity. }
        rewrite Hcm. rewrite assoc_numbered.
        destruct (index_of s cs) as [ix|] eqn:Eix.
        -- unfold children_spec. destruct cs; [discriminate|reflexivity].
        -- rewrite numbered_length, <- numbered_snoc. unfold children_spec.
           destruct cs; reflexivity.
      * apply Hch.
    + split; [simpl; eauto|split; [exact Hun|]]. simpl. intros p' Hp'.
      rewrite Hp in Hp'. inversion Hp'; subst. eauto.
  - (* no parent *)
    inversion H; subst r'; clear H.
    split; [split|].
    + intros i'. rewrite map_app, existsb_app. simpl. rewrite orb_false_r.
      destruct (didx_eqb (g, n) i') eqn:Ei.
      * apply didx_eqb_spec in Ei. subst i'. rewrite orb_true_r. rewrite Hpar, Hp.
        destruct (existsb _ _); reflexivity.
      * rewrite orb_false_r. apply Hpar.
    + intros k. rewrite kids_snoc. unfold is_child_of. simpl. rewrite Hp. apply Hch.
    + split; [simpl; eauto|split; [exact Hun|]]. simpl. intros p' Hp'.
      rewrite Hp in Hp'. discriminate.
Qed.

Lemma fold_step_pos_inv : forall ds rest visited r0 r,
  is_map ds -> ds_wf ds -> (forall x, In x rest -> In x (positions ds)) ->
  rel_inv ds visited r0 -> fold_left (step_pos ds) rest (Ok r0) = Ok r ->
  rel_inv ds (visited ++ rest) r /\ Forall (pos_ok ds) rest.
Proof.
  intros ds rest. induction rest as [|x rest IH]; intros visited r0 r Hm Hwf Hsub Hinv H; simpl in H.
  - inversion H; subst. rewrite app_nil_r. auto.
  - destruct (fold_step_pos_ok _ _ _ _ H) as (r1 & Hr1). rewrite Hr1 in H.
    destruct (step_pos_inv ds visited r0 x r1 Hm Hwf (Hsub x (or_introl eq_refl)) Hinv Hr1) as (Hinv1 & Hok).
    destruct (IH (visited ++ [x]) r1 r Hm Hwf (fun y Hy => Hsub y (or_intror Hy)) Hinv1 H) as (Hinv' & Hall).
    rewrite <- app_assoc in Hinv'. split; [exact Hinv'|]. constructor; assumption.
Qed.

(* ---- the result ---- *)
Definition rel_ok (ds : dataset) (r : rel) : Prop :=
  (forall i, assoc didx_eqb i (parents r) = parent ds i) /\
  (forall k, assoc qkey_eqb k (children r) = children_spec (child_nodes ds k)).

Theorem new_relationship_ok : forall ds r,
  is_map ds -> ds_wf ds -> new_relationship ds = Ok r ->
  rel_ok ds r /\ Forall (pos_ok ds) (positions ds).
Proof.
  intros ds r Hm Hwf H. rewrite new_relationship_flat in H.
  assert (Hinv0 : rel_inv ds [] empty_rel) by (split; intros; reflexivity).
  destruct (fold_step_pos_inv ds (positions ds) [] empty_rel r Hm Hwf (fun x Hx => Hx) Hinv0 H)
    as ((Hpar & Hch) & Hall).
  simpl in Hpar, Hch. split; [split|exact Hall].
  - intros i. rewrite Hpar.
    destruct (existsb (fun x => didx_eqb x i) (map fst (positions ds))) eqn:E; [reflexivity|].
    unfold parent. destruct (quad_at ds i) as [q|] eqn:Hq; [|reflexivity].
    exfalso. apply positions_in in Hq.
    assert (Hex : existsb (fun x => didx_eqb x i) (map fst (positions ds)) = true).
    { apply existsb_exists. exists i. split; [|apply didx_eqb_refl].
      change i with (fst (i, q)). now apply in_map. }
    congruence.
  - exact Hch.
Qed.

(* a shared node makes newRelationship fail *)
Theorem shared_rejected_rel : forall ds i q,
  is_map ds -> ds_wf ds -> quad_at ds i = Some q -> ~ unshared_at ds i ->
  exists t, new_relationship ds = Err t.
Proof.
  intros ds i q Hm Hwf Hq Hsh.
  destruct (new_relationship_total ds) as (H1 & H2).
  destruct (new_relationship ds) as [r|t|w|] eqn:E; [|eauto|exfalso; eapply H2; eauto|congruence].
  exfalso. destruct (new_relationship_ok ds r Hm Hwf E) as (_ & Hall).
  rewrite Forall_forall in Hall. apply positions_in in Hq.
  destruct (Hall _ Hq) as (_ & Hun & _). auto.
Qed.
