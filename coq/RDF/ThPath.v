(* RDF/ThPath.v — relationship.path computes the spec's path (invariant 3 of
   DESIGN.md Appendix A): the list built bottom-up and reversed is the
   ancestor path, the quad's own predicate, and the value index. *)
From Coq Require Import ZArith List String Ascii Bool Arith Lia Permutation.
From GSP Require Import Base.Prelude Value.Time Value.Model RDF.Model RDF.Spec RDF.ThBase RDF.ThTotal RDF.ThRel.
Import ListNotations.
Open Scope string_scope.
Open Scope list_scope.

Lemma mk_qkey_key_of : forall g q k, quad_wf g q -> mk_qkey q = Ok k -> key_of g q = Some k.
Proof.
  intros g q k (Hg & (p & Hp) & _) H. unfold mk_qkey in H. rewrite Hg in H. simpl in H.
  unfold key_of. destruct (get_ref (qs q)); [|discriminate]. rewrite Hp in *.
  inversion H; subst. reflexivity.
Qed.

Lemma pred_iri_ok : forall q p, pred_iri q = Ok p -> qp q = NIri p.
Proof. intros q p H. unfold pred_iri in H. destruct (qp q); inversion H; subst; reflexivity. Qed.

Lemma children_spec_some : forall cs cm, children_spec cs = Some cm -> cm = numbered cs /\ cs <> [].
Proof. intros [|c cs] cm H; simpl in H; [discriminate|]. inversion H; subst. split; [reflexivity|discriminate]. Qed.

Lemma walk_anc : forall ds r, ds_wf ds -> rel_ok ds r ->
  forall fuel visited cur k k',
  walk fuel r ds visited cur k = Ok k' ->
  exists pi, anc_path ds cur pi /\ k' = k ++ rev pi.
Proof.
  intros ds r Hwf (Hpar & Hch). induction fuel as [|f IH]; intros visited cur k k' H; simpl in H; [discriminate|].
  rewrite Hpar in H. destruct (parent ds cur) as [p|] eqn:Hp.
  - destruct (mem_didx p visited); [discriminate|].
    apply bind_ok in H. destruct H as (pq & Hpq & H).
    apply bind_ok in H. destruct H as (pk & Hpk & H).
    rewrite Hch in H. destruct (children_spec (child_nodes ds pk)) as [cm|] eqn:Ecm; [|discriminate].
    apply children_spec_some in Ecm. destruct Ecm as (-> & Hne).
    apply bind_ok in H. destruct H as (cq & Hcq & H).
    destruct (get_ref (qs cq)) as [cref|] eqn:Hcref; [|discriminate].
    rewrite assoc_numbered in H.
    destruct (index_of cref (child_nodes ds pk)) as [ci|] eqn:Eci; [|discriminate].
    apply bind_ok in H. destruct H as (pp & Hpp & H).
    apply get_quad_quad_at in Hpq. apply get_quad_quad_at in Hcq.
    apply pred_iri_ok in Hpp.
    assert (Hkey : key_of (fst p) pq = Some pk) by (eapply mk_qkey_key_of; eauto).
    apply IH in H. destruct H as (pi & Hanc & Hk').
    exists (pi ++ [PStr pp] ++ opt_part (child_index ds pk cref)). split.
    + eapply ap_step; eauto.
    + subst k'. unfold child_index. rewrite numbered_length. rewrite Eci.
      destruct (Nat.eqb (List.length (child_nodes ds pk)) 1); simpl;
        rewrite !rev_app_distr; simpl; rewrite <- !app_assoc; reflexivity.
  - inversion H; subst. exists []. split; [now apply ap_root|]. simpl. now rewrite app_nil_r.
Qed.

Lemma opt_part_rev : forall o, rev (opt_part o) = opt_part o.
Proof. intros [n|]; reflexivity. Qed.

Lemma rel_path_spec : forall ds r i idx p, ds_wf ds -> rel_ok ds r ->
  rel_path r ds i idx = Ok p ->
  exists pi q pr, quad_at ds i = Some q /\ qp q = NIri pr /\ anc_path ds i pi /\
                  p = pi ++ [PStr pr] ++ opt_part idx.
Proof.
  intros ds r i idx p Hwf Hok H. unfold rel_path in H.
  apply bind_ok in H. destruct H as (q & Hq & H).
  apply bind_ok in H. destruct H as (pr & Hpr & H).
  apply bind_ok in H. destruct H as (k & Hk & H).
  inversion H; subst p; clear H.
  apply (walk_anc ds r Hwf Hok) in Hk. destruct Hk as (pi & Hanc & ->).
  exists pi, q, pr. apply get_quad_quad_at in Hq. apply pred_iri_ok in Hpr.
  repeat split; auto.
  change (match idx with Some n => [PInt (Z.of_nat n)] | None => [] end) with (opt_part idx).
  rewrite !rev_app_distr, rev_involutive. simpl. now rewrite opt_part_rev.
Qed.

(* the path of a position is unique: parent is a function *)
Lemma anc_path_unique : forall ds i p1, anc_path ds i p1 -> forall p2, anc_path ds i p2 -> p1 = p2.
Proof.
  intros ds i p1 H1. induction H1 as [i Hp|i j qi qj si pj kj pi Hp Hqi Hsi Hqj Hpj Hkj Hanc IH];
    intros p2 H2; inversion H2; subst; try congruence.
  assert (j0 = j) by congruence. subst j0.
  assert (qi0 = qi) by congruence. subst qi0.
  assert (qj0 = qj) by congruence. subst qj0.
  assert (si0 = si) by congruence. subst si0.
  assert (pj0 = pj) by congruence. subst pj0.
  assert (kj0 = kj) by congruence. subst kj0.
  f_equal. now apply IH.
Qed.

(* a position that has a path is not below a reference cycle *)
Lemma anc_path_acyclic : forall ds i pi, anc_path ds i pi ->
  forall j, reaches ds i j -> ~ on_cycle ds j.
Proof.
  intros ds i pi H. induction H as [i Hp|i j0 qi qj si pj kj pi Hp Hqi Hsi Hqj Hpj Hkj Hanc IH];
    intros j Hr (j' & Hj' & Hback).
  - inversion Hr; subst; congruence.
  - inversion Hr as [|? m ? Hm Hr']; subst.
    + (* j = i: the cycle passes through the parent j0 *)
      assert (j' = j0) by congruence. subst j'.
      apply (IH j0 (reach_refl ds j0)).
      (* j0 reaches i, and i's parent is j0: so parent-chain from j0 returns to j0 *)
      clear IH Hanc Hr.
      assert (Hgen : forall a b, reaches ds a b -> parent ds b = Some j0 -> exists a', parent ds a = Some a' /\ reaches ds a' j0).
      { intros a b Hab. induction Hab as [a|a a1 b Ha Hab IHab]; intros Hb.
        - exists j0. split; [assumption|constructor].
        - destruct (IHab Hb) as (a' & Ha' & Hr'). exists a1. split; [assumption|].
          econstructor; eauto. }
      destruct (Hgen j0 j Hback Hp) as (a' & Ha' & Hr''). exists a'. auto.
    + assert (m = j0) by congruence. subst m. apply (IH j Hr'). exists j'. auto.
Qed.
