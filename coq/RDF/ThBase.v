(* RDF/ThBase.v — generic lemmas used by the C01 proofs: decidable equalities of
   the model, association lists, folds with a `res` accumulator, positions. *)
From Coq Require Import ZArith List String Ascii Bool Arith Lia Permutation.
From GSP Require Import Base.Prelude Value.Time Value.Model RDF.Model RDF.Spec.
Import ListNotations.
Open Scope string_scope.
Open Scope list_scope.

(* ---- equalities ---- *)
Lemma ref_eqb_spec : forall a b, ref_eqb a b = true <-> a = b.
Proof.
  intros [x|x] [y|y]; simpl; split; intros H; try discriminate;
    try (apply String.eqb_eq in H; now subst);
    try (inversion H; subst; apply String.eqb_refl).
Qed.

Lemma ref_eqb_refl : forall a, ref_eqb a a = true.
Proof. intros a. now apply ref_eqb_spec. Qed.

Lemma didx_eqb_spec : forall a b, didx_eqb a b = true <-> a = b.
Proof.
  intros [g i] [g' i']; unfold didx_eqb; simpl. rewrite andb_true_iff, String.eqb_eq, Nat.eqb_eq.
  split; [intros (-> & ->); reflexivity|intros H; inversion H; auto].
Qed.

Lemma didx_eqb_refl : forall a, didx_eqb a a = true.
Proof. intros a. now apply didx_eqb_spec. Qed.

Lemma didx_eqb_sym : forall a b, didx_eqb a b = didx_eqb b a.
Proof.
  intros a b. destruct (didx_eqb a b) eqn:H1, (didx_eqb b a) eqn:H2; auto.
  - apply didx_eqb_spec in H1. subst. now rewrite didx_eqb_refl in H2.
  - apply didx_eqb_spec in H2. subst. now rewrite didx_eqb_refl in H1.
Qed.

Lemma qkey_eqb_spec : forall a b, qkey_eqb a b = true <-> a = b.
Proof.
  intros [s p g] [s' p' g']; unfold qkey_eqb; simpl.
  rewrite !andb_true_iff, ref_eqb_spec, !String.eqb_eq.
  split; [intros ((-> & ->) & ->); reflexivity|intros H; inversion H; auto].
Qed.

Lemma qkey_eqb_refl : forall a, qkey_eqb a a = true.
Proof. intros a. now apply qkey_eqb_spec. Qed.

(* ---- association lists ---- *)
Section AL.
  Context {K V : Type} (eqb : K -> K -> bool).
  Hypothesis eqb_spec : forall a b, eqb a b = true <-> a = b.

  Lemma eqb_refl_ : forall a, eqb a a = true.
  Proof. intros a. now apply eqb_spec. Qed.

  Lemma assoc_upsert : forall (l : list (K * V)) k v k',
    assoc eqb k' (upsert eqb k v l) = if eqb k k' then Some v else assoc eqb k' l.
  Proof.
    induction l as [|(a, b) l IH]; intros k v k'; simpl.
    - reflexivity.
    - destruct (eqb a k) eqn:Hak; simpl.
      + apply eqb_spec in Hak. subst a. destruct (eqb k k'); reflexivity.
      + rewrite IH. destruct (eqb a k') eqn:Hak'; [|reflexivity].
        apply eqb_spec in Hak'. subst a. destruct (eqb k k') eqn:Hkk'; [|reflexivity].
        apply eqb_spec in Hkk'. subst k'. now rewrite eqb_refl_ in Hak.
  Qed.
End AL.

(* ---- res folds ---- *)
Lemma bind_ok : forall {A B} (r : res A) (f : A -> res B) b,
  bind r f = Ok b -> exists a, r = Ok a /\ f a = Ok b.
Proof. intros A B [a| | |] f b H; simpl in H; try discriminate. eauto. Qed.

Lemma fold_left_flat_map : forall {A B C} (f : A -> B -> A) (h : C -> list B) l a,
  fold_left f (flat_map h l) a = fold_left (fun a x => fold_left f (h x) a) l a.
Proof.
  intros A B C f h l. induction l as [|x l IH]; intros a; simpl; [reflexivity|].
  now rewrite fold_left_app, IH.
Qed.

Lemma fold_left_map : forall {A B C} (f : A -> B -> A) (h : C -> B) l a,
  fold_left f (map h l) a = fold_left (fun a x => f a (h x)) l a.
Proof.
  intros A B C f h l. induction l as [|x l IH]; intros a; simpl; [reflexivity|]. apply IH.
Qed.

Lemma fold_left_ext_in : forall {A B} (f g : A -> B -> A) l a,
  (forall a x, In x l -> f a x = g a x) -> fold_left f l a = fold_left g l a.
Proof.
  intros A B f g l. induction l as [|x l IH]; intros a H; simpl; [reflexivity|].
  rewrite H by (now left). apply IH. intros a' y Hy. apply H. now right.
Qed.

Lemma filter_flat_map : forall {A B} (f : B -> bool) (h : A -> list B) l,
  filter f (flat_map h l) = flat_map (fun x => filter f (h x)) l.
Proof.
  intros A B f h l. induction l as [|x l IH]; simpl; [reflexivity|].
  now rewrite filter_app, IH.
Qed.

(* ---- sort_strings is a permutation ---- *)
Lemma str_ins_perm : forall x l, Permutation (str_ins x l) (x :: l).
Proof.
  intros x l. induction l as [|h t IH]; simpl; [reflexivity|].
  destruct (str_leb x h); [reflexivity|].
  rewrite IH. apply perm_swap.
Qed.

Lemma sort_strings_permutation : forall l, Permutation (sort_strings l) l.
Proof.
  unfold sort_strings. induction l as [|x l IH]; simpl; [reflexivity|].
  rewrite str_ins_perm. now constructor.
Qed.

Lemma in_graph_names : forall ds g, In g (graph_names ds) <-> In g (map fst ds).
Proof.
  intros ds g. unfold graph_names. split; intros H.
  - eapply Permutation_in; [apply sort_strings_permutation|exact H].
  - eapply Permutation_in; [apply Permutation_sym, sort_strings_permutation|exact H].
Qed.

Lemma graph_names_nodup : forall ds, is_map ds -> NoDup (graph_names ds).
Proof.
  intros ds H. unfold graph_names.
  eapply Permutation_NoDup; [apply Permutation_sym, sort_strings_permutation|exact H].
Qed.

(* ---- lookup_graph ---- *)
Lemma lookup_graph_in : forall ds g l, lookup_graph ds g = Some l -> In (g, l) ds.
Proof.
  induction ds as [|(n, qsl) t IH]; intros g l H; simpl in H; [discriminate|].
  destruct (String.eqb n g) eqn:E.
  - apply String.eqb_eq in E. inversion H; subst. now left.
  - right. now apply IH.
Qed.

Lemma lookup_graph_some : forall ds g, In g (map fst ds) -> exists l, lookup_graph ds g = Some l.
Proof.
  induction ds as [|(n, qsl) t IH]; intros g H; simpl in *; [contradiction|].
  destruct (String.eqb n g) eqn:E; [eauto|].
  destruct H as [H|H]; [subst; now rewrite String.eqb_refl in E|now apply IH].
Qed.

Lemma lookup_graph_name : forall ds g l, lookup_graph ds g = Some l -> In g (graph_names ds).
Proof.
  intros ds g l H. apply in_graph_names. apply lookup_graph_in in H.
  change g with (fst (g, l)). now apply in_map.
Qed.

Lemma lookup_graph_unique : forall ds g l, is_map ds -> In (g, l) ds -> lookup_graph ds g = Some l.
Proof.
  induction ds as [|(n, qsl) t IH]; intros g l Hm H; simpl in *; [contradiction|].
  inversion Hm as [|? ? Hn Hm']; subst.
  destruct H as [H|H].
  - inversion H; subst. now rewrite String.eqb_refl.
  - destruct (String.eqb n g) eqn:E.
    + apply String.eqb_eq in E. subst. exfalso. apply Hn.
      change g with (fst (g, l)). now apply in_map.
    + now apply IH.
Qed.

(* ---- index_from / positions ---- *)
Lemma index_from_in : forall {A} (l : list A) n i x,
  In (i, x) (index_from n l) <-> (n <= i)%nat /\ nth_error l (i - n) = Some x.
Proof.
  induction l as [|h t IH]; intros n i x; simpl.
  - split; [contradiction|]. intros (_ & H). destruct (i - n)%nat; discriminate.
  - rewrite IH. split.
    + intros [H|(H1 & H2)].
      * inversion H; subst. split; [lia|]. now rewrite Nat.sub_diag.
      * split; [lia|]. replace (i - n)%nat with (S (i - S n)) by lia. exact H2.
    + intros (H1 & H2). destruct (i - n)%nat as [|m] eqn:E.
      * left. inversion H2; subst. f_equal. lia.
      * right. split; [lia|]. replace (i - S n)%nat with m by lia. exact H2.
Qed.

Lemma index_from_app : forall {A} (a b : list A) n,
  index_from n (a ++ b) = index_from n a ++ index_from (n + List.length a) b.
Proof.
  induction a as [|h t IH]; intros b n; simpl.
  - now rewrite Nat.add_0_r.
  - rewrite IH. do 2 f_equal. f_equal. lia.
Qed.

Lemma graph_positions_from_in : forall g n l i q,
  In (i, q) (graph_positions_from g n l) <->
  fst i = g /\ (n <= snd i)%nat /\ nth_error l (snd i - n) = Some q.
Proof.
  intros g n l [g' i] q. unfold graph_positions_from. rewrite in_map_iff. simpl. split.
  - intros ((j, q') & H & Hin). simpl in H. inversion H; subst.
    apply index_from_in in Hin. tauto.
  - intros (-> & H). exists (i, q). split; [reflexivity|]. now apply index_from_in.
Qed.

Lemma positions_in : forall ds i q,
  In (i, q) (positions ds) <-> quad_at ds i = Some q.
Proof.
  intros ds [g i] q. unfold positions, quad_at. rewrite in_flat_map. simpl. split.
  - intros (g' & Hg & Hin). destruct (lookup_graph ds g') as [l|] eqn:El; [|contradiction].
    apply graph_positions_from_in in Hin. simpl in Hin. destruct Hin as (-> & _ & Hn).
    rewrite El. now rewrite Nat.sub_0_r in Hn.
  - intros H. destruct (lookup_graph ds g) as [l|] eqn:El; [|discriminate].
    exists g. split; [eapply lookup_graph_name; eauto|]. rewrite El.
    apply graph_positions_from_in. simpl. rewrite Nat.sub_0_r. repeat split; auto. lia.
Qed.

Lemma get_quad_quad_at : forall ds i q, get_quad ds i = Ok q <-> quad_at ds i = Some q.
Proof.
  intros ds i q. unfold get_quad, quad_at. destruct (lookup_graph ds (fst i)); [|split; discriminate].
  destruct (nth_error l (snd i)); split; intros H; inversion H; auto.
Qed.

Lemma get_quad_err : forall ds i, quad_at ds i = None -> exists t, get_quad ds i = Err t.
Proof.
  intros ds i. unfold get_quad, quad_at. destruct (lookup_graph ds (fst i)); [|eauto].
  destruct (nth_error l (snd i)); [discriminate|eauto].
Qed.

(* ---- dataset consistency ---- *)
Definition quad_wf (g : string) (q : quad) : Prop :=
  graph_name q = Ok g /\ (exists p, qp q = NIri p) /\
  (qg q = None \/ qg q = Some (NBlank g)).

Lemma quad_consistent_wf : forall g q, quad_consistent g q = Ok tt -> quad_wf g q.
Proof.
  intros g q. unfold quad_consistent, quad_wf, graph_name.
  destruct (String.eqb g "") eqn:E0; [discriminate|].
  destruct (qg q) as [gn|].
  - destruct (String.eqb g default_graph); [discriminate|].
    destruct gn as [s|a|v d]; try discriminate.
    destruct (String.eqb a g) eqn:Ea; [|discriminate].
    apply String.eqb_eq in Ea. subst a.
    destruct (qp q) as [p| |]; try discriminate. intros _. repeat split; eauto.
  - destruct (String.eqb g default_graph) eqn:Ed; simpl; [|discriminate].
    apply String.eqb_eq in Ed. subst g.
    destruct (qp q) as [p| |]; try discriminate. intros _. repeat split; eauto.
Qed.

Definition ds_wf (ds : dataset) : Prop :=
  forall i q, quad_at ds i = Some q -> quad_wf (fst i) q.

Lemma quads_consistent_wf : forall g l, quads_consistent g l = Ok tt -> forall q, In q l -> quad_wf g q.
Proof.
  induction l as [|h t IH]; intros H q Hq; simpl in *; [contradiction|].
  apply bind_ok in H. destruct H as ([] & H1 & H2).
  destruct Hq as [<-|Hq]; [now apply quad_consistent_wf|now apply IH].
Qed.

Lemma assert_consistency_wf : forall ds, assert_consistency ds = Ok tt -> ds_wf ds.
Proof.
  intros ds H i q Hq. unfold quad_at in Hq.
  destruct (lookup_graph ds (fst i)) as [l|] eqn:El; [|discriminate].
  apply lookup_graph_in in El. apply nth_error_In in Hq.
  revert H El. generalize (fst i). clear i. intros g.
  induction ds as [|(n, qsl) t IH]; simpl; intros H El; [contradiction|].
  apply bind_ok in H. destruct H as ([] & H1 & H2).
  destruct El as [El|El].
  - inversion El; subst. eapply quads_consistent_wf; eauto.
  - now apply IH.
Qed.

Lemma quad_wf_key : forall g q s, quad_wf g q -> get_ref (qs q) = Some s ->
  exists k, mk_qkey q = Ok k /\ key_of g q = Some k.
Proof.
  intros g q s (Hg & (p & Hp) & _) Hs. unfold mk_qkey, key_of. rewrite Hg, Hs, Hp. simpl. eauto.
Qed.

Lemma quad_wf_key_none : forall g q, quad_wf g q -> get_ref (qs q) = None ->
  exists t, mk_qkey q = Err t.
Proof.
  intros g q (Hg & _ & _) Hs. unfold mk_qkey. rewrite Hg, Hs. simpl. eauto.
Qed.
