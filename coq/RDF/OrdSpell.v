(* RDF/OrdSpell.v — C03, number spellings, the part that is THIS repository's code.

   EntriesFromRDFWithHasher looks at the lexical form of a literal only through
   convertStringToXSDValue.  Theorem spelling_invariance: respelling the literals of a
   dataset by any function `f` that does not change the conversion result (e.g. "5" ->
   "05" / "5.0" / "5e0" for the XSD integer types, "true" -> "1" for booleans, another
   zone offset for dateTime), while every quad keeps its place, leaves the entries — and
   therefore the root — unchanged.

   So when an equivalent spelling does change the root of a DOCUMENT (known findings D21,
   D21-duplicate), the cause is entirely on the json-gold side of the interface: the
   canonical N-Quads order of the literals / the canonical blank-node labels depend on the
   lexical forms, so the quads reach EntriesFromRDF in another order (or twice). *)
From Coq Require Import ZArith List String Ascii Bool Arith Lia.
From GSP Require Import Base.Prelude Value.Time Value.Model RDF.Model.
Import ListNotations.
Open Scope string_scope.
Open Scope list_scope.

Section Relit.
Variable f : string -> string -> string.     (* datatype -> lexical form -> new lexical form *)

Definition relit (q : quad) : quad :=
  match qo q with
  | NLit v dt => {| qs := qs q; qp := qp q; qo := NLit (f dt v) dt; qg := qg q |}
  | _ => q
  end.
Definition relit_ds (ds : dataset) : dataset :=
  map (fun gq => (fst gq, map relit (snd gq))) ds.

Lemma relit_qs q : qs (relit q) = qs q.
Proof. unfold relit. destruct (qo q); reflexivity. Qed.
Lemma relit_qp q : qp (relit q) = qp q.
Proof. unfold relit. destruct (qo q); reflexivity. Qed.
Lemma relit_qg q : qg (relit q) = qg q.
Proof. unfold relit. destruct (qo q); reflexivity. Qed.
Lemma relit_qo q :
  qo (relit q) = match qo q with NLit v dt => NLit (f dt v) dt | o => o end.
Proof. unfold relit. destruct (qo q) eqn:E; simpl; auto. Qed.
Lemma relit_ref q : get_ref (qo (relit q)) = get_ref (qo q).
Proof. rewrite relit_qo. destruct (qo q); reflexivity. Qed.

Lemma relit_graph_name q : graph_name (relit q) = graph_name q.
Proof. unfold graph_name. now rewrite relit_qg. Qed.
Lemma relit_mk_qkey q : mk_qkey (relit q) = mk_qkey q.
Proof. unfold mk_qkey. now rewrite relit_graph_name, relit_qs, relit_qp. Qed.
Lemma relit_pred_iri q : pred_iri (relit q) = pred_iri q.
Proof. unfold pred_iri. now rewrite relit_qp. Qed.

Lemma relit_quad_consistent g q : quad_consistent g (relit q) = quad_consistent g q.
Proof. unfold quad_consistent. now rewrite relit_qg, relit_qp. Qed.

Lemma relit_quads_consistent g l : quads_consistent g (map relit l) = quads_consistent g l.
Proof.
  induction l as [|q l IH]; simpl; [reflexivity|].
  now rewrite relit_quad_consistent, IH.
Qed.

Lemma relit_assert ds : assert_consistency (relit_ds ds) = assert_consistency ds.
Proof.
  induction ds as [|(g, l) ds IH]; simpl; [reflexivity|].
  now rewrite relit_quads_consistent, IH.
Qed.

Lemma relit_lookup ds g :
  lookup_graph (relit_ds ds) g = option_map (map relit) (lookup_graph ds g).
Proof.
  induction ds as [|(n, l) ds IH]; simpl; [reflexivity|].
  destruct (String.eqb n g); [reflexivity|exact IH].
Qed.

Lemma relit_scan g l : forall i0 key skip acc,
  scan g (map relit l) i0 key skip acc = scan g l i0 key skip acc.
Proof.
  induction l as [|q l IH]; intros i0 key skip acc; simpl; [reflexivity|].
  rewrite relit_ref.
  destruct (didx_eqb skip (g, i0)); [apply IH|].
  destruct (get_ref (qo q)) as [r|]; [|apply IH].
  destruct (ref_eqb r key); [|apply IH].
  destruct acc; [apply IH|reflexivity].
Qed.

Lemma relit_scan_in g l : forall i0 key acc,
  scan_in g (map relit l) i0 key acc = scan_in g l i0 key acc.
Proof.
  induction l as [|q l IH]; intros i0 key acc; simpl; [reflexivity|].
  rewrite relit_ref.
  destruct (get_ref (qo q)) as [r|]; [|apply IH].
  destruct (ref_eqb r key); [|apply IH].
  destruct acc; [apply IH|reflexivity].
Qed.

Lemma relit_scan_all ds : forall key skip acc,
  scan_all (relit_ds ds) key skip acc = scan_all ds key skip acc.
Proof.
  induction ds as [|(g, l) ds IH]; intros key skip acc; simpl; [reflexivity|].
  rewrite relit_scan.
  destruct (scan g l 0 key skip acc); cbn [bind]; auto.
Qed.

Lemma relit_fpig ds me q :
  find_parent_inside_graph (relit_ds ds) me (relit q) = find_parent_inside_graph ds me q.
Proof.
  unfold find_parent_inside_graph. rewrite relit_graph_name.
  destruct (graph_name q) as [g| | |]; cbn [bind]; auto.
  rewrite relit_lookup, relit_qs.
  destruct (lookup_graph ds g) as [l|]; simpl; [|reflexivity].
  destruct (get_ref (qs q)); [|reflexivity].
  apply relit_scan_in.
Qed.

Lemma relit_fgp ds me q :
  find_graph_parent (relit_ds ds) me (relit q) = find_graph_parent ds me q.
Proof.
  unfold find_graph_parent. rewrite relit_qg.
  destruct (qg q) as [gn|]; [|reflexivity].
  destruct (get_ref gn) as [[s|s]|]; try reflexivity.
  apply relit_scan_all.
Qed.

Lemma relit_find_parent ds me q :
  find_parent (relit_ds ds) me (relit q) = find_parent ds me q.
Proof.
  unfold find_parent. rewrite relit_fpig.
  destruct (find_parent_inside_graph ds me q) as [[|p]| | |]; cbn [bind]; auto.
  apply relit_fgp.
Qed.

Definition relit_res (r : res quad) : res quad :=
  match r with
  | Ok q => Ok (relit q)
  | Err t => Err t
  | Panic w => Panic w
  | Diverge => Diverge
  end.

Lemma relit_get_quad ds i : get_quad (relit_ds ds) i = relit_res (get_quad ds i).
Proof.
  unfold get_quad. rewrite relit_lookup.
  destruct (lookup_graph ds (fst i)) as [l|]; simpl; [|reflexivity].
  rewrite nth_error_map. destruct (nth_error l (snd i)); reflexivity.
Qed.

Lemma relit_step_rel ds g acc i q :
  step_rel (relit_ds ds) g acc (i, relit q) = step_rel ds g acc (i, q).
Proof.
  unfold step_rel. destruct acc as [r| | |]; cbn [bind]; auto.
  rewrite relit_find_parent.
  destruct (find_parent ds (g, i) q) as [[|p]| | |]; cbn [bind]; auto.
  rewrite relit_get_quad.
  destruct (get_quad ds p) as [pq| | |]; cbn [relit_res bind]; auto.
  rewrite relit_mk_qkey, relit_qs. reflexivity.
Qed.

Definition relit_iq (iq : nat * quad) : nat * quad := (fst iq, relit (snd iq)).

Lemma index_from_relit l : forall i,
  index_from i (map relit l) = map relit_iq (index_from i l).
Proof.
  induction l as [|q l IH]; intros i; simpl; [reflexivity|]. now rewrite IH.
Qed.

Lemma fold_step_rel ds g l : forall acc,
  fold_left (step_rel (relit_ds ds) g) (map relit_iq l) acc = fold_left (step_rel ds g) l acc.
Proof.
  induction l as [|(i, q) l IH]; intros acc; cbn [map fold_left]; [reflexivity|].
  change (relit_iq (i, q)) with (i, relit q). now rewrite relit_step_rel, IH.
Qed.

Lemma relit_graph_names ds : graph_names (relit_ds ds) = graph_names ds.
Proof.
  unfold graph_names, relit_ds. rewrite map_map. reflexivity.
Qed.

Lemma fold_left_ext' {A B} (h k : A -> B -> A) : (forall a b, h a b = k a b) ->
  forall l a, fold_left h l a = fold_left k l a.
Proof.
  intros E. induction l as [|b l IH]; intros a; simpl; [reflexivity|]. now rewrite E, IH.
Qed.

Lemma relit_new_relationship ds : new_relationship (relit_ds ds) = new_relationship ds.
Proof.
  unfold new_relationship. rewrite relit_graph_names.
  apply fold_left_ext'. intros acc g. rewrite relit_lookup.
  destruct (lookup_graph ds g) as [l|]; simpl; [|reflexivity].
  rewrite index_from_relit. apply fold_step_rel.
Qed.

Lemma relit_total ds : total_quads (relit_ds ds) = total_quads ds.
Proof.
  unfold total_quads. induction ds as [|(g, l) ds IH]; simpl; [reflexivity|].
  now rewrite map_length, IH.
Qed.

Lemma relit_walk ds r : forall fuel visited cur k,
  walk fuel r (relit_ds ds) visited cur k = walk fuel r ds visited cur k.
Proof.
  induction fuel as [|n IH]; intros visited cur k; simpl; [reflexivity|].
  destruct (assoc didx_eqb cur (parents r)) as [p|]; [|reflexivity].
  destruct (mem_didx p visited); [reflexivity|].
  rewrite (relit_get_quad ds p).
  destruct (get_quad ds p) as [pq| | |]; cbn [relit_res bind]; auto.
  rewrite relit_mk_qkey.
  destruct (mk_qkey pq) as [pk| | |]; cbn [bind]; auto.
  destruct (assoc qkey_eqb pk (children r)) as [cm|]; [|reflexivity].
  rewrite (relit_get_quad ds cur).
  destruct (get_quad ds cur) as [cq| | |]; cbn [relit_res bind]; auto.
  rewrite relit_qs.
  destruct (get_ref (qs cq)) as [cref|]; [|reflexivity].
  destruct (assoc ref_eqb cref cm) as [ci|]; [|reflexivity].
  rewrite relit_pred_iri.
  destruct (pred_iri pq) as [pp| | |]; cbn [bind]; auto.
Qed.

Lemma relit_rel_path ds r i idx : rel_path r (relit_ds ds) i idx = rel_path r ds i idx.
Proof.
  unfold rel_path. rewrite relit_get_quad.
  destruct (get_quad ds i) as [q| | |]; cbn [relit_res bind]; [|reflexivity|reflexivity|reflexivity].
  rewrite relit_pred_iri.
  destruct (pred_iri q) as [p| | |]; cbn [bind]; [|reflexivity|reflexivity|reflexivity].
  rewrite relit_total, relit_walk. reflexivity.
Qed.

Lemma relit_count_entries l : forall acc,
  count_entries (map relit l) acc = count_entries l acc.
Proof.
  induction l as [|q l IH]; intros acc; simpl; [reflexivity|].
  rewrite relit_mk_qkey. destruct (mk_qkey q); cbn [bind]; auto.
Qed.

Variable F : floats.
Variable prime : Z.
(* the respelling does not change what convertStringToXSDValue returns *)
Hypothesis Hf : forall dt v, convert F dt (f dt v) prime = convert F dt v prime.

Lemma relit_graph_entries ds r g counts : forall l seen out,
  graph_entries F prime r (relit_ds ds) g counts (map relit_iq l) seen out =
  graph_entries F prime r ds g counts l seen out.
Proof.
  induction l as [|(i, q) l IH]; intros seen out; simpl; [reflexivity|].
  rewrite relit_mk_qkey.
  destruct (mk_qkey q) as [k| | |]; cbn [bind]; auto.
  rewrite relit_qo.
  destruct (qo q) as [v|b|v dt].
  - destruct (assoc qkey_eqb k counts) as [[|c']|]; auto.
    destruct c' as [|c'']; rewrite relit_rel_path;
      match goal with |- context [rel_path r ds ?a ?b] =>
        destruct (rel_path r ds a b) as [p| | |]; cbn [bind]; auto end.
  - destruct (assoc qkey_eqb k (children r)); auto.
  - rewrite Hf.
    destruct (convert F dt v prime) as [x| | |]; cbn [bind]; auto.
    destruct (assoc qkey_eqb k counts) as [[|c']|]; auto.
    destruct c' as [|c'']; rewrite relit_rel_path;
      match goal with |- context [rel_path r ds ?a ?b] =>
        destruct (rel_path r ds a b) as [p| | |]; cbn [bind]; auto end.
Qed.

Theorem spelling_invariance : forall ds,
  entries_from_rdf F prime (relit_ds ds) = entries_from_rdf F prime ds.
Proof.
  intros ds. unfold entries_from_rdf.
  rewrite relit_assert.
  destruct (assert_consistency ds); cbn [bind]; auto.
  rewrite relit_lookup.
  destruct (lookup_graph ds default_graph) as [q0|]; simpl; [|reflexivity].
  rewrite relit_new_relationship.
  destruct (new_relationship ds) as [r| | |]; cbn [bind]; auto.
  rewrite relit_graph_names.
  apply fold_left_ext'. intros acc g.
  destruct acc as [out| | |]; cbn [bind]; auto.
  rewrite relit_lookup.
  destruct (lookup_graph ds g) as [l|]; simpl; [|reflexivity].
  rewrite relit_count_entries.
  destruct (count_entries l []) as [counts| | |]; cbn [bind]; auto.
  rewrite index_from_relit. apply relit_graph_entries.
Qed.
End Relit.

(* ------------------------------------------------------------------ *)
(* non-vacuity: "05" for "5" (and "1" for "true") under the integer / boolean types  *)
(* ------------------------------------------------------------------ *)
Definition respell_demo (dt v : string) : string :=
  match classify dt with
  | DInt _ => if String.eqb v "5" then "05.0" else v
  | DBool => if String.eqb v "true" then "1" else v
  | _ => v
  end.

Lemma respell_demo_ok : forall F prime dt v,
  convert F dt (respell_demo dt v) prime = convert F dt v prime.
Proof.
  intros F prime dt v. unfold respell_demo.
  destruct (classify dt) eqn:Hc; try reflexivity.
  - destruct (String.eqb v "true") eqn:E; [|reflexivity].
    apply String.eqb_eq in E. subst v. unfold convert. rewrite Hc. reflexivity.
  - destruct (String.eqb v "5") eqn:E; [|reflexivity].
    apply String.eqb_eq in E. subst v. unfold convert. rewrite Hc.
    replace (int_from_str "05.0") with (int_from_str "5") by (vm_compute; reflexivity).
    reflexivity.
Qed.

Definition spell_ds : dataset :=
  [ (default_graph,
     [ {| qs := NIri "urn:a"; qp := NIri "urn:p"; qo := NLit "10" xsd_integer; qg := None |};
       {| qs := NIri "urn:a"; qp := NIri "urn:p"; qo := NLit "5" xsd_integer; qg := None |};
       {| qs := NIri "urn:a"; qp := NIri "urn:b"; qo := NLit "true" xsd_boolean; qg := None |} ]) ].

Example spell_ds_changes : relit_ds respell_demo spell_ds <> spell_ds.
Proof. vm_compute. discriminate. Qed.

Example spell_ds_same_entries :
  entries_from_rdf {| f_parse := fun _ => None; f_canon := fun _ => None; f_of_int := fun _ => None |}
                   1000003 (relit_ds respell_demo spell_ds) =
  Ok [ {| e_key := [PStr "urn:p"; PInt 0]; e_val := XBig 10; e_dt := xsd_integer |};
       {| e_key := [PStr "urn:p"; PInt 1]; e_val := XBig 5; e_dt := xsd_integer |};
       {| e_key := [PStr "urn:b"]; e_val := XBool true; e_dt := xsd_boolean |} ].
Proof. vm_compute. reflexivity. Qed.
