(* RDF/Order.v — C03, part (a): the entries computed by RDF/Model.v's
   entries_from_rdf do not depend on the order in which Go happens to iterate
   the map ds.Graphs.

   The Go code ranges over ds.Graphs in three places:
     assertDatasetConsistency (merklize.go:1845)  first error wins
     findGraphParent          (merklize.go:733)   "found twice" = error, else the hit
     iterGraphsOrdered        (merklize.go:820)   collects the names, then SORTS them
   In the model the map is an association list in arbitrary order; the three
   places are assert_consistency, scan_all and graph_names.  Result proved here
   for ALL datasets with pairwise different graph names (a Go map has no
   duplicate keys):

     a permutation of the graph list leaves entries_from_rdf literally unchanged
     (same entries in the same order, same error tag, same Panic/Diverge), except
     that when the dataset is INCONSISTENT (assertDatasetConsistency fails) the
     error is still an error but WHICH inconsistency is reported may differ.

   Both caveats are shown to be necessary by concrete witnesses at the end
   (graph_order_tag_refuted, graph_order_needs_nodup). *)
From Coq Require Import ZArith List String Ascii Bool Arith Lia Permutation.
From GSP Require Import Base.Prelude Value.Time Value.Model RDF.Model RDF.OrdSort.
Import ListNotations.
Open Scope string_scope.
Open Scope list_scope.

(* ================================================================== *)
(* 1. ds.Graphs[name]                                                   *)
(* ================================================================== *)
Lemma lookup_graph_in : forall ds g q, lookup_graph ds g = Some q -> In (g, q) ds.
Proof.
  induction ds as [|(n, qsl) t IH]; simpl; intros g q H; [discriminate|].
  destruct (String.eqb n g) eqn:E.
  - apply String.eqb_eq in E. subst. inversion H. now left.
  - right. now apply IH.
Qed.

Lemma in_lookup_graph : forall ds g q,
  NoDup (map fst ds) -> In (g, q) ds -> lookup_graph ds g = Some q.
Proof.
  induction ds as [|(n, qsl) t IH]; simpl; intros g q Hnd Hin; [contradiction|].
  inversion Hnd as [|x xs Hnotin Hnd']; subst.
  destruct Hin as [Heq|Hin].
  - inversion Heq; subst. now rewrite String.eqb_refl.
  - destruct (String.eqb n g) eqn:E.
    + apply String.eqb_eq in E. subst. exfalso. apply Hnotin.
      change g with (fst (g, q)). now apply in_map.
    + now apply IH.
Qed.

Lemma lookup_graph_perm : forall ds ds',
  NoDup (map fst ds) -> Permutation ds ds' ->
  forall g, lookup_graph ds g = lookup_graph ds' g.
Proof.
  intros ds ds' Hnd HP g.
  assert (Hnd' : NoDup (map fst ds')).
  { eapply Permutation_NoDup; [apply Permutation_map; exact HP|exact Hnd]. }
  destruct (lookup_graph ds g) as [q|] eqn:E1.
  - symmetry. apply in_lookup_graph; [assumption|].
    apply (Permutation_in _ HP). now apply lookup_graph_in.
  - destruct (lookup_graph ds' g) as [q'|] eqn:E2; [|reflexivity].
    apply lookup_graph_in in E2. apply (Permutation_in _ (Permutation_sym HP)) in E2.
    apply (in_lookup_graph _ _ _ Hnd) in E2. congruence.
Qed.

(* ================================================================== *)
(* 2. the parent scan = "absorb the list of hits"                       *)
(* ================================================================== *)
(* positions of graph g (from i0) whose object is `key`, the asking quad excluded *)
Fixpoint hits (g : string) (qsl : list quad) (i0 : nat) (key : ref) (skip : didx) : list didx :=
  match qsl with
  | [] => []
  | q :: t =>
    if didx_eqb skip (g, i0) then hits g t (S i0) key skip else
    match get_ref (qo q) with
    | Some r => if ref_eqb r key then (g, i0) :: hits g t (S i0) key skip
                else hits g t (S i0) key skip
    | None => hits g t (S i0) key skip
    end
  end.

(* found / result / errMultipleParentsFound of the Go loops *)
Fixpoint absorb (acc : found) (l : list didx) : res found :=
  match l with
  | [] => Ok acc
  | h :: t => match acc with
              | FOne _ => Err "multiple-parents"
              | FNone => absorb (FOne h) t
              end
  end.

Lemma scan_hits : forall qsl g i0 key skip acc,
  scan g qsl i0 key skip acc = absorb acc (hits g qsl i0 key skip).
Proof.
  induction qsl as [|q t IH]; intros g i0 key skip acc; simpl; [reflexivity|].
  destruct (didx_eqb skip (g, i0)); [apply IH|].
  destruct (get_ref (qo q)) as [r|]; [|apply IH].
  destruct (ref_eqb r key); [|apply IH].
  simpl. destruct acc; [apply IH|reflexivity].
Qed.

Definition all_hits (gs : dataset) (key : ref) (skip : didx) : list didx :=
  flat_map (fun gq => hits (fst gq) (snd gq) 0 key skip) gs.

Lemma absorb_app : forall l1 l2 acc,
  absorb acc (l1 ++ l2) = (f <- absorb acc l1 ;; absorb f l2).
Proof.
  induction l1 as [|h t IH]; intros l2 acc; simpl; [reflexivity|].
  destruct acc; [apply IH|reflexivity].
Qed.

Lemma scan_all_hits : forall gs key skip acc,
  scan_all gs key skip acc = absorb acc (all_hits gs key skip).
Proof.
  induction gs as [|(g, qsl) t IH]; intros key skip acc; simpl; [reflexivity|].
  rewrite absorb_app, scan_hits.
  destruct (absorb acc (hits g qsl 0 key skip)) as [f| | |]; simpl; auto.
Qed.

Lemma absorb_FOne : forall p l,
  absorb (FOne p) l = match l with [] => Ok (FOne p) | _ => Err "multiple-parents" end.
Proof. intros p [|h t]; reflexivity. Qed.

(* the result of a search is a function of the SET of referrers: none / the one / error *)
Lemma absorb_FNone : forall l,
  absorb FNone l = match l with
                   | [] => Ok FNone
                   | [h] => Ok (FOne h)
                   | _ => Err "multiple-parents"
                   end.
Proof. intros [|h [|h2 t]]; reflexivity. Qed.

Lemma absorb_perm : forall l l' acc, Permutation l l' -> absorb acc l = absorb acc l'.
Proof.
  intros l l' acc HP.
  assert (Hlen := Permutation_length HP).
  destruct l as [|h [|h2 t]].
  - apply Permutation_nil in HP. now subst.
  - apply Permutation_length_1_inv in HP. now subst.
  - destruct l' as [|a [|b t']]; simpl in Hlen; try discriminate.
    destruct acc; reflexivity.
Qed.

Lemma scan_all_perm : forall gs gs' key skip acc,
  Permutation gs gs' -> scan_all gs key skip acc = scan_all gs' key skip acc.
Proof.
  intros gs gs' key skip acc HP. rewrite !scan_all_hits.
  apply absorb_perm. unfold all_hits. now apply Permutation_flat_map.
Qed.

(* ================================================================== *)
(* 3. everything after the consistency check sees the dataset only      *)
(*    through four observations                                         *)
(* ================================================================== *)
Record ds_equiv (ds ds' : dataset) : Prop := {
  eq_lookup : forall g, lookup_graph ds g = lookup_graph ds' g;
  eq_scan   : forall key skip acc, scan_all ds key skip acc = scan_all ds' key skip acc;
  eq_names  : graph_names ds = graph_names ds';
  eq_total  : total_quads ds = total_quads ds'
}.

Lemma fold_left_ext {A B} (f g : A -> B -> A) : (forall a b, f a b = g a b) ->
  forall l a, fold_left f l a = fold_left g l a.
Proof.
  intros H. induction l as [|b l IH]; intros a; simpl; [reflexivity|].
  now rewrite H, IH.
Qed.

Lemma total_quads_perm : forall ds ds', Permutation ds ds' -> total_quads ds = total_quads ds'.
Proof.
  unfold total_quads.
  induction 1 as [|x l l' HP IH|x y l|l1 l2 l3 HP1 IH1 HP2 IH2]; simpl; lia.
Qed.

Theorem perm_ds_equiv : forall ds ds',
  NoDup (map fst ds) -> Permutation ds ds' -> ds_equiv ds ds'.
Proof.
  intros ds ds' Hnd HP. constructor.
  - now apply lookup_graph_perm.
  - intros. now apply scan_all_perm.
  - unfold graph_names. apply sort_strings_perm. now apply Permutation_map.
  - now apply total_quads_perm.
Qed.

Section Equiv.
Variables ds ds' : dataset.
Hypothesis EQ : ds_equiv ds ds'.

Lemma find_parent_inside_graph_equiv : forall me q,
  find_parent_inside_graph ds me q = find_parent_inside_graph ds' me q.
Proof.
  intros me q. unfold find_parent_inside_graph.
  destruct (graph_name q) as [g| | |]; cbn [bind]; auto.
  now rewrite (eq_lookup _ _ EQ).
Qed.

Lemma find_graph_parent_equiv : forall me q,
  find_graph_parent ds me q = find_graph_parent ds' me q.
Proof.
  intros me q. unfold find_graph_parent.
  destruct (qg q) as [gn|]; [|reflexivity].
  destruct (get_ref gn) as [[s|s]|]; try reflexivity.
  apply (eq_scan _ _ EQ).
Qed.

Lemma find_parent_equiv : forall me q, find_parent ds me q = find_parent ds' me q.
Proof.
  intros me q. unfold find_parent. rewrite find_parent_inside_graph_equiv.
  destruct (find_parent_inside_graph ds' me q) as [[|p]| | |]; cbn [bind]; auto.
  apply find_graph_parent_equiv.
Qed.

Lemma get_quad_equiv : forall i, get_quad ds i = get_quad ds' i.
Proof. intros i. unfold get_quad. now rewrite (eq_lookup _ _ EQ). Qed.

Lemma step_rel_equiv : forall g acc iq, step_rel ds g acc iq = step_rel ds' g acc iq.
Proof.
  intros g acc (i, q). unfold step_rel.
  destruct acc as [r| | |]; cbn [bind]; auto.
  rewrite find_parent_equiv.
  destruct (find_parent ds' (g, i) q) as [[|p]| | |]; cbn [bind]; auto.
  now rewrite get_quad_equiv.
Qed.

Lemma new_relationship_equiv : new_relationship ds = new_relationship ds'.
Proof.
  unfold new_relationship. rewrite (eq_names _ _ EQ).
  apply fold_left_ext. intros acc g. rewrite (eq_lookup _ _ EQ).
  destruct (lookup_graph ds' g) as [qsl|]; [|reflexivity].
  apply fold_left_ext. intros a b. apply step_rel_equiv.
Qed.

Lemma walk_equiv : forall fuel r visited cur k,
  walk fuel r ds visited cur k = walk fuel r ds' visited cur k.
Proof.
  induction fuel as [|f IH]; intros r visited cur k; simpl; [reflexivity|].
  destruct (assoc didx_eqb cur (parents r)) as [p|]; [|reflexivity].
  destruct (mem_didx p visited); [reflexivity|].
  rewrite (get_quad_equiv p).
  destruct (get_quad ds' p) as [pq| | |]; cbn [bind]; auto.
  destruct (mk_qkey pq) as [pk| | |]; cbn [bind]; auto.
  destruct (assoc qkey_eqb pk (children r)) as [cm|]; [|reflexivity].
  rewrite (get_quad_equiv cur).
  destruct (get_quad ds' cur) as [cq| | |]; cbn [bind]; auto.
  destruct (get_ref (qs cq)) as [cref|]; [|reflexivity].
  destruct (assoc ref_eqb cref cm) as [ci|]; [|reflexivity].
  destruct (pred_iri pq) as [pp| | |]; cbn [bind]; auto.
Qed.

Lemma rel_path_equiv : forall r i idx, rel_path r ds i idx = rel_path r ds' i idx.
Proof.
  intros r i idx. unfold rel_path. rewrite get_quad_equiv.
  destruct (get_quad ds' i) as [q| | |]; cbn [bind]; [|reflexivity|reflexivity|reflexivity].
  destruct (pred_iri q) as [p| | |]; cbn [bind]; [|reflexivity|reflexivity|reflexivity].
  rewrite (eq_total _ _ EQ), walk_equiv. reflexivity.
Qed.

Lemma graph_entries_equiv : forall F prime r g counts l seen out,
  graph_entries F prime r ds g counts l seen out =
  graph_entries F prime r ds' g counts l seen out.
Proof.
  intros F prime r g counts.
  induction l as [|(i, q) t IH]; intros seen out; simpl; [reflexivity|].
  destruct (mk_qkey q) as [k| | |]; cbn [bind]; auto.
  destruct (qo q) as [v|b|v dt].
  - destruct (assoc qkey_eqb k counts) as [[|c']|]; auto.
    destruct c' as [|c'']; rewrite rel_path_equiv;
      match goal with |- context [rel_path r ds' ?a ?b] =>
        destruct (rel_path r ds' a b) as [p| | |]; cbn [bind]; auto end.
  - destruct (assoc qkey_eqb k (children r)); auto.
  - destruct (convert F dt v prime) as [x| | |]; cbn [bind]; auto.
    destruct (assoc qkey_eqb k counts) as [[|c']|]; auto.
    destruct c' as [|c'']; rewrite rel_path_equiv;
      match goal with |- context [rel_path r ds' ?a ?b] =>
        destruct (rel_path r ds' a b) as [p| | |]; cbn [bind]; auto end.
Qed.

(* EntriesFromRDFWithHasher after its first statement *)
Definition entries_after_check (F : floats) (prime : Z) (d : dataset) : res (list entry) :=
  match lookup_graph d default_graph with
  | None => Err "no-default-graph"
  | Some _ =>
    r <- new_relationship d ;;
    fold_left (fun acc g =>
        out <- acc ;;
        match lookup_graph d g with
        | Some qsl =>
          counts <- count_entries qsl [] ;;
          graph_entries F prime r d g counts (index_from 0 qsl) [] out
        | None => Ok out
        end)
      (graph_names d) (Ok [])
  end.

Lemma entries_after_check_equiv : forall F prime,
  entries_after_check F prime ds = entries_after_check F prime ds'.
Proof.
  intros F prime. unfold entries_after_check.
  rewrite (eq_lookup _ _ EQ).
  destruct (lookup_graph ds' default_graph) as [q0|]; [|reflexivity].
  rewrite new_relationship_equiv.
  destruct (new_relationship ds') as [r| | |]; cbn [bind]; auto.
  rewrite (eq_names _ _ EQ).
  apply fold_left_ext. intros acc g.
  destruct acc as [out| | |]; cbn [bind]; auto.
  rewrite (eq_lookup _ _ EQ).
  destruct (lookup_graph ds' g) as [qsl|]; [|reflexivity].
  destruct (count_entries qsl []) as [counts| | |]; cbn [bind]; auto.
  apply graph_entries_equiv.
Qed.
End Equiv.

Lemma entries_from_rdf_unfold : forall F prime d,
  entries_from_rdf F prime d = (_ <- assert_consistency d ;; entries_after_check F prime d).
Proof. reflexivity. Qed.

(* ================================================================== *)
(* 4. assertDatasetConsistency: a conjunction over the graphs           *)
(* ================================================================== *)
Lemma quad_consistent_cases : forall g q,
  quad_consistent g q = Ok tt \/ exists t, quad_consistent g q = Err t.
Proof.
  intros g q. unfold quad_consistent.
  destruct (String.eqb g ""); [right; eauto|].
  destruct (qg q) as [gn|].
  - destruct (String.eqb g default_graph); [right; eauto|].
    destruct gn as [s|a|v dt]; try (right; eauto; fail).
    destruct (String.eqb a g); [|right; eauto].
    destruct (qp q); eauto.
  - destruct (negb (String.eqb g default_graph)); [right; eauto|].
    destruct (qp q); eauto.
Qed.

Lemma quads_consistent_cases : forall g l,
  quads_consistent g l = Ok tt \/ exists t, quads_consistent g l = Err t.
Proof.
  induction l as [|q l IH]; simpl; [now left|].
  destruct (quad_consistent_cases g q) as [H|(t & H)]; rewrite H; simpl; eauto.
Qed.

Definition graph_consistent (gq : string * list quad) : Prop :=
  quads_consistent (fst gq) (snd gq) = Ok tt.

Lemma assert_consistency_cases : forall ds,
  (assert_consistency ds = Ok tt /\ Forall graph_consistent ds) \/
  ((exists t, assert_consistency ds = Err t) /\ ~ Forall graph_consistent ds).
Proof.
  induction ds as [|(g, l) ds IH]; simpl.
  - left. split; [reflexivity|constructor].
  - destruct (quads_consistent_cases g l) as [H|(t & H)]; rewrite H; simpl.
    + destruct IH as [(A & B)|(A & B)].
      * left. split; [assumption|]. constructor; assumption.
      * right. split; [assumption|]. intros HF. inversion HF; subst. contradiction.
    + right. split; [eauto|]. intros HF. inversion HF as [|x xs Hx Hxs]; subst.
      unfold graph_consistent in Hx. simpl in Hx. congruence.
Qed.

Lemma assert_consistency_perm : forall ds ds', Permutation ds ds' ->
  (assert_consistency ds = Ok tt /\ assert_consistency ds' = Ok tt) \/
  (exists t t', assert_consistency ds = Err t /\ assert_consistency ds' = Err t').
Proof.
  intros ds ds' HP.
  destruct (assert_consistency_cases ds) as [(A & B)|((t & A) & B)];
  destruct (assert_consistency_cases ds') as [(A' & B')|((t' & A') & B')].
  - now left.
  - exfalso. apply B'. eapply Permutation_Forall; eassumption.
  - exfalso. apply B. eapply Permutation_Forall; [apply Permutation_sym|]; eassumption.
  - right. eauto.
Qed.

(* ================================================================== *)
(* 5. the theorem                                                       *)
(* ================================================================== *)
(* precise form: literally the same outcome, or both runs stop in
   assertDatasetConsistency (with possibly different messages) *)
Theorem graph_order_precise : forall F prime gs gs',
  NoDup (map fst gs) -> Permutation gs gs' ->
  entries_from_rdf F prime gs = entries_from_rdf F prime gs' \/
  (exists t t', assert_consistency gs = Err t /\ assert_consistency gs' = Err t' /\
                entries_from_rdf F prime gs = Err t /\ entries_from_rdf F prime gs' = Err t').
Proof.
  intros F prime gs gs' Hnd HP.
  rewrite !entries_from_rdf_unfold.
  destruct (assert_consistency_perm _ _ HP) as [(A & A')|(t & t' & A & A')]; rewrite A, A'; simpl.
  - left. apply entries_after_check_equiv. now apply perm_ds_equiv.
  - right. exists t, t'. auto.
Qed.

(* the form of the property text: equal on success, both fail otherwise; a Panic or a
   Diverge (neither is reachable, see C12) would be reproduced identically too *)
Theorem graph_order : forall F prime gs gs',
  NoDup (map fst gs) -> Permutation gs gs' ->
  match entries_from_rdf F prime gs with
  | Ok es => entries_from_rdf F prime gs' = Ok es
  | Err _ => exists t', entries_from_rdf F prime gs' = Err t'
  | Panic w => entries_from_rdf F prime gs' = Panic w
  | Diverge => entries_from_rdf F prime gs' = Diverge
  end.
Proof.
  intros F prime gs gs' Hnd HP.
  destruct (graph_order_precise F prime gs gs' Hnd HP) as [H|(t & t' & _ & _ & H & H')].
  - rewrite <- H. destruct (entries_from_rdf F prime gs); eauto.
  - rewrite H. eauto.
Qed.

(* consistent datasets (everything json-gold emits): no caveat at all *)
Corollary graph_order_consistent : forall F prime gs gs',
  NoDup (map fst gs) -> Permutation gs gs' -> assert_consistency gs = Ok tt ->
  entries_from_rdf F prime gs = entries_from_rdf F prime gs'.
Proof.
  intros F prime gs gs' Hnd HP Hc.
  destruct (graph_order_precise F prime gs gs' Hnd HP) as [H|(t & t' & A & _)]; [assumption|congruence].
Qed.

(* ================================================================== *)
(* 6. non-vacuity and necessity of the two caveats                      *)
(* ================================================================== *)
Definition no_floats : floats :=
  {| f_parse := fun _ => None; f_canon := fun _ => None; f_of_int := fun _ => None |}.

Definition q_lit (s p v : string) (g : option node) : quad :=
  {| qs := NIri s; qp := NIri p; qo := NLit v xsd_string; qg := g |}.
Definition q_ref (s p : string) (o : node) (g : option node) : quad :=
  {| qs := NIri s; qp := NIri p; qo := o; qg := g |}.

(* a document with two named graphs (the shape of Appendix A): both children hang
   under the same key, so their indices 0/1 are decided by the ORDER OF THE GRAPH NAMES *)
Definition ex_ds : dataset :=
  [ ("_:g2", [ q_lit "urn:c2" "urn:q" "two" (Some (NBlank "_:g2")) ]);
    (default_graph, [ q_ref "urn:a" "urn:p" (NBlank "_:g1") None;
                      q_ref "urn:a" "urn:p" (NBlank "_:g2") None ]);
    ("_:g1", [ q_lit "urn:c1" "urn:q" "one" (Some (NBlank "_:g1")) ]) ].

Example ex_ds_entries :
  entries_from_rdf no_floats 97 ex_ds =
  Ok [ {| e_key := [PStr "urn:p"; PInt 0; PStr "urn:q"]; e_val := XStr "one"; e_dt := xsd_string |};
       {| e_key := [PStr "urn:p"; PInt 1; PStr "urn:q"]; e_val := XStr "two"; e_dt := xsd_string |} ].
Proof. vm_compute. reflexivity. Qed.

Example ex_ds_nodup : NoDup (map fst ex_ds).
Proof.
  simpl. repeat constructor; simpl; intros H;
    repeat (destruct H as [H|H]; [discriminate|]); exact H.
Qed.

Example ex_ds_reversed : entries_from_rdf no_floats 97 (rev ex_ds) = entries_from_rdf no_floats 97 ex_ds.
Proof. vm_compute. reflexivity. Qed.

(* caveat 1: WHICH inconsistency is reported depends on the iteration order.  (Go: the
   message of the error returned by assertDatasetConsistency varies from run to run on
   such a dataset; the error class does not.) *)
Definition bad_ds : dataset :=
  [ ("", [ q_lit "urn:a" "urn:p" "x" None ]);
    (default_graph, [ {| qs := NIri "urn:a"; qp := NBlank "_:p"; qo := NLit "x" xsd_string; qg := None |} ]) ].

Theorem graph_order_tag_refuted :
  exists F prime gs gs', NoDup (map fst gs) /\ Permutation gs gs' /\
    entries_from_rdf F prime gs <> entries_from_rdf F prime gs'.
Proof.
  exists no_floats, 97%Z, bad_ds, (rev bad_ds). split; [|split].
  - simpl. repeat constructor; simpl; intros H;
      repeat (destruct H as [H|H]; [discriminate|]); exact H.
  - apply Permutation_rev.
  - vm_compute. discriminate.
Qed.

(* caveat 2: with a duplicated graph name (impossible for a Go map) the first one wins *)
Definition dup_ds : dataset :=
  [ (default_graph, [ q_lit "urn:a" "urn:p" "x" None ]);
    (default_graph, [ q_lit "urn:a" "urn:p" "y" None ]) ].

Theorem graph_order_needs_nodup :
  exists F prime gs gs' es es', Permutation gs gs' /\
    entries_from_rdf F prime gs = Ok es /\ entries_from_rdf F prime gs' = Ok es' /\ es <> es'.
Proof.
  exists no_floats, 97%Z, dup_ds, (rev dup_ds). do 2 eexists. split; [apply Permutation_rev|].
  split; [vm_compute; reflexivity|]. split; [vm_compute; reflexivity|]. discriminate.
Qed.

(* what the sort buys: WITHOUT sort.Strings (graphs visited in map order) the numbering of
   the two children of ex_ds would follow the map order.  `unsorted` is entries_from_rdf with
   graph_names replaced by the raw key list; it is not invariant. *)
Definition new_relationship_unsorted (ds : dataset) : res rel :=
  fold_left (fun acc g =>
      match lookup_graph ds g with
      | Some qsl => fold_left (step_rel ds g) (index_from 0 qsl) acc
      | None => acc
      end)
    (map fst ds) (Ok empty_rel).

Definition child_indices (r : res rel) : list (list (ref * nat)) :=
  match r with Ok x => map snd (children x) | _ => [] end.

Example sort_is_needed :
  child_indices (new_relationship_unsorted ex_ds) <> child_indices (new_relationship_unsorted (rev ex_ds)) /\
  child_indices (new_relationship ex_ds) = child_indices (new_relationship (rev ex_ds)).
Proof. split; [vm_compute; discriminate|vm_compute; reflexivity]. Qed.
