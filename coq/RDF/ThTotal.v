(* RDF/ThTotal.v — termination and totality of the model of EntriesFromRDF:
   the parent walk never exhausts its fuel (pigeonhole: the visited positions
   are pairwise distinct valid positions, and there are only `total_quads` of
   them), and the only possible Panic is a miss of the recorded float oracle
   inside `convert`. *)
From Coq Require Import ZArith List String Ascii Bool Arith Lia Permutation.
From GSP Require Import Base.Prelude Value.Time Value.Model RDF.Model RDF.Spec RDF.ThBase.
Import ListNotations.
Open Scope string_scope.
Open Scope list_scope.

Definition all_positions (ds : dataset) : list didx :=
  flat_map (fun gl => map (fun i => (fst gl, i)) (seq 0 (List.length (snd gl)))) ds.

Lemma all_positions_length : forall ds, List.length (all_positions ds) = total_quads ds.
Proof.
  induction ds as [|(g, l) t IH]; simpl; [reflexivity|].
  unfold all_positions. simpl. rewrite app_length, map_length, seq_length. f_equal. exact IH.
Qed.

Lemma valid_in_all_positions : forall ds i q, quad_at ds i = Some q -> In i (all_positions ds).
Proof.
  intros ds [g i] q H. unfold quad_at in H. simpl in H.
  destruct (lookup_graph ds g) as [l|] eqn:El; [|discriminate].
  apply lookup_graph_in in El. unfold all_positions. apply in_flat_map.
  exists (g, l). split; [assumption|]. simpl. apply in_map. apply in_seq.
  assert (i < List.length l)%nat by (apply nth_error_Some; congruence). lia.
Qed.

Lemma mem_didx_in : forall i l, mem_didx i l = true <-> In i l.
Proof.
  intros i l. induction l as [|h t IH]; simpl; [split; [discriminate|contradiction]|].
  rewrite orb_true_iff, IH, didx_eqb_spec. tauto.
Qed.

Definition total {A} (r : res A) : Prop := r <> Diverge /\ forall w, r <> Panic w.

Ltac dres :=
  repeat match goal with
  | |- context [bind ?r _] => destruct r eqn:?; simpl; try discriminate
  | |- context [match ?x with _ => _ end] => destruct x eqn:?; simpl; try discriminate
  end.

Lemma mk_qkey_total : forall q, total (mk_qkey q).
Proof.
  intros q. unfold mk_qkey, graph_name.
  destruct (qg q) as [[s|a|v d]|]; simpl; try (split; discriminate);
    destruct (get_ref (qs q)); try (split; discriminate);
    destruct (qp q); split; discriminate.
Qed.

Lemma pred_iri_total : forall q, total (pred_iri q).
Proof. intros q. unfold pred_iri. destruct (qp q); split; discriminate. Qed.

(* the walk: fuel is never exhausted as long as fuel + |visited| > total *)
Lemma walk_not_diverge : forall fuel r ds visited cur k,
  NoDup visited -> (forall v, In v visited -> exists q, quad_at ds v = Some q) ->
  (total_quads ds < fuel + List.length visited)%nat ->
  total (walk fuel r ds visited cur k).
Proof.
  induction fuel as [|f IH]; intros r ds visited cur k Hnd Hval Hlen.
  - exfalso. simpl in Hlen.
    assert (List.length visited <= List.length (all_positions ds))%nat.
    { apply NoDup_incl_length; [assumption|]. intros v Hv. destruct (Hval v Hv) as (q & Hq).
      eapply valid_in_all_positions; eauto. }
    rewrite all_positions_length in H. lia.
  - simpl.
    destruct (assoc didx_eqb cur (parents r)) as [p|]; [|split; discriminate].
    destruct (mem_didx p visited) eqn:Hmem; [split; discriminate|].
    destruct (get_quad ds p) as [pq| | |] eqn:Hpq; simpl; try (split; discriminate).
    2,3: unfold get_quad in Hpq; destruct (lookup_graph ds (fst p)); [destruct (nth_error l (snd p))|]; discriminate.
    assert (Hmk : total (mk_qkey pq) /\ total (pred_iri pq)).
    { split; [apply mk_qkey_total|apply pred_iri_total]. }
    destruct (mk_qkey pq) as [pk| | |] eqn:Hpk; simpl; try (split; discriminate);
      try (destruct Hmk as ((H1 & H2) & _); congruence).
    destruct (assoc qkey_eqb pk (children r)) as [cm|]; [|split; discriminate].
    destruct (get_quad ds cur) as [cq| | |] eqn:Hcq; simpl; try (split; discriminate).
    2,3: unfold get_quad in Hcq; destruct (lookup_graph ds (fst cur)); [destruct (nth_error l (snd cur))|]; discriminate.
    destruct (get_ref (qs cq)) as [cref|]; [|split; discriminate].
    destruct (assoc ref_eqb cref cm) as [ci|]; [|split; discriminate].
    destruct (pred_iri pq) as [pp| | |] eqn:Hpp; simpl; try (split; discriminate);
      try (destruct Hmk as (_ & (H1 & H2)); congruence).
    apply IH.
    + constructor; [|assumption]. intros Hin. apply mem_didx_in in Hin. congruence.
    + intros v [<-|Hv]; [|auto]. exists pq. now apply get_quad_quad_at.
    + simpl. lia.
Qed.

Lemma rel_path_total : forall r ds i idx, total (rel_path r ds i idx).
Proof.
  intros r ds i idx. unfold rel_path.
  destruct (get_quad ds i) as [q| | |] eqn:Hq; cbn [bind]; try (split; discriminate).
  2,3: unfold get_quad in Hq; destruct (lookup_graph ds (fst i)); [destruct (nth_error l (snd i))|]; discriminate.
  destruct (pred_iri q) as [p| | |] eqn:Hp; cbn [bind]; try (split; discriminate).
  2,3: unfold pred_iri in Hp; destruct (qp q); discriminate.
  match goal with |- context [walk ?f ?r ?ds ?v ?c ?k] =>
    assert (Hw : total (walk f r ds v c k)) end.
  { apply walk_not_diverge.
    - constructor; [intros []|constructor].
    - intros v [<-|[]]. exists q. now apply get_quad_quad_at.
    - cbn [List.length]. lia. }
  destruct Hw as (H1 & H2).
  match goal with |- context [walk ?f ?r ?ds ?v ?c ?k] => destruct (walk f r ds v c k) eqn:Hw end;
    cbn [bind]; try (split; discriminate); first [congruence | exfalso; eapply H2; eauto].
Qed.

(* fuel > number of quads suffices, for any relationship whatsoever *)
Lemma walk_fuel_suffices : forall fuel r ds i q k,
  quad_at ds i = Some q -> (total_quads ds < fuel)%nat ->
  walk fuel r ds [i] i k <> Diverge.
Proof.
  intros fuel r ds i q k Hq Hf. apply walk_not_diverge.
  - constructor; [intros []|constructor].
  - intros v [<-|[]]. eauto.
  - simpl. lia.
Qed.

Lemma scan_total : forall l g i0 key skip acc, total (scan g l i0 key skip acc).
Proof.
  induction l as [|q t IH]; intros g i0 key skip acc; simpl; [split; discriminate|].
  destruct (didx_eqb skip (g, i0)); [apply IH|].
  destruct (get_ref (qo q)); [|apply IH].
  destruct (ref_eqb r key); [|apply IH].
  destruct acc; [apply IH|split; discriminate].
Qed.

Lemma scan_in_total : forall l g i0 key acc, total (scan_in g l i0 key acc).
Proof.
  induction l as [|q t IH]; intros g i0 key acc; simpl; [split; discriminate|].
  destruct (get_ref (qo q)); [|apply IH].
  destruct (ref_eqb r key); [|apply IH].
  destruct acc; [apply IH|split; discriminate].
Qed.

Lemma scan_all_total : forall gs key skip acc, total (scan_all gs key skip acc).
Proof.
  induction gs as [|(g, l) t IH]; intros key skip acc; simpl; [split; discriminate|].
  destruct (scan_total l g 0%nat key skip acc) as (H1 & H2).
  destruct (scan g l 0 key skip acc) eqn:E; simpl; try (split; discriminate);
    [apply IH|exfalso; eapply H2; eauto|congruence].
Qed.

Lemma find_parent_total : forall ds me q, total (find_parent ds me q).
Proof.
  intros ds me q. unfold find_parent, find_parent_inside_graph, find_graph_parent, graph_name.
  destruct (qg q) as [[s|a|v d]|]; simpl; try (split; discriminate).
  - destruct (lookup_graph ds a); [|split; discriminate].
    destruct (get_ref (qs q)); [|split; discriminate].
    destruct (scan_in_total l a 0%nat r FNone) as (H1 & H2).
    destruct (scan_in a l 0 r FNone) as [[|p]| | |] eqn:E; simpl; try (split; discriminate);
      [apply scan_all_total|exfalso; eapply H2; eauto|congruence].
  - destruct (lookup_graph ds default_graph); [|split; discriminate].
    destruct (get_ref (qs q)); [|split; discriminate].
    destruct (scan_in_total l default_graph 0%nat r FNone) as (H1 & H2).
    destruct (scan_in default_graph l 0 r FNone) as [[|p]| | |] eqn:E; simpl; try (split; discriminate);
      [exfalso; eapply H2; eauto|congruence].
Qed.

Lemma get_quad_total : forall ds i, total (get_quad ds i).
Proof.
  intros ds i. unfold get_quad. destruct (lookup_graph ds (fst i)); [|split; discriminate].
  destruct (nth_error l (snd i)); split; discriminate.
Qed.

Lemma step_rel_total : forall ds g acc iq, total acc -> total (step_rel ds g acc iq).
Proof.
  intros ds g acc (i, q) (Ha1 & Ha2). unfold step_rel.
  destruct acc as [r| |w|]; simpl; try (split; discriminate); [|exfalso; eapply Ha2; eauto|congruence].
  destruct (find_parent_total ds (g, i) q) as (H1 & H2).
  destruct (find_parent ds (g, i) q) as [[|p]| | |] eqn:E; simpl; try (split; discriminate);
    [|exfalso; eapply H2; eauto|congruence].
  destruct (get_quad_total ds p) as (H3 & H4).
  destruct (get_quad ds p) as [pq| | |] eqn:E2; simpl; try (split; discriminate);
    [|exfalso; eapply H4; eauto|congruence].
  destruct (mk_qkey_total pq) as (H5 & H6).
  destruct (mk_qkey pq) as [k| | |] eqn:E3; simpl; try (split; discriminate);
    [|exfalso; eapply H6; eauto|congruence].
  destruct (get_ref (qs q)); split; discriminate.
Qed.

Lemma fold_total : forall {A B} (f : res A -> B -> res A) l acc,
  (forall a x, total a -> total (f a x)) -> total acc -> total (fold_left f l acc).
Proof.
  intros A B f l. induction l as [|x l IH]; intros acc Hf Ha; simpl; [assumption|].
  apply IH; auto.
Qed.

Lemma new_relationship_total : forall ds, total (new_relationship ds).
Proof.
  intros ds. unfold new_relationship. apply fold_total; [|split; discriminate].
  intros a g Ha. destruct (lookup_graph ds g); [|assumption].
  apply fold_total; [|assumption]. intros a' x Ha'. now apply step_rel_total.
Qed.

Lemma count_entries_total : forall l acc, total (count_entries l acc).
Proof.
  induction l as [|q t IH]; intros acc; simpl; [split; discriminate|].
  destruct (mk_qkey_total q) as (H1 & H2).
  destruct (mk_qkey q) eqn:E; simpl; try (split; discriminate);
    [apply IH|exfalso; eapply H2; eauto|congruence].
Qed.

Lemma convert_not_diverge : forall F dt v p, convert F dt v p <> Diverge.
Proof.
  intros F dt v p. unfold convert.
  destruct (classify dt); dres; discriminate.
Qed.

Lemma assert_consistency_total : forall ds, total (assert_consistency ds).
Proof.
  induction ds as [|(g, l) t IH]; simpl; [split; discriminate|].
  assert (Hq : total (quads_consistent g l)).
  { induction l as [|q l IHl]; simpl; [split; discriminate|].
    assert (Hq1 : total (quad_consistent g q)).
    { unfold quad_consistent.
      repeat first [ solve [split; discriminate]
                   | match goal with |- context [match ?x with _ => _ end] => destruct x; simpl end ]. }
    destruct Hq1 as (A1 & A2).
    destruct (quad_consistent g q) eqn:E; simpl; try (split; discriminate);
      [assumption|exfalso; eapply A2; eauto|congruence]. }
  destruct Hq as (A1 & A2).
  destruct (quads_consistent g l) eqn:E; simpl; try (split; discriminate);
    [assumption|exfalso; eapply A2; eauto|congruence].
Qed.

Section Entries.
  Variable F : floats.
  Variable prime : Z.

  (* outcome that is Ok, Err, or a Panic raised by `convert` (float oracle miss) *)
  Definition total_mod_convert {A} (r : res A) : Prop :=
    r <> Diverge /\ forall w, r = Panic w -> exists dt v, convert F dt v prime = Panic w.

  Lemma graph_entries_total : forall r ds g counts l seen out,
    total_mod_convert (graph_entries F prime r ds g counts l seen out).
  Proof.
    intros r ds g counts l. induction l as [|(i, q) t IH]; intros seen out; simpl.
    - split; [discriminate|intros w H; discriminate].
    - destruct (mk_qkey_total q) as (H1 & H2).
      destruct (mk_qkey q) as [k| | |] eqn:E; simpl;
        try (split; [discriminate|intros w' H'; discriminate]);
        [|exfalso; eapply H2; eauto|congruence].
      assert (Hemit : forall x dt,
        total_mod_convert
          match assoc qkey_eqb k counts with
          | Some (S c') =>
              let '(idx, seen') :=
                match c' with
                | 0%nat => (None, seen)
                | S _ => (Some match assoc qkey_eqb k seen with Some n => n | None => 0%nat end,
                          upsert qkey_eqb k (S match assoc qkey_eqb k seen with Some n => n | None => 0%nat end) seen)
                end in
              p <- rel_path r ds (g, i) idx;;
              graph_entries F prime r ds g counts t seen' (out ++ [{| e_key := p; e_val := x; e_dt := dt |}])
          | _ => Err "assert-count"
          end).
      { intros x dt. destruct (assoc qkey_eqb k counts) as [[|c']|];
          try (split; [discriminate|intros w' H'; discriminate]).
        destruct c' as [|c''].
        - destruct (rel_path_total r ds (g, i) None) as (H3 & H4).
          destruct (rel_path r ds (g, i) None) eqn:E2; simpl;
            try (split; [discriminate|intros w' H'; discriminate]);
            [apply IH|exfalso; eapply H4; eauto|congruence].
        - match goal with |- context [rel_path r ds (g, i) ?o] =>
            destruct (rel_path_total r ds (g, i) o) as (H3 & H4);
            destruct (rel_path r ds (g, i) o) eqn:E2 end; simpl;
            try (split; [discriminate|intros w' H'; discriminate]);
            [apply IH|exfalso; eapply H4; eauto|congruence]. }
      destruct (qo q) as [v|b|v dt].
      + apply Hemit.
      + destruct (assoc qkey_eqb k (children r)); [apply IH|split; [discriminate|intros w' H'; discriminate]].
      + destruct (convert F dt v prime) as [x| | |] eqn:Ec; simpl;
          try (split; [discriminate|intros w' H'; discriminate]).
        * apply Hemit.
        * split; [discriminate|]. intros w' H'. inversion H'; subst. eauto.
        * exfalso. eapply convert_not_diverge; eauto.
  Qed.

  Theorem entries_total : forall ds, total_mod_convert (entries_from_rdf F prime ds).
  Proof.
    intros ds. unfold entries_from_rdf.
    assert (Hc : total (assert_consistency ds)) by apply assert_consistency_total.
    destruct Hc as (C1 & C2).
    destruct (assert_consistency ds) eqn:E; simpl;
      try (split; [discriminate|intros w' H'; discriminate]);
      [|exfalso; eapply C2; eauto|congruence].
    destruct (lookup_graph ds default_graph); [|split; [discriminate|intros w' H'; discriminate]].
    destruct (new_relationship_total ds) as (N1 & N2).
    destruct (new_relationship ds) as [r| | |] eqn:En; simpl;
      try (split; [discriminate|intros w' H'; discriminate]);
      [|exfalso; eapply N2; eauto|congruence].
    generalize (graph_names ds). intros names.
    assert (Hgen : forall acc, total_mod_convert acc ->
      total_mod_convert (fold_left (fun acc g =>
        out <- acc;;
        match lookup_graph ds g with
        | Some qsl => counts <- count_entries qsl [];;
                      graph_entries F prime r ds g counts (index_from 0 qsl) [] out
        | None => Ok out
        end) names acc)).
    { induction names as [|g names IH]; intros acc Hacc; simpl; [assumption|].
      apply IH. destruct Hacc as (A1 & A2).
      destruct acc as [out| |w|]; simpl; try (split; [discriminate|intros w' H'; discriminate]);
        [|split; [discriminate|intros w' H'; apply A2; assumption]|congruence].
      destruct (lookup_graph ds g) as [qsl|]; [|split; [discriminate|intros w' H'; discriminate]].
      destruct (count_entries_total qsl []) as (B1 & B2).
      destruct (count_entries qsl []) eqn:Ec; simpl;
        try (split; [discriminate|intros w' H'; discriminate]);
        [apply graph_entries_total|exfalso; eapply B2; eauto|congruence]. }
    apply Hgen. split; [discriminate|intros w' H'; discriminate].
  Qed.

  Theorem entries_never_diverge : forall ds, entries_from_rdf F prime ds <> Diverge.
  Proof. intros ds. apply entries_total. Qed.
End Entries.
