(* RDF/ThLeaves.v — C01, tree leg: when MerklizeJSONLD (from the normalised
   dataset on: Merklizer/Model.v merklize_ds = EntriesFromRDFWithHasher, the
   entries map, AddEntriesToMerkleTree) succeeds, the tree has exactly one leaf
   per entry, the entries are exactly the value quads of the dataset, and the
   keys are pairwise distinct (two entries with the same path make the insertion
   fail: proved in SMT/Theory.v, not assumed).  Uses Merklizer/Theory.v
   (merklize_entries_spec, merklize_from_entries_wf) and SMT/Theory.v
   (add_list_ok_wf, wf_nodup_keys). *)
From Coq Require Import ZArith List String Ascii Bool Arith Lia Permutation.
From GSP Require Import Base.Prelude Value.Time Value.Model SMT.Model SMT.Theory
  RDF.Model RDF.Spec RDF.ThBase RDF.Theory Merklizer.Model Merklizer.Theory.
Import ListNotations.
Open Scope list_scope.

Theorem leaves_exact : forall T Hd F cfg ds m,
  is_map ds -> merklize_ds T Hd F cfg None ds = Ok m ->
  let h := hasher_or Hd cfg in
  exists es,
    entries_from_rdf F (h_prime h) ds = Ok es /\
    Forall2 (fact F (h_prime h) ds) es (value_quads ds) /\
    map snd (mz_entries m) = map (wrap_entry h (Some h)) es /\
    NoDup (map fst (mz_entries m)) /\
    List.length (leaves (mz_tree m)) = List.length es /\
    NoDup (keys (mz_tree m)).
Proof.
  intros T Hd F cfg ds m Hm H h. unfold merklize_ds, entries_from_rdf_h in H. simpl in H.
  apply ThBase.bind_ok in H. destruct H as (res_ & Hes & H).
  apply ThBase.bind_ok in Hes. destruct Hes as (es & Hes & Hw). inversion Hw; subst res_; clear Hw.
  fold h in Hes, H.
  exists es. split; [exact Hes|]. split; [now apply entries_exact_fact|].
  destruct (merklize_from_entries_wf T Hd h _ m (wrap_entry_uses h es) H) as (Hwf & _ & Hsnd).
  split; [exact Hsnd|]. split; [apply (wf_nodup T m Hwf)|].
  unfold merklize_from_entries in H.
  apply ThBase.bind_ok in H. destruct H as (mp & _ & H).
  apply ThBase.bind_ok in H. destruct H as (t & Hmk & H). inversion H; subst m; clear H. simpl.
  destruct (merklize_entries_spec T Hd _ _ _ Hmk) as (kvs & HF & Hadd).
  destruct (add_list_ok_wf (tp_maxlev T) _ _ _ (wf_E (tp_maxlev T)) Hadd) as (Hwt & Hperm).
  simpl in Hperm. rewrite app_nil_r in Hperm. split.
  - rewrite (Permutation_length Hperm), map_length.
    rewrite <- (Forall2_len _ _ _ HF). now rewrite map_length.
  - eapply wf_nodup_keys. exact Hwt.
Qed.
