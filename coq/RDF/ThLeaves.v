(* RDF/ThLeaves.v — C01, tree leg: when MerklizeJSONLD (from the normalised
   dataset on: Merklizer/Model.v merklize_ds = EntriesFromRDFWithHasher, the
   entries map, AddEntriesToMerkleTree) succeeds, the tree has exactly one leaf
   per entry, the entries are exactly the value quads of the dataset, and the
   keys are pairwise distinct (two entries with the same path make the insertion
   fail: proved in SMT/Theory.v, not assumed).  Uses Merklizer/Theory.v
   (merklize_entries_spec, merklize_from_entries_wf) and SMT/Theory.v
   (add_list_ok_wf, wf_nodup_keys). *)
From Coq Require Import ZArith List String Ascii Bool Arith Lia Permutation.
From GSP Require Import Base.Prelude Value.Time Value.Model SMT.Model SMT.Theory
  RDF.Model RDF.Spec RDF.ThBase RDF.Theory Merklizer.Model Merklizer.Theory.
Import ListNotations.
Open Scope list_scope.

Theorem leaves_exact : forall T Hd F cfg ds m,
  is_map ds -> merklize_ds T Hd F cfg None ds = Ok m ->
  let h := hasher_or Hd cfg in
  exists es,
    entries_from_rdf F (h_prime h) ds = Ok es /\
    Forall2 (fact F (h_prime h) ds) es (value_quads ds) /\
    map snd (mz_entries m) = map (wrap_entry h (Some h)) es /\
    NoDup (map fst (mz_entries m)) /\
    List.length (leaves (mz_tree m)) = List.length es /\
    NoDup (keys (mz_tree m)).
Proof.
  intros T Hd F cfg ds m Hm H h. unfold merklize_ds, entries_from_rdf_h in H. simpl in H.
  apply ThBase.bind_ok in H. destruct H as (res_ & Hes & H).
  apply ThBase.bind_ok in Hes. destruct Hes as (es & Hes & Hw). inversion Hw; subst res_; clear Hw.
  fold h in Hes, H.
  exists es. split; [exact Hes|]. split; [now apply entries_exact_fact|].
  destruct (merklize_from_entries_wf T Hd h _ m (wrap_entry_uses h es) H) as (Hwf & _ & Hsnd).
  split; [exact Hsnd|]. split; [apply (wf_nodup T m Hwf)|].
  unfold merklize_from_entries in H.
  apply ThBase.bind_ok in H. destruct H as (mp & _ & H).
  apply ThBase.bind_ok in H. destruct H as (t & Hmk & H). inversion H; subst m; clear H. simpl.
  destruct (merklize_entries_spec T Hd _ _ _ Hmk) as (kvs & HF & Hadd).
  destruct (add_list_ok_wf (tp_maxlev T) _ _ _ (wf_E (tp_maxlev T)) Hadd) as (Hwt & Hperm).
  simpl in Hperm. rewrite app_nil_r in Hperm. split.
  - rewrite (Permutation_length Hperm), map_length.
    rewrite <- (Forall2_len _ _ _ HF). now rewrite map_length.
  - eapply wf_nodup_keys. exact Hwt.
Qed.

(* ---- two entries never share a path in a merklized dataset ---- *)
Lemma part_eqb_spec : forall a b, part_eqb_ a b = true <-> a = b.
Proof.
  intros [x|x] [y|y]; simpl; split; intros H; try discriminate.
  - apply String.eqb_eq in H. now subst.
  - inversion H; subst. apply String.eqb_refl.
  - apply Z.eqb_eq in H. now subst.
  - inversion H; subst. apply Z.eqb_refl.
Qed.

Lemma path_eqb_spec : forall a b, path_eqb a b = true <-> a = b.
Proof.
  unfold path_eqb. induction a as [|x a IH]; intros [|y b]; simpl; split; intros H;
    try discriminate; try reflexivity.
  - apply andb_true_iff in H. destruct H as (H1 & H2).
    apply part_eqb_spec in H1. apply IH in H2. now subst.
  - inversion H; subst. apply andb_true_iff. split; [now apply part_eqb_spec|now apply IH].
Qed.

Lemma distinct_paths_nodup : forall l, distinct_paths l = true <-> NoDup l.
Proof.
  induction l as [|p t IH]; simpl; split; intros H; try reflexivity; try constructor.
  - apply andb_true_iff in H. destruct H as (H1 & _). intros Hin.
    apply negb_true_iff in H1.
    assert (existsb (path_eqb p) t = true).
    { apply existsb_exists. exists p. split; [assumption|now apply path_eqb_spec]. }
    congruence.
  - apply andb_true_iff in H. destruct H as (_ & H2). now apply IH.
  - inversion H as [|? ? Hn Hnd]; subst. apply andb_true_iff. split; [|now apply IH].
    apply negb_true_iff. destruct (existsb (path_eqb p) t) eqn:E; [|reflexivity].
    apply existsb_exists in E. destruct E as (x & Hx & He). apply path_eqb_spec in He. now subst.
Qed.

Lemma nodup_map_transfer : forall {A B C} (f : A -> B) (g : A -> C) l,
  NoDup (map f l) ->
  (forall x y, In x l -> In y l -> g x = g y -> f x = f y) ->
  NoDup (map g l).
Proof.
  intros A B C f g l. induction l as [|a l IH]; intros Hnd Hfg; simpl; [constructor|].
  inversion Hnd as [|? ? Hn Hnd']; subst. constructor.
  - intros Hin. apply in_map_iff in Hin. destruct Hin as (y & Hy & Hyl).
    apply Hn. apply in_map_iff. exists y. split; [|assumption].
    symmetry. apply Hfg; [now left|now right|now symmetry].
  - apply IH; [assumption|]. intros x y Hx Hy. apply Hfg; now right.
Qed.

Theorem leaves_distinct_paths : forall T Hd F cfg ds m,
  merklize_ds T Hd F cfg None ds = Ok m ->
  exists es,
    entries_from_rdf F (h_prime (hasher_or Hd cfg)) ds = Ok es /\
    NoDup (map e_key es) /\ distinct_paths (map e_key es) = true.
Proof.
  intros T Hd F cfg ds m H. unfold merklize_ds, entries_from_rdf_h in H. simpl in H.
  apply ThBase.bind_ok in H. destruct H as (res_ & Hes & H).
  apply ThBase.bind_ok in Hes. destruct Hes as (es & Hes & Hw). inversion Hw; subst res_; clear Hw.
  set (h := hasher_or Hd cfg) in *.
  exists es. split; [exact Hes|].
  destruct (merklize_from_entries_wf T Hd h _ m (wrap_entry_uses h es) H) as (Hwf & Hh & Hsnd).
  assert (Hnd : NoDup (map e_key es)).
  { assert (Hg : map (fun x : Z * rdf_entry => p_parts (re_key (snd x))) (mz_entries m) = map e_key es).
    { rewrite <- (map_map snd (fun e => p_parts (re_key e))), Hsnd, map_map. reflexivity. }
    rewrite <- Hg.
    apply (nodup_map_transfer fst (fun x => p_parts (re_key (snd x)))); [apply (wf_nodup T m Hwf)|].
    intros [k1 e1] [k2 e2] H1 H2 Heq. simpl in *.
    destruct (wf_member T m Hwf k1 e1 H1) as (_ & Hk1 & _).
    destruct (wf_member T m Hwf k2 e2 H2) as (_ & Hk2 & _).
    rewrite Heq in Hk1. rewrite Hk1 in Hk2. now inversion Hk2. }
  split; [exact Hnd|now apply distinct_paths_nodup].
Qed.
