(* RDF/OrdFail.v — C03: the three "converse half" facts that the Go oracles of waves 5-8
   check on the implementation, as theorems about the model for ALL inputs:

   (a) literals_convert / integer_literal_rejected / convert_int_spelling:
       a dataset is accepted only if EVERY literal converts (convertStringToXSDValue); so an
       integer-typed literal that is not an integer (fraction), or lies outside the range of
       its type under the prime, makes EntriesFromRDF fail — whatever else the dataset
       holds; two lexical forms of the same integer convert to the same value.
   (b) add_error_propagates: AddEntriesToMerkleTree into a caller's tree whose k-th Add
       fails is never Ok, for every 1 <= k <= number of entries (and is the ordinary run for
       k = 0 or k beyond the last entry); hence MerklizeJSONLD must fail (merklize_ft_fails).
   (c) add_entries_nodup / duplicate_path_rejected: a successful insertion implies pairwise
       different paths; two entries with the same path (two top-level nodes stating the same
       property) are rejected, never merklized with one of the values silently dropped. *)
From Coq Require Import ZArith List String Ascii Bool Arith Lia Permutation.
From GSP Require Import Base.Prelude Value.Time Value.Model Value.Theory
                        RDF.Model RDF.OrdSort RDF.Order RDF.OrdTree SMT.Model SMT.Theory.
Import ListNotations.
Open Scope string_scope.
Open Scope list_scope.

(* ================================================================== *)
(* (a) every literal of an accepted dataset converts                    *)
(* ================================================================== *)
Lemma graph_entries_literals F prime r ds g counts : forall l seen out es,
  graph_entries F prime r ds g counts l seen out = Ok es ->
  forall i q v dt, In (i, q) l -> qo q = NLit v dt -> exists x, convert F dt v prime = Ok x.
Proof.
  induction l as [|(i0, q0) l IH]; intros seen out es Hok i q v dt Hin Hlit; [contradiction|].
  cbn [graph_entries] in Hok.
  destruct (mk_qkey q0) as [k| | |]; cbn [bind] in Hok; try discriminate.
  destruct Hin as [Heq|Hin].
  - inversion Heq; subst i0 q0. rewrite Hlit in Hok.
    destruct (convert F dt v prime) as [x| | |]; cbn [bind] in Hok; try discriminate. eauto.
  - destruct (qo q0) as [v0|b0|v0 dt0].
    + destruct (assoc qkey_eqb k counts) as [[|c']|]; try discriminate.
      destruct c' as [|c''];
        match type of Hok with context [rel_path r ds ?a ?b] =>
          destruct (rel_path r ds a b) as [p| | |]; cbn [bind] in Hok; try discriminate end;
        eapply IH; eassumption.
    + destruct (assoc qkey_eqb k (children r)); [|discriminate]. eapply IH; eassumption.
    + destruct (convert F dt0 v0 prime) as [x| | |]; cbn [bind] in Hok; try discriminate.
      destruct (assoc qkey_eqb k counts) as [[|c']|]; try discriminate.
      destruct c' as [|c''];
        match type of Hok with context [rel_path r ds ?a ?b] =>
          destruct (rel_path r ds a b) as [p| | |]; cbn [bind] in Hok; try discriminate end;
        eapply IH; eassumption.
Qed.

Lemma in_index_from {A} (q : A) : forall l i0, In q l -> exists i, In (i, q) (index_from i0 l).
Proof.
  induction l as [|h t IH]; intros i0 Hin; [contradiction|]. simpl.
  destruct Hin as [->|Hin]; [eauto|]. destruct (IH (S i0) Hin) as (i & Hi). eauto.
Qed.

Section FoldOk.
Variables (A B : Type) (step : res A -> B -> res A).
Hypothesis step_strict : forall a b, is_ok a = false -> is_ok (step a b) = false.

Lemma fold_not_ok : forall l a, is_ok a = false -> is_ok (fold_left step l a) = false.
Proof. induction l as [|b l IH]; intros a Ha; simpl; auto. Qed.

Lemma fold_ok_acc : forall l a r, fold_left step l a = Ok r -> is_ok a = true.
Proof.
  intros l a r Hok. destruct (is_ok a) eqn:Ha; [reflexivity|].
  assert (Hf := fold_not_ok l a Ha). rewrite Hok in Hf. discriminate.
Qed.

Lemma fold_ok_steps : forall l a r, fold_left step l a = Ok r ->
  forall b, In b l -> exists a0 a1, step (Ok a0) b = Ok a1.
Proof.
  induction l as [|b0 l IH]; intros a r Hok b Hin; [contradiction|]. simpl in Hok.
  destruct Hin as [->|Hin]; [|eapply IH; eassumption].
  assert (Ha := fold_ok_acc _ _ _ Hok).
  destruct (step a b) as [a1| | |] eqn:Hs; try discriminate.
  destruct a as [a0| | |].
  - eauto.
  - assert (Hx := step_strict (Err tag) b eq_refl). rewrite Hs in Hx. discriminate.
  - assert (Hx := step_strict (Panic what) b eq_refl). rewrite Hs in Hx. discriminate.
  - assert (Hx := step_strict Diverge b eq_refl). rewrite Hs in Hx. discriminate.
Qed.
End FoldOk.

Theorem literals_convert : forall F prime ds es g qsl q v dt,
  entries_from_rdf F prime ds = Ok es ->
  lookup_graph ds g = Some qsl -> In q qsl -> qo q = NLit v dt ->
  exists x, convert F dt v prime = Ok x.
Proof.
  intros F prime ds es g qsl q v dt Hok Hlk Hq Hlit.
  unfold entries_from_rdf in Hok.
  destruct (assert_consistency ds); cbn [bind] in Hok; try discriminate.
  destruct (lookup_graph ds default_graph); [|discriminate].
  destruct (new_relationship ds) as [r| | |]; cbn [bind] in Hok; try discriminate.
  assert (Hg : In g (graph_names ds)).
  { unfold graph_names. apply (Permutation_in _ (Permutation_sym (sort_strings_is_perm _))).
    apply lookup_graph_in in Hlk. change g with (fst (g, qsl)). now apply in_map. }
  eapply fold_ok_steps in Hok; [| |exact Hg].
  - destruct Hok as (a0 & a1 & Hs). cbn [bind] in Hs. rewrite Hlk in Hs.
    destruct (count_entries qsl []) as [counts| | |]; cbn [bind] in Hs; try discriminate.
    destruct (in_index_from q qsl 0%nat Hq) as (i & Hi).
    eapply graph_entries_literals; eassumption.
  - intros acc0 b0 Hacc. destruct acc0; try discriminate; reflexivity.
Qed.

(* same integer, other spelling: same converted value (then C03_spelling_dataset applies) *)
Theorem convert_int_spelling : forall F dt k l1 l2 p,
  classify dt = DInt k -> int_from_str l1 = int_from_str l2 ->
  convert F dt l1 p = convert F dt l2 p.
Proof. intros F dt k l1 l2 p Hc He. unfold convert. now rewrite Hc, He. Qed.

(* a fraction / non-number / out-of-range integer in an integer-typed literal: rejected *)
Theorem integer_literal_rejected : forall F prime ds g qsl q v dt k,
  odd_modulus prime -> classify dt = DInt k ->
  lookup_graph ds g = Some qsl -> In q qsl -> qo q = NLit v dt ->
  (int_from_str v = None \/
   exists z, int_from_str v = Some z /\ ~ (lo k prime <= z <= hi k prime)%Z) ->
  is_ok (entries_from_rdf F prime ds) = false.
Proof.
  intros F prime ds g qsl q v dt k Hp Hc Hlk Hq Hlit Hbad.
  destruct (entries_from_rdf F prime ds) as [es| | |] eqn:Hok; try reflexivity. exfalso.
  destruct (literals_convert _ _ _ _ _ _ _ _ _ Hok Hlk Hq Hlit) as (x & Hx).
  destruct (convert_int_shape _ _ _ _ _ _ Hc Hx) as (z & ->).
  apply (convert_int_accept F dt v prime k z Hp Hc) in Hx. destruct Hx as (Hi & Hr).
  destruct Hbad as [Hn|(z' & Hz' & Hnr)]; [congruence|].
  rewrite Hi in Hz'. inversion Hz'; subst. contradiction.
Qed.

Section Fail.
Variable H : hasher.
Variable maxlev : nat.
Variable q : Z.

(* ================================================================== *)
(* (b) a caller's tree whose k-th Add fails (k = 0: never); n = calls so far *)
(* ================================================================== *)
Fixpoint add_entries_ft (k n : nat) (t : tree) (es : list entry) : res tree :=
  match es with
  | [] => Ok t
  | e :: r =>
    kv <- entry_kv H e ;;
    t' <- (if Nat.eqb (S n) k then Err "storage-failure"
           else mt_add maxlev q t (fst kv) (snd kv)) ;;
    add_entries_ft k (S n) t' r
  end.

Definition merklize_tree_ft (k : nat) (F : floats) (mt : option tree) (ds : dataset) : res tree :=
  es <- entries_from_rdf F (h_prime H) ds ;;
  _ <- map_res (fun e => path_key H (e_key e)) es ;;
  add_entries_ft k 0 (match mt with Some t => t | None => E end) es.

Lemma add_entries_ft_past : forall es k n t, (k <= n)%nat ->
  add_entries_ft k n t es = add_entries H maxlev q t es.
Proof.
  induction es as [|e es IH]; intros k n t Hk; cbn [add_entries_ft add_entries]; [reflexivity|].
  destruct (entry_kv H e) as [kv| | |]; cbn [bind]; auto.
  assert (Hne : Nat.eqb (S n) k = false) by (apply Nat.eqb_neq; lia). rewrite Hne.
  destruct (mt_add maxlev q t (fst kv) (snd kv)); cbn [bind]; auto; try (apply IH; lia).
Qed.

Theorem add_error_propagates : forall es k n t,
  (n < k <= n + List.length es)%nat -> is_ok (add_entries_ft k n t es) = false.
Proof.
  induction es as [|e es IH]; intros k n t Hk; cbn [add_entries_ft]; [simpl in Hk; lia|].
  destruct (entry_kv H e) as [kv| | |]; cbn [bind]; auto.
  destruct (Nat.eqb (S n) k) eqn:Hek; cbn [bind]; [reflexivity|].
  apply Nat.eqb_neq in Hek.
  destruct (mt_add maxlev q t (fst kv) (snd kv)); cbn [bind]; auto;
    try (apply IH; simpl in Hk; lia).
Qed.

Theorem merklize_ft_fails : forall F mt ds es k,
  entries_from_rdf F (h_prime H) ds = Ok es -> (1 <= k <= List.length es)%nat ->
  is_ok (merklize_tree_ft k F mt ds) = false.
Proof.
  intros F mt ds es k He Hk. unfold merklize_tree_ft. rewrite He. cbn [bind].
  destruct (map_res (fun e => path_key H (e_key e)) es); cbn [bind]; auto.
  apply add_error_propagates. lia.
Qed.

Theorem merklize_ft_never : forall F mt ds,
  merklize_tree_ft 0 F mt ds = merklize_tree H maxlev q F mt ds.
Proof.
  intros F mt ds. unfold merklize_tree_ft, merklize_tree.
  destruct (entries_from_rdf F (h_prime H) ds) as [es| | |]; cbn [bind]; auto.
  destruct (map_res (fun e => path_key H (e_key e)) es); cbn [bind]; auto.
  apply add_entries_ft_past. lia.
Qed.

(* ================================================================== *)
(* (c) success implies pairwise different paths                         *)
(* ================================================================== *)
Lemma map_res_in {A B} (f : A -> res B) : forall l r a,
  map_res f l = Ok r -> In a l -> exists b, f a = Ok b /\ In b r.
Proof.
  induction l as [|h t IH]; intros r a Hm Hin; [contradiction|].
  apply map_res_cons_ok in Hm. destruct Hm as (b & r0 & Hb & Hr0 & ->).
  destruct Hin as [->|Hin]; [exists b; split; [assumption|now left]|].
  destruct (IH _ _ Hr0 Hin) as (b' & Hb' & Hin'). exists b'. split; [assumption|now right].
Qed.

Lemma entry_kv_key : forall e1 e2 kv1 kv2,
  e_key e1 = e_key e2 -> entry_kv H e1 = Ok kv1 -> entry_kv H e2 = Ok kv2 -> fst kv1 = fst kv2.
Proof.
  intros e1 e2 kv1 kv2 Hk. unfold entry_kv. rewrite Hk.
  destruct (path_key H (e_key e2)) as [k| | |]; cbn [bind]; try discriminate.
  destruct (mk_value_entry H (e_val e1)); cbn [bind]; try discriminate.
  destruct (mk_value_entry H (e_val e2)); cbn [bind]; try discriminate.
  intros A B. inversion A; inversion B; subst. reflexivity.
Qed.

Lemma kvs_nodup_keys : forall es kvs,
  map_res (entry_kv H) es = Ok kvs -> NoDup (map fst (map (norm) kvs)) -> NoDup (map e_key es).
Proof.
  induction es as [|e es IH]; intros kvs Hm Hnd; [constructor|].
  apply map_res_cons_ok in Hm. destruct Hm as (kv & kvs0 & Hkv & Hm0 & ->).
  simpl in Hnd. inversion Hnd as [|x xs Hnotin Hnd']; subst. simpl. constructor.
  - intros Hin. apply in_map_iff in Hin. destruct Hin as (e' & Hk' & Hin').
    destruct (map_res_in _ _ _ _ Hm0 Hin') as (kv' & Hkv' & Hin'').
    apply Hnotin. rewrite (entry_kv_key e e' kv kv' (eq_sym Hk') Hkv Hkv').
    apply in_map_iff. exists (norm kv'). split; [reflexivity|]. now apply in_map.
  - eapply IH; eassumption.
Qed.

Lemma nodup_app_l {A} : forall (a b : list A), NoDup (a ++ b) -> NoDup a.
Proof.
  induction a as [|x a IH]; intros b Hnd; [constructor|].
  simpl in Hnd. inversion Hnd as [|y ys Hnotin Hnd']; subst. constructor.
  - intros Hin. apply Hnotin. apply in_or_app. now left.
  - eapply IH; eassumption.
Qed.

Theorem add_entries_nodup : forall t0 es t,
  wf maxlev t0 -> add_entries H maxlev q t0 es = Ok t -> NoDup (map e_key es).
Proof.
  intros t0 es t Hwf Ha.
  apply add_entries_ok_iff in Ha. destruct Ha as (kvs & Hm & _ & Ha).
  destruct (add_list_ok_wf _ _ _ _ Hwf Ha) as (W & P).
  apply (kvs_nodup_keys es kvs Hm).
  assert (Hnd : NoDup (keys t)) by exact (wf_nodup_keys maxlev t 0%nat W).
  unfold keys in Hnd.
  assert (Hnd2 : NoDup (map fst (map norm kvs ++ leaves t0))).
  { eapply Permutation_NoDup; [apply Permutation_map; exact P|exact Hnd]. }
  rewrite map_app in Hnd2. eapply nodup_app_l. exact Hnd2.
Qed.

Theorem duplicate_path_rejected : forall F mt ds es,
  match mt with Some t0 => wf maxlev t0 | None => True end ->
  entries_from_rdf F (h_prime H) ds = Ok es -> ~ NoDup (map e_key es) ->
  is_ok (merklize_tree H maxlev q F mt ds) = false.
Proof.
  intros F mt ds es Hwf He Hdup. unfold merklize_tree. rewrite He. cbn [bind].
  destruct (map_res (fun e => path_key H (e_key e)) es); cbn [bind]; auto.
  destruct (add_entries H maxlev q _ es) as [t| | |] eqn:Ha; try reflexivity.
  exfalso. apply Hdup. eapply add_entries_nodup; [|exact Ha].
  destruct mt; [exact Hwf|apply wf_E].
Qed.
End Fail.

(* ------------------------------------------------------------------ *)
(* witnesses (vm_compute): the seeded variants of waves 5-8 contradict these theorems     *)
(* ------------------------------------------------------------------ *)
Definition int_ds (lex dt : string) : dataset :=
  [ (default_graph, [ {| qs := NIri "urn:a"; qp := NIri "urn:p"; qo := NLit lex dt; qg := None |} ]) ].

(* "7/2", "2.5", and -2 as nonNegativeInteger are rejected; "7" and "07.0" agree *)
Example int_rejections :
  is_ok (entries_from_rdf no_floats 1000003 (int_ds "7/2" xsd_positive)) = false /\
  is_ok (entries_from_rdf no_floats 1000003 (int_ds "2.5" xsd_integer)) = false /\
  is_ok (entries_from_rdf no_floats 1000003 (int_ds "-2" xsd_nonnegative)) = false /\
  is_ok (entries_from_rdf no_floats 1000003 (int_ds "1000003" xsd_nonnegative)) = false /\
  entries_from_rdf no_floats 1000003 (int_ds "07.0" xsd_positive) =
  entries_from_rdf no_floats 1000003 (int_ds "7" xsd_positive) /\
  is_ok (entries_from_rdf no_floats 1000003 (int_ds "7" xsd_positive)) = true.
Proof. repeat split; vm_compute; reflexivity. Qed.

(* two top-level nodes stating the same property: rejected (smt-exists), with and without
   a failing Add; a failing Add on a good dataset: rejected for k = 1, 2; accepted for k = 3 *)
Definition dup_path_ds : dataset :=
  [ (default_graph, [ {| qs := NIri "urn:a"; qp := NIri "urn:name"; qo := NLit "Alice" xsd_string; qg := None |};
                      {| qs := NIri "urn:b"; qp := NIri "urn:name"; qo := NLit "Bob" xsd_string; qg := None |} ]) ].

Example dup_path_demo :
  merklize_tree toy_hasher 40 (2 ^ 254) no_floats None dup_path_ds = Err EExists /\
  is_ok (merklize_tree_ft toy_hasher 40 (2 ^ 254) 1 no_floats None ex_ds) = false /\
  is_ok (merklize_tree_ft toy_hasher 40 (2 ^ 254) 2 no_floats None ex_ds) = false /\
  merklize_tree_ft toy_hasher 40 (2 ^ 254) 3 no_floats None ex_ds =
  merklize_tree toy_hasher 40 (2 ^ 254) no_floats None ex_ds /\
  is_ok (merklize_tree toy_hasher 40 (2 ^ 254) no_floats None ex_ds) = true.
Proof. repeat split; vm_compute; reflexivity. Qed.
