(* RDF/OrdSort.v — the byte-wise string order of Base/Prelude.v (Go's `<` on
   strings) is a total order, and `sort_strings` (the model of sort.Strings in
   iterGraphsOrdered, merklize.go:820-838) depends only on the multiset of its
   input.  This is the lemma that makes the numbering of child nodes independent
   of Go's map iteration order (C03). *)
From Coq Require Import List String Ascii Bool Arith Lia Permutation.
From GSP Require Import Base.Prelude.
Import ListNotations.
Open Scope list_scope.

Lemma nat_of_ascii_inj : forall a b, nat_of_ascii a = nat_of_ascii b -> a = b.
Proof.
  intros a b H. rewrite <- (ascii_nat_embedding a), <- (ascii_nat_embedding b). now rewrite H.
Qed.

Lemma str_leb_refl : forall a, str_leb a a = true.
Proof.
  induction a as [|c a IH]; simpl; [reflexivity|].
  now rewrite Nat.ltb_irrefl.
Qed.

Lemma str_leb_total : forall a b, str_leb a b = true \/ str_leb b a = true.
Proof.
  induction a as [|x a IH]; intros b; destruct b as [|y b]; simpl; auto.
  destruct (Nat.ltb (nat_of_ascii x) (nat_of_ascii y)) eqn:Hxy; auto.
  destruct (Nat.ltb (nat_of_ascii y) (nat_of_ascii x)) eqn:Hyx; auto.
Qed.

Lemma str_leb_antisym : forall a b, str_leb a b = true -> str_leb b a = true -> a = b.
Proof.
  induction a as [|x a IH]; intros b Hab Hba; destruct b as [|y b]; simpl in *;
    try reflexivity; try discriminate.
  destruct (Nat.ltb (nat_of_ascii x) (nat_of_ascii y)) eqn:Hxy;
  destruct (Nat.ltb (nat_of_ascii y) (nat_of_ascii x)) eqn:Hyx; try discriminate.
  - apply Nat.ltb_lt in Hxy. apply Nat.ltb_lt in Hyx. lia.
  - apply Nat.ltb_ge in Hxy. apply Nat.ltb_ge in Hyx.
    assert (Hc : x = y) by (apply nat_of_ascii_inj; lia).
    subst y. f_equal. now apply IH.
Qed.

Lemma str_leb_trans : forall a b c, str_leb a b = true -> str_leb b c = true -> str_leb a c = true.
Proof.
  induction a as [|x a IH]; intros b c Hab Hbc; destruct b as [|y b]; destruct c as [|z c];
    simpl in *; try reflexivity; try discriminate.
  destruct (Nat.ltb (nat_of_ascii x) (nat_of_ascii y)) eqn:Hxy.
  - apply Nat.ltb_lt in Hxy.
    destruct (Nat.ltb (nat_of_ascii y) (nat_of_ascii z)) eqn:Hyz.
    + apply Nat.ltb_lt in Hyz.
      assert (Hxz : Nat.ltb (nat_of_ascii x) (nat_of_ascii z) = true) by (apply Nat.ltb_lt; lia).
      now rewrite Hxz.
    + destruct (Nat.ltb (nat_of_ascii z) (nat_of_ascii y)) eqn:Hzy; [discriminate|].
      apply Nat.ltb_ge in Hyz. apply Nat.ltb_ge in Hzy.
      assert (Hxz : Nat.ltb (nat_of_ascii x) (nat_of_ascii z) = true) by (apply Nat.ltb_lt; lia).
      now rewrite Hxz.
  - destruct (Nat.ltb (nat_of_ascii y) (nat_of_ascii x)) eqn:Hyx; [discriminate|].
    apply Nat.ltb_ge in Hxy. apply Nat.ltb_ge in Hyx.
    assert (Hc : nat_of_ascii x = nat_of_ascii y) by lia. rewrite Hc.
    destruct (Nat.ltb (nat_of_ascii y) (nat_of_ascii z)) eqn:Hyz; [reflexivity|].
    destruct (Nat.ltb (nat_of_ascii z) (nat_of_ascii y)) eqn:Hzy; [discriminate|].
    eapply IH; eassumption.
Qed.

(* insertions commute (on ANY list, sorted or not) *)
Lemma str_ins_comm : forall l x y, str_ins x (str_ins y l) = str_ins y (str_ins x l).
Proof.
  assert (W : forall l x y, str_leb x y = true -> str_ins x (str_ins y l) = str_ins y (str_ins x l)).
  { induction l as [|h t IH]; intros x y Hxy; simpl.
    - rewrite Hxy. destruct (str_leb y x) eqn:Hyx; [|reflexivity].
      now rewrite (str_leb_antisym _ _ Hxy Hyx).
    - destruct (str_leb y h) eqn:Hyh.
      + assert (Hxh : str_leb x h = true) by (eapply str_leb_trans; eassumption).
        rewrite Hxh. simpl. rewrite Hxy.
        destruct (str_leb y x) eqn:Hyx.
        * now rewrite (str_leb_antisym _ _ Hxy Hyx).
        * now rewrite Hyh.
      + destruct (str_leb x h) eqn:Hxh; simpl.
        * rewrite Hxh.
          destruct (str_leb y x) eqn:Hyx.
          -- assert (Hc : str_leb y h = true) by (eapply str_leb_trans; eassumption). congruence.
          -- now rewrite Hyh.
        * rewrite Hxh, Hyh. f_equal. now apply IH. }
  intros l x y. destruct (str_leb_total x y) as [H|H].
  - now apply W.
  - symmetry. now apply W.
Qed.

(* sort.Strings: the result depends only on the multiset of names *)
Theorem sort_strings_perm : forall l l', Permutation l l' -> sort_strings l = sort_strings l'.
Proof.
  unfold sort_strings.
  induction 1 as [|x l l' HP IH|x y l|l1 l2 l3 HP1 IH1 HP2 IH2]; simpl.
  - reflexivity.
  - now rewrite IH.
  - apply str_ins_comm.
  - now transitivity (fold_right str_ins [] l2).
Qed.

Lemma str_ins_perm : forall x l, Permutation (str_ins x l) (x :: l).
Proof.
  induction l as [|h t IH]; simpl; [reflexivity|].
  destruct (str_leb x h); [reflexivity|].
  rewrite IH. apply perm_swap.
Qed.

Lemma sort_strings_is_perm : forall l, Permutation (sort_strings l) l.
Proof.
  unfold sort_strings. induction l as [|x l IH]; simpl; [reflexivity|].
  rewrite str_ins_perm. now constructor.
Qed.

(* the result is sorted: together with sort_strings_is_perm this says that
   sort_strings really is "the" sorted arrangement, not merely some canonical one *)
Fixpoint str_sorted (l : list string) : Prop :=
  match l with
  | [] => True
  | x :: t => (forall y, In y t -> str_leb x y = true) /\ str_sorted t
  end.

Lemma str_ins_sorted : forall x l, str_sorted l -> str_sorted (str_ins x l).
Proof.
  induction l as [|h t IH]; intros Hs; simpl.
  - split; [intros y []|exact I].
  - destruct Hs as (Hh & Ht). destruct (str_leb x h) eqn:Hxh; simpl.
    + split; [|split; assumption].
      intros y [<-|Hy]; [assumption|]. eapply str_leb_trans; [exact Hxh|]. now apply Hh.
    + split; [|now apply IH].
      intros y Hy. apply (Permutation_in _ (str_ins_perm x t)) in Hy.
      destruct Hy as [<-|Hy]; [|now apply Hh].
      destruct (str_leb_total x h) as [H|H]; congruence.
Qed.

Lemma sort_strings_sorted : forall l, str_sorted (sort_strings l).
Proof.
  unfold sort_strings. induction l as [|x l IH]; simpl; [exact I|].
  now apply str_ins_sorted.
Qed.
