(* RDF/Spec.v — what "the facts of a dataset" are (property C01), stated on the
   whole dataset without maps, fuel or accumulators.  Definitions only.

   A dataset is the Go map ds.Graphs as a list of (graph name, quads).  A quad
   is identified by its position (graph name, index).  The statements of a
   document are the quads whose object is a literal or an IRI ("value quads").

   * parent ds i       the quad through which quad i is reached: the only
                       quad of i's graph whose object is i's subject; if there is
                       none and i lives in a named graph _:g, the only quad (in
                       any graph) whose object is the blank node _:g.
   * unshared_at ds i  there is at most one such quad (a node has a unique path)
   * child_nodes ds k  the distinct subjects of the quads whose parent quad has
                       the (subject, predicate, graph) key k, in order of first
                       appearance (graphs sorted byte-wise by name, then position)
   * child_index       position in child_nodes, present iff there are several
   * value_index       rank of a value quad among the value quads of its
                       (subject, predicate, graph) group, present iff the group
                       has more than one quad
   * anc_path ds i pi  pi is the path of the node that quad i describes
   * fact              an entry states exactly the value quad at a position *)
From Coq Require Import ZArith List String Ascii Bool Arith.
From GSP Require Import Base.Prelude Value.Time Value.Model RDF.Model.
Import ListNotations.
Open Scope string_scope.
Open Scope list_scope.

(* a Go map has unique keys *)
Definition is_map (ds : dataset) : Prop := NoDup (map fst ds).

Definition quad_at (ds : dataset) (i : didx) : option quad :=
  match lookup_graph ds (fst i) with
  | Some l => nth_error l (snd i)
  | None => None
  end.

(* the quads of one graph with their positions, from index n *)
Definition graph_positions_from (g : string) (n : nat) (l : list quad) : list (didx * quad) :=
  map (fun iq => ((g, fst iq), snd iq)) (index_from n l).
Definition graph_positions (g : string) (l : list quad) : list (didx * quad) :=
  graph_positions_from g 0 l.

(* every quad of the dataset, in the order the code visits them: graph names
   sorted byte-wise (sort.Strings), then slice order *)
Definition positions (ds : dataset) : list (didx * quad) :=
  flat_map (fun g => match lookup_graph ds g with
                     | Some l => graph_positions g l
                     | None => []
                     end) (graph_names ds).

(* ---- who refers to a node ---- *)
Definition refers_to (key : ref) (q : quad) : bool :=
  match get_ref (qo q) with Some r => ref_eqb r key | None => false end.

(* a quad whose object is `key` *)
Definition is_referrer (key : ref) (iq : didx * quad) : bool := refers_to key (snd iq).
(* ... other than the quad at `self` *)
Definition is_other_referrer (self : didx) (key : ref) (iq : didx * quad) : bool :=
  negb (didx_eqb self (fst iq)) && refers_to key (snd iq).

(* positions of graph (g, l) whose object is `key` (the asking quad is NOT excluded:
   a quad whose object is its own subject is a referrer of its own node) *)
Definition referrers_in (g : string) (l : list quad) (key : ref) : list didx :=
  map fst (filter (is_referrer key) (graph_positions g l)).

Definition referrers (ds : dataset) (g : string) (key : ref) : list didx :=
  match lookup_graph ds g with
  | Some l => referrers_in g l key
  | None => []
  end.

(* positions anywhere in the dataset, other than `self`, whose object is `key`
   (used for the blank node that names a graph) *)
Definition other_referrers_in (g : string) (l : list quad) (self : didx) (key : ref) : list didx :=
  map fst (filter (is_other_referrer self key) (graph_positions g l)).

Definition all_referrers (ds : dataset) (self : didx) (key : ref) : list didx :=
  flat_map (fun gl => other_referrers_in (fst gl) (snd gl) self key) ds.

Definition parent (ds : dataset) (i : didx) : option didx :=
  match quad_at ds i with
  | None => None
  | Some q =>
    match get_ref (qs q) with
    | None => None
    | Some s =>
      match referrers ds (fst i) s with
      | j :: _ => Some j
      | [] =>
        match qg q with
        | Some (NBlank g) => hd_error (all_referrers ds i (RBlank g))
        | _ => None
        end
      end
    end
  end.

(* the node described by quad i is referenced from at most one place *)
Definition unshared_at (ds : dataset) (i : didx) : Prop :=
  forall q s, quad_at ds i = Some q -> get_ref (qs q) = Some s ->
    (List.length (referrers ds (fst i) s) <= 1)%nat /\
    (referrers ds (fst i) s = [] ->
     forall g, qg q = Some (NBlank g) ->
     (List.length (all_referrers ds i (RBlank g)) <= 1)%nat).

(* ---- (subject, predicate, graph) groups ---- *)
Definition key_of (g : string) (q : quad) : option qkey :=
  match get_ref (qs q), qp q with
  | Some s, NIri p => Some {| ks := s; kp := p; kg := g |}
  | _, _ => None
  end.

Definition key_at (ds : dataset) (j : didx) : option qkey :=
  match quad_at ds j with Some q => key_of (fst j) q | None => None end.

(* quad iq is reached through a quad whose key is k *)
Definition is_child_of (ds : dataset) (k : qkey) (iq : didx * quad) : bool :=
  match parent ds (fst iq) with
  | Some j => match key_at ds j with Some k' => qkey_eqb k' k | None => false end
  | None => false
  end.

Definition subj_refs (l : list (didx * quad)) : list ref :=
  flat_map (fun iq => match get_ref (qs (snd iq)) with Some s => [s] | None => [] end) l.

Definition add_new (acc : list ref) (s : ref) : list ref :=
  if existsb (fun c => ref_eqb c s) acc then acc else acc ++ [s].

(* distinct child nodes of the key k, first appearance first *)
Definition kids (ds : dataset) (k : qkey) (visited : list (didx * quad)) : list ref :=
  fold_left add_new (subj_refs (filter (is_child_of ds k) visited)) [].
Definition child_nodes (ds : dataset) (k : qkey) : list ref := kids ds k (positions ds).

Fixpoint index_of (s : ref) (l : list ref) : option nat :=
  match l with
  | [] => None
  | h :: t => if ref_eqb h s then Some O else option_map S (index_of s t)
  end.

Definition child_index (ds : dataset) (k : qkey) (c : ref) : option nat :=
  if Nat.eqb (List.length (child_nodes ds k)) 1 then None else index_of c (child_nodes ds k).

(* ---- value quads and their rank inside the group ---- *)
Definition is_value (q : quad) : bool :=
  match qo q with NBlank _ => false | _ => true end.

Definition same_key (g : string) (k : qkey) (q : quad) : bool :=
  match key_of g q with Some k' => qkey_eqb k' k | None => false end.

Definition group_size (g : string) (l : list quad) (k : qkey) : nat :=
  List.length (filter (same_key g k) l).

Definition value_rank (g : string) (l : list quad) (k : qkey) (i : nat) : nat :=
  List.length (filter (fun q => same_key g k q && is_value q) (firstn i l)).

Definition value_index (ds : dataset) (i : didx) : option nat :=
  match lookup_graph ds (fst i) with
  | None => None
  | Some l =>
    match nth_error l (snd i) with
    | None => None
    | Some q =>
      match key_of (fst i) q with
      | None => None
      | Some k => if Nat.leb (group_size (fst i) l k) 1 then None
                  else Some (value_rank (fst i) l k (snd i))
      end
    end
  end.

(* ---- paths ---- *)
Definition opt_part (o : option nat) : list part :=
  match o with Some n => [PInt (Z.of_nat n)] | None => [] end.

Inductive anc_path (ds : dataset) : didx -> list part -> Prop :=
| ap_root : forall i, parent ds i = None -> anc_path ds i []
| ap_step : forall i j qi qj si pj kj pi,
    parent ds i = Some j ->
    quad_at ds i = Some qi -> get_ref (qs qi) = Some si ->
    quad_at ds j = Some qj -> qp qj = NIri pj -> key_of (fst j) qj = Some kj ->
    anc_path ds j pi ->
    anc_path ds i (pi ++ [PStr pj] ++ opt_part (child_index ds kj si)).

(* the value an entry must hold for quad q *)
Definition value_of (F : floats) (prime : Z) (q : quad) (v : xval) (dt : string) : Prop :=
  match qo q with
  | NLit lex d => convert F d lex prime = Ok v /\ dt = d
  | NIri s => v = XStr s /\ dt = ""
  | NBlank _ => False
  end.

(* entry e states exactly the value quad iq *)
Definition fact (F : floats) (prime : Z) (ds : dataset) (e : entry) (iq : didx * quad) : Prop :=
  exists pi p,
    anc_path ds (fst iq) pi /\ qp (snd iq) = NIri p /\
    e_key e = pi ++ [PStr p] ++ opt_part (value_index ds (fst iq)) /\
    value_of F prime (snd iq) (e_val e) (e_dt e).

(* the statements of the dataset, in the deterministic order *)
Definition value_quads (ds : dataset) : list (didx * quad) :=
  filter (fun iq => is_value (snd iq)) (positions ds).

(* the parent relation, for statements about reference cycles *)
Inductive reaches (ds : dataset) : didx -> didx -> Prop :=
| reach_refl : forall i, reaches ds i i
| reach_step : forall i j k, parent ds i = Some j -> reaches ds j k -> reaches ds i k.

Definition on_cycle (ds : dataset) (j : didx) : Prop :=
  exists j', parent ds j = Some j' /\ reaches ds j' j.

(* the integer at the end of a path, if any *)
Definition last_index (p : list part) : option Z :=
  match rev p with PInt z :: _ => Some z | _ => None end.

(* decidable "the paths are pairwise different" (evaluated per run by RDF/RunMz.v) *)
Definition part_eqb_ (a b : part) : bool :=
  match a, b with
  | PStr x, PStr y => String.eqb x y
  | PInt x, PInt y => Z.eqb x y
  | _, _ => false
  end.
Definition path_eqb (a b : list part) : bool := list_eqb part_eqb_ a b.

Fixpoint distinct_paths (l : list (list part)) : bool :=
  match l with
  | [] => true
  | p :: t => negb (existsb (path_eqb p) t) && distinct_paths t
  end.
