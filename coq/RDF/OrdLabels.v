(* RDF/OrdLabels.v — C03: blank-node labels are unobservable except through the ORDER of
   the labels that name graphs.

   Renaming rho : string -> string is applied consistently to every blank node (subjects,
   predicates, objects, graph components of quads) and to the graph names (keys of
   ds.Graphs); IRIs and literals are untouched; every quad keeps its position.

   Theorem labels_invariance: for EVERY dataset,
       rho injective,  rho "@default" = "@default",  rho "" = ""   (the two reserved names),
       rho monotone for the byte-wise order on the GRAPH NAMES of the dataset
     ->  entries_from_rdf (rename ds) = entries_from_rdf ds      (paths, values, datatypes,
                                                                  order, and error tags)
   Plain monotonicity on the graph names suffices (no condition on the order of subject /
   object labels): inside a graph the code goes by position, children are numbered by first
   appearance, and labels are otherwise only compared for equality.  It cannot be dropped:
   labels_needs_monotone (an injective renaming that swaps two graph names swaps the indices
   of the two children). *)
From Coq Require Import ZArith List String Ascii Bool Arith Lia Permutation.
From GSP Require Import Base.Prelude Value.Time Value.Model RDF.Model RDF.OrdSort RDF.Order
                        RDF.OrdTree SMT.Model.
Import ListNotations.
Open Scope string_scope.
Open Scope list_scope.

Definition rmap {A B} (f : A -> B) (r : res A) : res B :=
  match r with
  | Ok a => Ok (f a)
  | Err t => Err t
  | Panic w => Panic w
  | Diverge => Diverge
  end.

Definition pmap {A B C D} (f : A -> C) (g : B -> D) (l : list (A * B)) : list (C * D) :=
  map (fun ab => (f (fst ab), g (snd ab))) l.

(* association lists under an equality-preserving renaming of the keys *)
Section AssocMap.
Context {K V K' V' : Type} (eqb : K -> K -> bool) (eqb' : K' -> K' -> bool)
        (fk : K -> K') (fv : V -> V').
Hypothesis Heq : forall a b, eqb' (fk a) (fk b) = eqb a b.

Lemma assoc_pmap : forall k l,
  assoc eqb' (fk k) (pmap fk fv l) = option_map fv (assoc eqb k l).
Proof.
  intros k. induction l as [|(a, b) l IH]; simpl; [reflexivity|].
  rewrite Heq. destruct (eqb a k); [reflexivity|exact IH].
Qed.

Lemma upsert_pmap : forall k v l,
  upsert eqb' (fk k) (fv v) (pmap fk fv l) = pmap fk fv (upsert eqb k v l).
Proof.
  intros k v. induction l as [|(a, b) l IH]; simpl; [reflexivity|].
  rewrite Heq. destruct (eqb a k); simpl; [reflexivity|]. now rewrite IH.
Qed.
End AssocMap.

Section Rename.
Variable rho : string -> string.
Hypothesis rho_inj : forall a b, rho a = rho b -> a = b.
Hypothesis rho_default : rho default_graph = default_graph.
Hypothesis rho_empty : rho "" = "".

Lemma rho_eqb a b : String.eqb (rho a) (rho b) = String.eqb a b.
Proof.
  destruct (String.eqb a b) eqn:E.
  - apply String.eqb_eq in E. subst. apply String.eqb_refl.
  - apply String.eqb_neq. intros H. apply rho_inj in H. apply String.eqb_neq in E. contradiction.
Qed.

Definition rn_node (n : node) : node :=
  match n with NBlank s => NBlank (rho s) | _ => n end.
Definition rn_ref (r : ref) : ref :=
  match r with RBlank s => RBlank (rho s) | _ => r end.
Definition rn_quad (q : quad) : quad :=
  {| qs := rn_node (qs q); qp := rn_node (qp q); qo := rn_node (qo q);
     qg := option_map rn_node (qg q) |}.
Definition rn_ds (ds : dataset) : dataset := pmap rho (map rn_quad) ds.
Definition rn_didx (i : didx) : didx := (rho (fst i), snd i).
Definition rn_found (f : found) : found :=
  match f with FNone => FNone | FOne i => FOne (rn_didx i) end.
Definition rn_qkey (k : qkey) : qkey := {| ks := rn_ref (ks k); kp := kp k; kg := rho (kg k) |}.
Definition rn_cm (cm : list (ref * nat)) : list (ref * nat) := pmap rn_ref (fun n => n) cm.
Definition rn_rel (r : rel) : rel :=
  {| parents := pmap rn_didx rn_didx (parents r);
     children := pmap rn_qkey rn_cm (children r) |}.
Definition rn_counts (c : list (qkey * nat)) : list (qkey * nat) := pmap rn_qkey (fun n => n) c.
Definition rn_iq (iq : nat * quad) : nat * quad := (fst iq, rn_quad (snd iq)).

Lemma ref_eqb_rn a b : ref_eqb (rn_ref a) (rn_ref b) = ref_eqb a b.
Proof. destruct a, b; simpl; auto. apply rho_eqb. Qed.

Lemma didx_eqb_rn a b : didx_eqb (rn_didx a) (rn_didx b) = didx_eqb a b.
Proof. unfold didx_eqb, rn_didx. simpl. now rewrite rho_eqb. Qed.

Lemma qkey_eqb_rn a b : qkey_eqb (rn_qkey a) (rn_qkey b) = qkey_eqb a b.
Proof. unfold qkey_eqb, rn_qkey. simpl. now rewrite ref_eqb_rn, rho_eqb. Qed.

Lemma get_ref_rn n : get_ref (rn_node n) = option_map rn_ref (get_ref n).
Proof. destruct n; reflexivity. Qed.

Lemma graph_name_rn q : graph_name (rn_quad q) = rmap rho (graph_name q).
Proof.
  unfold graph_name. simpl. destruct (qg q) as [[s|s|v dt]|]; simpl; try reflexivity.
  now rewrite rho_default.
Qed.

Lemma pred_iri_rn q : pred_iri (rn_quad q) = pred_iri q.
Proof. unfold pred_iri. simpl. destruct (qp q); reflexivity. Qed.

Lemma mk_qkey_rn q : mk_qkey (rn_quad q) = rmap rn_qkey (mk_qkey q).
Proof.
  unfold mk_qkey. rewrite graph_name_rn.
  destruct (graph_name q) as [g| | |]; simpl; auto.
  rewrite get_ref_rn. destruct (get_ref (qs q)) as [s|]; simpl; [|reflexivity].
  destruct (qp q); reflexivity.
Qed.

(* ---- assertDatasetConsistency ---- *)
Lemma rho_is_empty g : String.eqb (rho g) "" = String.eqb g "".
Proof. rewrite <- rho_empty at 1. apply rho_eqb. Qed.
Lemma rho_is_default g : String.eqb (rho g) default_graph = String.eqb g default_graph.
Proof. rewrite <- rho_default at 1. apply rho_eqb. Qed.

Lemma quad_consistent_rn g q : quad_consistent (rho g) (rn_quad q) = quad_consistent g q.
Proof.
  unfold quad_consistent. rewrite rho_is_empty, rho_is_default. simpl.
  destruct (String.eqb g ""); [reflexivity|].
  destruct (qg q) as [[s|a|v dt]|]; simpl.
  - reflexivity.
  - rewrite rho_eqb. destruct (qp q); reflexivity.
  - reflexivity.
  - destruct (qp q); reflexivity.
Qed.

Lemma quads_consistent_rn g l : quads_consistent (rho g) (map rn_quad l) = quads_consistent g l.
Proof.
  induction l as [|q l IH]; simpl; [reflexivity|]. now rewrite quad_consistent_rn, IH.
Qed.

Lemma assert_consistency_rn ds : assert_consistency (rn_ds ds) = assert_consistency ds.
Proof.
  induction ds as [|(g, l) ds IH]; simpl; [reflexivity|].
  now rewrite quads_consistent_rn, IH.
Qed.

(* ---- lookups ---- *)
Lemma lookup_graph_rn ds g :
  lookup_graph (rn_ds ds) (rho g) = option_map (map rn_quad) (lookup_graph ds g).
Proof.
  induction ds as [|(n, l) ds IH]; simpl; [reflexivity|].
  rewrite rho_eqb. destruct (String.eqb n g); [reflexivity|exact IH].
Qed.

Lemma get_quad_rn ds i : get_quad (rn_ds ds) (rn_didx i) = rmap rn_quad (get_quad ds i).
Proof.
  unfold get_quad. simpl. rewrite lookup_graph_rn.
  destruct (lookup_graph ds (fst i)) as [l|]; simpl; [|reflexivity].
  rewrite nth_error_map. destruct (nth_error l (snd i)); reflexivity.
Qed.

(* ---- parent search ---- *)
Lemma scan_rn g l : forall i0 key skip acc,
  scan (rho g) (map rn_quad l) i0 (rn_ref key) (rn_didx skip) (rn_found acc) =
  rmap rn_found (scan g l i0 key skip acc).
Proof.
  induction l as [|q l IH]; intros i0 key skip acc; simpl; [reflexivity|].
  change (rho g, i0) with (rn_didx (g, i0)). rewrite didx_eqb_rn.
  destruct (didx_eqb skip (g, i0)); [apply IH|].
  rewrite get_ref_rn. destruct (get_ref (qo q)) as [r|]; simpl; [|apply IH].
  rewrite ref_eqb_rn. destruct (ref_eqb r key); [|apply IH].
  destruct acc; simpl; [|reflexivity].
  apply (IH (S i0) key skip (FOne (g, i0))).
Qed.

Lemma scan_in_rn g l : forall i0 key acc,
  scan_in (rho g) (map rn_quad l) i0 (rn_ref key) (rn_found acc) =
  rmap rn_found (scan_in g l i0 key acc).
Proof.
  induction l as [|q l IH]; intros i0 key acc; simpl; [reflexivity|].
  rewrite get_ref_rn. destruct (get_ref (qo q)) as [r|]; simpl; [|apply IH].
  rewrite ref_eqb_rn. destruct (ref_eqb r key); [|apply IH].
  destruct acc; simpl; [|reflexivity].
  apply (IH (S i0) key (FOne (g, i0))).
Qed.

Lemma scan_all_rn ds : forall key skip acc,
  scan_all (rn_ds ds) (rn_ref key) (rn_didx skip) (rn_found acc) =
  rmap rn_found (scan_all ds key skip acc).
Proof.
  induction ds as [|(g, l) ds IH]; intros key skip acc; simpl; [reflexivity|].
  rewrite scan_rn. destruct (scan g l 0 key skip acc) as [f| | |]; simpl; auto.
Qed.

Lemma fpig_rn ds me q :
  find_parent_inside_graph (rn_ds ds) (rn_didx me) (rn_quad q) =
  rmap rn_found (find_parent_inside_graph ds me q).
Proof.
  unfold find_parent_inside_graph. rewrite graph_name_rn.
  destruct (graph_name q) as [g| | |]; simpl; auto.
  rewrite lookup_graph_rn. destruct (lookup_graph ds g) as [l|]; simpl; [|reflexivity].
  rewrite get_ref_rn. destruct (get_ref (qs q)) as [key|]; simpl; [|reflexivity].
  apply (scan_in_rn g l 0 key FNone).
Qed.

Lemma fgp_rn ds me q :
  find_graph_parent (rn_ds ds) (rn_didx me) (rn_quad q) =
  rmap rn_found (find_graph_parent ds me q).
Proof.
  unfold find_graph_parent. simpl.
  destruct (qg q) as [gn|]; simpl; [|reflexivity].
  rewrite get_ref_rn. destruct (get_ref gn) as [[s|s]|]; simpl; try reflexivity.
  apply (scan_all_rn ds (RBlank s) me FNone).
Qed.

Lemma find_parent_rn ds me q :
  find_parent (rn_ds ds) (rn_didx me) (rn_quad q) = rmap rn_found (find_parent ds me q).
Proof.
  unfold find_parent. rewrite fpig_rn.
  destruct (find_parent_inside_graph ds me q) as [[|p]| | |]; simpl; auto.
  apply fgp_rn.
Qed.

(* ---- relationship ---- *)
Lemma rn_cm_length cm : List.length (rn_cm cm) = List.length cm.
Proof. unfold rn_cm, pmap. apply map_length. Qed.

Lemma step_rel_rn ds g acc i q :
  step_rel (rn_ds ds) (rho g) (rmap rn_rel acc) (i, rn_quad q) =
  rmap rn_rel (step_rel ds g acc (i, q)).
Proof.
  unfold step_rel. destruct acc as [r| | |]; simpl; auto.
  change (rho g, i) with (rn_didx (g, i)). rewrite find_parent_rn.
  destruct (find_parent ds (g, i) q) as [[|p]| | |]; simpl; auto.
  rewrite get_quad_rn. destruct (get_quad ds p) as [pq| | |]; simpl; auto.
  rewrite mk_qkey_rn. destruct (mk_qkey pq) as [k| | |]; simpl; auto.
  rewrite get_ref_rn. destruct (get_ref (qs q)) as [cref|]; simpl; [|reflexivity].
  rewrite (assoc_pmap qkey_eqb qkey_eqb rn_qkey rn_cm qkey_eqb_rn).
  f_equal. unfold rn_rel. cbn [parents children]. f_equal.
  - apply (upsert_pmap didx_eqb didx_eqb rn_didx rn_didx didx_eqb_rn).
  - rewrite <- (upsert_pmap qkey_eqb qkey_eqb rn_qkey rn_cm qkey_eqb_rn). f_equal.
    destruct (assoc qkey_eqb k (children r)) as [cm|]; simpl.
    + rewrite (assoc_pmap ref_eqb ref_eqb rn_ref (fun n : nat => n) ref_eqb_rn).
      destruct (assoc ref_eqb cref cm); simpl; [reflexivity|].
      unfold rn_cm, pmap. rewrite map_app, map_length. reflexivity.
    + reflexivity.
Qed.

Lemma index_from_rn l : forall i, index_from i (map rn_quad l) = map rn_iq (index_from i l).
Proof. induction l as [|q l IH]; intros i; simpl; [reflexivity|]. now rewrite IH. Qed.

Lemma fold_step_rel_rn ds g l : forall acc,
  fold_left (step_rel (rn_ds ds) (rho g)) (map rn_iq l) (rmap rn_rel acc) =
  rmap rn_rel (fold_left (step_rel ds g) l acc).
Proof.
  induction l as [|(i, q) l IH]; intros acc; cbn [map fold_left]; [reflexivity|].
  change (rn_iq (i, q)) with (i, rn_quad q). rewrite step_rel_rn. apply IH.
Qed.

(* ---- the sort ---- *)
Definition mono_on (l : list string) : Prop :=
  forall a b, In a l -> In b l -> str_leb (rho a) (rho b) = str_leb a b.

Lemma str_ins_rn x l :
  (forall y, In y l -> str_leb (rho x) (rho y) = str_leb x y) ->
  str_ins (rho x) (map rho l) = map rho (str_ins x l).
Proof.
  induction l as [|h t IH]; intros H; simpl; [reflexivity|].
  rewrite (H h (or_introl eq_refl)). destruct (str_leb x h); simpl; [reflexivity|].
  f_equal. apply IH. intros y Hy. apply H. now right.
Qed.

Lemma sort_strings_rn l : mono_on l -> sort_strings (map rho l) = map rho (sort_strings l).
Proof.
  unfold sort_strings. induction l as [|x l IH]; intros Hm; simpl; [reflexivity|].
  rewrite IH.
  - apply str_ins_rn. intros y Hy. apply Hm; [now left|].
    right. apply (Permutation_in _ (sort_strings_is_perm l)). exact Hy.
  - intros a b Ha Hb. apply Hm; now right.
Qed.

Lemma graph_names_rn ds :
  mono_on (map fst ds) -> graph_names (rn_ds ds) = map rho (graph_names ds).
Proof.
  intros Hm. unfold graph_names, rn_ds, pmap. rewrite map_map. simpl.
  rewrite <- (map_map fst rho). now apply sort_strings_rn.
Qed.

Lemma new_relationship_rn ds :
  mono_on (map fst ds) -> new_relationship (rn_ds ds) = rmap rn_rel (new_relationship ds).
Proof.
  intros Hm. unfold new_relationship. rewrite (graph_names_rn ds Hm).
  change (Ok empty_rel) with (rmap rn_rel (Ok empty_rel)) at 1.
  generalize (Ok empty_rel : res rel) as acc.
  induction (graph_names ds) as [|g gs IH]; intros acc; cbn [map fold_left]; [reflexivity|].
  rewrite lookup_graph_rn.
  destruct (lookup_graph ds g) as [l|]; simpl.
  - rewrite index_from_rn, fold_step_rel_rn. apply IH.
  - apply IH.
Qed.
(* ---- relationship.path ---- *)
Lemma mem_didx_rn p l : mem_didx (rn_didx p) (map rn_didx l) = mem_didx p l.
Proof.
  induction l as [|h t IH]; simpl; [reflexivity|]. now rewrite didx_eqb_rn, IH.
Qed.

Lemma walk_rn ds r : forall fuel visited cur k,
  walk fuel (rn_rel r) (rn_ds ds) (map rn_didx visited) (rn_didx cur) k =
  walk fuel r ds visited cur k.
Proof.
  induction fuel as [|n IH]; intros visited cur k; simpl; [reflexivity|].
  rewrite (assoc_pmap didx_eqb didx_eqb rn_didx rn_didx didx_eqb_rn).
  destruct (assoc didx_eqb cur (parents r)) as [p|]; simpl; [|reflexivity].
  rewrite mem_didx_rn. destruct (mem_didx p visited); [reflexivity|].
  rewrite (get_quad_rn ds p).
  destruct (get_quad ds p) as [pq| | |]; cbn [rmap bind]; auto.
  rewrite mk_qkey_rn. destruct (mk_qkey pq) as [pk| | |]; cbn [rmap bind]; auto.
  rewrite (assoc_pmap qkey_eqb qkey_eqb rn_qkey rn_cm qkey_eqb_rn).
  destruct (assoc qkey_eqb pk (children r)) as [cm|]; simpl; [|reflexivity].
  rewrite (get_quad_rn ds cur).
  destruct (get_quad ds cur) as [cq| | |]; cbn [rmap bind]; auto.
  cbn [rn_quad qs]. rewrite get_ref_rn.
  destruct (get_ref (qs cq)) as [cref|]; simpl; [|reflexivity].
  unfold rn_cm at 1. rewrite (assoc_pmap ref_eqb ref_eqb rn_ref (fun n : nat => n) ref_eqb_rn).
  destruct (assoc ref_eqb cref cm) as [ci|]; simpl; [|reflexivity].
  rewrite pred_iri_rn. destruct (pred_iri pq) as [pp| | |]; cbn [bind]; auto.
  rewrite rn_cm_length.
  apply (IH (p :: visited) p).
Qed.

Lemma total_quads_rn ds : total_quads (rn_ds ds) = total_quads ds.
Proof.
  unfold total_quads. induction ds as [|(g, l) ds IH]; simpl; [reflexivity|].
  now rewrite map_length, IH.
Qed.

Lemma rel_path_rn ds r i idx :
  rel_path (rn_rel r) (rn_ds ds) (rn_didx i) idx = rel_path r ds i idx.
Proof.
  unfold rel_path. rewrite get_quad_rn.
  destruct (get_quad ds i) as [q| | |]; cbn [rmap bind]; [|reflexivity|reflexivity|reflexivity].
  rewrite pred_iri_rn.
  destruct (pred_iri q) as [p| | |]; cbn [bind]; [|reflexivity|reflexivity|reflexivity].
  rewrite total_quads_rn.
  change [rn_didx i] with (map rn_didx [i]). rewrite walk_rn. reflexivity.
Qed.

(* ---- countEntries / entries ---- *)
Lemma count_entries_rn l : forall acc,
  count_entries (map rn_quad l) (rn_counts acc) = rmap rn_counts (count_entries l acc).
Proof.
  induction l as [|q l IH]; intros acc; simpl; [reflexivity|].
  rewrite mk_qkey_rn. destruct (mk_qkey q) as [k| | |]; cbn [rmap bind]; auto.
  unfold rn_counts at 1. rewrite (assoc_pmap qkey_eqb qkey_eqb rn_qkey (fun n : nat => n) qkey_eqb_rn).
  rewrite <- IH. f_equal. unfold rn_counts.
  rewrite <- (upsert_pmap qkey_eqb qkey_eqb rn_qkey (fun n : nat => n) qkey_eqb_rn).
  destruct (assoc qkey_eqb k acc); reflexivity.
Qed.

Lemma graph_entries_rn F prime ds r g counts : forall l seen out,
  graph_entries F prime (rn_rel r) (rn_ds ds) (rho g) (rn_counts counts) (map rn_iq l)
                (rn_counts seen) out =
  graph_entries F prime r ds g counts l seen out.
Proof.
  induction l as [|(i, q) l IH]; intros seen out; cbn [map]; [reflexivity|].
  change (rn_iq (i, q)) with (i, rn_quad q). cbn [graph_entries].
  rewrite mk_qkey_rn. destruct (mk_qkey q) as [k| | |]; cbn [rmap bind]; auto.
  cbn [rn_quad qo].
  change (rho g, i) with (rn_didx (g, i)).
  unfold rn_counts at 1 2.
  rewrite !(assoc_pmap qkey_eqb qkey_eqb rn_qkey (fun n : nat => n) qkey_eqb_rn).
  destruct (qo q) as [v|b|v dt]; cbn [rn_node].
  - destruct (assoc qkey_eqb k counts) as [[|c']|]; cbn [option_map]; auto.
    destruct c' as [|c'']; rewrite rel_path_rn.
    + destruct (rel_path r ds (g, i) None) as [p| | |]; cbn [bind];
        first [apply (IH seen)|reflexivity].
    + destruct (assoc qkey_eqb k seen) as [sn|]; cbn [option_map];
        match goal with |- context [rel_path r ds ?a ?b] =>
          destruct (rel_path r ds a b) as [p| | |]; cbn [bind]; try reflexivity end;
        rewrite (upsert_pmap qkey_eqb qkey_eqb rn_qkey (fun n : nat => n) qkey_eqb_rn);
        apply IH.
  - unfold rn_rel. cbn [children].
    rewrite (assoc_pmap qkey_eqb qkey_eqb rn_qkey rn_cm qkey_eqb_rn).
    destruct (assoc qkey_eqb k (children r)); cbn [option_map]; [apply (IH seen)|reflexivity].
  - destruct (convert F dt v prime) as [x| | |]; cbn [bind]; auto.
    destruct (assoc qkey_eqb k counts) as [[|c']|]; cbn [option_map]; auto.
    destruct c' as [|c'']; rewrite rel_path_rn.
    + destruct (rel_path r ds (g, i) None) as [p| | |]; cbn [bind];
        first [apply (IH seen)|reflexivity].
    + destruct (assoc qkey_eqb k seen) as [sn|]; cbn [option_map];
        match goal with |- context [rel_path r ds ?a ?b] =>
          destruct (rel_path r ds a b) as [p| | |]; cbn [bind]; try reflexivity end;
        rewrite (upsert_pmap qkey_eqb qkey_eqb rn_qkey (fun n : nat => n) qkey_eqb_rn);
        apply IH.
Qed.

Lemma count_entries_rn0 l :
  count_entries (map rn_quad l) [] = rmap rn_counts (count_entries l []).
Proof. exact (count_entries_rn l []). Qed.

Lemma graph_entries_rn0 F prime ds r g counts l out :
  graph_entries F prime (rn_rel r) (rn_ds ds) (rho g) (rn_counts counts) (map rn_iq l) [] out =
  graph_entries F prime r ds g counts l [] out.
Proof. exact (graph_entries_rn F prime ds r g counts l [] out). Qed.

(* THE theorem: blank-node labels are unobservable except through the order of graph names *)
Theorem labels_invariance : forall F prime ds,
  mono_on (map fst ds) ->
  entries_from_rdf F prime (rn_ds ds) = entries_from_rdf F prime ds.
Proof.
  intros F prime ds Hm. unfold entries_from_rdf.
  rewrite assert_consistency_rn.
  destruct (assert_consistency ds); cbn [bind]; auto.
  rewrite <- rho_default at 1. rewrite lookup_graph_rn.
  destruct (lookup_graph ds default_graph) as [q0|]; cbn [option_map]; [|reflexivity].
  rewrite (new_relationship_rn ds Hm).
  destruct (new_relationship ds) as [r| | |]; cbn [rmap bind]; auto.
  rewrite (graph_names_rn ds Hm).
  generalize (Ok [] : res (list entry)) as acc.
  induction (graph_names ds) as [|g gs IH]; intros acc; cbn [map fold_left]; [reflexivity|].
  rewrite lookup_graph_rn.
  destruct acc as [out| | |]; cbn [bind].
  - destruct (lookup_graph ds g) as [l|]; cbn [option_map]; [|apply IH].
    rewrite count_entries_rn0.
    destruct (count_entries l []) as [counts| | |]; cbn [rmap bind]; try apply IH.
    rewrite index_from_rn, graph_entries_rn0. apply IH.
  - apply IH.
  - apply IH.
  - apply IH.
Qed.

(* hence the tree and the root (RDF/OrdTree.v's pipeline) *)
Corollary labels_tree : forall H maxlev q F mt ds,
  mono_on (map fst ds) ->
  merklize_tree H maxlev q F mt (rn_ds ds) = merklize_tree H maxlev q F mt ds.
Proof.
  intros H maxlev q F mt ds Hm. unfold merklize_tree. now rewrite (labels_invariance F _ ds Hm).
Qed.
End Rename.

(* ------------------------------------------------------------------ *)
(* non-vacuity: prefix every label with "_:b" (injective, fixes the reserved names,     *)
(* monotone), on Order.ex_ds (three graphs, two named)                                   *)
(* ------------------------------------------------------------------ *)
Definition rho_demo (s : string) : string :=
  if String.eqb s "" then s else if String.eqb s default_graph then s else "_:b" ++ s.

Ltac eqb_cases :=
  repeat match goal with
         | H : String.eqb _ _ = true |- _ => apply String.eqb_eq in H; subst
         end.

Lemma rho_demo_inj : forall a b, rho_demo a = rho_demo b -> a = b.
Proof.
  intros a b. unfold rho_demo.
  destruct (String.eqb a "") eqn:A1; destruct (String.eqb a default_graph) eqn:A2;
  destruct (String.eqb b "") eqn:B1; destruct (String.eqb b default_graph) eqn:B2;
  eqb_cases; simpl; intros H; try discriminate; try congruence.
Qed.

Lemma mono_ex_ds : mono_on rho_demo (map fst ex_ds).
Proof.
  intros a b Ha Hb. simpl in Ha, Hb.
  destruct Ha as [<-|[<-|[<-|[]]]]; destruct Hb as [<-|[<-|[<-|[]]]]; vm_compute; reflexivity.
Qed.

Example labels_demo :
  rn_ds rho_demo ex_ds <> ex_ds /\
  entries_from_rdf no_floats 97 (rn_ds rho_demo ex_ds) = entries_from_rdf no_floats 97 ex_ds.
Proof.
  split; [vm_compute; discriminate|].
  apply (labels_invariance rho_demo rho_demo_inj eq_refl eq_refl). exact mono_ex_ds.
Qed.

(* monotonicity on the graph names cannot be dropped: swapping the names of the two graphs
   (an injective renaming that fixes the reserved names) swaps the indices of the children *)
Definition rho_swap (s : string) : string :=
  if String.eqb s "_:g1" then "_:g2" else if String.eqb s "_:g2" then "_:g1" else s.

Lemma rho_swap_inj : forall a b, rho_swap a = rho_swap b -> a = b.
Proof.
  intros a b. unfold rho_swap.
  destruct (String.eqb a "_:g1") eqn:A1; destruct (String.eqb a "_:g2") eqn:A2;
  destruct (String.eqb b "_:g1") eqn:B1; destruct (String.eqb b "_:g2") eqn:B2;
  eqb_cases; simpl; intros H; try discriminate; try congruence; subst;
  try (rewrite String.eqb_refl in *; discriminate).
Qed.

Theorem labels_needs_monotone :
  exists rho F prime ds,
    (forall a b, rho a = rho b -> a = b) /\ rho default_graph = default_graph /\ rho "" = "" /\
    entries_from_rdf F prime (rn_ds rho ds) <> entries_from_rdf F prime ds.
Proof.
  exists rho_swap, no_floats, 97%Z, ex_ds.
  split; [exact rho_swap_inj|]. split; [reflexivity|]. split; [reflexivity|].
  vm_compute. discriminate.
Qed.

(* injectivity cannot be dropped either: merging the labels of the two graphs merges the graphs'
   names (two keys of the map collide) *)
Definition rho_merge (s : string) : string := if String.eqb s "_:g2" then "_:g1" else s.

Theorem labels_needs_injective :
  exists rho F prime ds,
    rho default_graph = default_graph /\ rho "" = "" /\
    (forall a b, In a (map fst ds) -> In b (map fst ds) -> str_leb a b = true -> str_leb (rho a) (rho b) = true) /\
    entries_from_rdf F prime (rn_ds rho ds) <> entries_from_rdf F prime ds.
Proof.
  exists rho_merge, no_floats, 97%Z, ex_ds.
  split; [reflexivity|]. split; [reflexivity|]. split.
  - intros a b Ha Hb. simpl in Ha, Hb.
    destruct Ha as [<-|[<-|[<-|[]]]]; destruct Hb as [<-|[<-|[<-|[]]]]; vm_compute; auto.
  - vm_compute. discriminate.
Qed.
