(* RDF/Model.v — executable model of merklize.EntriesFromRDFWithHasher and its
   helpers (merklize/merklize.go): assertDatasetConsistency (1845-1881),
   getRef (669-678), getGraphName (1365-1376), mkQArrKey (790-817),
   findParentInsideGraph / findGraphParent / findParent (680-782),
   iterGraphsOrdered (820-838), newRelationship (840-896), getQuad (898-909),
   relationship.path incl. the cycle guard (911-1003), countEntries (1351-1361),
   EntriesFromRDFWithHasher (1020-1118).  No proofs in this file.

   A dataset is the Go map ds.Graphs as an association list in ARBITRARY order
   (theorems quantify over permutations).  Quads are identified by position,
   which coincides with Go's pointer identity because neither json-gold nor the
   harness aliases quad pointers.

   Follows /repo as of fix b73a54e: findParentInsideGraph does not skip the asking
   quad any more (`scan_in`); findGraphParent still does (`scan`, `scan_all`). *)
From Coq Require Import ZArith List String Ascii Bool Arith.
From GSP Require Import Base.Prelude Value.Time Value.Model.
Import ListNotations.
Open Scope string_scope.
Open Scope list_scope.

(* ld.Node: *ld.IRI | *ld.BlankNode | *ld.Literal *)
Inductive node :=
| NIri (s : string)
| NBlank (s : string)
| NLit (value datatype : string).

Record quad := { qs : node; qp : node; qo : node; qg : option node }.
Definition dataset := list (string * list quad).

Definition default_graph := "@default".

(* refTp *)
Inductive ref := RIri (s : string) | RBlank (s : string).
Definition ref_eqb (a b : ref) : bool :=
  match a, b with
  | RIri x, RIri y => String.eqb x y
  | RBlank x, RBlank y => String.eqb x y
  | _, _ => false
  end.

(* getRef: None = errInvalidReferenceType *)
Definition get_ref (n : node) : option ref :=
  match n with NIri s => Some (RIri s) | NBlank s => Some (RBlank s) | NLit _ _ => None end.

(* getGraphName *)
Definition graph_name (q : quad) : res string :=
  match qg q with
  | None => Ok default_graph
  | Some (NBlank a) => Ok a
  | Some _ => Err "graph-not-blank"
  end.

Fixpoint lookup_graph (ds : dataset) (g : string) : option (list quad) :=
  match ds with
  | [] => None
  | (n, qsl) :: t => if String.eqb n g then Some qsl else lookup_graph t g
  end.

(* datasetIdx *)
Definition didx := (string * nat)%type.
Definition didx_eqb (a b : didx) : bool := String.eqb (fst a) (fst b) && Nat.eqb (snd a) (snd b).

(* qArrKey *)
Record qkey := { ks : ref; kp : string; kg : string }.
Definition qkey_eqb (a b : qkey) : bool :=
  ref_eqb (ks a) (ks b) && String.eqb (kp a) (kp b) && String.eqb (kg a) (kg b).

(* mkQArrKey *)
Definition mk_qkey (q : quad) : res qkey :=
  g <- graph_name q ;;
  match get_ref (qs q) with
  | None => Err "invalid-subject"
  | Some s =>
    match qp q with
    | NIri p => Ok {| ks := s; kp := p; kg := g |}
    | _ => Err "invalid-predicate"
    end
  end.

(* ---- assertDatasetConsistency ---- *)
Definition quad_consistent (graph : string) (q : quad) : res unit :=
  if String.eqb graph "" then Err "empty-graph-name" else
  match qg q with
  | Some gn =>
    if String.eqb graph default_graph then Err "default-with-graph" else
    match gn with
    | NBlank a => if String.eqb a graph then
                    match qp q with NIri _ => Ok tt | _ => Err "predicate-not-iri" end
                  else Err "graph-attr-mismatch"
    | _ => Err "graph-not-blank"
    end
  | None =>
    if negb (String.eqb graph default_graph) then Err "nil-graph-in-named" else
    match qp q with NIri _ => Ok tt | _ => Err "predicate-not-iri" end
  end.

Fixpoint quads_consistent (graph : string) (qsl : list quad) : res unit :=
  match qsl with
  | [] => Ok tt
  | q :: t => _ <- quad_consistent graph q ;; quads_consistent graph t
  end.

Fixpoint assert_consistency (ds : dataset) : res unit :=
  match ds with
  | [] => Ok tt
  | (g, qsl) :: t => _ <- quads_consistent g qsl ;; assert_consistency t
  end.

(* ---- parent search ---- *)
(* result of a search: found one / none / error *)
Inductive found := FNone | FOne (i : didx).

(* scan the quads of graph g (positions from i0) for object = key, skipping
   position `skip` (the quad itself); more than one hit = errMultipleParentsFound.
   Used by findGraphParent, which still skips the asking quad. *)
Fixpoint scan (g : string) (qsl : list quad) (i0 : nat) (key : ref) (skip : didx)
              (acc : found) : res found :=
  match qsl with
  | [] => Ok acc
  | q :: t =>
    if didx_eqb skip (g, i0) then scan g t (S i0) key skip acc else
    match get_ref (qo q) with
    | Some r =>
      if ref_eqb r key then
        match acc with
        | FOne _ => Err "multiple-parents"
        | FNone => scan g t (S i0) key skip (FOne (g, i0))
        end
      else scan g t (S i0) key skip acc
    | None => scan g t (S i0) key skip acc
    end
  end.

(* the same scan without a skipped position: since fix b73a54e findParentInsideGraph no
   longer skips the asking quad (a quad whose object is its own subject is its own
   parent, and relationship.path then reports the reference cycle) *)
Fixpoint scan_in (g : string) (qsl : list quad) (i0 : nat) (key : ref) (acc : found) : res found :=
  match qsl with
  | [] => Ok acc
  | q :: t =>
    match get_ref (qo q) with
    | Some r =>
      if ref_eqb r key then
        match acc with
        | FOne _ => Err "multiple-parents"
        | FNone => scan_in g t (S i0) key (FOne (g, i0))
        end
      else scan_in g t (S i0) key acc
    | None => scan_in g t (S i0) key acc
    end
  end.

(* findParentInsideGraph (`me` is kept for the signature; the asking quad is not skipped) *)
Definition find_parent_inside_graph (ds : dataset) (me : didx) (q : quad) : res found :=
  g <- graph_name q ;;
  match lookup_graph ds g with
  | None => Err "graph-not-found"
  | Some qsl =>
    match get_ref (qs q) with
    | None => Err "invalid-reference"
    | Some key => scan_in g qsl 0 key FNone
    end
  end.

Fixpoint scan_all (gs : dataset) (key : ref) (skip : didx) (acc : found) : res found :=
  match gs with
  | [] => Ok acc
  | (g, qsl) :: t => f <- scan g qsl 0 key skip acc ;; scan_all t key skip f
  end.

(* findGraphParent: iterates ds.Graphs in map (= list) order *)
Definition find_graph_parent (ds : dataset) (me : didx) (q : quad) : res found :=
  match qg q with
  | None => Ok FNone
  | Some gn =>
    match get_ref gn with
    | None => Err "invalid-reference"
    | Some (RIri _) => Err "graph-parent-not-blank"
    | Some key => scan_all ds key me FNone
    end
  end.

(* findParent *)
Definition find_parent (ds : dataset) (me : didx) (q : quad) : res found :=
  f <- find_parent_inside_graph ds me q ;;
  match f with
  | FOne p => Ok (FOne p)
  | FNone => find_graph_parent ds me q
  end.

(* getQuad *)
Definition get_quad (ds : dataset) (i : didx) : res quad :=
  match lookup_graph ds (fst i) with
  | None => Err "graph-not-found"
  | Some l => match nth_error l (snd i) with Some q => Ok q | None => Err "quad-not-found" end
  end.

(* ---- relationship ---- *)
Record rel := {
  parents : list (didx * didx);
  children : list (qkey * list (ref * nat))
}.
Definition empty_rel : rel := {| parents := []; children := [] |}.

Definition step_rel (ds : dataset) (g : string) (acc : res rel) (iq : nat * quad) : res rel :=
  r <- acc ;;
  let '(i, q) := iq in
  f <- find_parent ds (g, i) q ;;
  match f with
  | FNone => Ok r
  | FOne p =>
    pq <- get_quad ds p ;;
    k <- mk_qkey pq ;;
    match get_ref (qs q) with
    | None => Err "invalid-reference"
    | Some cref =>
      let cm := match assoc qkey_eqb k (children r) with Some m => m | None => [] end in
      let cm' := match assoc ref_eqb cref cm with
                 | Some _ => cm
                 | None => cm ++ [(cref, List.length cm)]
                 end in
      Ok {| parents := upsert didx_eqb (g, i) p (parents r);
            children := upsert qkey_eqb k cm' (children r) |}
    end
  end.

(* iterGraphsOrdered *)
Definition graph_names (ds : dataset) : list string := sort_strings (map fst ds).

Definition new_relationship (ds : dataset) : res rel :=
  fold_left (fun acc g =>
      match lookup_graph ds g with
      | Some qsl => fold_left (step_rel ds g) (index_from 0 qsl) acc
      | None => acc
      end)
    (graph_names ds) (Ok empty_rel).

(* ---- relationship.path ---- *)
Inductive part := PStr (s : string) | PInt (z : Z).

Definition pred_iri (q : quad) : res string :=
  match qp q with NIri p => Ok p | _ => Err "predicate-not-iri" end.

Fixpoint mem_didx (i : didx) (l : list didx) : bool :=
  match l with [] => false | h :: t => didx_eqb h i || mem_didx i t end.

(* the parent walk; `visited` is the cycle guard; fuel only makes the recursion
   structural (RDF/Theory.v: it is never exhausted when fuel > number of quads) *)
Fixpoint walk (fuel : nat) (r : rel) (ds : dataset) (visited : list didx) (cur : didx)
              (k : list part) : res (list part) :=
  match fuel with
  | O => Diverge
  | S f =>
    match assoc didx_eqb cur (parents r) with
    | None => Ok k
    | Some p =>
      if mem_didx p visited then Err "reference-cycle" else
      pq <- get_quad ds p ;;
      pk <- mk_qkey pq ;;
      match assoc qkey_eqb pk (children r) with
      | None => Err "parent-mapping-not-found"
      | Some cm =>
        cq <- get_quad ds cur ;;
        match get_ref (qs cq) with
        | None => Err "invalid-reference"
        | Some cref =>
          match assoc ref_eqb cref cm with
          | None => Err "child-not-found"
          | Some ci =>
            pp <- pred_iri pq ;;
            let k' := if Nat.eqb (List.length cm) 1 then k ++ [PStr pp]
                      else k ++ [PInt (Z.of_nat ci); PStr pp] in
            walk f r ds (p :: visited) p k'
          end
        end
      end
    end
  end.

Definition total_quads (ds : dataset) : nat :=
  fold_right (fun g a => (List.length (snd g) + a)%nat) O ds.

Definition rel_path (r : rel) (ds : dataset) (i : didx) (idx : option nat) : res (list part) :=
  q <- get_quad ds i ;;
  p <- pred_iri q ;;
  let k0 := (match idx with Some n => [PInt (Z.of_nat n)] | None => [] end) ++ [PStr p] in
  k <- walk (S (S (total_quads ds))) r ds [i] i k0 ;;
  Ok (rev k).

(* ---- countEntries ---- *)
Fixpoint count_entries (qsl : list quad) (acc : list (qkey * nat)) : res (list (qkey * nat)) :=
  match qsl with
  | [] => Ok acc
  | q :: t =>
    k <- mk_qkey q ;;
    let c := match assoc qkey_eqb k acc with Some n => n | None => O end in
    count_entries t (upsert qkey_eqb k (S c) acc)
  end.

(* ---- entries ---- *)
Record entry := { e_key : list part; e_val : xval; e_dt : string }.

(* one graph: fold over the quads with the seenCount map *)
Fixpoint graph_entries (F : floats) (prime : Z) (r : rel) (ds : dataset) (g : string)
         (counts : list (qkey * nat)) (l : list (nat * quad)) (seen : list (qkey * nat))
         (out : list entry) : res (list entry) :=
  match l with
  | [] => Ok out
  | (i, q) :: t =>
    k <- mk_qkey q ;;
    let emit (v : xval) (dt : string) :=
      match assoc qkey_eqb k counts with
      | None | Some O => Err "assert-count"
      | Some (S c') =>
        let s := match assoc qkey_eqb k seen with Some n => n | None => O end in
        let '(idx, seen') := match c' with
                             | O => (None, seen)
                             | S _ => (Some s, upsert qkey_eqb k (S s) seen)
                             end in
        p <- rel_path r ds (g, i) idx ;;
        graph_entries F prime r ds g counts t seen' (out ++ [{| e_key := p; e_val := v; e_dt := dt |}])
      end in
    match qo q with
    | NLit v dt => x <- convert F dt v prime ;; emit x dt
    | NIri v => emit (XStr v) ""
    | NBlank _ =>
      match assoc qkey_eqb k (children r) with
      | Some _ => graph_entries F prime r ds g counts t seen out
      | None => Err "blank-node-unsupported"
      end
    end
  end.

Definition entries_from_rdf (F : floats) (prime : Z) (ds : dataset) : res (list entry) :=
  _ <- assert_consistency ds ;;
  match lookup_graph ds default_graph with
  | None => Err "no-default-graph"
  | Some _ =>
    r <- new_relationship ds ;;
    fold_left (fun acc g =>
        out <- acc ;;
        match lookup_graph ds g with
        | Some qsl =>
          counts <- count_entries qsl [] ;;
          graph_entries F prime r ds g counts (index_from 0 qsl) [] out
        | None => Ok out
        end)
      (graph_names ds) (Ok [])
  end.
