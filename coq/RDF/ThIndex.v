(* RDF/ThIndex.v — the numbering statements of C01: value indices of a
   (subject, predicate, graph) group are exactly 0..m-1 and exist iff the group
   has more than one quad; child indices of a parent key are exactly 0..c-1 and
   exist iff the key has more than one child node; characterisation of the
   referrer lists used by the spec. *)
From Coq Require Import ZArith List String Ascii Bool Arith Lia Permutation.
From GSP Require Import Base.Prelude Value.Time Value.Model RDF.Model RDF.Spec
  RDF.ThBase RDF.ThTotal RDF.ThRel RDF.ThPath RDF.ThEntries.
Import ListNotations.
Open Scope string_scope.
Open Scope list_scope.

(* ---- referrers, in words ---- *)
Lemma refers_to_iff : forall key q, refers_to key q = true <-> get_ref (qo q) = Some key.
Proof.
  intros key q. unfold refers_to. destruct (get_ref (qo q)) as [r|]; [|split; discriminate].
  rewrite ref_eqb_spec. split; [intros ->; reflexivity|intros H; now inversion H].
Qed.

Lemma referrers_in_iff : forall g l key j,
  In j (referrers_in g l key) <->
  fst j = g /\ exists q, nth_error l (snd j) = Some q /\ get_ref (qo q) = Some key.
Proof.
  intros g l key j. unfold referrers_in, graph_positions. rewrite in_map_iff. split.
  - intros ((j', q) & Hj & Hin). simpl in Hj. subst j'. apply filter_In in Hin.
    destruct Hin as (Hin & Hf). apply graph_positions_from_in in Hin.
    destruct Hin as (Hg & _ & Hn). rewrite Nat.sub_0_r in Hn.
    unfold is_referrer in Hf. simpl in Hf.
    split; [assumption|]. exists q. split; [assumption|]. now apply refers_to_iff.
  - intros (Hg & q & Hn & Hr). exists (j, q). split; [reflexivity|].
    apply filter_In. split.
    + apply graph_positions_from_in. rewrite Nat.sub_0_r. repeat split; auto. lia.
    + unfold is_referrer. simpl. now apply refers_to_iff.
Qed.

Lemma other_referrers_in_iff : forall g l self key j,
  In j (other_referrers_in g l self key) <->
  fst j = g /\ j <> self /\ exists q, nth_error l (snd j) = Some q /\ get_ref (qo q) = Some key.
Proof.
  intros g l self key j. unfold other_referrers_in, graph_positions. rewrite in_map_iff. split.
  - intros ((j', q) & Hj & Hin). simpl in Hj. subst j'. apply filter_In in Hin.
    destruct Hin as (Hin & Hf). apply graph_positions_from_in in Hin.
    destruct Hin as (Hg & _ & Hn). rewrite Nat.sub_0_r in Hn.
    unfold is_other_referrer in Hf. simpl in Hf. apply andb_true_iff in Hf. destruct Hf as (Hne & Hr).
    split; [assumption|]. split.
    + intros ->. now rewrite didx_eqb_refl in Hne.
    + exists q. split; [assumption|]. now apply refers_to_iff.
  - intros (Hg & Hne & q & Hn & Hr). exists (j, q). split; [reflexivity|].
    apply filter_In. split.
    + apply graph_positions_from_in. rewrite Nat.sub_0_r. repeat split; auto. lia.
    + unfold is_other_referrer. simpl. apply andb_true_iff. split; [|now apply refers_to_iff].
      destruct (didx_eqb self j) eqn:E; [|reflexivity]. apply didx_eqb_spec in E. congruence.
Qed.

(* the quads of graph g whose object is `key` *)
Lemma referrers_iff : forall ds g key j,
  In j (referrers ds g key) <->
  fst j = g /\ exists q, quad_at ds j = Some q /\ get_ref (qo q) = Some key.
Proof.
  intros ds g key j. unfold referrers, quad_at. split.
  - destruct (lookup_graph ds g) as [l|] eqn:El; [|contradiction].
    intros H. apply referrers_in_iff in H. destruct H as (Hg & q & Hn & Hr).
    rewrite Hg, El. eauto 6.
  - intros (Hg & q & Hq & Hr). rewrite Hg in Hq.
    destruct (lookup_graph ds g) as [l|]; [|discriminate].
    apply referrers_in_iff. eauto 6.
Qed.

(* the quads of the dataset, other than `self`, whose object is `key` *)
Lemma all_referrers_iff : forall ds self key j, is_map ds ->
  (In j (all_referrers ds self key) <->
   j <> self /\ exists q, quad_at ds j = Some q /\ get_ref (qo q) = Some key).
Proof.
  intros ds self key j Hm. unfold all_referrers. rewrite in_flat_map. split.
  - intros ((g, l) & Hin & Hj). simpl in Hj. apply other_referrers_in_iff in Hj.
    destruct Hj as (Hg & Hne & q & Hn & Hr). split; [assumption|]. exists q. split; [|assumption].
    unfold quad_at. rewrite Hg. now rewrite (lookup_graph_unique _ _ _ Hm Hin).
  - intros (Hne & q & Hq & Hr). unfold quad_at in Hq.
    destruct (lookup_graph ds (fst j)) as [l|] eqn:El; [|discriminate].
    exists (fst j, l). split; [now apply lookup_graph_in|]. simpl.
    apply other_referrers_in_iff. eauto 6.
Qed.

Lemma two_in_length : forall {A} (l : list A) a b, In a l -> In b l -> a <> b -> (2 <= List.length l)%nat.
Proof.
  induction l as [|x t IH]; intros a b Ha Hb Hne; simpl in *; [contradiction|].
  destruct Ha as [Ha|Ha], Hb as [Hb|Hb].
  - congruence.
  - destruct t; [contradiction|simpl; lia].
  - destruct t; [contradiction|simpl; lia].
  - specialize (IH a b Ha Hb Hne). lia.
Qed.

(* ---- value indices ---- *)
Definition members (g : string) (k : qkey) (l : list (didx * quad)) : list (didx * quad) :=
  filter (fun iq => same_key g k (snd iq) && is_value (snd iq)) l.

Lemma value_index_members : forall ds g l k,
  lookup_graph ds g = Some l ->
  forall suf pre, l = pre ++ suf ->
  map (fun iq => value_index ds (fst iq)) (members g k (graph_positions_from g (List.length pre) suf)) =
  if Nat.leb (group_size g l k) 1
  then map (fun _ => None) (members g k (graph_positions_from g (List.length pre) suf))
  else map Some (seq (vcount g k pre) (List.length (members g k (graph_positions_from g (List.length pre) suf)))).
Proof.
  intros ds g l k Hl. induction suf as [|q t IH]; intros pre Hsplit.
  - simpl. destruct (Nat.leb (group_size g l k) 1); reflexivity.
  - assert (Hsplit' : l = (pre ++ [q]) ++ t) by (now rewrite <- app_assoc).
    assert (Hlen' : List.length (pre ++ [q]) = S (List.length pre)) by (rewrite app_length; simpl; lia).
    specialize (IH (pre ++ [q]) Hsplit'). rewrite Hlen' in IH.
    change (graph_positions_from g (List.length pre) (q :: t)) with
      (((g, List.length pre), q) :: graph_positions_from g (S (List.length pre)) t).
    unfold members in *. cbn [filter snd].
    destruct (same_key g k q && is_value q) eqn:Em.
    + apply andb_true_iff in Em. destruct Em as (Hsk & Hv).
      assert (Hkey : key_of g q = Some k).
      { unfold same_key in Hsk. destruct (key_of g q) as [k'|]; [|discriminate].
        apply qkey_eqb_spec in Hsk. now subst. }
      cbn [map fst List.length]. rewrite IH.
      rewrite (value_index_at ds g pre q t k); [|now rewrite <- Hsplit|exact Hkey].
      rewrite <- Hsplit.
      assert (Hvc : vcount g k (pre ++ [q]) = S (vcount g k pre)).
      { unfold vcount. rewrite filter_app, app_length. simpl. rewrite Hsk, Hv. simpl. lia. }
      rewrite Hvc. destruct (Nat.leb (group_size g l k) 1); reflexivity.
    + rewrite IH.
      assert (Hvc : vcount g k (pre ++ [q]) = vcount g k pre).
      { unfold vcount. rewrite filter_app, app_length. simpl. rewrite Em. simpl. lia. }
      now rewrite Hvc.
Qed.

(* value indices of a group: none if the group has one quad, else exactly 0..m-1 in order *)
Theorem value_indices_exact : forall ds g l k,
  lookup_graph ds g = Some l ->
  let ms := members g k (graph_positions g l) in
  map (fun iq => value_index ds (fst iq)) ms =
  if Nat.leb (group_size g l k) 1 then map (fun _ => None) ms
  else map Some (seq 0 (List.length ms)).
Proof.
  intros ds g l k Hl. exact (value_index_members ds g l k Hl l [] eq_refl).
Qed.

(* ---- child indices ---- *)
Lemma add_new_in : forall acc s x, In x (add_new acc s) <-> In x acc \/ x = s.
Proof.
  intros acc s x. unfold add_new. destruct (existsb (fun c => ref_eqb c s) acc) eqn:E.
  - split; [auto|]. intros [H | ->]; [assumption|].
    apply existsb_exists in E. destruct E as (c & Hc & He). apply ref_eqb_spec in He. now subst.
  - rewrite in_app_iff. simpl. intuition.
Qed.

Lemma add_new_nodup : forall acc s, NoDup acc -> NoDup (add_new acc s).
Proof.
  intros acc s H. unfold add_new. destruct (existsb (fun c => ref_eqb c s) acc) eqn:E; [assumption|].
  assert (Hn : ~ In s acc).
  { intros Hin. assert (existsb (fun c => ref_eqb c s) acc = true).
    { apply existsb_exists. exists s. split; [assumption|apply ref_eqb_refl]. } congruence. }
  clear E. induction acc as [|a acc IH]; simpl.
  - constructor; [intros []|constructor].
  - inversion H; subst. constructor.
    + rewrite in_app_iff. simpl. intros [Hin | [-> | []]]; [contradiction|]. apply Hn. now left.
    + apply IH; [assumption|]. intros Hin. apply Hn. now right.
Qed.

Lemma fold_add_new_nodup : forall l acc, NoDup acc -> NoDup (fold_left add_new l acc).
Proof.
  induction l as [|s l IH]; intros acc H; simpl; [assumption|]. apply IH. now apply add_new_nodup.
Qed.

Lemma fold_add_new_in : forall l acc x, In x (fold_left add_new l acc) <-> In x acc \/ In x l.
Proof.
  induction l as [|s l IH]; intros acc x; simpl; [tauto|].
  rewrite IH, add_new_in. intuition.
Qed.

Lemma child_nodes_nodup : forall ds k, NoDup (child_nodes ds k).
Proof. intros ds k. unfold child_nodes, kids. apply fold_add_new_nodup. constructor. Qed.

Lemma index_of_none : forall cs c, ~ In c cs -> index_of c cs = None.
Proof.
  induction cs as [|a cs IH]; intros c H; simpl; [reflexivity|].
  destruct (ref_eqb a c) eqn:E.
  - apply ref_eqb_spec in E. subst. exfalso. apply H. now left.
  - rewrite IH; [reflexivity|]. intros Hin. apply H. now right.
Qed.

Lemma index_of_nodup : forall cs, NoDup cs ->
  map (fun c => index_of c cs) cs = map Some (seq 0 (List.length cs)).
Proof.
  induction cs as [|a cs IH]; intros H; simpl; [reflexivity|].
  inversion H as [|? ? Hna Hnd]; subst. rewrite ref_eqb_refl. f_equal.
  rewrite <- seq_shift, map_map. rewrite <- (map_map Some (option_map S)).
  rewrite <- (IH Hnd), map_map.
  apply map_ext_in. intros c Hc.
  destruct (ref_eqb a c) eqn:E; [|reflexivity].
  apply ref_eqb_spec in E. subst. contradiction.
Qed.

(* child indices of a parent key: none if it has one child node, else exactly 0..c-1 *)
Theorem child_indices_exact : forall ds k,
  let cs := child_nodes ds k in
  NoDup cs /\
  (List.length cs = 1%nat -> forall c, child_index ds k c = None) /\
  (List.length cs <> 1%nat -> map (child_index ds k) cs = map Some (seq 0 (List.length cs))) /\
  (forall c, ~ In c cs -> child_index ds k c = None).
Proof.
  intros ds k cs. assert (Hnd : NoDup cs) by apply child_nodes_nodup.
  split; [assumption|]. unfold child_index. fold cs. split; [|split].
  - intros H c. now rewrite H.
  - intros H. apply Nat.eqb_neq in H. rewrite H. now apply index_of_nodup.
  - intros c Hc. destruct (Nat.eqb (List.length cs) 1); [reflexivity|]. now apply index_of_none.
Qed.

(* the node of a quad with a parent is one of the numbered children of the parent's key *)
Lemma child_member : forall ds i qi si j kj,
  quad_at ds i = Some qi -> get_ref (qs qi) = Some si ->
  parent ds i = Some j -> key_at ds j = Some kj ->
  In si (child_nodes ds kj).
Proof.
  intros ds i qi si j kj Hqi Hsi Hp Hk. unfold child_nodes, kids.
  apply fold_add_new_in. right. unfold subj_refs. apply in_flat_map.
  exists (i, qi). split.
  - apply filter_In. split; [now apply positions_in|].
    unfold is_child_of. simpl. rewrite Hp, Hk. apply qkey_eqb_refl.
  - simpl. rewrite Hsi. now left.
Qed.

(* the integer at the end of an entry's key is the value index *)
Lemma last_index_key : forall pi p o,
  last_index (pi ++ [PStr p] ++ opt_part o) = option_map Z.of_nat o.
Proof.
  intros pi p o. unfold last_index. rewrite !rev_app_distr. destruct o; reflexivity.
Qed.
