(* RDF/OrdRun.v — per-run evaluation of RDF/OrdTree.v's merklize_tree (dataset ->
   entries -> keys of mz.entries -> AddEntriesToMerkleTree -> tree) against the
   implementation's ROOT.  No proofs here.

   A case carries: the dataset (graph list in an order chosen by the harness: sorted,
   reversed or random), the recorded PRIMITIVE calls of the configured hasher
   (Hash / HashBytes, Value/Run.v's raw_hasher), the recorded primitive Poseidon calls
   of the tree (leaf = Poseidon[k;v;1], middle = Poseidon[l;r]; SMT/Run.v's tables, a
   miss answers -1 and therefore surfaces as a disagreement), and what the
   implementation did: the root, or an error. *)
From Coq Require Import ZArith List String Ascii Bool Uint63.
From GSP Require Import Base.Prelude Base.Decode Value.Time Value.Model Value.Run
                        RDF.Model RDF.OrdTree RDF.OrdFail SMT.Model SMT.Run.
Import ListNotations.
Open Scope list_scope.

Inductive tobs := TORoot (r : limbs) | TOErr | TOPanic | TOHang.

(* failk = 0: MerklizeJSONLD with the default tree; failk = k > 0: with a caller-provided
   tree (WithMerkleTree) whose k-th Add fails (merklize_tree_ft of RDF/OrdFail.v) *)
Inductive tcase :=
| mkt (id : int) (h : raw_hasher) (thl thm : raw_tab) (ds : dataset) (o : tobs)
| mktf (id : int) (failk : int) (h : raw_hasher) (thl thm : raw_tab) (ds : dataset) (o : tobs).

Definition tagree (hl hm : Z -> Z -> Z) (r : res tree) (o : tobs) : bool :=
  match r, o with
  | Ok t, TORoot l => Z.eqb (root hl hm t) (z_of_limbs l)
  | Err _, TOErr => true
  | _, _ => false
  end.

(* maxLevels = 40 (MerklizeJSONLD's default tree); q = constants.Q, given by the harness *)
Definition tmismatches (q : limbs) (rf : raw_floats) (cs : list tcase) : list int :=
  let F := mk_floats rf in
  let qz := z_of_limbs q in
  fold_right (fun c acc =>
      match c with
      | mkt id h thl thm ds o =>
        let tl := mk_tab thl in
        let tm := mk_tab thm in
        if tagree (fun a b => look2 a b tl) (fun a b => look2 a b tm)
                  (merklize_tree (mk_hasher h) 40 qz F None ds) o
        then acc else id :: acc
      | mktf id k h thl thm ds o =>
        let tl := mk_tab thl in
        let tm := mk_tab thm in
        if tagree (fun a b => look2 a b tl) (fun a b => look2 a b tm)
                  (merklize_tree_ft (mk_hasher h) 40 qz (Z.to_nat (Uint63.to_Z k)) F None ds) o
        then acc else id :: acc
      end) [] cs.
