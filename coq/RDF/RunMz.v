(* RDF/RunMz.v — per-run evaluation for C01: RDF/Run.v's comparison of the entries
   plus the tree leg that needs no hash tables.  Observed: what MerklizeJSONLD (documents)
   or AddEntriesToMerkleTree (hand-built datasets) did after the entries were built:
   not run / error / ok with the number of leaves found by walking the tree.
   Model side (RDF/ThLeaves.v leaves_exact, distinct_paths): a successful merklization has
   exactly one leaf per entry and pairwise different entry paths; so
     entries Ok es, tree ok with n leaves  -> n = |es| and the paths of es are pairwise distinct
     entries Err,   tree ok                -> disagreement
   (a tree error after Ok entries is not decided here: it depends on hash values; the
   document stream's oracle "valid documents merklize" and C02 cover that side). *)
From Coq Require Import ZArith List String Ascii Bool Uint63.
From GSP Require Import Base.Prelude Base.Decode Value.Time Value.Model Value.Run RDF.Model RDF.Spec RDF.Run.
Import ListNotations.
Open Scope list_scope.

Inductive mzobs := MZSkip | MZErr | MZOk (leaves : int).

Definition magree (r : res (list entry)) (m : mzobs) : bool :=
  match m with
  | MZSkip | MZErr => true
  | MZOk n =>
    match r with
    | Ok es => Z.eqb (Z.of_nat (List.length es)) (Uint63.to_Z n) && distinct_paths (map e_key es)
    | _ => false
    end
  end.

Record mcase := { m_case : rcase; m_mz : mzobs }.
Definition mkrm (id : int) (p : limbs) (ds : dataset) (o : robs) (m : mzobs) : mcase :=
  {| m_case := mkr id p ds o; m_mz := m |}.

Definition rmmismatches (rf : raw_floats) (cs : list mcase) : list int :=
  let F := mk_floats rf in
  fold_right (fun c acc =>
      let r := entries_from_rdf F (z_of_limbs (r_prime (m_case c))) (r_ds (m_case c)) in
      if ragree r (r_obs (m_case c)) && magree r (m_mz c) then acc
      else r_id (m_case c) :: acc) [] cs.
