(* RDF/Run.v — evaluation of per-run case files for the RDF -> entries model
   (C01, C03, C12): the dataset json-gold produced (or a hand-built one), the
   prime of the configured hasher, the recorded float primitives, and what
   EntriesFromRDFWithHasher returned. *)
From Coq Require Import ZArith List String Ascii Bool Uint63.
From GSP Require Import Base.Prelude Base.Decode Value.Time Value.Model Value.Run RDF.Model.
Import ListNotations.
Open Scope list_scope.

Definition mkq (s p o : node) (g : option node) : quad := {| qs := s; qp := p; qo := o; qg := g |}.

Inductive rpart := RPS (s : string) | RPI (i : int).
Definition part_eqb (a : part) (b : rpart) : bool :=
  match a, b with
  | PStr x, RPS y => String.eqb x y
  | PInt x, RPI y => Z.eqb x (Uint63.to_Z y)
  | _, _ => false
  end.
Fixpoint parts_eqb (a : list part) (b : list rpart) : bool :=
  match a, b with
  | [], [] => true
  | x :: a', y :: b' => part_eqb x y && parts_eqb a' b'
  | _, _ => false
  end.

Definition xval_eqb (a b : xval) : bool :=
  match a, b with
  | XBool x, XBool y => Bool.eqb x y
  | XBig x, XBig y => Z.eqb x y
  | XInt64 x, XInt64 y => Z.eqb x y
  | XTime u n, XTime u' n' => Z.eqb u u' && Z.eqb n n'
  | XStr x, XStr y => String.eqb x y
  | _, _ => false
  end.

(* observed entry: key parts, value, datatype *)
Definition rentry := (list rpart * raw_xval * string)%type.
Definition entry_eqb (e : entry) (r : rentry) : bool :=
  let '(k, v, dt) := r in
  parts_eqb (e_key e) k && xval_eqb (e_val e) (xval_of v) && String.eqb (e_dt e) dt.
Fixpoint entries_eqb (a : list entry) (b : list rentry) : bool :=
  match a, b with
  | [], [] => true
  | x :: a', y :: b' => entry_eqb x y && entries_eqb a' b'
  | _, _ => false
  end.

Inductive robs := ROEntries (l : list rentry) | ROErr | ROPanic | ROHang.

Record rcase := { r_id : int; r_prime : limbs; r_ds : dataset; r_obs : robs }.
Definition mkr (id : int) (p : limbs) (ds : dataset) (o : robs) : rcase :=
  {| r_id := id; r_prime := p; r_ds := ds; r_obs := o |}.

Definition ragree (r : res (list entry)) (o : robs) : bool :=
  match r, o with
  | Ok es, ROEntries l => entries_eqb es l
  | Err _, ROErr => true
  | _, _ => false
  end.

Definition rmismatches (rf : raw_floats) (cs : list rcase) : list int :=
  let F := mk_floats rf in
  fold_right (fun c acc =>
      if ragree (entries_from_rdf F (z_of_limbs (r_prime c)) (r_ds c)) (r_obs c) then acc
      else r_id c :: acc) [] cs.
