(* RDF/ThEntries.v — the emission loop of EntriesFromRDFWithHasher (invariant 5
   of DESIGN.md Appendix A) and the refinement theorem: the entries are, in
   order, exactly the value quads of the dataset, each under its spec path. *)
From Coq Require Import ZArith List String Ascii Bool Arith Lia Permutation.
From GSP Require Import Base.Prelude Value.Time Value.Model RDF.Model RDF.Spec
  RDF.ThBase RDF.ThTotal RDF.ThRel RDF.ThPath.
Import ListNotations.
Open Scope string_scope.
Open Scope list_scope.

Definition cnt (m : list (qkey * nat)) (k : qkey) : nat :=
  match assoc qkey_eqb k m with Some n => n | None => O end.

Lemma cnt_upsert : forall m k v k',
  cnt (upsert qkey_eqb k v m) k' = if qkey_eqb k k' then v else cnt m k'.
Proof.
  intros m k v k'. unfold cnt. rewrite (assoc_upsert qkey_eqb qkey_eqb_spec).
  destruct (qkey_eqb k k'); reflexivity.
Qed.

Lemma same_key_of : forall g q k k', key_of g q = Some k -> same_key g k' q = qkey_eqb k k'.
Proof. intros g q k k' H. unfold same_key. now rewrite H. Qed.

(* ---- countEntries ---- *)
Lemma count_entries_spec : forall g l acc counts,
  (forall q, In q l -> quad_wf g q) -> count_entries l acc = Ok counts ->
  forall k, cnt counts k = (cnt acc k + group_size g l k)%nat.
Proof.
  intros g l. induction l as [|q t IH]; intros acc counts Hwf H k; simpl in H.
  - inversion H; subst. unfold group_size. simpl. lia.
  - apply bind_ok in H. destruct H as (kq & Hkq & H).
    assert (Hkey : key_of g q = Some kq) by (eapply mk_qkey_key_of; eauto; apply Hwf; now left).
    rewrite (IH _ _ (fun q' Hq' => Hwf q' (or_intror Hq')) H k).
    rewrite cnt_upsert. unfold group_size. simpl. rewrite (same_key_of _ _ _ _ Hkey).
    fold (cnt acc kq).
    destruct (qkey_eqb kq k) eqn:E; simpl; [|lia].
    apply qkey_eqb_spec in E. subst. lia.
Qed.

Section Emit.
  Variable F : floats.
  Variable prime : Z.
  Variable ds : dataset.
  Variable r : rel.
  Hypothesis Hwf : ds_wf ds.
  Hypothesis Hrel : rel_ok ds r.

  Definition vfilter (l : list (didx * quad)) := filter (fun iq => is_value (snd iq)) l.

  (* every blank-object quad is a registered parent *)
  Definition blanks_ok (l : list (didx * quad)) : Prop :=
    forall iq, In iq l -> is_value (snd iq) = false ->
    exists k, key_of (fst (fst iq)) (snd iq) = Some k /\ child_nodes ds k <> [].

  Definition vcount (g : string) (k : qkey) (l : list quad) : nat :=
    List.length (filter (fun q => same_key g k q && is_value q) l).

  Lemma value_index_at : forall g pre q t k,
    lookup_graph ds g = Some (pre ++ q :: t) -> key_of g q = Some k ->
    value_index ds (g, List.length pre) =
    if Nat.leb (group_size g (pre ++ q :: t) k) 1 then None else Some (vcount g k pre).
  Proof.
    intros g pre q t k Hl Hkey. unfold value_index. cbn [fst snd]. rewrite Hl. cbn [fst snd].
    rewrite nth_error_app2 by lia. rewrite Nat.sub_diag. cbn [nth_error]. rewrite Hkey.
    destruct (Nat.leb (group_size g (pre ++ q :: t) k) 1); [reflexivity|]. f_equal.
    unfold value_rank, vcount. rewrite firstn_app, Nat.sub_diag, firstn_all.
    cbn [firstn]. now rewrite app_nil_r.
  Qed.

  Lemma graph_entries_spec : forall g qsl counts,
    lookup_graph ds g = Some qsl ->
    (forall k, cnt counts k = group_size g qsl k) ->
    forall suffix pre seen out out',
    qsl = pre ++ suffix ->
    (forall k, (1 < group_size g qsl k)%nat -> cnt seen k = vcount g k pre) ->
    graph_entries F prime r ds g counts (index_from (List.length pre) suffix) seen out = Ok out' ->
    exists new, out' = out ++ new /\
      Forall2 (fact F prime ds) new (vfilter (graph_positions_from g (List.length pre) suffix)) /\
      blanks_ok (graph_positions_from g (List.length pre) suffix).
  Proof.
    intros g qsl counts Hl Hcounts.
    induction suffix as [|q t IH]; intros pre seen out out' Hsplit Hseen H.
    - simpl in H. inversion H; subst. exists []. rewrite app_nil_r. repeat split; [constructor|].
      intros iq [].
    - cbn [index_from graph_entries] in H.
      apply bind_ok in H. destruct H as (k & Hk & H).
      set (i := (g, List.length pre)).
      assert (Hqi : quad_at ds i = Some q).
      { unfold quad_at. simpl. rewrite Hl, Hsplit. rewrite nth_error_app2 by lia.
        now rewrite Nat.sub_diag. }
      assert (Hqwf : quad_wf g q) by (apply (Hwf i q Hqi)).
      assert (Hkey : key_of g q = Some k) by (eapply mk_qkey_key_of; eauto).
      assert (Hsplit' : qsl = (pre ++ [q]) ++ t) by (now rewrite <- app_assoc).
      assert (Hlen' : List.length (pre ++ [q]) = S (List.length pre)) by (rewrite app_length; simpl; lia).
      assert (Hpos : graph_positions_from g (List.length pre) (q :: t) =
                     (i, q) :: graph_positions_from g (S (List.length pre)) t) by reflexivity.
      rewrite Hpos. unfold vfilter. cbn [filter snd].
      (* the common part of the literal and IRI branches *)
      assert (Hemit : forall x dt,
        value_of F prime q x dt -> is_value q = true ->
        match assoc qkey_eqb k counts with
        | Some (S c') =>
            let '(idx, seen') :=
              match c' with
              | O => (None, seen)
              | S _ => (Some match assoc qkey_eqb k seen with Some n => n | None => O end,
                        upsert qkey_eqb k (S match assoc qkey_eqb k seen with Some n => n | None => O end) seen)
              end in
            p <- rel_path r ds (g, List.length pre) idx;;
            graph_entries F prime r ds g counts (index_from (S (List.length pre)) t) seen'
              (out ++ [{| e_key := p; e_val := x; e_dt := dt |}])
        | _ => Err "assert-count"
        end = Ok out' ->
        exists new, out' = out ++ new /\
          Forall2 (fact F prime ds) new ((i, q) :: vfilter (graph_positions_from g (S (List.length pre)) t)) /\
          blanks_ok ((i, q) :: graph_positions_from g (S (List.length pre)) t)).
      { intros x dt Hval Hisv He.
        destruct (assoc qkey_eqb k counts) as [[|c']|] eqn:Ec; try discriminate.
        assert (Hgs : group_size g qsl k = S c').
        { rewrite <- Hcounts. unfold cnt. now rewrite Ec. }
        fold (cnt seen k) in He.
        assert (Hstep : forall idx seen',
          value_index ds i = idx ->
          (forall k', (1 < group_size g qsl k')%nat -> cnt seen' k' = vcount g k' (pre ++ [q])) ->
          (p <- rel_path r ds (g, List.length pre) idx;;
           graph_entries F prime r ds g counts (index_from (S (List.length pre)) t) seen'
             (out ++ [{| e_key := p; e_val := x; e_dt := dt |}])) = Ok out' ->
          exists new, out' = out ++ new /\
            Forall2 (fact F prime ds) new ((i, q) :: vfilter (graph_positions_from g (S (List.length pre)) t)) /\
            blanks_ok ((i, q) :: graph_positions_from g (S (List.length pre)) t)).
        { intros idx seen' Hidx Hseen' Hb.
          apply bind_ok in Hb. destruct Hb as (p & Hp & Hb).
          destruct (rel_path_spec ds r _ _ _ Hwf Hrel Hp) as (pi & q0 & pr & Hq0 & Hpr & Hanc & Hpeq).
          fold i in Hq0. rewrite Hqi in Hq0. inversion Hq0; subst q0.
          rewrite <- Hlen' in Hb.
          destruct (IH (pre ++ [q]) seen' _ out' Hsplit' Hseen' Hb) as (new & Hnew & Hfa & Hbl).
          rewrite Hlen' in Hfa, Hbl.
          exists ({| e_key := p; e_val := x; e_dt := dt |} :: new). split; [|split].
          - rewrite Hnew, <- app_assoc. reflexivity.
          - constructor; [|exact Hfa]. exists pi, pr. simpl. repeat split; auto.
            rewrite Hidx. exact Hpeq.
          - intros iq [<-|Hin] Hv; [simpl in Hv; congruence|now apply Hbl]. }
        assert (Hvi : value_index ds i =
                      if Nat.leb (S c') 1 then None else Some (vcount g k pre)).
        { unfold i. rewrite (value_index_at g pre q t k); [|now rewrite <- Hsplit|exact Hkey].
          rewrite <- Hsplit, Hgs. reflexivity. }
        assert (Hvc : forall k', vcount g k' (pre ++ [q]) =
                      (vcount g k' pre + if qkey_eqb k k' then 1 else 0)%nat).
        { intros k'. unfold vcount. rewrite filter_app, app_length. simpl.
          rewrite (same_key_of _ _ _ _ Hkey), Hisv. destruct (qkey_eqb k k'); reflexivity. }
        destruct c' as [|c''].
        - (* a group of one quad: no index *)
          apply (Hstep None seen); [rewrite Hvi; reflexivity| |exact He].
          intros k' Hk'. rewrite Hvc, (Hseen k' Hk').
          destruct (qkey_eqb k k') eqn:E; [|lia].
          apply qkey_eqb_spec in E. subst k'. lia.
        - (* several quads: index = number of values emitted so far *)
          apply (Hstep (Some (cnt seen k)) (upsert qkey_eqb k (S (cnt seen k)) seen)); [| |exact He].
          + rewrite Hvi. simpl. f_equal. symmetry. apply Hseen. lia.
          + intros k' Hk'. rewrite Hvc, cnt_upsert.
            destruct (qkey_eqb k k') eqn:E.
            * apply qkey_eqb_spec in E. subst k'. rewrite (Hseen k Hk'). lia.
            * rewrite (Hseen k' Hk'). lia. }
      destruct (qo q) as [v|b|v dt] eqn:Hqo.
      + (* IRI object *)
        assert (Hisv : is_value q = true) by (unfold is_value; now rewrite Hqo).
        rewrite Hisv. apply (Hemit (XStr v) ""); [unfold value_of; rewrite Hqo; auto|exact Hisv|exact H].
      + (* blank object: skipped when it is a registered parent *)
        assert (Hisv : is_value q = false) by (unfold is_value; now rewrite Hqo).
        rewrite Hisv.
        destruct Hrel as (_ & Hch). rewrite Hch in H.
        destruct (children_spec (child_nodes ds k)) as [cm|] eqn:Ecm; [|discriminate].
        apply children_spec_some in Ecm. destruct Ecm as (_ & Hne).
        rewrite <- Hlen' in H.
        assert (Hseen' : forall k', (1 < group_size g qsl k')%nat -> cnt seen k' = vcount g k' (pre ++ [q])).
        { intros k' Hk'. rewrite (Hseen k' Hk'). unfold vcount. rewrite filter_app, app_length. simpl.
          rewrite Hisv, andb_false_r. simpl. lia. }
        destruct (IH (pre ++ [q]) seen out out' Hsplit' Hseen' H) as (new & Hnew & Hfa & Hbl).
        rewrite Hlen' in Hfa, Hbl. exists new. repeat split; auto.
        intros iq [<-|Hin] Hv; [|now apply Hbl]. simpl. eauto.
      + (* literal object *)
        assert (Hisv : is_value q = true) by (unfold is_value; now rewrite Hqo).
        rewrite Hisv. apply bind_ok in H. destruct H as (x & Hx & H).
        apply (Hemit x dt); [unfold value_of; rewrite Hqo; auto|exact Hisv|exact H].
  Qed.
End Emit.

(* ---- the whole function ---- *)
Definition graph_body (F : floats) (prime : Z) (ds : dataset) (r : rel)
    (acc : res (list entry)) (g : string) : res (list entry) :=
  out <- acc ;;
  match lookup_graph ds g with
  | Some qsl =>
    counts <- count_entries qsl [] ;;
    graph_entries F prime r ds g counts (index_from 0 qsl) [] out
  | None => Ok out
  end.

Lemma fold_graph_body_ok : forall F prime ds r names acc out,
  fold_left (graph_body F prime ds r) names acc = Ok out -> exists o, acc = Ok o.
Proof.
  intros F prime ds r names. induction names as [|g names IH]; intros acc out H; simpl in H; [eauto|].
  apply IH in H. destruct H as (o & H). unfold graph_body in H.
  destruct acc; simpl in H; try discriminate. eauto.
Qed.

Definition graph_positions_of (ds : dataset) (g : string) : list (didx * quad) :=
  match lookup_graph ds g with Some l => graph_positions g l | None => [] end.

Lemma fold_graph_body_spec : forall F prime ds r, ds_wf ds -> rel_ok ds r ->
  forall names out out',
  fold_left (graph_body F prime ds r) names (Ok out) = Ok out' ->
  exists new, out' = out ++ new /\
    Forall2 (fact F prime ds) new (vfilter (flat_map (graph_positions_of ds) names)) /\
    blanks_ok ds (flat_map (graph_positions_of ds) names).
Proof.
  intros F prime ds r Hwf Hrel. induction names as [|g names IH]; intros out out' H; simpl in H.
  - inversion H; subst. exists []. rewrite app_nil_r. repeat split; [constructor|]. intros iq [].
  - destruct (fold_graph_body_ok _ _ _ _ _ _ _ H) as (o1 & Ho1). rewrite Ho1 in H.
    destruct (IH _ _ H) as (new2 & Hnew2 & Hfa2 & Hbl2).
    unfold graph_body in Ho1. simpl in Ho1.
    assert (Hg1 : exists new1, o1 = out ++ new1 /\
              Forall2 (fact F prime ds) new1 (vfilter (graph_positions_of ds g)) /\
              blanks_ok ds (graph_positions_of ds g)).
    { unfold graph_positions_of. destruct (lookup_graph ds g) as [qsl|] eqn:El.
      - apply bind_ok in Ho1. destruct Ho1 as (counts & Hc & Ho1).
        assert (Hqwf : forall q, In q qsl -> quad_wf g q).
        { intros q Hq. apply In_nth_error in Hq. destruct Hq as (n & Hn).
          apply (Hwf (g, n) q). unfold quad_at. simpl. now rewrite El. }
        assert (Hcounts : forall k, cnt counts k = group_size g qsl k).
        { intros k. rewrite (count_entries_spec g qsl [] counts Hqwf Hc k). reflexivity. }
        apply (graph_entries_spec F prime ds r Hwf Hrel g qsl counts El Hcounts qsl [] [] out o1);
          [reflexivity|intros k _; reflexivity|exact Ho1].
      - inversion Ho1; subst. exists []. rewrite app_nil_r. repeat split; [constructor|]. intros iq []. }
    destruct Hg1 as (new1 & Hnew1 & Hfa1 & Hbl1).
    exists (new1 ++ new2). split; [|split].
    + rewrite Hnew2, Hnew1. now rewrite app_assoc.
    + simpl. unfold vfilter. rewrite filter_app. apply Forall2_app; assumption.
    + simpl. intros iq Hin Hv. apply in_app_or in Hin. destruct Hin as [Hin|Hin]; auto.
Qed.

Theorem entries_exact : forall F prime ds es,
  is_map ds -> entries_from_rdf F prime ds = Ok es ->
  Forall2 (fact F prime ds) es (value_quads ds) /\
  blanks_ok ds (positions ds) /\
  Forall (pos_ok ds) (positions ds) /\ ds_wf ds.
Proof.
  intros F prime ds es Hm H. unfold entries_from_rdf in H.
  apply bind_ok in H. destruct H as ([] & Hc & H).
  apply assert_consistency_wf in Hc.
  destruct (lookup_graph ds default_graph); [|discriminate].
  apply bind_ok in H. destruct H as (r & Hr & H).
  destruct (new_relationship_ok ds r Hm Hc Hr) as (Hrel & Hall).
  change (fold_left (graph_body F prime ds r) (graph_names ds) (Ok []) = Ok es) in H.
  destruct (fold_graph_body_spec F prime ds r Hc Hrel _ _ _ H) as (new & Hnew & Hfa & Hbl).
  simpl in Hnew. subst new.
  split; [exact Hfa|split; [exact Hbl|split; [exact Hall|exact Hc]]].
Qed.
