(* Properties/C15.v — Safe mode never silently drops a field.
   ONLY restatements closed by `exact`, each followed by Print Assumptions.
   Model: JsonLD/Safe.v; proofs: JsonLD/SafeTheory.v.

   Reading.  [merklize_doc loader cf B safe d] is merklize.MerklizeJSONLD on document
   [d] with mz.safeMode = safe (merklize.go:1578-1611): Normalize (fresh ToRDF
   options: SafeMode NOT forwarded), entries, tree, then proc.Compact(obj, nil,
   options), the only call that sees the mode.  [loader] serves remote contexts, [cf]
   is fuel for context processing.  [B : backend] is json-gold/merkletree code below
   the modelled level (expansion result, ToRDF+URDNA2015, entries+tree, compaction):
   universally quantified, nothing is assumed about it except where written.
   [occurs loader cf under c ap nest sw v p cn k s]: in value [v] (expanded under active
   context [c] and active property [ap]) a member with key [k] sits at path [p]; [cn]
   is the active context in which json-gold expands that key (after property-scoped,
   embedded and type-scoped contexts, type-scoped ones reverted in nested nodes);
   [under = true] also counts positions below undefined members; [s] = the position
   is inside the VALUE of an @list / @set / @default keyword member.  For a whole
   document: c = empty_ctx, ap = "", nest = sw = false.
   [key_defined cn k]: k is a keyword / alias, or its expansion contains ':'
   (json-gold's test, api_expand.go:361).  [key_absolute cn k]: keyword / alias, or the
   expansion is an absolute IRI and no blank node identifier (the property text).

   The UNCONDITIONAL statement of the property text,
     merklize_doc loader cf B true d = Ok r ->
       forall p cn k s, occurs loader cf true empty_ctx "" false false d p cn k s ->
         key_absolute cn k = true,
   is FALSE for the code as it is, for two reasons confirmed on /repo (known findings
   D26, D27; witnesses C15_safe_refuted, C15_weaker_than_absolute):
   (D26) json-gold ignores the error of the nested Expand under @set/@list/@default
         (api_expand.go:563,570,649): an undefined member inside an @set value is
         accepted in safe mode;
   (D27) json-gold's test is "contains ':'", not "absolute IRI": keys like "_:b" or
         ":x" pass and are dropped later by ToRDF.
   C15_safe states it under the hypothesis that excludes exactly these two shapes. *)
From Coq Require Import List String Bool NArith.
From GSP Require Import Base.Prelude JsonLD.Safe JsonLD.SafeTheory.
Import ListNotations.
Open Scope string_scope.

(* safe mode: success => every member anywhere in the document (top level, nested,
   array items, @graph/@included/@reverse/@nest) outside @list/@set/@default values
   is defined under its active context *)
Theorem C15_safe_partial :
  forall (loader : string -> option json) (cf : nat) (E DS R C : Type) (B : backend E DS R C)
         (d : json) (r : R),
  merklize_doc loader cf B true d = Ok r ->
  forall (p : path) (cn : ctx) (k : string),
  occurs loader cf true empty_ctx "" false false d p cn k false ->
  key_defined cn k = true.
Proof. exact safe_ok_all_defined. Qed.
Print Assumptions C15_safe_partial.

(* C15_safe in full under the hypothesis excluding exactly the two known shapes
   (D26: member inside an @list/@set/@default value — flag false below;
    D27: key whose expansion contains ':' without being an absolute, non-blank IRI):
   success => the key is a keyword/alias or expands to an absolute IRI *)
Theorem C15_safe :
  forall (loader : string -> option json) (cf : nat) (E DS R C : Type) (B : backend E DS R C)
         (d : json) (r : R),
  merklize_doc loader cf B true d = Ok r ->
  forall (p : path) (cn : ctx) (k : string),
  occurs loader cf true empty_ctx "" false false d p cn k false ->
  colon_not_absolute cn k = false ->
  key_absolute cn k = true.
Proof. exact safe_ok_all_absolute. Qed.
Print Assumptions C15_safe.

(* some undefined member (outside @list/@set/@default values) => never Ok *)
Theorem C15_safe_rejects :
  forall (loader : string -> option json) (cf : nat) (E DS R C : Type) (B : backend E DS R C)
         (d : json) (p : path) (cn : ctx) (k : string),
  occurs loader cf true empty_ctx "" false false d p cn k false ->
  key_defined cn k = false ->
  forall r : R, merklize_doc loader cf B true d <> Ok r.
Proof. exact safe_rejects_undefined. Qed.
Print Assumptions C15_safe_rejects.

(* ... and it is exactly the "invalid property" error whenever the same document
   merklizes in unsafe mode *)
Theorem C15_safe_rejects_err :
  forall (loader : string -> option json) (cf : nat) (E DS R C : Type) (B : backend E DS R C)
         (d : json) (p : path) (cn : ctx) (k : string) (os : list occ) (r' : R),
  occurs loader cf true empty_ctx "" false false d p cn k false ->
  key_defined cn k = false ->
  undefined_occ loader cf d = Ok os ->
  merklize_doc loader cf B false d = Ok r' ->
  merklize_doc loader cf B true d = Err "invalid property".
Proof. exact safe_rejects_undefined_err. Qed.
Print Assumptions C15_safe_rejects_err.

(* no spurious rejection: if every member expansion reaches is defined, both modes
   give the same result (same root, same error) *)
Theorem C15_modes_agree_when_defined :
  forall (loader : string -> option json) (cf : nat) (E DS R C : Type) (B : backend E DS R C)
         (d : json) (os : list occ),
  undefined_occ loader cf d = Ok os ->
  (forall p cn k s, occurs loader cf false empty_ctx "" false false d p cn k s ->
                    key_defined cn k = true) ->
  merklize_doc loader cf B true d = merklize_doc loader cf B false d.
Proof. exact modes_agree_when_defined. Qed.
Print Assumptions C15_modes_agree_when_defined.

(* the walk that decides rejection is exact: it reports a position iff it is an
   undefined member expansion reaches *)
Theorem C15_scan_complete :
  forall (loader : string -> option json) (cf : nat) (d : json) (p : path) (cn : ctx) (k : string)
         (s : bool) (os : list occ),
  occurs loader cf false empty_ctx "" false false d p cn k s -> key_defined cn k = false ->
  undefined_occ loader cf d = Ok os -> In (p, s) os.
Proof. exact (fun loader cf d p cn k s os H Hd => walk_complete loader cf _ _ _ _ _ _ _ _ _ H Hd os). Qed.
Print Assumptions C15_scan_complete.

Theorem C15_scan_sound :
  forall (loader : string -> option json) (cf : nat) (d : json) (os : list occ) (p : path) (s : bool),
  undefined_occ loader cf d = Ok os -> In (p, s) os ->
  exists cn k, occurs loader cf false empty_ctx "" false false d p cn k s /\ key_defined cn k = false.
Proof. exact (fun loader cf d os p s => walk_sound loader cf _ _ _ _ d os p s). Qed.
Print Assumptions C15_scan_sound.

(* REFUTED full statement, reason (1): a document with an undefined member that safe
   mode accepts (for the backend that always succeeds); in general, members whose
   error is swallowed are invisible to safe mode *)
Theorem C15_safe_refuted :
  exists (d : json) (p : path),
    merklize_doc (fun _ => None) 20 Examples.idB true d = Ok d /\
    undefined_occ (fun _ => None) 20 d = Ok [(p, true)].
Proof. exact (ex_intro _ _ (ex_intro _ _ Examples.in_set_accepted)). Qed.
Print Assumptions C15_safe_refuted.

Theorem C15_swallowed_invisible :
  forall (loader : string -> option json) (cf : nat) (E DS R C : Type) (B : backend E DS R C)
         (d : json) (os : list occ),
  undefined_occ loader cf d = Ok os -> existsb unswallowed os = false ->
  merklize_doc loader cf B true d = merklize_doc loader cf B false d.
Proof. exact swallowed_invisible. Qed.
Print Assumptions C15_swallowed_invisible.

(* reason (2): json-gold's "defined" is weaker than "expands to an absolute IRI" *)
Theorem C15_weaker_than_absolute :
  merklize_doc (fun _ => None) 20 Examples.idB true Examples.blank_prop = Ok Examples.blank_prop /\
  key_absolute (Ctx [] None None) "_:p" = false /\ key_defined (Ctx [] None None) "_:p" = true.
Proof. exact Examples.blank_property_passes. Qed.
Print Assumptions C15_weaker_than_absolute.

(* unsafe mode: exactly the merklization of the document without the undefined
   members — under the interface property of json-gold's expansion stated as the
   hypothesis (validated per run: harness class c15-expansion-keeps-undefined) *)
Theorem C15_unsafe :
  forall (loader : string -> option json) (cf : nat) (E DS R C : Type) (B : backend E DS R C),
  (forall d, b_expand B d = b_expand B (strip_undefined loader cf d)) ->
  forall d, merklize_doc loader cf B false d = merklize_doc loader cf B false (strip_undefined loader cf d).
Proof. exact unsafe_is_stripped. Qed.
Print Assumptions C15_unsafe.

(* ... where the stripped document is, independently of any context, the document
   with exactly the reported members deleted ([remove_members]: a purely structural
   deletion by path; [wf]: object keys are unique, as in any Go map); by
   C15_scan_sound / C15_scan_complete the reported members are exactly the undefined
   members expansion reaches *)
Theorem C15_unsafe_removal :
  forall (loader : string -> option json) (cf : nat) (E DS R C : Type) (B : backend E DS R C),
  (forall d, b_expand B d = b_expand B (strip_undefined loader cf d)) ->
  forall (d : json) (os : list occ),
  wf d -> undefined_occ loader cf d = Ok os ->
  merklize_doc loader cf B false d =
  merklize_doc loader cf B false (remove_members (map fst os) d).
Proof. exact unsafe_is_removal. Qed.
Print Assumptions C15_unsafe_removal.

Theorem C15_strip_is_removal :
  forall (loader : string -> option json) (cf : nat) (d : json) (os : list occ),
  wf d -> undefined_occ loader cf d = Ok os ->
  strip_undefined loader cf d = remove_members (map fst os) d.
Proof. exact strip_is_removal. Qed.
Print Assumptions C15_strip_is_removal.

(* the default options are safe, at every entry point that merklizes *)
Theorem C15_default :
  forall (loader : string -> option json) (cf : nat) (E DS R C : Type) (B : backend E DS R C) (d : json),
  MerklizeJSONLD loader cf B [] d = merklize_doc loader cf B true d /\
  W3CCredential_Merklize loader cf B d [] = merklize_doc loader cf B true d /\
  ToCoreClaim_merklize loader cf B d None = merklize_doc loader cf B true d /\
  VerifyProof_merklize loader cf B d [] = merklize_doc loader cf B true d /\
  ld_safe_mode options_jsonld_options = true.
Proof. exact default_safe. Qed.
Print Assumptions C15_default.

(* every public entry point that merklizes forwards the caller's mode:
   merklize.MerklizeJSONLD, verifiable.W3CCredential.Merklize,
   W3CCredential.ToCoreClaim (CoreClaimOptions.MerklizerOpts), W3CCredential.VerifyProof
   (verifyConfig.merklizeOptions); the last WithSafeMode wins, none means safe *)
Theorem C15_plumbing :
  forall (loader : string -> option json) (cf : nat) (E DS R C : Type) (B : backend E DS R C)
         (opts : list mz_option) (d : json),
  let mode := fold_left (fun acc o => match o with WithSafeMode b => b | OOther => acc end) opts true in
  MerklizeJSONLD loader cf B opts d = merklize_doc loader cf B mode d /\
  W3CCredential_Merklize loader cf B d opts = merklize_doc loader cf B mode d /\
  ToCoreClaim_merklize loader cf B d (Some opts) = merklize_doc loader cf B mode d /\
  VerifyProof_merklize loader cf B d opts = merklize_doc loader cf B mode d.
Proof. exact plumbing_all. Qed.
Print Assumptions C15_plumbing.

Theorem C15_plumbing_last_wins :
  forall (opts : list mz_option) (b : bool),
  fold_left (fun acc o => match o with WithSafeMode b => b | OOther => acc end)
            (opts ++ [WithSafeMode b]) true = b.
Proof. exact effective_safe_last. Qed.
Print Assumptions C15_plumbing_last_wins.

(* Normalize never sees the mode (processor.go:572 builds fresh options) *)
Theorem C15_normalize_ignores_mode :
  forall (loader : string -> option json) (cf : nat) (E DS R C : Type) (B : backend E DS R C)
         (o1 o2 : ld_options) (d : json),
  proc_normalize loader cf B o1 d = proc_normalize loader cf B o2 d.
Proof. exact normalize_ignores_mode. Qed.
Print Assumptions C15_normalize_ignores_mode.
