(* Properties/C15.v — Safe mode never silently drops a field.
   ONLY restatements closed by `exact`, each followed by Print Assumptions.
   Model: JsonLD/Safe.v; proofs: JsonLD/SafeTheory.v.

   Reading.  [merklize_doc cf B safe dl t0 d] is merklize.MerklizeJSONLD on document
   [d] with mz.safeMode = safe, document loader [dl] and tree [t0] (a new tree, or the
   caller's: leaves so far, number of Add calls so far, index of an Add call that
   fails) (merklize.go:1578-1611): Normalize (fresh ToRDF options: SafeMode NOT
   forwarded), EntriesFromRDF (error returned), one mt.Add per entry (error returned), then
   proc.Compact(obj, nil, options), the only call that sees the mode; ANY error of
   that call is returned.  [dl : option dloader]: None = a nil loader; Some l = a
   stateful loader that answers like [dl_normalize l] while Normalize runs and like
   [dl_compact l] while Compact runs (each a function URL -> Ok document | Err |
   Panic); nothing relates the two, so every theorem below holds for every loader
   behaviour (a host that goes away between the two phases included).  [cf] is fuel
   for context processing.  [B : backend] is json-gold/merkletree code below
   the modelled level (expansion result, ToRDF+URDNA2015, entries+tree, compaction):
   universally quantified, nothing is assumed about it except where written.
   [occurs ld cf under c ap nest sw v p cn k s] (ld: a loader view): in value [v] (expanded under active
   context [c] and active property [ap]) a member with key [k] sits at path [p]; [cn]
   is the active context in which json-gold expands that key (after property-scoped,
   embedded and type-scoped contexts, type-scoped ones reverted in nested nodes);
   [under = true] also counts positions below undefined members; [s] = the position
   is inside the VALUE of an @list / @set / @default keyword member.  For a whole
   document: c = empty_ctx, ap = "", nest = sw = false.
   [key_defined cn k]: k is a keyword / alias, or its expansion contains ':'
   (json-gold's test, api_expand.go:361).  [key_absolute cn k]: keyword / alias, or the
   expansion is an absolute IRI and no blank node identifier (the property text).

   The UNCONDITIONAL statement of the property text,
     merklize_doc cf B true dl d = Ok r ->
       forall p cn k s, occurs (view_compact dl) cf true empty_ctx "" false false d p cn k s ->
         key_absolute cn k = true,
   is FALSE for the code as it is, for two reasons confirmed on /repo (known findings
   D26, D27; witnesses C15_safe_refuted, C15_weaker_than_absolute):
   (D26) json-gold ignores the error of the nested Expand under @set/@list/@default
         (api_expand.go:563,570,649): an undefined member inside an @set value is
         accepted in safe mode;
   (D27) json-gold's test is "contains ':'", not "absolute IRI": keys like "_:b" or
         ":x" pass and are dropped later by ToRDF.
   C15_safe states it under the hypothesis that excludes exactly these two shapes. *)
From Coq Require Import List String Bool NArith ZArith Permutation.
From GSP Require Import Base.Prelude JsonLD.Safe JsonLD.SafeTheory.
Import ListNotations.
Open Scope string_scope.

(* safe mode: success => every member anywhere in the document (top level, nested,
   array items, @graph/@included/@reverse/@nest) outside @list/@set/@default values
   is defined under its active context — for every loader behaviour *)
Theorem C15_safe_partial :
  forall (cf : nat) (E DS En C : Type) (B : backend E DS En C) (t0 : mtree) (dl : option dloader) (d : json) (r : list En * mtree),
  merklize_doc cf B true dl t0 d = Ok r ->
  forall (p : path) (cn : ctx) (k : string),
  occurs (view_compact dl) cf true empty_ctx "" false false d p cn k false ->
  key_defined cn k = true.
Proof. exact safe_ok_all_defined. Qed.
Print Assumptions C15_safe_partial.

(* C15_safe in full under the hypothesis excluding exactly the two known shapes
   (D26: member inside an @list/@set/@default value — flag false below;
    D27: key whose expansion contains ':' without being an absolute, non-blank IRI):
   success => the key is a keyword/alias or expands to an absolute IRI *)
Theorem C15_safe :
  forall (cf : nat) (E DS En C : Type) (B : backend E DS En C) (t0 : mtree) (dl : option dloader) (d : json) (r : list En * mtree),
  merklize_doc cf B true dl t0 d = Ok r ->
  forall (p : path) (cn : ctx) (k : string),
  occurs (view_compact dl) cf true empty_ctx "" false false d p cn k false ->
  colon_not_absolute cn k = false ->
  key_absolute cn k = true.
Proof. exact safe_ok_all_absolute. Qed.
Print Assumptions C15_safe.

(* a context that cannot be loaded (or processed) while Compact runs makes safe mode
   fail, whatever the loader did while Normalize ran: never Ok with entries already
   built from an expansion that dropped fields *)
Theorem C15_safe_load_failure :
  forall (cf : nat) (E DS En C : Type) (B : backend E DS En C) (t0 : mtree) (dl : option dloader) (d : json),
  (forall os, undefined_occ (view_compact dl) cf d <> Ok os) ->
  forall r : list En * mtree, merklize_doc cf B true dl t0 d <> Ok r.
Proof. exact safe_compact_phase_failure. Qed.
Print Assumptions C15_safe_load_failure.

(* some undefined member (outside @list/@set/@default values) => never Ok *)
Theorem C15_safe_rejects :
  forall (cf : nat) (E DS En C : Type) (B : backend E DS En C) (t0 : mtree) (dl : option dloader)
         (d : json) (p : path) (cn : ctx) (k : string),
  occurs (view_compact dl) cf true empty_ctx "" false false d p cn k false ->
  key_defined cn k = false ->
  forall r : list En * mtree, merklize_doc cf B true dl t0 d <> Ok r.
Proof. exact safe_rejects_undefined. Qed.
Print Assumptions C15_safe_rejects.

(* ... and it is exactly the "invalid property" error whenever the same document
   merklizes in unsafe mode *)
Theorem C15_safe_rejects_err :
  forall (cf : nat) (E DS En C : Type) (B : backend E DS En C) (t0 : mtree) (dl : option dloader)
         (d : json) (p : path) (cn : ctx) (k : string) (os : list occ) (r' : list En * mtree),
  occurs (view_compact dl) cf true empty_ctx "" false false d p cn k false ->
  key_defined cn k = false ->
  undefined_occ (view_compact dl) cf d = Ok os ->
  merklize_doc cf B false dl t0 d = Ok r' ->
  merklize_doc cf B true dl t0 d = Err "invalid property".
Proof. exact safe_rejects_undefined_err. Qed.
Print Assumptions C15_safe_rejects_err.

(* no spurious rejection: if every member expansion reaches is defined, both modes
   give the same result (same root, same error) *)
Theorem C15_modes_agree_when_defined :
  forall (cf : nat) (E DS En C : Type) (B : backend E DS En C) (t0 : mtree) (dl : option dloader)
         (d : json) (os : list occ),
  undefined_occ (view_compact dl) cf d = Ok os ->
  (forall p cn k s, occurs (view_compact dl) cf false empty_ctx "" false false d p cn k s ->
                    key_defined cn k = true) ->
  merklize_doc cf B true dl t0 d = merklize_doc cf B false dl t0 d.
Proof. exact modes_agree_when_defined. Qed.
Print Assumptions C15_modes_agree_when_defined.

(* the walk that decides rejection is exact: it reports a position iff it is an
   undefined member expansion reaches *)
Theorem C15_scan_complete :
  forall (ld : string -> res json) (cf : nat) (d : json) (p : path) (cn : ctx) (k : string)
         (s : bool) (os : list occ),
  occurs ld cf false empty_ctx "" false false d p cn k s -> key_defined cn k = false ->
  undefined_occ ld cf d = Ok os -> In (p, s) os.
Proof. exact (fun ld cf d p cn k s os H Hd => walk_complete ld cf _ _ _ _ _ _ _ _ _ H Hd os). Qed.
Print Assumptions C15_scan_complete.

Theorem C15_scan_sound :
  forall (ld : string -> res json) (cf : nat) (d : json) (os : list occ) (p : path) (s : bool),
  undefined_occ ld cf d = Ok os -> In (p, s) os ->
  exists cn k, occurs ld cf false empty_ctx "" false false d p cn k s /\ key_defined cn k = false.
Proof. exact (fun ld cf d os p s => walk_sound ld cf _ _ _ _ d os p s). Qed.
Print Assumptions C15_scan_sound.

(* REFUTED unconditional statement, reason (D26): a document with an undefined member
   that safe mode accepts (for the backend that always succeeds, offline loader); in
   general, members whose error is swallowed are invisible to safe mode *)
Theorem C15_safe_refuted :
  exists (d : json) (p : path),
    merklize_doc 20 Examples.idB true Examples.steady_none fresh_tree d = Ok Examples.one_leaf /\
    undefined_occ Examples.no_loader 20 d = Ok [(p, true)].
Proof. exact (ex_intro _ _ (ex_intro _ _ Examples.in_set_accepted)). Qed.
Print Assumptions C15_safe_refuted.

Theorem C15_swallowed_invisible :
  forall (cf : nat) (E DS En C : Type) (B : backend E DS En C) (t0 : mtree) (dl : option dloader)
         (d : json) (os : list occ),
  undefined_occ (view_compact dl) cf d = Ok os -> existsb unswallowed os = false ->
  merklize_doc cf B true dl t0 d = merklize_doc cf B false dl t0 d.
Proof. exact swallowed_invisible. Qed.
Print Assumptions C15_swallowed_invisible.

(* reason (D27): json-gold's "defined" is weaker than "expands to an absolute IRI" *)
Theorem C15_weaker_than_absolute :
  merklize_doc 20 Examples.idB true Examples.steady_none fresh_tree Examples.blank_prop = Ok Examples.one_leaf /\
  key_absolute (Ctx [] None None) "_:p" = false /\ key_defined (Ctx [] None None) "_:p" = true.
Proof. exact Examples.blank_property_passes. Qed.
Print Assumptions C15_weaker_than_absolute.

(* unsafe mode: exactly the merklization of the document without the undefined
   members — for a loader [ld] that answers the same way in both phases, under the
   interface property of json-gold's expansion stated as the hypothesis (validated
   per run: harness class c15-expansion-keeps-undefined) *)
Theorem C15_unsafe :
  forall (cf : nat) (E DS En C : Type) (B : backend E DS En C) (t0 : mtree),
  (forall ld d, b_expand B ld d = b_expand B ld (strip_undefined ld cf d)) ->
  forall (ld : string -> res json) (d : json),
  let dl := Some {| dl_normalize := ld; dl_compact := ld |} in
  merklize_doc cf B false dl t0 d = merklize_doc cf B false dl t0 (strip_undefined ld cf d).
Proof. exact unsafe_is_stripped. Qed.
Print Assumptions C15_unsafe.

(* ... where the stripped document is, independently of any context, the document
   with exactly the reported members deleted ([remove_members]: a purely structural
   deletion by path; [wf]: object keys are unique, as in any Go map); by
   C15_scan_sound / C15_scan_complete the reported members are exactly the undefined
   members expansion reaches *)
Theorem C15_unsafe_removal :
  forall (cf : nat) (E DS En C : Type) (B : backend E DS En C) (t0 : mtree),
  (forall ld d, b_expand B ld d = b_expand B ld (strip_undefined ld cf d)) ->
  forall (ld : string -> res json) (d : json) (os : list occ),
  wf d -> undefined_occ ld cf d = Ok os ->
  let dl := Some {| dl_normalize := ld; dl_compact := ld |} in
  merklize_doc cf B false dl t0 d = merklize_doc cf B false dl t0 (remove_members (map fst os) d).
Proof. exact unsafe_is_removal. Qed.
Print Assumptions C15_unsafe_removal.

Theorem C15_strip_is_removal :
  forall (ld : string -> res json) (cf : nat) (d : json) (os : list occ),
  wf d -> undefined_occ ld cf d = Ok os ->
  strip_undefined ld cf d = remove_members (map fst os) d.
Proof. exact strip_is_removal. Qed.
Print Assumptions C15_strip_is_removal.

(* C15_unsafe at the level of entries and tree *)
Theorem C15_unsafe_equals_stripped :
  forall (cf : nat) (E DS En C : Type) (B : backend E DS En C) (t0 : mtree),
  (forall ld d, b_expand B ld d = b_expand B ld (strip_undefined ld cf d)) ->
  forall (ld : string -> res json) (d : json) (es : list En) (t : mtree),
  let dl := Some {| dl_normalize := ld; dl_compact := ld |} in
  merklize_doc cf B false dl t0 d = Ok (es, t) ->
  merklize_doc cf B false dl t0 (strip_undefined ld cf d) = Ok (es, t).
Proof. exact unsafe_equals_stripped. Qed.
Print Assumptions C15_unsafe_equals_stripped.

(* A successful merklization (either mode, any loader, tree [t0] = a new one or the
   caller's, possibly with a failing Add step [t_fail_at]) covers the document:
   [es] is exactly what EntriesFromRDF gives for the dataset of this document (its
   error is never skipped), every entry is a leaf of the returned tree (KeyValueMtEntries
   and every mt.Add succeeded), the tree grew by exactly |es| leaves and kept the old
   ones, and no Add call hit the failing step: an Add failure is propagated. *)
Theorem C15_success_covers_entries :
  forall (cf : nat) (E DS En C : Type) (B : backend E DS En C) (t0 : mtree)
         (safe : bool) (dl : option dloader) (d : json) (es : list En) (t : mtree),
  merklize_doc cf B safe dl t0 d = Ok (es, t) ->
  (exists e ds, b_expand B (view_normalize dl) d = Ok e /\ b_to_rdf B e = Ok ds /\ b_entries B ds = Ok es) /\
  (forall en, In en es -> exists k v, b_kv B en = Ok (k, v) /\ In (k, v) (t_leaves t)) /\
  List.length (t_leaves t) = List.length (t_leaves t0) + List.length es /\
  incl (t_leaves t0) (t_leaves t) /\
  (forall n, t_fail_at t0 = Some n -> ~ (t_adds t0 <= n < t_adds t0 + List.length es)).
Proof. exact success_covers_entries. Qed.
Print Assumptions C15_success_covers_entries.

(* ... and at the level of the document.  [doc_facts ld d] = the facts stated by the
   defined members of [d] (C01's facts of the document), [fact_of] = the fact an entry
   stands for.  HYPOTHESIS (the document-level reading of C01: dataset level proved in
   RDF/, JSON-LD level differential; checked per run by the harness post-condition
   c15-field-count / c15-field-missing): whenever expansion, ToRDF and EntriesFromRDF
   succeed, the entries are a permutation of the facts.  Then success => every fact of
   the document is an entry AND a leaf of the tree, and |entries| = |facts|. *)
Theorem C15_success_covers_document :
  forall (cf : nat) (E DS En C : Type) (B : backend E DS En C) (t0 : mtree)
         (F : Type) (fact_of : En -> F) (doc_facts : (string -> res json) -> json -> list F)
         (safe : bool) (dl : option dloader) (d : json) (es : list En) (t : mtree),
  (forall ld d e ds es, b_expand B ld d = Ok e -> b_to_rdf B e = Ok ds -> b_entries B ds = Ok es ->
                        Permutation (map fact_of es) (doc_facts ld d)) ->
  merklize_doc cf B safe dl t0 d = Ok (es, t) ->
  Permutation (map fact_of es) (doc_facts (view_normalize dl) d) /\
  List.length es = List.length (doc_facts (view_normalize dl) d) /\
  (forall f, In f (doc_facts (view_normalize dl) d) ->
     exists en k v, In en es /\ fact_of en = f /\ b_kv B en = Ok (k, v) /\ In (k, v) (t_leaves t)) /\
  List.length (t_leaves t) = List.length (t_leaves t0) + List.length (doc_facts (view_normalize dl) d).
Proof. exact success_covers_document. Qed.
Print Assumptions C15_success_covers_document.

Theorem C15_add_failure_propagated :
  forall (cf : nat) (E DS En C : Type) (B : backend E DS En C) (t0 : mtree)
         (safe : bool) (dl : option dloader) (d : json) (es : list En) (t : mtree) (n : nat),
  merklize_doc cf B safe dl t0 d = Ok (es, t) -> t_fail_at t0 = Some n ->
  ~ (t_adds t0 <= n < t_adds t0 + List.length es).
Proof. exact add_failure_propagated. Qed.
Print Assumptions C15_add_failure_propagated.

(* REFUTED variants (seeded changes): with the error check after EntriesFromRDF (C15-k)
   or after mt.Add (C15-m) switched off, the pipeline reports success with a field
   missing from the tree, where the code as it is returns the error *)
Theorem C15_seeded_k_refuted :
  merklize_gen 20 Examples.errB {| f_ignore_entries_err := true; f_ignore_add_err := false |} true
               Examples.steady_none fresh_tree Examples.good = Ok ([], fresh_tree) /\
  merklize_doc 20 Examples.errB true Examples.steady_none fresh_tree Examples.good = Err "unparsable literal".
Proof. exact Examples.seeded_k_refuted. Qed.
Print Assumptions C15_seeded_k_refuted.

Theorem C15_seeded_m_refuted :
  merklize_gen 20 Examples.idB {| f_ignore_entries_err := false; f_ignore_add_err := true |} true
               Examples.steady_none Examples.failing0 Examples.good
    = Ok ([tt], {| t_leaves := []; t_adds := 1; t_fail_at := Some 0 |}) /\
  merklize_doc 20 Examples.idB true Examples.steady_none Examples.failing0 Examples.good = Err "tree storage failure".
Proof. exact Examples.seeded_m_refuted. Qed.
Print Assumptions C15_seeded_m_refuted.

(* the default is safe at every entry point that merklizes, for EVERY loader
   configuration: [default] = the process-wide loader (None after
   SetDocumentLoader(nil)), [opts] may contain WithDocumentLoader (nil allowed), IPFS
   options and anything else except WithSafeMode.  The loader actually used is
   getDocumentLoader's choice: explicit loader, else IPFS loader, else the default. *)
Theorem C15_default :
  forall (cf : nat) (E DS En C : Type) (B : backend E DS En C)
         (default : option dloader) (opts : list mz_option) (d : json),
  (forall o, In o opts -> forall b, o <> WithSafeMode b) ->
  let ldr :=
    match fold_left (fun acc o => match o with WithDocumentLoader l => l | _ => acc end) opts None with
    | Some l => Some l
    | None => match fold_left (fun acc o => match o with WithIPFS l => Some l | _ => acc end) opts None with
              | Some l => Some l
              | None => default
              end
    end in
  let tr :=
    match fold_left (fun acc o => match o with WithMerkleTree t => Some t | _ => acc end) opts None with
    | Some t => t
    | None => fresh_tree
    end in
  MerklizeJSONLD cf B default opts d = merklize_doc cf B true ldr tr d /\
  W3CCredential_Merklize cf B default d opts = merklize_doc cf B true ldr tr d /\
  ToCoreClaim_merklize cf B default d (Some opts) = merklize_doc cf B true ldr tr d /\
  ToCoreClaim_merklize cf B default d None = merklize_doc cf B true default fresh_tree d /\
  VerifyProof_merklize cf B default d opts = merklize_doc cf B true ldr tr d /\
  ld_safe_mode (options_jsonld_options default) = true.
Proof. exact default_safe. Qed.
Print Assumptions C15_default.

(* every public entry point that merklizes forwards the caller's mode:
   merklize.MerklizeJSONLD, verifiable.W3CCredential.Merklize,
   W3CCredential.ToCoreClaim (CoreClaimOptions.MerklizerOpts), W3CCredential.VerifyProof
   (verifyConfig.merklizeOptions); the last WithSafeMode wins, none means safe;
   the mode does not depend on the loader configuration *)
Theorem C15_plumbing :
  forall (cf : nat) (E DS En C : Type) (B : backend E DS En C)
         (default : option dloader) (opts : list mz_option) (d : json),
  let mode := fold_left (fun acc o => match o with WithSafeMode b => b | _ => acc end) opts true in
  let ldr :=
    match fold_left (fun acc o => match o with WithDocumentLoader l => l | _ => acc end) opts None with
    | Some l => Some l
    | None => match fold_left (fun acc o => match o with WithIPFS l => Some l | _ => acc end) opts None with
              | Some l => Some l
              | None => default
              end
    end in
  let tr :=
    match fold_left (fun acc o => match o with WithMerkleTree t => Some t | _ => acc end) opts None with
    | Some t => t
    | None => fresh_tree
    end in
  MerklizeJSONLD cf B default opts d = merklize_doc cf B mode ldr tr d /\
  W3CCredential_Merklize cf B default d opts = merklize_doc cf B mode ldr tr d /\
  ToCoreClaim_merklize cf B default d (Some opts) = merklize_doc cf B mode ldr tr d /\
  VerifyProof_merklize cf B default d opts = merklize_doc cf B mode ldr tr d.
Proof. exact plumbing_all. Qed.
Print Assumptions C15_plumbing.

Theorem C15_plumbing_last_wins :
  forall (opts : list mz_option) (b : bool),
  fold_left (fun acc o => match o with WithSafeMode b => b | _ => acc end)
            (opts ++ [WithSafeMode b]) true = b.
Proof. exact effective_safe_last. Qed.
Print Assumptions C15_plumbing_last_wins.

(* newJSONLDOptions sets SafeMode whatever the loader is (nil included) *)
Theorem C15_options_mode :
  forall (safe : bool) (dl : option dloader), ld_safe_mode (new_jsonld_options safe dl) = safe.
Proof. exact new_options_mode. Qed.
Print Assumptions C15_options_mode.

(* Normalize never sees the mode (processor.go:572 builds fresh options) *)
Theorem C15_normalize_ignores_mode :
  forall (cf : nat) (E DS En C : Type) (B : backend E DS En C)
         (s1 s2 : bool) (dl : option dloader) (d : json),
  proc_normalize cf B (new_jsonld_options s1 dl) d = proc_normalize cf B (new_jsonld_options s2 dl) d.
Proof. exact normalize_ignores_mode. Qed.
Print Assumptions C15_normalize_ignores_mode.
