(* Properties/C17.v — Slot index lookup agrees with where claim building puts
   the field; processor facade.  ONLY restatements closed by `exact`, each
   followed by Print Assumptions.  Model: Claim/Model.v; proofs: Claim/Slots.v.

   Reading guide.  [get_field_slot_index f tp (SCtx (Some ts))] models
   json.Parser.GetFieldSlotIndex(f, tp, schema) on a schema document whose
   @context parses to the term definitions [ts] (in the order the Go map
   presents them).  A credential of that type: [c_mz c = Some mz] (it
   merklizes), [c_ctx c = Some ts] (same term definitions), and
   [find_credential_type mz = Ok tp].  [m_field mz f] is the value encoding of
   the field at credentialSubject.f (ResolveDocPath; Entry; ValueMtEntry);
   what fillSlot stores is that number in 32 little-endian bytes
   ([v mod 2^256]).  [raw_slot cl i] is raw slot i (0..7) of the claim.
   [slot_path sp i] is the field path the parsed attribute [sp] designates for
   raw slot i (2 = slotIndexA, 3 = slotIndexB, 6 = slotValueA, 7 = slotValueB). *)
From Coq Require Import ZArith List String Ascii Permutation.
From GSP Require Import Base.Prelude Claim.Model Claim.Theory Claim.Slots Claim.AttrAgree.
From GSP Require Total.Model.
Import ListNotations.
Open Scope Z_scope.

(* index i reported for a field  ==>  i is 2, 3, 6 or 7 and every claim built
   from a credential of that type has the field's encoding in raw slot i; a
   credential lacking the field yields no claim *)
Theorem C17_agree :
  forall O c caller mz ts tp f i,
  c_mz c = Some mz -> c_ctx c = Some ts -> find_credential_type mz = Ok tp ->
  f <> ""%string ->
  get_field_slot_index f tp (SCtx (Some ts)) = Ok i ->
  In i [2; 3; 6; 7] /\
  (forall cl, fst (to_core_claim O c caller) = Ok cl ->
     exists v, m_field mz f = Ok v /\ raw_slot cl i = v mod 2 ^ 256) /\
  (is_ok (m_field mz f) = false -> is_ok (fst (to_core_claim O c caller)) = false).
Proof. exact agree. Qed.
Print Assumptions C17_agree.

(* claim building: each of the four data slots holds the encoding of the field
   the attribute designates for it (0 for an undesignated slot) *)
Theorem C17_claim_slots :
  forall O c caller mz ts tp a sp cl j,
  c_mz c = Some mz -> c_ctx c = Some ts -> find_credential_type mz = Ok tp ->
  serialization_attr_of_context ts tp = Ok a -> a <> ""%string -> parse_serialization_attr a = Ok sp ->
  paths_is_empty sp = false ->
  fst (to_core_claim O c caller) = Ok cl ->
  In j [2; 3; 6; 7] ->
  (if String.eqb (slot_path sp j) "" then Ok 0
   else v <- m_field mz (slot_path sp j) ;; Ok (v mod 2 ^ 256)) = Ok (raw_slot cl j).
Proof. exact claim_slots_designated. Qed.
Print Assumptions C17_claim_slots.

(* <-> when no field is designated for two slots: i is reported for f iff slot
   i is the slot claim building fills with f *)
Theorem C17_agree_iff :
  forall f tp ts a sp i,
  serialization_attr_of_context ts tp = Ok a -> a <> ""%string -> parse_serialization_attr a = Ok sp ->
  f <> ""%string ->
  (forall j k, In j [2; 3; 6; 7] -> In k [2; 3; 6; 7] -> slot_path sp j = slot_path sp k ->
               slot_path sp j <> ""%string -> j = k) ->
  (get_field_slot_index f tp (SCtx (Some ts)) = Ok i <-> In i [2; 3; 6; 7] /\ slot_path sp i = f).
Proof. exact agree_iff. Qed.
Print Assumptions C17_agree_iff.

(* in general (a field may be designated for several slots): the reported index
   is the first designated slot in the order 2, 3, 6, 7 *)
Theorem C17_first_slot :
  forall f tp ts i,
  get_field_slot_index f tp (SCtx (Some ts)) = Ok i <->
  exists a sp,
    serialization_attr_of_context ts tp = Ok a /\ a <> ""%string /\
    parse_serialization_attr a = Ok sp /\
    In i [2; 3; 6; 7] /\ slot_path sp i = f /\
    (forall j, In j [2; 3; 6; 7] -> j < i -> slot_path sp j <> f).
Proof. exact first_slot. Qed.
Print Assumptions C17_first_slot.

(* errors coincide: malformed attribute *)
Theorem C17_malformed :
  forall O c caller mz ts tp a f t,
  c_mz c = Some mz -> c_ctx c = Some ts -> find_credential_type mz = Ok tp ->
  serialization_attr_of_context ts tp = Ok a -> a <> ""%string -> parse_serialization_attr a = Err t ->
  get_field_slot_index f tp (SCtx (Some ts)) = Err t /\ fst (to_core_claim O c caller) = Err t.
Proof. exact malformed_both. Qed.
Print Assumptions C17_malformed.

(* errors coincide: the type's scoped context is not a map *)
Theorem C17_context_error :
  forall O c caller mz ts tp f t,
  c_mz c = Some mz -> c_ctx c = Some ts -> find_credential_type mz = Ok tp ->
  serialization_attr_of_context ts tp = Err t ->
  get_field_slot_index f tp (SCtx (Some ts)) = Err t /\ fst (to_core_claim O c caller) = Err t.
Proof. exact context_error_both. Qed.
Print Assumptions C17_context_error.

(* a field the attribute does not name *)
Theorem C17_not_named :
  forall f tp ts a sp,
  serialization_attr_of_context ts tp = Ok a -> parse_serialization_attr a = Ok sp ->
  (forall j, In j [2; 3; 6; 7] -> slot_path sp j <> f) ->
  exists t, get_field_slot_index f tp (SCtx (Some ts)) = Err t.
Proof. exact not_named. Qed.
Print Assumptions C17_not_named.

(* a type without serialization attribute in the context: the lookup is an
   error, and claim building designates no data slot (all four are empty) *)
Theorem C17_unknown_type :
  forall c mz ts tp f,
  c_mz c = Some mz -> c_ctx c = Some ts -> find_credential_type mz = Ok tp ->
  serialization_attr_of_context ts tp = Ok ""%string ->
  (exists t, get_field_slot_index f tp (SCtx (Some ts)) = Err t) /\
  tcc_prefix c = Ok (mz, tp, slots_zero, false).
Proof. exact unknown_type. Qed.
Print Assumptions C17_unknown_type.

(* the lookup does not depend on the iteration order of the term map *)
Theorem C17_order :
  forall f tp ts ts',
  NoDup (map t_name ts) -> Permutation ts ts' ->
  get_field_slot_index f tp (SCtx (Some ts)) = get_field_slot_index f tp (SCtx (Some ts')).
Proof. exact lookup_perm. Qed.
Print Assumptions C17_order.

(* the processor facade returns what its component returns; a missing component is an error *)
Theorem C17_facade :
  forall (C S D Opt : Type) (p : processor C S D Opt),
  (forall f t s, facade_slot_index C S D Opt p f t s =
     match pr_parser C S D Opt p with
     | Some ps => ps_slot_index C S Opt ps f t s
     | None => Err "parser-not-defined" end) /\
  (forall c o, facade_parse_claim C S D Opt p c o =
     match pr_parser C S D Opt p with
     | Some ps => ps_parse_claim C S Opt ps c o
     | None => Err "parser-not-defined" end) /\
  (forall d s, facade_validate C S D Opt p d s =
     match pr_validator C S D Opt p with
     | Some v => v d s
     | None => Err "validator-not-defined" end) /\
  (forall u, facade_load C S D Opt p u =
     match pr_loader C S D Opt p with
     | Some l => l u
     | None => Err "loader-not-defined" end).
Proof. exact facade_delegates. Qed.
Print Assumptions C17_facade.

(* the attribute grammar: `iden3:v1:` followed by 1..4 parts `slotXxxY=path` joined
   by `&` (paths without `&` and `=`) parses to the assignment it spells, a
   repeated key taking its last value *)
Theorem C17_grammar :
  forall first rest,
  Forall (fun kp => In (fst kp) [2; 3; 6; 7] /\
                    forall c, In c (str_to_list (snd kp)) -> c <> "&"%char /\ c <> "="%char) (first :: rest) ->
  (List.length rest <= 3)%nat ->
  parse_serialization_attr (render_attr first rest) =
  Ok (fold_left (fun acc kp => set_slot acc (fst kp) (snd kp)) (first :: rest) paths_empty).
Proof. exact parse_render. Qed.
Print Assumptions C17_grammar.

(* lookup by type name and by type IRI agree whenever the context has a single
   type term that is called / identified by either string (two terms sharing one
   @id are told apart by name but not by IRI: Slots.ex_alias_types) *)
Theorem C17_name_or_iri :
  forall ts t f d,
  d = SCtx (Some ts) ->
  (forall t', In t' ts ->
     (t_is_map t' && match t_ctx t' with Some _ => true | None => false end)%bool = true ->
     (String.eqb (t_name t') (t_name t) || String.eqb (t_id t') (t_name t))%bool = true \/
     (String.eqb (t_name t') (t_id t) || String.eqb (t_id t') (t_id t))%bool = true -> t' = t) ->
  serialization_attr_of_context ts (t_name t) = serialization_attr_of_context ts (t_id t) /\
  get_field_slot_index f (t_name t) d = get_field_slot_index f (t_id t) d.
Proof. exact name_or_iri. Qed.
Print Assumptions C17_name_or_iri.

(* the facade configured with json.Parser: ParseClaim hands the caller's options to
   ToCoreClaim unchanged (every field), GetFieldSlotIndex is the parser's *)
Theorem C17_facade_json :
  forall O V L c f t d,
  let p := {| pr_validator := V; pr_loader := L;
              pr_parser := Some {| ps_parse_claim := parser_parse_claim O;
                                   ps_slot_index := get_field_slot_index |} |}
           : processor cred schema_doc unit (option opts) in
  (forall o, facade_parse_claim cred schema_doc unit (option opts) p c (Some o) = fst (to_core_claim O c (Some o))) /\
  facade_slot_index cred schema_doc unit (option opts) p f t d = get_field_slot_index f t d.
Proof. exact facade_json_parser. Qed.
Print Assumptions C17_facade_json.

(* every facade method depends on ITS component only: processors that agree on the component a
   method needs agree on that method, whatever else is or is not configured (with C17_facade: the
   answer is that component's own answer, or the method's own not-defined error, never another
   component's).  The seeded guard on the wrong component is refuted: Slots.facade_validate_c17m_refuted *)
Theorem C17_facade_transparent :
  forall (C S D Opt : Type) (p p' : processor C S D Opt),
  (pr_validator C S D Opt p = pr_validator C S D Opt p' ->
     forall d s, facade_validate C S D Opt p d s = facade_validate C S D Opt p' d s) /\
  (pr_parser C S D Opt p = pr_parser C S D Opt p' ->
     (forall f t s, facade_slot_index C S D Opt p f t s = facade_slot_index C S D Opt p' f t s) /\
     (forall c o, facade_parse_claim C S D Opt p c o = facade_parse_claim C S D Opt p' c o)) /\
  (pr_loader C S D Opt p = pr_loader C S D Opt p' ->
     forall u, facade_load C S D Opt p u = facade_load C S D Opt p' u).
Proof. exact facade_transparent. Qed.
Print Assumptions C17_facade_transparent.

(* the attribute at STRING level, against the independently written executable model of
   ParseSerializationAttr in Total/Model.v (strings.Split with an accumulator, slice indexing):
   the two models give the same parsed paths, or both an error, on EVERY string (no panic) *)
Theorem C17_attr_models_agree :
  forall a,
  match GSP.Total.Model.parse_ser_attr a, parse_serialization_attr a with
  | Ok x, Ok y =>
      {| p_index_a := GSP.Total.Model.sp_ia x; p_index_b := GSP.Total.Model.sp_ib x;
         p_value_a := GSP.Total.Model.sp_va x; p_value_b := GSP.Total.Model.sp_vb x |} = y
  | Err _, Err _ => True
  | _, _ => False
  end.
Proof. exact parse_models_agree. Qed.
Print Assumptions C17_attr_models_agree.

(* GetFieldSlotIndex's lookup and parseSlots' placement read the SAME parsed attribute: for every
   attribute string a that the context holds for the type and every field f, if index i is reported
   then a parses (Total's parser) to paths x, i is the first data slot x designates for f, and
   the claim builder has put f's encoding - and every other designated field's - in that raw slot *)
Theorem C17_attr_parse_agrees :
  forall O c caller mz ts tp a f i cl,
  c_mz c = Some mz -> c_ctx c = Some ts -> find_credential_type mz = Ok tp ->
  f <> ""%string ->
  serialization_attr_of_context ts tp = Ok a ->
  get_field_slot_index f tp (SCtx (Some ts)) = Ok i ->
  fst (to_core_claim O c caller) = Ok cl ->
  exists x, GSP.Total.Model.parse_ser_attr a = Ok x /\
    In i [2; 3; 6; 7] /\ slot_path (conv x) i = f /\
    (forall j, In j [2; 3; 6; 7] -> j < i -> slot_path (conv x) j <> f) /\
    enc_of mz f = Ok (raw_slot cl i) /\
    (forall j, In j [2; 3; 6; 7] -> enc_of mz (slot_path (conv x) j) = Ok (raw_slot cl j)).
Proof. exact attr_parse_agrees. Qed.
Print Assumptions C17_attr_parse_agrees.
