(* Properties/C18.v — Data validation agrees with the JSON Schema specification.
   ONLY restatements closed by `exact`, each followed by Print Assumptions.
   Executable reference validator and wrapper model: Schema/Model.v (+Json.v, Regex.v);
   declarative semantics (one rule per keyword): Schema/Spec.v;
   proofs: Schema/ThRegex.v, ThJson.v, Theory.v, Decide.v; non-vacuity: Schema/Examples.v.
   PARTIAL BOUNDARY: these theorems relate the Coq validator `validate` to the
   declarative relation `Valid`.  That santhosh-tekuri/jsonschema (what
   /repo/json/validator.go calls) agrees with `validate` is checked differentially on
   every run (Schema/Run.v + harness/c18), not proved. *)
From Coq Require Import ZArith QArith List String NArith.
From GSP Require Import Base.Prelude Schema.Json Schema.Regex Schema.Model Schema.Spec
  Schema.ThRegex Schema.ThJson Schema.Theory Schema.Decide Schema.Fuel Schema.Complete Schema.Total Schema.Adequate Schema.JsonText Schema.TextGlue.
Import ListNotations.

(* MAIN STATEMENT.  For every environment of $ref targets, every schema whose $ref
   chains end within the fuel (static check `ref_bounded`), and EVERY instance:
   the executable validator answers, and it answers true exactly for conforming
   instances, false exactly for non-conforming ones. *)
Theorem C18_decides_bounded :
  forall (E : env) (fuel : nat) (S : schema) (j : json),
  ref_bounded E fuel S = true ->
  (validate E fuel S j = Some true <-> Valid E S j) /\
  (validate E fuel S j = Some false <-> ~ Valid E S j).
Proof. exact bounded_decides. Qed.
Print Assumptions C18_decides_bounded.

Theorem C18_bounded_total :
  forall (E : env) (n : nat) (S : schema),
  ref_bounded E n S = true -> forall j : json, validate E n S j <> None.
Proof. exact bounded_defined. Qed.
Print Assumptions C18_bounded_total.

Theorem C18_bounded_invalid_is_not_valid :
  forall (E : env) (fuel : nat) (S : schema) (j : json),
  ref_bounded E fuel S = true -> (Invalid E S j <-> ~ Valid E S j).
Proof. exact bounded_invalid_iff_not_valid. Qed.
Print Assumptions C18_bounded_invalid_is_not_valid.

(* for ALL schemas (also recursive ones, where the fuel needed depends on the
   instance): conformance is exactly "validate says true for some fuel" *)
Theorem C18_complete :
  forall (E : env) (S : schema) (j : json),
  Valid E S j <-> exists fuel : nat, validate E fuel S j = Some true.
Proof. exact valid_iff_validate. Qed.
Print Assumptions C18_complete.

Theorem C18_complete_invalid :
  forall (E : env) (S : schema) (j : json),
  Invalid E S j <-> exists fuel : nat, validate E fuel S j = Some false.
Proof. exact invalid_iff_validate. Qed.
Print Assumptions C18_complete_invalid.

Theorem C18_fuel_monotone :
  forall (E : env) (f : nat) (S : schema) (j : json) (b : bool),
  validate E f S j = Some b ->
  exists F : nat, forall f' : nat, (F <= f')%nat -> validate E f' S j = Some b.
Proof. exact validate_monotone. Qed.
Print Assumptions C18_fuel_monotone.

(* for ALL environments of $ref targets, schemas and instances: whenever the fuel
   suffices for the $ref chains met on this instance (validate returns a definite
   verdict), that verdict is exactly conformance *)
Theorem C18_decides :
  forall (E : env) (fuel : nat) (S : schema) (j : json) (b : bool),
  validate E fuel S j = Some b -> (b = true <-> Valid E S j).
Proof. exact validate_decides. Qed.
Print Assumptions C18_decides.

Theorem C18_decides_invalid :
  forall (E : env) (fuel : nat) (S : schema) (j : json) (b : bool),
  validate E fuel S j = Some b -> (b = false <-> Invalid E S j).
Proof. exact validate_refutes. Qed.
Print Assumptions C18_decides_invalid.

(* both directions without the side condition: a definite verdict is sound *)
Theorem C18_sound :
  forall (E : env) (fuel : nat) (S : schema) (j : json),
  (validate E fuel S j = Some true -> Valid E S j) /\
  (validate E fuel S j = Some false -> Invalid E S j).
Proof. exact validate_sound. Qed.
Print Assumptions C18_sound.

(* conforming and non-conforming exclude each other (so `Invalid` is a sound reading of "not Valid") *)
Theorem C18_consistent :
  forall (E : env) (S : schema) (j : json), Valid E S j -> Invalid E S j -> False.
Proof. exact valid_invalid_exclusive. Qed.
Print Assumptions C18_consistent.

Theorem C18_fuel_irrelevant :
  forall (E : env) (f1 f2 : nat) (S : schema) (j : json) (b1 b2 : bool),
  validate E f1 S j = Some b1 -> validate E f2 S j = Some b2 -> b1 = b2.
Proof. exact validate_fuel_irrelevant. Qed.
Print Assumptions C18_fuel_irrelevant.

(* building blocks of the specification are decided exactly *)
Theorem C18_pattern_search :
  forall (p : pat) (w : list N),
  pat_matchb p w = true <->
  exists pre mid post, w = pre ++ mid ++ post /\ Lang (p_re p) mid /\
                       (p_left p = true -> pre = []) /\ (p_right p = true -> post = []).
Proof. exact pat_matchb_spec. Qed.
Print Assumptions C18_pattern_search.

Theorem C18_json_equality : forall a b : json, json_eqb a b = true <-> JEq a b.
Proof. exact json_eqb_spec. Qed.
Print Assumptions C18_json_equality.

Theorem C18_integer : forall q : Q, q_is_int q = true <-> exists z : Z, q == inject_Z z.
Proof. exact q_is_int_spec. Qed.
Print Assumptions C18_integer.

Theorem C18_multiple_of :
  forall x m : Q, q_multiple_of x m = true <-> exists z : Z, x == inject_Z z * m.
Proof. exact q_multiple_of_spec. Qed.
Print Assumptions C18_multiple_of.

(* sanity laws *)
Theorem C18_law_not_not : forall E S j, Valid E (SNot (SNot S)) j <-> Valid E S j.
Proof. exact law_not_not. Qed.
Print Assumptions C18_law_not_not.
Theorem C18_law_allOf_nil : forall E j, Valid E (SAllOf []) j.
Proof. exact law_allOf_nil. Qed.
Print Assumptions C18_law_allOf_nil.
Theorem C18_law_anyOf_nil : forall E j, Invalid E (SAnyOf []) j.
Proof. exact law_anyOf_nil. Qed.
Print Assumptions C18_law_anyOf_nil.
Theorem C18_law_oneOf_nil : forall E j, Invalid E (SOneOf []) j.
Proof. exact law_oneOf_nil. Qed.
Print Assumptions C18_law_oneOf_nil.
Theorem C18_law_enum_nil : forall E j, Invalid E (SEnum []) j.
Proof. exact law_enum_nil. Qed.
Print Assumptions C18_law_enum_nil.
Theorem C18_law_allOf_single : forall E S j, Valid E (SAllOf [S]) j <-> Valid E S j.
Proof. exact law_allOf_single. Qed.
Print Assumptions C18_law_allOf_single.
Theorem C18_law_anyOf_single : forall E S j, Valid E (SAnyOf [S]) j <-> Valid E S j.
Proof. exact law_anyOf_single. Qed.
Print Assumptions C18_law_anyOf_single.
Theorem C18_law_oneOf_single : forall E S j, Valid E (SOneOf [S]) j <-> Valid E S j.
Proof. exact law_oneOf_single. Qed.
Print Assumptions C18_law_oneOf_single.
Theorem C18_law_allOf_app :
  forall E l1 l2 j, Valid E (SAllOf (l1 ++ l2)) j <-> Valid E (SAllOf l1) j /\ Valid E (SAllOf l2) j.
Proof. exact law_allOf_app. Qed.
Print Assumptions C18_law_allOf_app.
Theorem C18_law_ref :
  forall E t S j, jassoc t E = Some S -> (Valid E (SRef t) j <-> Valid E S j).
Proof. exact law_ref_unfold. Qed.
Print Assumptions C18_law_ref.

(* the repository's wrapper (json/validator.go): malformed schema text, malformed
   data, non-object data and uncompilable schemas are errors; otherwise the verdict.
   `validate_data_with fuel_of` is the wrapper model for an arbitrary fuel policy;
   `validate_data` (what the case files run) is the instance `fuel_of := fuel_for`. *)
Theorem C18_glue_schema_malformed :
  forall fuel_of data, validate_data_with fuel_of data None = Err "schema-json".
Proof. exact glue_schema_malformed. Qed.
Print Assumptions C18_glue_schema_malformed.

Theorem C18_glue_data_malformed :
  forall fuel_of sj, validate_data_with fuel_of None (Some sj) = Err "data-json".
Proof. exact glue_data_malformed. Qed.
Print Assumptions C18_glue_data_malformed.

Theorem C18_glue_data_not_object :
  forall fuel_of j sj, (forall o, j <> JObj o) ->
  validate_data_with fuel_of (Some j) (Some sj) = Err "data-null" \/
  validate_data_with fuel_of (Some j) (Some sj) = Err "data-type".
Proof. exact glue_data_not_object. Qed.
Print Assumptions C18_glue_data_not_object.

Theorem C18_glue_schema_uncompilable :
  forall fuel_of o sj t, compile_root sj = Err t ->
  validate_data_with fuel_of (Some (JObj o)) (Some sj) = Err t.
Proof. exact glue_schema_uncompilable. Qed.
Print Assumptions C18_glue_schema_uncompilable.

Theorem C18_glue_verdict :
  forall (fuel_of : compiled -> json -> nat) o sj c,
  compile_root sj = Ok c ->
  validate (c_env c) (fuel_of c (JObj o)) (c_root c) (JObj o) <> None ->
  (validate_data_with fuel_of (Some (JObj o)) (Some sj) = Ok tt <-> Valid (c_env c) (c_root c) (JObj o)) /\
  (validate_data_with fuel_of (Some (JObj o)) (Some sj) = Err "invalid" <-> Invalid (c_env c) (c_root c) (JObj o)).
Proof. exact glue_verdict. Qed.
Print Assumptions C18_glue_verdict.

(* UNCONDITIONAL form for the wrapper model that the case files run (`validate_data`,
   fuel policy `fuel_for`): for every schema document the compiler accepts and every
   object instance the answer is Ok exactly for conforming data and Err "invalid"
   exactly for non-conforming data (the fuel always suffices: no spurious loop error) *)
Theorem C18_glue_exact :
  forall o sj c,
  compile_root sj = Ok c ->
  (validate_data (Some (JObj o)) (Some sj) = Ok tt <-> Valid (c_env c) (c_root c) (JObj o)) /\
  (validate_data (Some (JObj o)) (Some sj) = Err "invalid" <-> ~ Valid (c_env c) (c_root c) (JObj o)).
Proof. exact validate_data_exact. Qed.
Print Assumptions C18_glue_exact.

Theorem C18_fuel_adequate :
  forall sj c j, compile_root sj = Ok c ->
  validate (c_env c) (fuel_for c j) (c_root c) j <> None.
Proof. exact compiled_defined. Qed.
Print Assumptions C18_fuel_adequate.

(* the model of ValidateData is total: Ok or a classified error, for every input *)
Theorem C18_glue_total :
  forall fuel_of data schema,
  validate_data_with fuel_of data schema = Ok tt \/ exists t, validate_data_with fuel_of data schema = Err t.
Proof. exact validate_data_total. Qed.
Print Assumptions C18_glue_total.

(* unknown members such as "$metadata" do not influence compilation, hence not the verdict *)
Theorem C18_unknown_members_ignored :
  forall o1 o2 k v, unknown_member k = true ->
  compile_root (JObj (o1 ++ (k, v) :: o2)) = compile_root (JObj (o1 ++ o2)).
Proof. exact unknown_member_irrelevant. Qed.
Print Assumptions C18_unknown_members_ignored.

Theorem C18_metadata_is_unknown : unknown_member "$metadata" = true.
Proof. exact metadata_is_unknown. Qed.
Print Assumptions C18_metadata_is_unknown.

(* draft-07: an object with "$ref" IS the reference, its siblings are ignored;
   2020-12: the reference and the siblings all apply *)
Theorem C18_draft7_ref_siblings_ignored :
  forall cks t, find_ck get_ref cks = Some t -> assemble D7 cks = SRef t.
Proof. exact draft7_ref_siblings_ignored. Qed.
Print Assumptions C18_draft7_ref_siblings_ignored.

Theorem C18_draft2020_ref_siblings_apply :
  forall E cks t j, find_ck get_ref cks = Some t ->
  (Valid E (assemble D2020 cks) j <->
   Valid E (SRef t) j /\
   Valid E (SAllOf (simples cks ++ props_bundle cks ++ items_bundle D2020 cks)) j).
Proof. exact draft2020_ref_siblings_apply. Qed.
Print Assumptions C18_draft2020_ref_siblings_apply.

(* the wrapper model is a function of (data, schema) only: for every history of calls
   made by one process the i-th result equals the result of a fresh call; two schema
   revisions sharing one "$id" are each judged by their own text *)
Theorem C18_history_independent :
  forall (calls : list (option json * option json)) (i : nat) data schema,
  nth_error calls i = Some (data, schema) ->
  nth_error (run_history calls) i = Some (validate_data data schema).
Proof. exact history_independent. Qed.
Print Assumptions C18_history_independent.

Theorem C18_history_prefix_irrelevant :
  forall pre1 pre2 data schema post1 post2,
  nth_error (run_history (pre1 ++ (data, schema) :: post1)) (List.length pre1) =
  nth_error (run_history (pre2 ++ (data, schema) :: post2)) (List.length pre2).
Proof. exact history_prefix_irrelevant. Qed.
Print Assumptions C18_history_prefix_irrelevant.

(* processor facade: delegation, or an error when no validator is configured *)
Theorem C18_glue_processor :
  forall data schema,
  processor_validate_data false data schema = Err "validator-not-defined" /\
  processor_validate_data true data schema = validate_data data schema.
Proof. exact glue_processor. Qed.
Print Assumptions C18_glue_processor.

(* ---- the wrapper on TEXT: the JSON well-formedness gate on BOTH inputs ----
   `parse_json s = Some v` iff s is exactly one JSON value (Schema/JsonText.v);
   every other byte string, as data or as schema, is reported as an error *)
Theorem C18_malformed_rejected :
  forall data schema : string,
  parse_json schema = None \/ parse_json data = None ->
  exists t, validate_text data schema = Err t.
Proof. exact malformed_rejected. Qed.
Print Assumptions C18_malformed_rejected.

Theorem C18_trailing_text_rejected :
  forall (l : list N) (v : json) (rest : list N),
  parse_value (S (S (2 * List.length l))) l = Some (v, rest) -> all_ws rest = false -> parse_bytes l = None.
Proof. exact trailing_text_rejected. Qed.
Print Assumptions C18_trailing_text_rejected.

Theorem C18_one_value_only :
  forall (l : list N) (v : json),
  parse_bytes l = Some v <->
  exists rest, parse_value (S (S (2 * List.length l))) l = Some (v, rest) /\ all_ws rest = true.
Proof. exact parse_bytes_spec. Qed.
Print Assumptions C18_one_value_only.

Theorem C18_text_exact :
  forall (data schema : string) o sj c,
  parse_json data = Some (JObj o) -> parse_json schema = Some sj -> compile_root sj = Ok c ->
  (validate_text data schema = Ok tt <-> Valid (c_env c) (c_root c) (JObj o)) /\
  (validate_text data schema = Err "invalid" <-> ~ Valid (c_env c) (c_root c) (JObj o)).
Proof. exact text_exact. Qed.
Print Assumptions C18_text_exact.

Theorem C18_text_total :
  forall data schema : string,
  validate_text data schema = Ok tt \/ exists t, validate_text data schema = Err t.
Proof. exact text_total. Qed.
Print Assumptions C18_text_total.

(* ---- the Processor facade over optional components: the configured validator's
   verdict on the SAME data and schema (no re-encoding), or the not-defined error ---- *)
Theorem C18_facade_is_validator :
  forall (D S : Type) (validator : option (D -> S -> res unit)) (data : D) (schema : S),
  match validator with
  | Some v => processor_validate validator data schema = v data schema
  | None => processor_validate validator data schema = Err "validator-not-defined"
  end.
Proof. exact facade_is_validator. Qed.
Print Assumptions C18_facade_is_validator.

(* seeded variants of the facade do not have that property *)
Theorem C18_facade_reencoding_refuted :
  exists (reenc : string -> string) (data schema : string),
    processor_reencoding reenc (Some validate_text) data schema <>
    processor_validate (Some validate_text) data schema.
Proof. exact facade_reencoding_refuted. Qed.
Print Assumptions C18_facade_reencoding_refuted.

Theorem C18_facade_lenient_refuted :
  exists data schema : string,
    processor_lenient (@None (string -> string -> res unit)) data schema <>
    processor_validate (@None (string -> string -> res unit)) data schema.
Proof. exact facade_lenient_refuted. Qed.
Print Assumptions C18_facade_lenient_refuted.
