(* Properties/C02.v — Every leaf is provable and every absent path is provably
   absent.  ONLY restatements closed by `exact`, each followed by Print Assumptions.
   Model: Merklizer/Model.v (+ RDF/Model.v for dataset -> entries, SMT/Model.v for
   the tree); proofs: Merklizer/Theory.v on top of SMT/Theory.v (completeness).

   Reading.  `merklize_ds T Hd F cfg None ds = Ok m`: MerklizeJSONLD succeeded on
   the normalised dataset ds with WithHasher(cfg) (None: not given) and its own
   fresh tree, while the package default hasher was Hd.  `mz_entries m` is the
   merklizer's entries map (key = decimal of the path key).  Hd' is the package
   default hasher at the time of the later call (it may have been changed by
   SetHasher).  The tree hashes tp_hl / tp_hm are arbitrary functions: nothing is
   assumed of them for the statements about the pure `verify_proof`; the statements
   about merkletree.VerifyProof WITH its argument checks (`t_verify`) need the
   RANGE facts spelled out below (outputs inside the field, bitmap wide enough) —
   no injectivity or collision-freeness anywhere. *)
From Coq Require Import ZArith List String.
From GSP Require Import Base.Prelude Value.Time Value.Model RDF.Model SMT.Model
  Merklizer.Model Merklizer.Script Merklizer.Theory Merklizer.SliceModel Merklizer.SliceTheory.
Import ListNotations.
Open Scope Z_scope.

(* every entry: Proof returns an existence proof plus a Value holding the entry's
   value, and the proof verifies against Root() for (path key, hash of that Value) *)
Theorem C02_member :
  forall (T : tparams) (Hd : hasher) (F : floats) (cfg : option hasher) (ds : dataset) (m : mz),
  merklize_ds T Hd F cfg None ds = Ok m ->
  forall (Hd' : hasher) (k : Z) (e : rdf_entry),
  In (k, e) (mz_entries m) ->
  exists pr v vh,
    mz_proof T Hd' m (re_key e) = Ok (pr, Some v) /\ ex pr = true /\
    v_val v = re_val e /\
    path_mt_entry Hd' (re_key e) = Ok k /\ value_mt_entry v = Ok vh /\
    verify_proof (tp_hl T) (tp_hm T) (mz_root T m) pr (hash_of_z k) (hash_of_z vh) = true /\
    ((0 < tp_q T /\ (forall a b, tp_hl T a b < tp_q T) /\ (forall a b, tp_hm T a b < tp_q T) /\
      (tp_maxlev T <= 240)%nat) ->
     t_verify T (mz_root T m) pr k vh = Ok true).
Proof. exact c02_member. Qed.
Print Assumptions C02_member.

(* the same for ANY path object that hashes to the key of an entry *)
Theorem C02_member_path :
  forall (T : tparams) (Hd : hasher) (F : floats) (cfg : option hasher) (ds : dataset) (m : mz),
  merklize_ds T Hd F cfg None ds = Ok m ->
  forall (Hd' : hasher) (p : path) (k : Z) (e : rdf_entry),
  path_mt_entry Hd' p = Ok k -> In (k, e) (mz_entries m) ->
  exists pr v vh,
    mz_proof T Hd' m p = Ok (pr, Some v) /\ ex pr = true /\ v_val v = re_val e /\
    value_mt_entry v = Ok vh /\
    verify_proof (tp_hl T) (tp_hm T) (mz_root T m) pr (hash_of_z k) (hash_of_z vh) = true /\
    ((0 < tp_q T /\ (forall a b, tp_hl T a b < tp_q T) /\ (forall a b, tp_hm T a b < tp_q T) /\
      (tp_maxlev T <= 240)%nat) ->
     t_verify T (mz_root T m) pr k vh = Ok true).
Proof. exact c02_member_path. Qed.
Print Assumptions C02_member_path.

(* every path whose tree key is not the tree key of an entry: a non-existence proof
   that verifies against Root(), and no Value.  (hash_of_z is the tree's own key
   normalisation |k| mod 2^256, the identity on field elements.) *)
Theorem C02_nonmember :
  forall (T : tparams) (Hd : hasher) (F : floats) (cfg : option hasher) (ds : dataset) (m : mz),
  merklize_ds T Hd F cfg None ds = Ok m ->
  forall (Hd' : hasher) (p : path) (k : Z),
  (1 <= tp_maxlev T)%nat ->
  path_mt_entry Hd' p = Ok k -> k < tp_q T ->
  (forall k' e, In (k', e) (mz_entries m) -> hash_of_z k' <> hash_of_z k) ->
  exists pr,
    mz_proof T Hd' m p = Ok (pr, None) /\ ex pr = false /\
    verify_proof (tp_hl T) (tp_hm T) (mz_root T m) pr (hash_of_z k) 0 = true /\
    ((0 < tp_q T /\ (forall a b, tp_hl T a b < tp_q T) /\ (forall a b, tp_hm T a b < tp_q T) /\
      (tp_maxlev T <= 240)%nat) ->
     forall v, v < tp_q T -> t_verify T (mz_root T m) pr k v = Ok true).
Proof. exact c02_nonmember. Qed.
Print Assumptions C02_nonmember.

(* with keys inside the field (every hasher that returns field elements): a path whose
   key is simply not a key of the entries map *)
Theorem C02_nonmember_infield :
  forall (T : tparams) (Hd : hasher) (F : floats) (cfg : option hasher) (ds : dataset) (m : mz),
  merklize_ds T Hd F cfg None ds = Ok m ->
  forall (Hd' : hasher) (p : path) (k : Z),
  (1 <= tp_maxlev T)%nat -> tp_q T <= 2 ^ 256 ->
  path_mt_entry Hd' p = Ok k -> 0 <= k < tp_q T ->
  (forall k' e, In (k', e) (mz_entries m) -> 0 <= k') ->
  assoc Z.eqb k (mz_entries m) = None ->
  exists pr,
    mz_proof T Hd' m p = Ok (pr, None) /\ ex pr = false /\
    verify_proof (tp_hl T) (tp_hm T) (mz_root T m) pr k 0 = true /\
    ((0 < tp_q T /\ (forall a b, tp_hl T a b < tp_q T) /\ (forall a b, tp_hm T a b < tp_q T) /\
      (tp_maxlev T <= 240)%nat) ->
     forall v, v < tp_q T -> t_verify T (mz_root T m) pr k v = Ok true).
Proof. exact c02_nonmember_infield. Qed.
Print Assumptions C02_nonmember_infield.

(* Entry and JSONLDType succeed exactly for the paths that have an existence proof *)
Theorem C02_entry_iff :
  forall (T : tparams) (Hd : hasher) (F : floats) (cfg : option hasher) (ds : dataset) (m : mz),
  merklize_ds T Hd F cfg None ds = Ok m ->
  forall (Hd' : hasher) (p : path),
  ((exists e, mz_entry Hd' m p = Ok e) <-> (exists s, mz_jsonld_type Hd' m p = Ok s)) /\
  ((exists e, mz_entry Hd' m p = Ok e) <->
   (exists pr ov, mz_proof T Hd' m p = Ok (pr, ov) /\ ex pr = true)).
Proof. exact c02_entry_iff. Qed.
Print Assumptions C02_entry_iff.

(* the entries the theorems above range over are ALL entries of the document: the map
   holds exactly the list EntriesFromRDF produced (each wrapped with the merklizer's
   hasher), and the tree has exactly as many leaves *)
Theorem C02_entries_stored :
  forall (T : tparams) (Hd : hasher) (F : floats) (cfg : option hasher) (ds : dataset) (m : mz),
  merklize_ds T Hd F cfg None ds = Ok m ->
  exists es0,
    entries_from_rdf F (h_prime (hasher_or Hd cfg)) ds = Ok es0 /\
    map snd (mz_entries m) =
      map (wrap_entry (hasher_or Hd cfg) (Some (hasher_or Hd cfg))) es0 /\
    List.length (leaves (mz_tree m)) = List.length es0.
Proof. exact c02_entries_stored. Qed.
Print Assumptions C02_entries_stored.

(* whenever Proof succeeds: a Value is returned exactly with an existence proof *)
Theorem C02_value_iff_existence :
  forall (T : tparams) (m : mz) (Hd' : hasher) (p : path) (pr : proof) (ov : option value),
  mz_proof T Hd' m p = Ok (pr, ov) -> (ex pr = true <-> exists v, ov = Some v).
Proof. exact c02_value_iff_existence. Qed.
Print Assumptions C02_value_iff_existence.

(* ---- caller-provided tree shared by several merklizers (WithMerkleTree) ----
   `grun T D 0 shared_init gs` runs ANY history gs on one shared tree: documents merklized
   into it (GMerklize; a failing run keeps the leaves it already added), direct tree.Add
   calls (GAdd), caller steps (GOn).  `with_tree m t` is merklizer m reading the tree's
   current content t — Root() and Proof are live reads.  After any history, every
   merklizer created so far still proves each of its entries against its CURRENT Root(),
   and every path whose key the tree does not hold gets a verifying non-existence proof. *)
Theorem C02_shared_member :
  forall (T : tparams) (D : nat -> hasher) (gs : list gstep) (m : mz) (Hd' : hasher)
         (p : path) (k : Z) (e : rdf_entry),
  let st := fst (grun T D 0 shared_init gs) in
  let m' := with_tree m (sh_tree st) in
  In m (sh_mzs st) -> path_mt_entry Hd' p = Ok k -> In (k, e) (mz_entries m) ->
  exists pr v vh,
    mz_proof T Hd' m' p = Ok (pr, Some v) /\ ex pr = true /\ v_val v = re_val e /\
    value_mt_entry v = Ok vh /\
    verify_proof (tp_hl T) (tp_hm T) (mz_root T m') pr (hash_of_z k) (hash_of_z vh) = true /\
    ((0 < tp_q T /\ (forall a b, tp_hl T a b < tp_q T) /\ (forall a b, tp_hm T a b < tp_q T) /\
      (tp_maxlev T <= 240)%nat) ->
     t_verify T (mz_root T m') pr k vh = Ok true).
Proof. exact c02_shared_member. Qed.
Print Assumptions C02_shared_member.

Theorem C02_shared_nonmember :
  forall (T : tparams) (D : nat -> hasher) (gs : list gstep) (m : mz) (Hd' : hasher)
         (p : path) (k : Z),
  let st := fst (grun T D 0 shared_init gs) in
  let m' := with_tree m (sh_tree st) in
  In m (sh_mzs st) -> (1 <= tp_maxlev T)%nat ->
  path_mt_entry Hd' p = Ok k -> k < tp_q T ->
  ~ In (hash_of_z k) (keys (sh_tree st)) ->
  exists pr,
    mz_proof T Hd' m' p = Ok (pr, None) /\ ex pr = false /\
    verify_proof (tp_hl T) (tp_hm T) (mz_root T m') pr (hash_of_z k) 0 = true /\
    ((0 < tp_q T /\ (forall a b, tp_hl T a b < tp_q T) /\ (forall a b, tp_hm T a b < tp_q T) /\
      (tp_maxlev T <= 240)%nat) ->
     forall v, v < tp_q T -> t_verify T (mz_root T m') pr k v = Ok true).
Proof. exact c02_shared_nonmember. Qed.
Print Assumptions C02_shared_nonmember.

(* ---- Path.Append / Path.Prepend do not alias (Merklizer/SliceModel.v: Go slices over a heap
   of arrays; `valid h s`: slice s lies inside its array of heap h; `view h s`: what reading s
   yields; p = the path's parts slice, xs = the caller's variadic argument slice) ----
   For every element type, growth policy and heap: the result reads p ++ xs (resp. xs ++ p); EVERY
   other valid slice of the heap — copies of the path, the caller's argument buffer, other paths —
   reads the same afterwards; and the result lives in a new array (index = length of the old heap)
   that no slice of the old heap refers to.  (Append of zero parts returns the path unchanged.) *)
Theorem C02_path_append_does_not_alias :
  forall (A : Type) (dflt : A) (slack : nat -> nat) (h : SliceModel.heap A) (p xs : SliceModel.slice),
  SliceTheory.valid A h p ->
  let r := SliceModel.append_fixed A dflt slack h p xs in
  SliceModel.view A (fst r) (snd r) = SliceModel.view A h p ++ SliceModel.view A h xs /\
  SliceTheory.valid A (fst r) (snd r) /\
  (forall t, SliceTheory.valid A h t ->
             SliceModel.view A (fst r) t = SliceModel.view A h t /\ SliceTheory.valid A (fst r) t) /\
  (SliceModel.view A h xs <> [] -> SliceModel.s_arr (snd r) = List.length h).
Proof. exact SliceTheory.append_fixed_spec. Qed.
Print Assumptions C02_path_append_does_not_alias.

Theorem C02_path_prepend_does_not_alias :
  forall (A : Type) (dflt : A) (slack : nat -> nat) (h : SliceModel.heap A) (p xs : SliceModel.slice),
  SliceTheory.valid A h p -> SliceTheory.valid A h xs ->
  let r := SliceModel.prepend_fixed A dflt slack h p xs in
  SliceModel.view A (fst r) (snd r) = SliceModel.view A h xs ++ SliceModel.view A h p /\
  SliceTheory.valid A (fst r) (snd r) /\
  (forall t, SliceTheory.valid A h t ->
             SliceModel.view A (fst r) t = SliceModel.view A h t /\ SliceTheory.valid A (fst r) t) /\
  SliceModel.s_arr (snd r) = List.length h.
Proof. exact SliceTheory.prepend_fixed_spec. Qed.
Print Assumptions C02_path_prepend_does_not_alias.

(* the earlier versions (D35: append(p.parts, parts...); D36: append(parts, p.parts...)) violate
   the frame property: concrete heaps on which another slice reads differently afterwards *)
Theorem C02_path_append_prefix_refuted :
  exists (h : SliceModel.heap nat) (p q xs : SliceModel.slice),
    SliceTheory.valid nat h p /\ SliceTheory.valid nat h q /\ SliceTheory.valid nat h xs /\
    SliceModel.view nat (fst (SliceModel.append_prefix nat 0%nat (fun _ => 0%nat) h p xs)) q <> SliceModel.view nat h q.
Proof. exact SliceTheory.append_prefix_refuted. Qed.
Print Assumptions C02_path_append_prefix_refuted.

Theorem C02_path_prepend_prefix_refuted :
  exists (h : SliceModel.heap nat) (p q xs : SliceModel.slice),
    SliceTheory.valid nat h p /\ SliceTheory.valid nat h q /\ SliceTheory.valid nat h xs /\
    SliceModel.view nat (fst (SliceModel.prepend_prefix nat 0%nat (fun _ => 0%nat) h p xs)) q <> SliceModel.view nat h q.
Proof. exact SliceTheory.prepend_prefix_refuted. Qed.
Print Assumptions C02_path_prepend_prefix_refuted.
