(* Properties/C07.v — BJJ-signature proof verification is sound and complete.
   ONLY restatements closed by `exact`, each followed by Print Assumptions.
   Model: Verify/BJJ.v (+ Issuer.v, Status.v, Top78.v, SMT/Model.v); proofs: Verify/Theory78.v,
   Verify/Complete78.v.

   Reading of the property.  `verify_bjj` is verifyBJJSignatureProof; every external
   function is universally quantified and carries NO hypothesis:
     poseidon      poseidon.Hash                      q            the field modulus Q
     sig_verify    PublicKey{X,Y}.VerifyPoseidon      resolve_did  DIDResolver.Resolve (by DID, state in the query)
     id_from_did   core.IDFromDID                     genesis_check core.CheckGenesisStateID
     reg           the status resolver registry in use
   Vocabulary (Verify/Theory78.v): claim_hashes c hi hv  = Claim.HiHv;  hashes_to l h = "h is Poseidon(l) and
   every input is < Q";  mtp_carries p k v r = "the JSON Merkle proof p is well formed, all numbers are
   in the field, and SMT.Model.root_from_proof recomputes r from (k, v)";  state_commits s st =
   "state.value = st = Poseidon[claimsTreeRoot, revocationTreeRoot, rootOfRoots], absent = 0";
   published_or_genesis;  status_entry;  status_not_revoked (C09's acceptance condition). *)
From Coq Require Import ZArith List String Bool.
From GSP Require Import Base.Prelude SMT.Model SMT.Theory SMT.Sound Verify.Status Verify.Issuer
  Verify.BJJ Verify.Top78 Verify.Theory78 Verify.Complete78 Verify.Examples78.
Import ListNotations.
Open Scope Z_scope.

(* Verification succeeds ONLY IF every clause of the property holds. *)
Theorem C07_sound :
  forall (poseidon : list Z -> Z) (q : Z) (D SigT : Type)
         (sig_verify : Z -> Z -> Z -> SigT -> bool)
         (resolve_did : D -> Z -> did_answer) (id_from_did : D -> Z -> option Z)
         (genesis_check : Z -> Z -> option bool) (reg : registry)
         (b : bjj_bundle D SigT),
  verify_bjj poseidon q D SigT sig_verify resolve_did id_from_did genesis_check reg b = Ok tt ->
  exists auth sig hi hv ahi ahv mtp ctr st d cs,
    (* the signature is valid for Poseidon[hi, hv] under the key in slots 2, 3 of the auth claim *)
    b_auth b = Some auth /\ b_sig b = Some sig /\
    claim_hashes poseidon q (b_claim b) hi hv /\
    hashes_to poseidon q [hi; hv] (poseidon [hi; hv]) /\
    sig_verify (i2 auth) (i3 auth) (poseidon [hi; hv]) sig = true /\
    (* the auth claim is in the issuer's claims tree (existence proof up to claimsTreeRoot) *)
    b_mtp b = Some mtp /\ r_ex mtp = true /\ st_ctr (b_state b) = HVal ctr /\
    claim_hashes poseidon q auth ahi ahv /\ mtp_carries poseidon q mtp ahi ahv ctr /\
    (* whose root, with the revocation and roots roots, hashes to the issuer state named in the proof *)
    state_commits poseidon q (b_state b) st /\
    (* that state is reported published by the DID resolver, or is the genesis state of the DID *)
    b_did b = Some d /\ published_or_genesis D resolve_did id_from_did genesis_check d st /\
    (* the status entry's nonce is the auth claim's, and the validated status shows it not revoked *)
    status_entry (b_status b) cs /\ cs_nonce cs = claim_nonce auth /\
    status_not_revoked poseidon q reg cs.
Proof. exact bjj_sound. Qed.
Print Assumptions C07_sound.

(* ... and IF they hold it succeeds: the decision is exact, including on absent members
   (every `= Some _` / `= HVal _` above is a member that must be present and decodable). *)
Theorem C07_decision :
  forall (poseidon : list Z -> Z) (q : Z) (D SigT : Type)
         (sig_verify : Z -> Z -> Z -> SigT -> bool)
         (resolve_did : D -> Z -> did_answer) (id_from_did : D -> Z -> option Z)
         (genesis_check : Z -> Z -> option bool) (reg : registry)
         (b : bjj_bundle D SigT),
  verify_bjj poseidon q D SigT sig_verify resolve_did id_from_did genesis_check reg b = Ok tt <->
  exists auth sig hi hv ahi ahv mtp ctr st d cs,
    b_auth b = Some auth /\ b_sig b = Some sig /\
    claim_hashes poseidon q (b_claim b) hi hv /\
    hashes_to poseidon q [hi; hv] (poseidon [hi; hv]) /\
    sig_verify (i2 auth) (i3 auth) (poseidon [hi; hv]) sig = true /\
    b_mtp b = Some mtp /\ r_ex mtp = true /\ st_ctr (b_state b) = HVal ctr /\
    claim_hashes poseidon q auth ahi ahv /\ mtp_carries poseidon q mtp ahi ahv ctr /\
    state_commits poseidon q (b_state b) st /\
    b_did b = Some d /\ published_or_genesis D resolve_did id_from_did genesis_check d st /\
    status_entry (b_status b) cs /\ cs_nonce cs = claim_nonce auth /\
    status_not_revoked poseidon q reg cs.
Proof. exact bjj_decision. Qed.
Print Assumptions C07_decision.

(* Every credential properly issued and signed by a synthetic issuer verifies.
   Issuance model (Verify/Complete78.v): issuer state s = (key, auth claim, claims tree, revocation
   tree, roots root); `issue_bjj` attaches the auth claim, the signature of Poseidon[hi, hv], the
   proof GenerateProof returns for the auth claim, state = Poseidon[roots] (zero roots optionally
   omitted), the DID and a status entry with the auth claim's nonce.  Hypotheses: the signature
   scheme is correct (the only assumption on BabyJubJub); Poseidon's results are field elements
   (a range condition - the model contains the libraries' not-in-field errors); trees are
   reachable by Add (`wf`) with at most 241 levels and hold field elements; the DID resolver and
   the status service are honest (the latter answers from any honest state s' in which the auth
   claim's nonce is not revoked). *)
Theorem C07_complete :
  forall (poseidon : list Z -> Z) (q : Z) (maxlev : nat) (D SigT SK : Type)
         (sig_verify : Z -> Z -> Z -> SigT -> bool) (pubx puby : SK -> Z) (sign : SK -> Z -> SigT)
         (json_rt : Z -> option Z)
         (resolve_did : D -> Z -> did_answer) (id_from_did : D -> Z -> option Z)
         (genesis_check : Z -> Z -> option bool) (reg : registry),
  (forall sk m, sig_verify (pubx sk) (puby sk) m (sign sk m) = true) ->
  0 < q -> q <= 2 ^ 256 -> (forall l, 0 <= poseidon l < q) -> (1 <= maxlev <= 241)%nat ->
  forall (omit : bool) (s s' : issuer_state SK) (c : claim) (did : D) (ty : string) (rslv : resolver),
    (* honest issuer *)
    (i2 (is_auth SK s) = pubx (is_sk SK s) /\ i3 (is_auth SK s) = puby (is_sk SK s) /\
     claim_in_field q (is_auth SK s) /\
     wf maxlev (is_ct SK s) /\ tree_in_field q (is_ct SK s) /\
     In (hi_of poseidon (is_auth SK s), hv_of poseidon (is_auth SK s)) (leaves (is_ct SK s)) /\
     wf maxlev (is_rt SK s) /\ tree_in_field q (is_rt SK s) /\ 0 <= is_ror SK s < q) ->
    claim_in_field q c ->
    (* honest DID resolver *)
    published_or_genesis D resolve_did id_from_did genesis_check did (state_of poseidon SK s) ->
    (* honest status service *)
    ty <> ""%string -> lookup_resolver reg ty = Some rslv ->
    rslv (mkcs ty (claim_nonce (is_auth SK s))) =
      Some (honest_answer poseidon SK omit s' (claim_nonce (is_auth SK s))) ->
    wf maxlev (is_rt SK s') -> tree_in_field q (is_rt SK s') -> 0 <= is_ror SK s' < q ->
    claim_nonce (is_auth SK s) < q -> ~ In (claim_nonce (is_auth SK s)) (keys (is_rt SK s')) ->
    (* the status entry's nonce survives the JSON decoder: issuerData.credentialStatus is an
       interface{}, so encoding/json reads the number as float64 (json_rt = that round trip, an
       external function recorded per run; it is the identity below 2^53) *)
    json_rt (claim_nonce (is_auth SK s)) = Some (claim_nonce (is_auth SK s)) ->
    verify_bjj poseidon q D SigT sig_verify resolve_did id_from_did genesis_check reg
      (issue_bjj poseidon D SigT SK sign json_rt omit s c did ty) = Ok tt.
Proof. exact bjj_complete. Qed.
Print Assumptions C07_complete.

(* REFUTED without that hypothesis (known finding D22): if the decoder's round trip changes the
   nonce (2^53+1 becomes 2^53), the honestly issued bundle - every other hypothesis of
   C07_complete holding - is rejected with "revocation nonce mismatch".  Concrete witness:
   Verify/Examples78.v ex_bjj_complete_refuted_big_nonce; on /repo: the driver's scenario
   `nonce-not-float64` (classifier c07-honest-rejected-nonce-not-float64). *)
Theorem C07_complete_refuted_json_number :
  forall (poseidon : list Z -> Z) (q : Z) (maxlev : nat) (D SigT SK : Type)
         (sig_verify : Z -> Z -> Z -> SigT -> bool) (pubx puby : SK -> Z) (sign : SK -> Z -> SigT)
         (json_rt : Z -> option Z)
         (resolve_did : D -> Z -> did_answer) (id_from_did : D -> Z -> option Z)
         (genesis_check : Z -> Z -> option bool) (reg : registry),
  (forall sk m, sig_verify (pubx sk) (puby sk) m (sign sk m) = true) ->
  0 < q -> q <= 2 ^ 256 -> (forall l, 0 <= poseidon l < q) -> (1 <= maxlev <= 241)%nat ->
  forall (omit : bool) (s s' : issuer_state SK) (c : claim) (did : D) (ty : string) (rslv : resolver) (n' : Z),
    (i2 (is_auth SK s) = pubx (is_sk SK s) /\ i3 (is_auth SK s) = puby (is_sk SK s) /\
     claim_in_field q (is_auth SK s) /\
     wf maxlev (is_ct SK s) /\ tree_in_field q (is_ct SK s) /\
     In (hi_of poseidon (is_auth SK s), hv_of poseidon (is_auth SK s)) (leaves (is_ct SK s)) /\
     wf maxlev (is_rt SK s) /\ tree_in_field q (is_rt SK s) /\ 0 <= is_ror SK s < q) ->
    claim_in_field q c ->
    published_or_genesis D resolve_did id_from_did genesis_check did (state_of poseidon SK s) ->
    ty <> ""%string -> lookup_resolver reg ty = Some rslv ->
    rslv (mkcs ty (claim_nonce (is_auth SK s))) =
      Some (honest_answer poseidon SK omit s' (claim_nonce (is_auth SK s))) ->
    wf maxlev (is_rt SK s') -> tree_in_field q (is_rt SK s') -> 0 <= is_ror SK s' < q ->
    claim_nonce (is_auth SK s) < q -> ~ In (claim_nonce (is_auth SK s)) (keys (is_rt SK s')) ->
    json_rt (claim_nonce (is_auth SK s)) = Some n' -> n' <> claim_nonce (is_auth SK s) ->
    verify_bjj poseidon q D SigT sig_verify resolve_did id_from_did genesis_check reg
      (issue_bjj poseidon D SigT SK sign json_rt omit s c did ty) = Err ENonce.
Proof. exact bjj_complete_refuted_json_number. Qed.
Print Assumptions C07_complete_refuted_json_number.

(* Soundness against an honest issuer's claims tree: whatever bundle verifies against the state
   Poseidon[root ct, rt, ror] of a well-formed claims tree ct carries an auth claim that IS a
   leaf of ct (the signing key is one the issuer registered) - or a hash collision is exhibited:
   Collision = two different tree nodes with one hash, a leaf hashing like a middle node, or a
   node hashing to 0 (SMT/Sound.v); StateCollision = two root triples with one state hash. *)
Theorem C07_auth_claim_in_issuers_tree :
  forall (poseidon : list Z -> Z) (q : Z) (maxlev : nat) (D SigT : Type)
         (sig_verify : Z -> Z -> Z -> SigT -> bool)
         (resolve_did : D -> Z -> did_answer) (id_from_did : D -> Z -> option Z)
         (genesis_check : Z -> Z -> option bool) (reg : registry)
         (ct : tree) (rt ror : Z) (b : bjj_bundle D SigT),
  wf maxlev ct ->
  st_value (b_state b) = HVal (poseidon [root (Status.hl poseidon) (Status.hm poseidon) ct; rt; ror]) ->
  verify_bjj poseidon q D SigT sig_verify resolve_did id_from_did genesis_check reg b = Ok tt ->
  (exists auth, b_auth b = Some auth /\
     In (hash_of_z (hi_of poseidon auth), hash_of_z (hv_of poseidon auth)) (leaves ct)) \/
  Collision (Status.hl poseidon) (Status.hm poseidon) \/
  (exists a b c a' b' c', (a, b, c) <> (a', b', c') /\ poseidon [a; b; c] = poseidon [a'; b'; c']).
Proof. exact bjj_auth_in_tree. Qed.
Print Assumptions C07_auth_claim_in_issuers_tree.

(* "The validated status shows it not revoked", grounded in the revocation tree: if the status
   answer consulted by a verified bundle names the root of a well-formed revocation tree rt, then
   the auth claim's nonce is not a key of rt - or a hash collision is exhibited. *)
Theorem C07_not_revoked_in_tree :
  forall (poseidon : list Z -> Z) (q : Z) (maxlev : nat) (D SigT : Type)
         (sig_verify : Z -> Z -> Z -> SigT -> bool)
         (resolve_did : D -> Z -> did_answer) (id_from_did : D -> Z -> option Z)
         (genesis_check : Z -> Z -> option bool) (reg : registry) (b : bjj_bundle D SigT),
  verify_bjj poseidon q D SigT sig_verify resolve_did id_from_did genesis_check reg b = Ok tt ->
  exists auth cs rslv ans,
    b_auth b = Some auth /\ status_entry (b_status b) cs /\ cs_nonce cs = claim_nonce auth /\
    lookup_resolver reg (cs_type cs) = Some rslv /\ rslv cs = Some ans /\
    forall rt, wf maxlev rt ->
      hex_or_zero (ts_rtr (a_issuer ans)) = Ok (root (Status.hl poseidon) (Status.hm poseidon) rt) ->
      ~ In (hash_of_z (claim_nonce auth)) (keys rt) \/ Collision (Status.hl poseidon) (Status.hm poseidon).
Proof. exact bjj_not_revoked_in_tree. Qed.
Print Assumptions C07_not_revoked_in_tree.

(* No panic, no divergence: on every bundle whose credentialStatus has a shape a JSON decoder
   produces (what VerifyProof hands over), the verifier answers nil or an error. *)
Theorem C07_total :
  forall (poseidon : list Z -> Z) (q : Z) (D SigT : Type)
         (sig_verify : Z -> Z -> Z -> SigT -> bool)
         (resolve_did : D -> Z -> did_answer) (id_from_did : D -> Z -> option Z)
         (genesis_check : Z -> Z -> option bool) (reg : registry) (b : bjj_bundle D SigT),
  json_shaped (b_status b) = true ->
  (forall w, verify_bjj poseidon q D SigT sig_verify resolve_did id_from_did genesis_check reg b <> Panic w) /\
  verify_bjj poseidon q D SigT sig_verify resolve_did id_from_did genesis_check reg b <> Diverge.
Proof. exact bjj_total. Qed.
Print Assumptions C07_total.

(* W3CCredential.VerifyProof accepts iff a proof of the type is present, its core claim decodes,
   the claim binds to the credential (C06), the proof decodes as the typed proof, and the
   proof-specific verifier accepts. *)
Theorem C07_verify_proof :
  forall (B : Type) (check : B -> res unit) (i : vp_input B),
  verify_proof_top check i = Ok tt <->
  vp_found i = true /\ vp_claim i = true /\ vp_binding i = true /\
  exists b, vp_typed i = Some b /\ check b = Ok tt.
Proof. exact top_ok_iff. Qed.
Print Assumptions C07_verify_proof.

(* The DID document's FIRST Iden3StateInfo2023 verification method decides "published",
   whatever other methods precede or follow it (did_doc vms = the resolver's answer for a
   document listing vms). *)
Theorem C07_first_state_info :
  forall (pre post : list vmethod) (p : option bool),
  Forall (fun v => v = VMOther) pre ->
  did_doc (pre ++ VMStateInfo p :: post) = DDoc (Some p).
Proof. exact did_doc_first. Qed.
Print Assumptions C07_first_state_info.

(* On the credential's whole proof list: exactly the FIRST proof of the requested type is the one
   whose core claim is bound to the credential and which is verified; later proofs (of any type)
   and earlier proofs of other types play no role.  An entry = (its type is the requested one?,
   what VerifyProof's steps find for it). *)
Theorem C07_verify_proof_list :
  forall (B : Type) (check : B -> res unit) (ps : list (bool * vp_input B)),
  verify_proof_list check ps = Ok tt <->
  exists pre i post,
    ps = pre ++ (true, i) :: post /\ Forall (fun p => fst p = false) pre /\
    vp_claim i = true /\ vp_binding i = true /\
    exists b, vp_typed i = Some b /\ check b = Ok tt.
Proof. exact top_list_ok_iff. Qed.
Print Assumptions C07_verify_proof_list.

(* The status entry only.  issuerData.credentialStatus is the JSON object o (jv: null / string /
   integer literal / object / anything else); decode_cs is coerceCredentialStatus's decoding into
   CredentialStatus (json_rt = the float64 round trip of numbers).  Two objects that both decode and
   agree on `type` and `revocationNonce` get the same verdict from validateAuthClaimRevocation:
   id, statusIssuer and unknown members never decide. *)
Theorem C07_status_entry_only :
  forall (poseidon : list Z -> Z) (q : Z) (reg : registry) (json_rt : Z -> option Z)
         (f f' : nat) (o o' : list (string * jv)) (cs cs' : cred_status) (auth : option claim),
  jget "type" o = jget "type" o' -> jget "revocationNonce" o = jget "revocationNonce" o' ->
  decode_cs f json_rt o = Some cs -> decode_cs f' json_rt o' = Some cs' ->
  validate_auth_revocation poseidon q reg (status_of_json f json_rt o) auth =
  validate_auth_revocation poseidon q reg (status_of_json f' json_rt o') auth.
Proof. exact status_entry_only. Qed.
Print Assumptions C07_status_entry_only.

(* A nested statusIssuer entry is never a fallback: adding a decodable one changes nothing. *)
Theorem C07_status_issuer_never_a_fallback :
  forall (poseidon : list Z -> Z) (q : Z) (reg : registry) (json_rt : Z -> option Z)
         (f : nat) (o si : list (string * jv)) (auth : option claim),
  jget "statusIssuer" o = None -> decode_cs f json_rt si <> None ->
  validate_auth_revocation poseidon q reg
    (status_of_json (S f) json_rt (("statusIssuer"%string, JObj si) :: o)) auth =
  validate_auth_revocation poseidon q reg (status_of_json (S f) json_rt o) auth.
Proof. exact status_issuer_never_a_fallback. Qed.
Print Assumptions C07_status_issuer_never_a_fallback.

(* REFUTED variant (seeded change C07-q): a verifier that falls back to the nested entry when the
   entry itself cannot be validated accepts a bundle whose status clause fails. *)
Theorem C07_status_issuer_fallback_refuted :
  exists (poseidon : list Z -> Z) (q : Z) (reg : registry) (primary nested : cred_status) (auth : claim),
    validate_auth_revocation_with_fallback poseidon q reg primary (Some nested) auth = Ok tt /\
    cs_nonce nested <> claim_nonce auth /\
    ~ status_not_revoked poseidon q reg primary /\
    exists t, validate_auth_revocation poseidon q reg (RSObj (Some primary)) (Some auth) = Err t.
Proof. exact status_issuer_fallback_refuted. Qed.
Print Assumptions C07_status_issuer_fallback_refuted.
