(* Properties/C06.v — A proof is accepted only for the credential its claim was
   derived from.  ONLY restatements closed by `exact`, each followed by
   Print Assumptions.
   Model: Claim/Model.v (ToCoreClaim, core.Claim; [cred] is the credential as
   ToCoreClaim sees it under the verifier's merklizer options: Merkle root, type
   lookups, slot fields, subject id, expiration, parsed context) and
   Claim/Binding.v (verifyCredentialCoreClaim = [verify_binding], VerifyProof =
   [verify_proof]).  Proofs: Claim/BindingTheory.v.  Keccak-256 and DID -> ID are the
   record [O : oracles] (arbitrary functions); Poseidon is [hl], [hm] (arbitrary).

   Reading note (DESIGN.md O7): the options carried by the claim are positions,
   nonce, version, updatable.  Merklizer options are not carried; [cred] is the
   document under the options VerifyProof is given, so completeness is for a
   verifier using the merklizer options of issuance (the defaults in the API). *)
From Coq Require Import ZArith List String Bool Permutation.
From GSP Require Import Base.Prelude SMT.Model SMT.Theory SMT.Sound
  Claim.Model Claim.Binding Claim.BindingTheory.
Import ListNotations.
Open Scope Z_scope.

(* Completeness: for every credential and every option object (nil included) the
   claim produced at issuance passes the binding check. *)
Theorem C06_complete :
  forall (O : oracles) (c : cred) (caller : option opts) (cl : claim),
  fst (to_core_claim O c caller) = Ok cl ->
  verify_binding O c cl = Ok tt.
Proof. exact binding_complete. Qed.
Print Assumptions C06_complete.

(* The idempotence behind it: re-deriving with the positions, nonce, version and
   flags read back from the claim reproduces the claim exactly. *)
Theorem C06_readback :
  forall (O : oracles) (c : cred) (o : opts) (cl : claim),
  fst (to_core_claim O c (Some o)) = Ok cl ->
  exists o', opts_of_claim cl = Ok o' /\ fst (to_core_claim O c (Some o')) = Ok cl.
Proof. exact to_core_claim_readback. Qed.
Print Assumptions C06_readback.

(* The check accepts exactly the claims the credential yields under some options. *)
Theorem C06_exact :
  forall (O : oracles) (c : cred) (cl : claim),
  verify_binding O c cl = Ok tt <->
  exists o, fst (to_core_claim O c (Some o)) = Ok cl.
Proof. exact binding_exact. Qed.
Print Assumptions C06_exact.

(* Soundness, claim side: two claims accepted for one credential with equal
   read-back options are the same claim ... *)
Theorem C06_sound_meta :
  forall (O : oracles) (c : cred) (cl cl' : claim),
  verify_binding O c cl = Ok tt -> verify_binding O c cl' = Ok tt ->
  opts_of_claim cl = opts_of_claim cl' -> cl = cl'.
Proof. exact binding_sound_meta. Qed.
Print Assumptions C06_sound_meta.

(* ... so any change of an accepted claim (any of the 8 slots: schema hash,
   expiration flag and date, id, root, data slots, reserved bits) that leaves the
   read-back options alone is rejected, with the comparison error. *)
Theorem C06_sound_meta_rejects :
  forall (O : oracles) (c : cred) (cl cl' : claim),
  verify_binding O c cl = Ok tt -> cl' <> cl -> opts_of_claim cl' = opts_of_claim cl ->
  verify_binding O c cl' = Err e_another_credential.
Proof. exact binding_tamper_rejected. Qed.
Print Assumptions C06_sound_meta_rejects.

(* The boundary of the check (why C06_sound_meta needs equal read-back options): nonce,
   version and the updatable bit are options read back from the claim itself, so an accepted
   claim stays accepted when they are overwritten - it is then the claim of the same credential
   under those options (C06_exact).  They are protected by the signature / inclusion proof over
   the claim (C07, C08), which VerifyProof checks after this check. *)
Theorem C06_option_fields_free :
  forall (O : oracles) (c : cred) (cl : claim) (n v : Z) (b : bool),
  verify_binding O c cl = Ok tt ->
  verify_binding O c (set_revocation_nonce cl n) = Ok tt /\
  verify_binding O c (set_version cl v) = Ok tt /\
  verify_binding O c (set_flag_updatable cl b) = Ok tt.
Proof. exact binding_option_fields_free. Qed.
Print Assumptions C06_option_fields_free.

(* Soundness, document side: two credentials accepted for one claim agree on
   everything the claim is computed from: both are merklized or both serialized
   (nm), equal schema hash, equal Merkle root (merklized) or equal four data slots
   (serialized), equal expiration (as the 64 bits stored) and equal subject
   identifier (as the 31 bytes stored), present or absent alike. *)
Theorem C06_sound_doc :
  forall (O : oracles) (c c' : cred) (cl : claim),
  verify_binding O c cl = Ok tt -> verify_binding O c' cl = Ok tt ->
  exists mz ty sl mz' ty' sl' nm,
    cred_view c = Ok (mz, ty, sl, nm) /\ cred_view c' = Ok (mz', ty', sl', nm) /\
    schema_hash O ty = schema_hash O ty' /\
    (nm = false -> m_root mz = m_root mz') /\
    (nm = true -> sl = sl') /\
    match c_expiration c, c_expiration c' with
    | None, None => True
    | Some e, Some e' => e mod 2 ^ 64 = e' mod 2 ^ 64
    | _, _ => False
    end /\
    match c_subject c, c_subject c' with
    | None, None => True
    | Some s, Some s' =>
        exists id id', did_to_id O s = Some id /\ did_to_id O s' = Some id' /\
                       id mod 2 ^ 248 = id' mod 2 ^ 248
    | _, _ => False
    end.
Proof. exact binding_sound_doc. Qed.
Print Assumptions C06_sound_doc.

(* equal type, or an explicit collision of the truncated Keccak digest *)
Theorem C06_sound_doc_type :
  forall (O : oracles) (c c' : cred) (cl : claim),
  verify_binding O c cl = Ok tt -> verify_binding O c' cl = Ok tt ->
  exists mz ty sl nm mz' ty' sl' nm',
    cred_view c = Ok (mz, ty, sl, nm) /\ cred_view c' = Ok (mz', ty', sl', nm') /\
    (ty = ty' \/ (ty <> ty' /\ schema_hash O ty = schema_hash O ty')).
Proof. exact binding_sound_type. Qed.
Print Assumptions C06_sound_doc_type.

(* the stored 64 / 248 bits determine an int64 expiration / a 31-byte identifier *)
Theorem C06_sound_doc_expiration_int64 :
  forall e e', e mod 2 ^ 64 = e' mod 2 ^ 64 ->
  - 2 ^ 63 <= e < 2 ^ 63 -> - 2 ^ 63 <= e' < 2 ^ 63 -> e = e'.
Proof. exact same_expiration_int64. Qed.
Print Assumptions C06_sound_doc_expiration_int64.

Theorem C06_sound_doc_id31 :
  forall id id', id mod 2 ^ 248 = id' mod 2 ^ 248 ->
  0 <= id < 2 ^ 248 -> 0 <= id' < 2 ^ 248 -> id = id'.
Proof. exact same_id_248. Qed.
Print Assumptions C06_sound_doc_id31.

(* Serialized (non-merklized) schemas, every assignment of field paths to the four data slots
   (every subset): a credential accepted for a claim has, for each slot, either no path and a zero
   slot, or a path whose field lookup SUCCEEDS and whose encoding (32 bytes) is the claim's slot.
   [slot_holds mz path slot] is: if path = "" then slot = 0
                                 else exists v, m_field mz path = Ok v /\ slot = v mod 2^256. *)
Theorem C06_slot_subset_sound :
  forall (O : oracles) (c : cred) (cl : claim) (mz : mzview) (ty : string) (sl : slots),
  verify_binding O c cl = Ok tt -> cred_view c = Ok (mz, ty, sl, true) ->
  exists a sp, get_serialization_attr c ty = Ok a /\ parse_serialization_attr a = Ok sp /\
    slot_holds mz (p_index_a sp) (i2 cl) /\ slot_holds mz (p_index_b sp) (i3 cl) /\
    slot_holds mz (p_value_a sp) (v2 cl) /\ slot_holds mz (p_value_b sp) (v3 cl).
Proof. exact binding_slot_subset_sound. Qed.
Print Assumptions C06_slot_subset_sound.

(* Hence a field named by the attribute can be neither changed (as the 32 bytes stored) nor
   removed: two credentials accepted for one claim both have it, with equal encodings. *)
Theorem C06_named_field_bound :
  forall (O : oracles) (c c' : cred) (cl : claim) (mz : mzview) (ty : string) (sl : slots)
         (mz' : mzview) (ty' : string) (sl' : slots) (a : string) (sp : slots_paths) (p : string),
  verify_binding O c cl = Ok tt -> verify_binding O c' cl = Ok tt ->
  cred_view c = Ok (mz, ty, sl, true) -> cred_view c' = Ok (mz', ty', sl', true) ->
  get_serialization_attr c ty = Ok a -> get_serialization_attr c' ty' = Ok a ->
  parse_serialization_attr a = Ok sp ->
  p <> ""%string -> In p [p_index_a sp; p_index_b sp; p_value_a sp; p_value_b sp] ->
  exists v v', m_field mz p = Ok v /\ m_field mz' p = Ok v' /\ v mod 2 ^ 256 = v' mod 2 ^ 256.
Proof. exact binding_named_field_bound. Qed.
Print Assumptions C06_named_field_bound.

(* The two seeded variants of parseSlots do not have this property (witnesses):
   isEmpty without the ValueB conjunct binds nothing for `iden3:v1:slotValueB=score` (C06-l);
   a filler that leaves the slot zero for an absent field cannot tell score = 0 from no score (C06-n). *)
Theorem C06_slots_without_value_b_refuted :
  exists (attr : string) (v v' : Z), v <> v' /\
    parse_slots_with is_empty_without_value_b fill_slot
      (SlotEx.cred_with attr (SlotEx.score v)) (SlotEx.mzf (SlotEx.score v)) "urn:T" =
    parse_slots_with is_empty_without_value_b fill_slot
      (SlotEx.cred_with attr (SlotEx.score v')) (SlotEx.mzf (SlotEx.score v')) "urn:T" /\
    parse_slots (SlotEx.cred_with attr (SlotEx.score v)) (SlotEx.mzf (SlotEx.score v)) "urn:T" <>
    parse_slots (SlotEx.cred_with attr (SlotEx.score v')) (SlotEx.mzf (SlotEx.score v')) "urn:T".
Proof. exact slots_without_value_b_refuted. Qed.
Print Assumptions C06_slots_without_value_b_refuted.

Theorem C06_slots_absent_is_zero_refuted :
  exists (attr : string),
    parse_slots_with paths_is_empty fill_slot_absent_is_zero
      (SlotEx.cred_with attr (SlotEx.score 0)) (SlotEx.mzf (SlotEx.score 0)) "urn:T" =
    parse_slots_with paths_is_empty fill_slot_absent_is_zero
      (SlotEx.cred_with attr SlotEx.no_score) (SlotEx.mzf SlotEx.no_score) "urn:T" /\
    is_ok (parse_slots (SlotEx.cred_with attr (SlotEx.score 0)) (SlotEx.mzf (SlotEx.score 0)) "urn:T") = true /\
    is_ok (parse_slots (SlotEx.cred_with attr SlotEx.no_score) (SlotEx.mzf SlotEx.no_score) "urn:T") = false.
Proof. exact slots_absent_is_zero_refuted. Qed.
Print Assumptions C06_slots_absent_is_zero_refuted.

(* merklized claims: the two documents have the same entry set (as a multiset of
   (key, value) leaves inserted into the sparse Merkle tree), or the run exhibits
   an explicit Poseidon collision.  [l], [l'] are the entry lists, [t], [t'] the trees
   the merklizer built from them, whose roots are the credentials' Merkle roots. *)
Theorem C06_sound_doc_entries :
  forall (hl hm : Z -> Z -> Z) (maxlev : nat)
         (O : oracles) (c c' : cred) (cl : claim) (mz mz' : mzview)
         (l l' : list (Z * Z)) (t t' : tree),
  verify_binding O c cl = Ok tt -> verify_binding O c' cl = Ok tt ->
  c_mz c = Some mz -> c_mz c' = Some mz' ->
  get_merklized cl <> mrk_none ->
  add_all maxlev l = Ok t -> add_all maxlev l' = Ok t' ->
  root hl hm t = m_root mz -> root hl hm t' = m_root mz' ->
  Permutation l l' \/ Collision hl hm.
Proof. exact binding_sound_entries. Qed.
Print Assumptions C06_sound_doc_entries.

(* The same with the entries' raw values: [enc] is the value encoding (arbitrary; for
   strings it goes through HashBytes, whose zero padding makes "x" and "x\000" encode
   alike: known finding D29).  Equal entry sets as (path key, value) pairs, or two
   different values with one encoding, or a Poseidon collision. *)
Theorem C06_sound_doc_entries_values :
  forall (V : Type) (V_eq_dec : forall x y : V, {x = y} + {x <> y}) (enc : V -> Z)
         (hl hm : Z -> Z -> Z) (maxlev : nat)
         (O : oracles) (c c' : cred) (cl : claim) (mz mz' : mzview)
         (raw raw' : list (Z * V)) (t t' : tree),
  verify_binding O c cl = Ok tt -> verify_binding O c' cl = Ok tt ->
  c_mz c = Some mz -> c_mz c' = Some mz' ->
  get_merklized cl <> mrk_none ->
  add_all maxlev (map (fun kx => (fst kx, enc (snd kx))) raw) = Ok t ->
  add_all maxlev (map (fun kx => (fst kx, enc (snd kx))) raw') = Ok t' ->
  root hl hm t = m_root mz -> root hl hm t' = m_root mz' ->
  Permutation raw raw' \/ (exists x y : V, x <> y /\ enc x = enc y) \/ Collision hl hm.
Proof. exact binding_sound_entries_values. Qed.
Print Assumptions C06_sound_doc_entries_values.

(* VerifyProof runs the binding check before any proof-type specific step, for
   every proof type (supported or not): acceptance implies the binding check
   passed on the selected proof's claim ... *)
Theorem C06_first_accept :
  forall (X : Type) (step_bjj step_smt : X -> claim -> res unit)
         (O : oracles) (c : cred) (ps : list (vproof X)) (pt : string),
  verify_proof X step_bjj step_smt O c ps pt = Ok tt ->
  exists p cl, select_proof X ps pt = Some p /\ vp_claim X p = Ok cl /\
               verify_binding O c cl = Ok tt /\
               dispatch X step_bjj step_smt pt p cl = Ok tt.
Proof. exact verify_proof_accepts_bound. Qed.
Print Assumptions C06_first_accept.

(* ... and when it does not pass, the outcome is the binding check's own outcome,
   the same for every choice of the proof-type specific verifiers. *)
Theorem C06_first :
  forall (X : Type) (step_bjj step_smt step_bjj' step_smt' : X -> claim -> res unit)
         (O : oracles) (c : cred) (ps : list (vproof X)) (pt : string) (p : vproof X) (cl : claim),
  select_proof X ps pt = Some p -> vp_claim X p = Ok cl ->
  verify_binding O c cl <> Ok tt ->
  verify_proof X step_bjj step_smt O c ps pt = verify_proof X step_bjj' step_smt' O c ps pt /\
  (forall e, verify_binding O c cl = Err e -> verify_proof X step_bjj step_smt O c ps pt = Err e).
Proof. exact verify_proof_binding_first. Qed.
Print Assumptions C06_first.
