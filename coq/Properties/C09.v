(* Properties/C09.v — Revocation status validation accepts only verified non-revocation.
   ONLY restatements closed by `exact`, each followed by Print Assumptions.
   Model: Verify/Status.v (ValidateCredentialStatus, validateTreeState,
   rootFromMerkleTreeProof, resolver registry, coerceCredentialStatus,
   IssuerResolver.Resolve) on top of SMT/Model.v; proofs: Verify/StatusTheory.v.

   Vocabulary (Verify/StatusTheory.v, all plain definitions):
     root_value h            the number a *string root denotes: absent = 0, undecodable = none
     tree_state_ok P q i     state = P [claims root; revocation root; roots root], missing
                             roots meaning zero, the three numbers being field elements
     proof_of rp             the JSON proof as a library proof (its aux node complete)
     lib_accepts q p         <= 240 siblings, siblings (and the aux leaf of a non-existence
                             proof) are field elements
     proof_verifies P q rp r k v
                             proof_of rp = Some p /\ lib_accepts q p /\
                             SMT.verify_proof (hl P) (hm P) r p k v = true
     resolved reg cs a       the registry has a resolver for cs's type and it answered a
     honest_answer P rt ctr ror omit nonce
                             state H(ctr, root rt, ror), the three roots (a zero root left
                             out when omit), and the proof SMT.gen builds in rt for nonce
     revocation_tree q maxlev rt
                             SMT.wf maxlev rt (the shapes Add builds) and every leaf is
                             (field element, 0)
   `poseidon` is an arbitrary function, q an arbitrary modulus with 0 < q <= 2^256.
   C09_real_tree additionally assumes that hash outputs are field elements
   (forall l, 0 <= poseidon l < q); nothing else is ever assumed about the hash: the
   soundness statements carry the explicit witness disjuncts SMT.Sound.Collision (leaf /
   middle node hash) and StateCollision (state hash). *)
From Coq Require Import ZArith List String.
From GSP Require Import Base.Prelude SMT.Model SMT.Theory SMT.Sound Verify.Status Verify.StatusTheory.
Import ListNotations.
Open Scope Z_scope.

(* success <-> consistent tree state /\ the proof verifies for (nonce, 0) against the
   revocation root /\ the proof shows NON-existence *)
Theorem C09_decision_ok :
  forall (poseidon : list Z -> Z) (q : Z), 0 < q <= 2 ^ 256 ->
  forall (reg : registry) (cs : cred_status) (a : answer), 0 <= cs_nonce cs < q ->
  (validate_status poseidon q reg cs = Ok a <->
   resolved reg cs a /\
   (tree_state_ok poseidon q (a_issuer a) /\
    exists rr, root_value (ts_rtr (a_issuer a)) = Some rr /\
               proof_verifies poseidon q (a_mtp a) rr (cs_nonce cs) 0) /\
   r_ex (a_mtp a) = false).
Proof. exact decision_ok. Qed.
Print Assumptions C09_decision_ok.

(* the distinguished error ErrCredentialIsRevoked <-> the same, with a proof of EXISTENCE *)
Theorem C09_decision_revoked :
  forall (poseidon : list Z -> Z) (q : Z), 0 < q <= 2 ^ 256 ->
  forall (reg : registry) (cs : cred_status), 0 <= cs_nonce cs < q ->
  (validate_status poseidon q reg cs = Err ERevoked <->
   exists a, resolved reg cs a /\
   (tree_state_ok poseidon q (a_issuer a) /\
    exists rr, root_value (ts_rtr (a_issuer a)) = Some rr /\
               proof_verifies poseidon q (a_mtp a) rr (cs_nonce cs) 0) /\
   r_ex (a_mtp a) = true).
Proof. exact decision_revoked. Qed.
Print Assumptions C09_decision_revoked.

(* every other case is an error different from the distinguished one (never a panic) *)
Theorem C09_decision_other :
  forall (poseidon : list Z -> Z) (q : Z), 0 < q <= 2 ^ 256 ->
  forall (reg : registry) (cs : cred_status), 0 <= cs_nonce cs < q ->
  (exists a, validate_status poseidon q reg cs = Ok a) \/
  validate_status poseidon q reg cs = Err ERevoked \/
  (exists t, validate_status poseidon q reg cs = Err t /\ t <> ERevoked).
Proof. exact decision_other. Qed.
Print Assumptions C09_decision_other.

(* Against a real revocation tree, for ALL trees Add can build (any number of leaves,
   dense or sparse, the aux-node case included): with the honest answer the nonce is
   reported non-revoked iff it is absent from the tree and revoked iff it is present.
   Uses SMT.Theory.completeness. *)
Theorem C09_real_tree :
  forall (poseidon : list Z -> Z) (q : Z) (maxlev : nat),
  0 < q <= 2 ^ 256 -> (forall l, 0 <= poseidon l < q) -> (maxlev <= 240)%nat ->
  forall (rt : tree) (ctr ror : Z) (omit : bool) (reg : registry) (cs : cred_status),
  (wf maxlev rt /\ forall k v, In (k, v) (leaves rt) -> 0 <= k < q /\ v = 0) ->
  0 <= ctr < q -> 0 <= ror < q -> 0 <= cs_nonce cs < q ->
  resolved reg cs (honest_answer poseidon rt ctr ror omit (cs_nonce cs)) ->
  (validate_status poseidon q reg cs = Ok (honest_answer poseidon rt ctr ror omit (cs_nonce cs))
     <-> ~ In (cs_nonce cs) (keys rt)) /\
  (validate_status poseidon q reg cs = Err ERevoked <-> In (cs_nonce cs) (keys rt)) /\
  (forall a, validate_status poseidon q reg cs = Ok a ->
             a = honest_answer poseidon rt ctr ror omit (cs_nonce cs)).
Proof. exact real_tree. Qed.
Print Assumptions C09_real_tree.

(* Adversarial answers (any resolver, any proof).  If the revocation root named by the
   answer is the root of the real tree rt: success implies the nonce is NOT in rt, the
   revoked error implies (nonce, 0) IS a leaf of rt - or a hash collision is exhibited. *)
Theorem C09_sound :
  forall (poseidon : list Z -> Z) (q : Z) (maxlev : nat), 0 < q <= 2 ^ 256 ->
  forall (reg : registry) (cs : cred_status) (rt : tree),
  0 <= cs_nonce cs < q -> wf maxlev rt ->
  (forall a, validate_status poseidon q reg cs = Ok a ->
     root_value (ts_rtr (a_issuer a)) = Some (root (hl poseidon) (hm poseidon) rt) ->
     ~ In (cs_nonce cs) (keys rt) \/ Collision (hl poseidon) (hm poseidon)) /\
  (validate_status poseidon q reg cs = Err ERevoked ->
     forall a, resolved reg cs a ->
     root_value (ts_rtr (a_issuer a)) = Some (root (hl poseidon) (hm poseidon) rt) ->
     In (cs_nonce cs, 0) (leaves rt) \/ Collision (hl poseidon) (hm poseidon)).
Proof. exact sound_root_smt. Qed.
Print Assumptions C09_sound.

(* The same anchored at the issuer STATE: the answer only has to name the honest state
   H(ctr, root rt, ror); its roots are then the honest ones, or two different triples
   collide under the state hash. *)
Theorem C09_sound_state :
  forall (poseidon : list Z -> Z) (q : Z) (maxlev : nat), 0 < q <= 2 ^ 256 ->
  forall (reg : registry) (cs : cred_status) (rt : tree) (ctr ror : Z),
  0 <= cs_nonce cs < q -> wf maxlev rt ->
  (forall a, validate_status poseidon q reg cs = Ok a ->
     ts_state (a_issuer a) = HVal (poseidon [ctr; root (hl poseidon) (hm poseidon) rt; ror]) ->
     ~ In (cs_nonce cs) (keys rt) \/ Collision (hl poseidon) (hm poseidon) \/
     (exists c r o c' r' o',
        (c, r, o) <> (c', r', o') /\ poseidon [c; r; o] = poseidon [c'; r'; o'])) /\
  (validate_status poseidon q reg cs = Err ERevoked ->
     forall a, resolved reg cs a ->
     ts_state (a_issuer a) = HVal (poseidon [ctr; root (hl poseidon) (hm poseidon) rt; ror]) ->
     In (cs_nonce cs, 0) (leaves rt) \/ Collision (hl poseidon) (hm poseidon) \/
     (exists c r o c' r' o',
        (c, r, o) <> (c', r', o') /\ poseidon [c; r; o] = poseidon [c'; r'; o'])).
Proof. exact sound_state_smt. Qed.
Print Assumptions C09_sound_state.

(* The two theorems above do not depend on HOW the tree's soundness is established:
   stated over any proposition `Collision` for which the sparse Merkle tree is sound. *)
Theorem C09_sound_generic :
  forall (poseidon : list Z -> Z) (q : Z) (maxlev : nat) (Collision : Prop),
  (forall t p k v, wf maxlev t ->
     verify_proof (hl poseidon) (hm poseidon) (root (hl poseidon) (hm poseidon) t) p k v = true ->
     ex p = true -> In (k, v) (leaves t) \/ Collision) ->
  (forall t p k v, wf maxlev t ->
     verify_proof (hl poseidon) (hm poseidon) (root (hl poseidon) (hm poseidon) t) p k v = true ->
     ex p = false -> ~ In k (keys t) \/ Collision) ->
  0 < q <= 2 ^ 256 ->
  forall (reg : registry) (cs : cred_status) (rt : tree),
  0 <= cs_nonce cs < q -> wf maxlev rt ->
  (forall a, validate_status poseidon q reg cs = Ok a ->
     root_value (ts_rtr (a_issuer a)) = Some (root (hl poseidon) (hm poseidon) rt) ->
     ~ In (cs_nonce cs) (keys rt) \/ Collision) /\
  (validate_status poseidon q reg cs = Err ERevoked ->
     forall a, resolved reg cs a ->
     root_value (ts_rtr (a_issuer a)) = Some (root (hl poseidon) (hm poseidon) rt) ->
     In (cs_nonce cs, 0) (leaves rt) \/ Collision).
Proof. exact sound_root. Qed.
Print Assumptions C09_sound_generic.

(* the tree-state consistency check by itself *)
Theorem C09_tree_state :
  forall (poseidon : list Z -> Z) (q : Z) (i : tree_state),
  validate_tree_state poseidon q i = Ok true <->
  exists s c r o,
    ts_state i = HVal s /\
    root_value (ts_ctr i) = Some c /\ root_value (ts_rtr i) = Some r /\
    root_value (ts_ror i) = Some o /\
    c < q /\ r < q /\ o < q /\ poseidon [c; r; o] = s.
Proof. exact validate_tree_state_true_iff. Qed.
Print Assumptions C09_tree_state.

(* registry: an unregistered status type is refused; Register / Delete behave like a map *)
Theorem C09_registry_unknown :
  forall (poseidon : list Z -> Z) (q : Z) (reg : registry) (cs : cred_status),
  lookup_resolver reg (cs_type cs) = None ->
  validate_status poseidon q reg cs = Err EStatusType.
Proof. exact unregistered_refused. Qed.
Print Assumptions C09_registry_unknown.

Theorem C09_registry_register :
  forall (reg : registry) (ty : string) (r : resolver),
  lookup_resolver (reg_register reg ty r) ty = Some r.
Proof. exact lookup_register_same. Qed.
Print Assumptions C09_registry_register.

Theorem C09_registry_delete :
  forall (reg : registry) (ty : string), lookup_resolver (reg_delete reg ty) ty = None.
Proof. exact lookup_delete_same. Qed.
Print Assumptions C09_registry_delete.

Theorem C09_registry_frame :
  forall (reg : registry) (ty ty' : string) (r : resolver), ty' <> ty ->
  lookup_resolver (reg_register reg ty r) ty' = lookup_resolver reg ty' /\
  lookup_resolver (reg_delete reg ty) ty' = lookup_resolver reg ty'.
Proof. exact registry_frame. Qed.
Print Assumptions C09_registry_frame.

(* options: no option = the default registry; the last registry option wins unless an
   earlier option failed *)
Theorem C09_registry_options :
  forall (poseidon : list Z -> Z) (q : Z) (dflt : registry) (opts : list vopt)
         (reg : registry) (cs : cred_status),
  validate_credential_status poseidon q dflt [] cs = validate_status poseidon q dflt cs /\
  validate_credential_status poseidon q dflt (opts ++ [OptRegistry (Some reg)]) cs =
    (if existsb opt_is_fail opts then Err EOption else validate_status poseidon q reg cs).
Proof. exact options_spec. Qed.
Print Assumptions C09_registry_options.

(* coerceCredentialStatus accepts exactly the three Go shapes: *CredentialStatus,
   CredentialStatus, and a JSON object that re-decodes to a CredentialStatus with a type *)
Theorem C09_registry_coerce :
  forall (r : raw_status) (p : option cred_status),
  coerce_status r = Ok p <->
  r = RSPtr p \/
  (exists cs, r = RSVal cs /\ p = Some cs) \/
  (exists cs, r = RSObj (Some cs) /\ cs_type cs <> ""%string /\ p = Some cs).
Proof. exact coerce_shapes. Qed.
Print Assumptions C09_registry_coerce.

(* the direct HTTP resolver answers <-> 200 <= code < 300, the body reads and closes
   without error, has FEWER than 16384 bytes (a body of exactly 16384 bytes is refused)
   and decodes as a RevocationStatus *)
Theorem C09_http :
  forall (h : http_result) (a : answer),
  http_resolve h = Ok a <->
  exists code len,
    h = HResp code len true (Some a) true /\ 200 <= code < 300 /\ len < 16384.
Proof. exact http_answer_iff. Qed.
Print Assumptions C09_http.

(* the decoded view of a status body (RevocationStatus.UnmarshalJSON / decodeMTP): the
   proof is the body's proof as written - at most 240 siblings, none null; existence flag,
   siblings and auxiliary node are independent (a node_aux never changes the flag) *)
Theorem C09_decode :
  forall (m : wire_mtp) (rp : rproof),
  decode_mtp (Some m) = Ok rp <->
  (List.length (w_sibs m) <= 240)%nat /\
  w_sibs m = map Some (r_sibs rp) /\ r_ex rp = w_ex m /\ r_aux rp = w_aux m.
Proof. exact decode_mtp_spec. Qed.
Print Assumptions C09_decode.

(* never a panic, and nothing but an answer or an error *)
Theorem C09_http_total :
  forall h : http_result,
  (exists a, http_resolve h = Ok a) \/ (exists t, http_resolve h = Err t).
Proof. exact http_total. Qed.
Print Assumptions C09_http_total.

(* the direct resolver inside ValidateCredentialStatus (IssuerResolver registered for the
   credential's status type; `h` is what the transport did) *)
Theorem C09_direct :
  forall (poseidon : list Z -> Z) (q : Z), 0 < q <= 2 ^ 256 ->
  forall (reg : registry) (cs : cred_status) (h : http_result) (a : answer),
  0 <= cs_nonce cs < q ->
  lookup_resolver reg (cs_type cs) = Some (http_resolver h) ->
  (validate_status poseidon q reg cs = Ok a <->
   (exists code len, h = HResp code len true (Some a) true /\
                     200 <= code < 300 /\ len < 16384) /\
   (tree_state_ok poseidon q (a_issuer a) /\
    exists rr, root_value (ts_rtr (a_issuer a)) = Some rr /\
               proof_verifies poseidon q (a_mtp a) rr (cs_nonce cs) 0) /\
   r_ex (a_mtp a) = false).
Proof. exact direct_ok. Qed.
Print Assumptions C09_direct.

Theorem C09_http_boundary :
  forall a : answer,
  http_resolve (HResp 200 16383 true (Some a) true) = Ok a /\
  http_resolve (HResp 200 16384 true (Some a) true) = Err EHTTPSize /\
  http_resolve (HResp 200 16385 true (Some a) true) = Err EHTTPSize /\
  http_resolve (HResp 199 0 true (Some a) true) = Err EHTTPCode /\
  http_resolve (HResp 299 0 true (Some a) true) = Ok a /\
  http_resolve (HResp 300 0 true (Some a) true) = Err EHTTPCode.
Proof. exact http_boundary. Qed.
Print Assumptions C09_http_boundary.

(* the *string members: what merkletree.NewHashFromHex (hex_decode) can produce fits the
   32-byte Hash, so the numbers of the statements above range over [0, 2^256) *)
Theorem C09_member_range :
  forall (s : string) (z : Z), hex_decode s = HVal z -> 0 <= z < 2 ^ 256.
Proof. exact hex_decode_range. Qed.
Print Assumptions C09_member_range.

(* ---- model growth: HTTP gate over the body bytes, aux-key rule, registry histories ---- *)

(* IssuerResolver.Resolve over (status code, body bytes): an answer is used only if
   200 <= code < 300, the body reads and closes, is SHORTER than the limit, is EXACTLY ONE
   JSON value (json_one_value: the scanner of encoding/json, modelled in Verify/Status.v) and
   that value decodes to the answer.  The Content-Length header is not consulted. *)
Theorem C09_http_gate :
  forall (code : Z) (body : string) (read_ok close_ok : bool) (wire : option wire_status) (a : answer),
  http_resolve_body code body read_ok close_ok wire = Ok a <->
  200 <= code < 300 /\ read_ok = true /\ close_ok = true /\
  Z.of_nat (String.length body) < 16384 /\
  json_one_value body = true /\ parse_status_body wire = Some a.
Proof. exact http_gate. Qed.
Print Assumptions C09_http_gate.

(* "exactly one value": after the tokens of a complete value ANY further token is an error *)
Theorem C09_http_gate_one_value :
  forall (toks more : list jtok),
  jaccepts toks = true -> more <> [] -> jaccepts (toks ++ more) = false.
Proof. exact json_tokens_one_value. Qed.
Print Assumptions C09_http_gate_one_value.

(* seeded variant (streaming decoder: accept when a PREFIX of the body is one value) *)
Theorem C09_http_gate_streaming_refuted :
  exists body pre rest,
    body = append pre rest /\ json_one_value pre = true /\ json_one_value body = false.
Proof. exact http_gate_streaming_refuted. Qed.
Print Assumptions C09_http_gate_streaming_refuted.

(* a non-existence proof whose auxiliary node key equals the queried key never verifies:
   in the tree model for every hash, and in ValidateCredentialStatus (neither success nor
   the revoked error) *)
Theorem C09_nonexistence_aux_key_differs_smt :
  forall (hl hm : Z -> Z -> Z) (p : proof) (k v av : Z),
  ex p = false -> aux p = Some (k, av) ->
  root_from_proof hl hm p k v = None /\ forall r, verify_proof hl hm r p k v = false.
Proof. exact nonex_aux_key_differs_smt. Qed.
Print Assumptions C09_nonexistence_aux_key_differs_smt.

Theorem C09_nonexistence_aux_key_differs :
  forall (poseidon : list Z -> Z) (q : Z), 0 < q <= 2 ^ 256 ->
  forall (reg : registry) (cs : cred_status) (a : answer) (av : Z),
  0 <= cs_nonce cs < q -> resolved reg cs a ->
  r_ex (a_mtp a) = false -> r_aux (a_mtp a) = Some (Some (cs_nonce cs), Some av) ->
  exists t, validate_status poseidon q reg cs = Err t /\ t <> ERevoked.
Proof. exact nonex_aux_key_differs. Qed.
Print Assumptions C09_nonexistence_aux_key_differs.

(* seeded variant (root walk from the auxiliary leaf without that check): for EVERY hash it
   "proves" the absence of the only key of a one-leaf tree *)
Theorem C09_nonexistence_aux_key_nocheck_refuted :
  forall (hl hm : Z -> Z -> Z) (k : Z),
  exists t p, wf 40 t /\ In k (keys t) /\ ex p = false /\
              verify_proof_nocheck hl hm (root hl hm t) p k 0 = true /\
              verify_proof hl hm (root hl hm t) p k 0 = false.
Proof. exact nonex_aux_key_nocheck_refuted. Qed.
Print Assumptions C09_nonexistence_aux_key_nocheck_refuted.

(* registry: after ANY history of Register/Delete calls, Get(ty) is decided by the last
   operation naming ty (Register: that resolver; Delete: unregistered) *)
Theorem C09_registry_history :
  forall (ops : list regop) (reg : registry) (ty : string),
  lookup_resolver (reg_history reg ops) ty = fold_left (hist_step ty) ops (lookup_resolver reg ty).
Proof. exact registry_history. Qed.
Print Assumptions C09_registry_history.

Theorem C09_registry_last_wins :
  forall (ops : list regop) (reg : registry) (ty : string) (r : resolver) (more : list regop),
  (forall o, In o more -> match o with ORegister t _ | ODelete t => t <> ty end) ->
  lookup_resolver (reg_history reg (ops ++ ORegister ty r :: more)) ty = Some r.
Proof. exact registry_last_wins. Qed.
Print Assumptions C09_registry_last_wins.

Theorem C09_registry_never_registered :
  forall (poseidon : list Z -> Z) (q : Z) (ops : list regop) (cs : cred_status),
  (forall o, In o ops -> match o with ORegister t _ => t <> cs_type cs | ODelete _ => True end) ->
  validate_status poseidon q (reg_history [] ops) cs = Err EStatusType.
Proof. exact registry_never_registered. Qed.
Print Assumptions C09_registry_never_registered.
